module verif

go 1.23

require (
	github.com/anishathalye/porcupine v1.3.0
	github.com/goatcms/goatcore v0.0.0
)

replace github.com/goatcms/goatcore => /repo
