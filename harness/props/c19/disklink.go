package main

// disklink: the same programs on a disk filespace, where one template file of a layer is a
// symbolic link to a file kept somewhere else in the tree (a shared partial linked into a view,
// layout or helpers directory). The file set is the same, so every answer must equal the
// reference built from the same contents, with caching on and off.

import (
	"fmt"
	"os"
	"path/filepath"
	"strings"

	"verif/internal/sup"

	"github.com/goatcms/goatcore/filesystem/filespace/diskfs"
)

func runDiskLink(c *sup.Child, b sup.Batch) {
	for idx := b.From; idx < b.To; idx++ {
		rng := c.Rand(idx)
		p := genProgram(rng, kindOf(idx))
		reqs := genRequests(rng, p, 4+rng.Intn(6))
		var cand []int
		for i, f := range p.Files {
			if strings.HasSuffix(f.Path, p.Ext) && !f.Broken {
				cand = append(cand, i)
			}
		}
		if len(cand) == 0 {
			continue
		}
		linked := p.Files[cand[rng.Intn(len(cand))]]
		c.Case(idx, map[string]any{"kind": "disklink", "provider": p.Kind, "program": p.Describe(), "linked_file": linked.Path, "requests": reqStrings(reqs)}, func(r *sup.CaseResult) {
			tmp, err := os.MkdirTemp("", "c19l-")
			if err != nil {
				r.Inconclusive = err.Error()
				return
			}
			defer os.RemoveAll(tmp)
			for _, d := range p.EmptyDirs {
				os.MkdirAll(filepath.Join(tmp, filepath.FromSlash(d)), 0755)
			}
			for _, f := range p.Files {
				full := filepath.Join(tmp, filepath.FromSlash(f.Path))
				os.MkdirAll(filepath.Dir(full), 0755)
				if f == linked {
					store := filepath.Join(tmp, "zz_shared_store", "partial"+p.Ext+".store")
					os.MkdirAll(filepath.Dir(store), 0755)
					if err := os.WriteFile(store, []byte(f.Content()), 0644); err != nil {
						r.Inconclusive = err.Error()
						return
					}
					rel, _ := filepath.Rel(filepath.Dir(full), store)
					if err := os.Symlink(rel, full); err != nil {
						r.Inconclusive = "symlink: " + err.Error()
						return
					}
					continue
				}
				if err := os.WriteFile(full, []byte(f.Content()), 0644); err != nil {
					r.Inconclusive = err.Error()
					return
				}
			}
			rc := newRefCache(p)
			for _, cached := range []bool{true, false} {
				fs, err := diskfs.NewFilespace(tmp)
				if err != nil {
					r.Inconclusive = err.Error()
					return
				}
				pv := newProvider(p, fs, cached)
				for i, q := range reqs {
					got, _ := askObs(pv, q)
					if d := diffObs(got, rc.Ref(q)); d != "" {
						r.Violate("reference-mismatch", fmt.Sprintf("%s provider on a disk filespace (cached=%v), template file %q is a symbolic link to a file with the same content; request %d %s: %s", p.Kind, cached, linked.Path, i, q, d),
							map[string]any{"program": p.Describe(), "linked_file": linked.Path, "requests": reqStrings(reqs[:i+1])})
						return
					}
					r.AddObs("disklink_answers_compared", 1)
				}
			}
			r.AddObs("disklink_programs", 1)
			r.Key = "disklink|" + p.Canonical() + "|" + linked.Path
			r.Nontrivial = true
		})
	}
}
