// C19 – template providers: layered definitions, isolated views, cache-transparent,
// usable by many goroutines from the first request on.
package main

import (
	"fmt"
	"strings"

	"verif/internal/sup"
)

func pow(b, e int) int {
	r := 1
	for i := 0; i < e; i++ {
		r *= b
	}
	return r
}

func plan(tier string, seed int64) []sup.Batch {
	ordLen, nRand := 3, 1600
	// concurrent first use under three processor counts: {GOMAXPROCS, batches, trials per batch}
	conc := [][3]int{{2, 6, 200}, {4, 4, 200}, {16, 2, 150}}
	if tier == "thorough" {
		ordLen, nRand = 4, 24000
		conc = [][3]int{{2, 12, 1500}, {4, 8, 1500}, {16, 4, 1000}}
	}
	var bs []sup.Batch
	nDefs := exhDefsCount * 2
	bs = append(bs, sup.Chunk("exhdefs", "exhdefs", nDefs, (nDefs+15)/16, 1, nil)...)
	nOrd := 6 * pow(len(exhReqAlphabet), ordLen)
	bs = append(bs, sup.Chunk("exhord", "exhord", nOrd, (nOrd+15)/16, 1, map[string]any{"len": ordLen})...)
	bs = append(bs, sup.Chunk("rand", "rand", nRand, (nRand+15)/16, 1, nil)...)
	bs = append(bs, sup.Chunk("disklink", "disklink", nRand/8, (nRand/8+3)/4, 1, nil)...)
	from, k := 0, 0
	for _, pc := range conc {
		for i := 0; i < pc[1]; i++ {
			bs = append(bs, sup.Batch{Name: fmt.Sprintf("conc-p%d-%d", pc[0], k), Kind: "conc", From: from, To: from + pc[2], Procs: pc[0], TimeoutS: 3600})
			from += pc[2]
			k++
		}
	}
	return bs
}

func reqStrings(reqs []Req) []string {
	var out []string
	for _, q := range reqs {
		out = append(out, q.String())
	}
	return out
}

// checkBoth runs the sequence on a cached and an uncached provider and compares the two.
func checkBoth(r *sup.CaseResult, p *Program, rc *refCache, reqs []Req, st *seqStats) bool {
	var obs [2][]Obs
	for i, cached := range []bool{true, false} {
		o, v := runSequence(p, rc, cached, reqs, st)
		if v != nil {
			if v.class == "harness" {
				r.Inconclusive = v.detail
			} else {
				r.Violate(v.class, v.detail, v.witness)
			}
			return false
		}
		obs[i] = o
	}
	for i := range reqs {
		st.cachePairs++
		if d := diffObs(obs[0][i], obs[1][i]); d != "" {
			r.Violate("cache-not-transparent", fmt.Sprintf("%s provider, request %d %s: cached vs uncached: %s", p.Kind, i, reqs[i], d),
				map[string]any{"program": p.Describe(), "requests": reqStrings(reqs[:i+1])})
			return false
		}
	}
	return true
}

func flush(r *sup.CaseResult, st *seqStats, prefix string) {
	r.AddObs(prefix+"_requests", st.requests)
	r.AddObs(prefix+"_renders_compared", st.renders)
	r.AddObs(prefix+"_error_answers", st.errAnswers)
	r.AddObs(prefix+"_answers_after_other_view_built", st.leakProbes)
	r.AddObs(prefix+"_repeated_requests", st.repeats)
	r.AddObs(prefix+"_cached_uncached_pairs", st.cachePairs)
	r.AddObs(prefix+"_layering_model_checks", st.modelChecks)
	r.AddObs(prefix+"_base_or_layout_answers_executed_as_handed_out", st.directExec)
}

func nontrivial(p *Program, reqs []Req) bool {
	for _, q := range reqs {
		if q.K == 'V' && overrideCount(p, q) > 0 {
			return true
		}
	}
	return false
}

func kindOf(i int) string {
	if i%2 == 0 {
		return "html"
	}
	return "text"
}

func runExhDefs(c *sup.Child, b sup.Batch) {
	a := exhReqAlphabet
	seqA := []Req{a[3], a[1], a[4], a[0], a[5], a[2], a[6]}
	seqA = append(seqA, seqA...)
	var seqB []Req
	for i := len(a) - 1; i >= 0; i-- {
		seqB = append(seqB, a[i])
	}
	seqB = append(seqB, a...)
	for idx := b.From; idx < b.To; idx++ {
		kind := kindOf(idx)
		pi := idx / 2
		c.Case(idx, map[string]any{"kind": "exhdefs", "provider": kind, "program_index": pi, "a_defined_in": pi % 32, "b_defined_in": pi / 32}, func(r *sup.CaseResult) {
			p := exhDefsProgram(pi, kind)
			rc := newRefCache(p)
			var st seqStats
			if checkBoth(r, p, rc, seqA, &st) {
				checkBoth(r, p, rc, seqB, &st)
			}
			flush(r, &st, "seq")
			r.AddObs("exhdefs_programs", 1)
			r.Key = "exhdefs|" + p.Canonical()
			r.Nontrivial = nontrivial(p, seqA)
			if idx == 2*(0b11010+32*0b01101) {
				r.Sample = map[string]any{"kind": "exhaustive definition placement", "program": p.Describe(), "requests": reqStrings(seqA)}
			}
		})
	}
}

func runExhOrd(c *sup.Child, b sup.Batch) {
	n := b.P("len", 3)
	nseq := pow(len(exhReqAlphabet), n)
	for idx := b.From; idx < b.To; idx++ {
		pk := idx / nseq
		reqs := decodeReqSeq(idx%nseq, n)
		kind := kindOf(pk)
		c.Case(idx, map[string]any{"kind": "exhord", "provider": kind, "program": pk / 2, "requests": reqStrings(reqs)}, func(r *sup.CaseResult) {
			p := exhOrderProgram(pk/2, kind)
			rc := newRefCache(p)
			var st seqStats
			checkBoth(r, p, rc, reqs, &st)
			flush(r, &st, "seq")
			r.AddObs("exhord_sequences", 1)
			r.Key = fmt.Sprintf("exhord|%d|%s", pk, strings.Join(reqStrings(reqs), ";"))
			r.Nontrivial = nontrivial(p, reqs)
		})
	}
}

func runRand(c *sup.Child, b sup.Batch) {
	for idx := b.From; idx < b.To; idx++ {
		rng := c.Rand(idx)
		p := genProgram(rng, kindOf(idx))
		reqs := genRequests(rng, p, 6+rng.Intn(9))
		c.Case(idx, map[string]any{"kind": "rand", "provider": p.Kind, "program": p.Describe(), "requests": reqStrings(reqs)}, func(r *sup.CaseResult) {
			rc := newRefCache(p)
			var st seqStats
			checkBoth(r, p, rc, reqs, &st)
			flush(r, &st, "seq")
			r.AddObs("rand_programs", 1)
			r.Key = "rand|" + p.Canonical() + "|" + strings.Join(reqStrings(reqs), ";")
			r.Nontrivial = nontrivial(p, reqs)
			if idx%400 == 7 {
				r.Sample = map[string]any{"kind": "random program", "program": p.Describe(), "requests": reqStrings(reqs)}
			}
		})
	}
}

func main() {
	sup.Main(sup.Prop{
		ID:    "C19",
		Level: "exploration",
		Race:  true,
		Rule: "sequential: a program = helper/layout/view template files in a memfs (definitions over a 6-name pool plus root text, {{block}}s, overlapping across layers and views, nested directories, ignored non-template files, occasionally a file that does not parse; layout / view names with blanks, slashes, colons, non-ASCII letters and – one program in seven – dots inside a segment next to their dot-less twins); request sequences over Base/Layout/View are issued to a cached and an uncached provider of both packages; every answer's defined names and the rendering of every name (views directly, base/layout on a clone) are compared with (1) a reference built with html/template / text/template directly and (2) an abstract layering model (names and marker sequences), and cached with uncached. " +
			"exhdefs: every placement of two names (a calls b) over {helpers, 2 layouts, 2 views}; exhord: every request sequence of length L over 7 requests on 3 fixed programs; rand: seeded programs and sequences. " +
			"conc: fresh provider, 2..32 goroutines released together issue first requests for overlapping and distinct keys with schedule noise at the filespace boundary under GOMAXPROCS 2/4/16; every caller's answer is checked like above; the race detector decides for the provider files. distinct = distinct (program, requests); non-trivial = a requested view has a name defined in more than one of its layers (sequential) / at least two callers were inside the provider before the first returned (concurrent)",
		Assumptions: []string{
			"disklink: the programs are also written to a disk filespace where one template file is a symbolic link to a file of the same content elsewhere in the tree (answers must equal the reference, cached and uncached)",
			"within one layer a name is defined once, so the result does not depend on the order in which a directory is walked",
			"a view owns every template file below its directory; empty template files (rejected by the loaders on purpose) and view name \"\" are not generated",
			"in every other request sequence the base and layout templates are executed exactly as handed out (what a caller does; the provider must still answer every later request); also by the concurrent callers of every other plan; otherwise they are rendered on a private clone",
			"all interleavings = the interleavings produced by the Go scheduler under GOMAXPROCS 2/4/16 with yield noise; the race detector covers unsynchronised access pairs that did not collide",
		},
		Plan: plan,
		Run: func(c *sup.Child, b sup.Batch) {
			switch b.Kind {
			case "exhdefs":
				runExhDefs(c, b)
			case "exhord":
				runExhOrd(c, b)
			case "rand":
				runRand(c, b)
			case "disklink":
				runDiskLink(c, b)
			case "conc":
				runConc(c, b)
			}
		},
		Finish: func(t *sup.Totals) string {
			switch {
			case t.Obs["seq_requests"] < 1000 || t.Obs["seq_renders_compared"] < 1000:
				return "sequential monitor observed too few answers"
			case t.Obs["seq_answers_after_other_view_built"] == 0:
				return "no answer was observed after another view had been built (isolation unobserved)"
			case t.Obs["seq_cached_uncached_pairs"] == 0:
				return "cached and uncached providers were never compared"
			case t.Obs["exhdefs_programs"] == 0 || t.Obs["exhord_sequences"] == 0 || t.Obs["rand_programs"] == 0:
				return "a sequential family observed nothing"
			case t.Obs["conc_trials"] == 0 || t.Obs["conc_calls"] == 0:
				return "concurrent monitor observed nothing"
			case t.Obs["conc_trials_overlapping_first_use"]*10 < t.Obs["conc_trials"]:
				return "fewer than 10% of the concurrent trials had overlapping first requests"
			}
			return ""
		},
		RaceAnchors: []string{"goathtml/ghprovider/", "goattext/gtprovider/"},
		RaceDecides: true,
		Exhaustive: func(tier string) string {
			l := 3
			if tier == "thorough" {
				l = 4
			}
			return fmt.Sprintf("all 1024 placements of two names over {helpers, 2 layouts, 2 views} x {html,text} x {cached,uncached}; all request sequences of length %d over 7 requests on 3 fixed programs x {html,text} x {cached,uncached}", l)
		},
	})
}
