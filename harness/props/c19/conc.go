package main

// Concurrent first use: a fresh provider, G goroutines released together, each issuing its
// first requests for overlapping and distinct keys.

import (
	"fmt"
	"math/rand"
	"os"
	"runtime"
	"sync"
	"sync/atomic"

	"verif/internal/sup"

	"github.com/goatcms/goatcore/filesystem"
)

// noisyFS perturbs the schedule at the filespace boundary (the providers read the files while
// holding their locks and between their unlocked and locked cache look-ups).
type innerFS interface{ filesystem.Filespace }

type noisyFS struct {
	innerFS
	ctr   atomic.Uint64
	seed  uint64
	level uint64 // yields in level/8 of the calls
	calls atomic.Int64
}

func (n *noisyFS) noise() {
	n.calls.Add(1)
	x := n.ctr.Add(0x9E3779B97F4A7C15) ^ n.seed
	x ^= x >> 31
	x *= 0xBF58476D1CE4E5B9
	x ^= x >> 29
	if x&7 < n.level {
		runtime.Gosched()
	}
}
func (n *noisyFS) ReadDir(p string) ([]os.FileInfo, error) {
	n.noise()
	r, err := n.innerFS.ReadDir(p)
	n.noise()
	return r, err
}
func (n *noisyFS) ReadFile(p string) ([]byte, error) {
	n.noise()
	r, err := n.innerFS.ReadFile(p)
	n.noise()
	return r, err
}
func (n *noisyFS) IsDir(p string) bool { n.noise(); r := n.innerFS.IsDir(p); n.noise(); return r }

type concPlan struct {
	p      *Program
	cached bool
	g      int
	reqs   [][]Req
	level  uint64
	seed   uint64
}

func genConc(rng *rand.Rand, idx int) concPlan {
	kind := "html"
	if idx%2 == 1 {
		kind = "text"
	}
	cp := concPlan{p: genProgram(rng, kind), cached: rng.Intn(6) != 0}
	cp.g = []int{2, 2, 3, 4, 4, 8, 8, 16, 32}[rng.Intn(9)]
	cp.level = uint64(rng.Intn(7))
	cp.seed = rng.Uint64()
	all := cp.p.allReqs()
	var views []Req
	for _, q := range all {
		if q.K == 'V' {
			views = append(views, q)
		}
	}
	nhot := 1 + rng.Intn(4)
	var hot []Req
	for i := 0; i < nhot; i++ {
		if rng.Intn(4) == 0 {
			hot = append(hot, all[rng.Intn(len(all))])
		} else {
			hot = append(hot, views[rng.Intn(len(views))])
		}
	}
	for gi := 0; gi < cp.g; gi++ {
		n := 1 + rng.Intn(3)
		var rs []Req
		for k := 0; k < n; k++ {
			q := hot[rng.Intn(len(hot))]
			if rng.Intn(4) == 0 {
				q = all[rng.Intn(len(all))] // a key of its own
			}
			if q.K != 'B' && q.L == "default" && rng.Intn(2) == 0 {
				q.L = ""
			}
			rs = append(rs, q)
		}
		cp.reqs = append(cp.reqs, rs)
	}
	return cp
}

type callRes struct {
	q   Req
	obs Obs
	id  any
}

func runConc(c *sup.Child, b sup.Batch) {
	for idx := b.From; idx < b.To; idx++ {
		rng := c.Rand(idx)
		cp := genConc(rng, idx)
		var reqStr [][]string
		for _, rs := range cp.reqs {
			var s []string
			for _, q := range rs {
				s = append(s, q.String())
			}
			reqStr = append(reqStr, s)
		}
		desc := map[string]any{"kind": "conc", "provider": cp.p.Kind, "cached": cp.cached, "goroutines": cp.g, "requests": reqStr,
			"noise": cp.level, "gomaxprocs": b.Procs, "program": cp.p.Describe()}
		c.Case(idx, desc, func(r *sup.CaseResult) {
			inner, err := buildFS(cp.p)
			if err != nil {
				r.Inconclusive = "harness: " + err.Error()
				return
			}
			nfs := &noisyFS{innerFS: inner, seed: cp.seed, level: cp.level}
			pv := newProvider(cp.p, nfs, cp.cached)
			results := make([][]callRes, cp.g)
			var directExec atomic.Int64
			defer func() { r.AddObs("conc_base_or_layout_answers_executed_as_handed_out", directExec.Load()) }()
			var entered, firstReturn atomic.Int64
			firstReturn.Store(-1)
			start := make(chan struct{})
			var wg sync.WaitGroup
			for gi := 0; gi < cp.g; gi++ {
				wg.Add(1)
				go func(gi int) {
					defer wg.Done()
					<-start
					for k, q := range cp.reqs[gi] {
						if k == 0 {
							entered.Add(1)
						}
						t, err := pv.Get(q)
						if k == 0 {
							firstReturn.CompareAndSwap(-1, entered.Load())
						}
						var o Obs
						var id any
						if err != nil {
							o = Obs{Err: true, Msg: err.Error()}
						} else {
							id = t.ID()
							// every other plan: the callers execute the base / layout sets exactly as
							// handed out, concurrently with the first requests of the others
							o = observe(t, q.K != 'V' && idx%2 == 0)
							if q.K != 'V' && idx%2 == 1 {
								directExec.Add(1)
							}
						}
						results[gi] = append(results[gi], callRes{q, o, id})
					}
				}(gi)
			}
			close(start)
			wg.Wait()
			// offline check of everything the callers saw
			rc := newRefCache(cp.p)
			var calls, renders int64
			ptrs := map[string]map[any]bool{}
			for gi, rs := range results {
				for k, cr := range rs {
					calls++
					renders += int64(len(cr.obs.Out))
					wit := map[string]any{"goroutine": gi, "call": k, "request": cr.q.String(), "answer": cr.obs}
					if d := diffObs(cr.obs, rc.Ref(cr.q)); d != "" {
						r.Violate("concurrent-reference-mismatch", fmt.Sprintf("%s provider (cached=%v), %d goroutines, goroutine %d call %d %s: %s", cp.p.Kind, cp.cached, cp.g, gi, k, cr.q, d), wit)
					} else if d := diffModel(cr.obs, rc.Model(cr.q)); d != "" {
						r.Violate("concurrent-layering-mismatch", fmt.Sprintf("%s provider (cached=%v), %d goroutines, goroutine %d call %d %s: %s", cp.p.Kind, cp.cached, cp.g, gi, k, cr.q, d), wit)
					}
					if cr.id != nil {
						if ptrs[cr.q.Key()] == nil {
							ptrs[cr.q.Key()] = map[any]bool{}
						}
						ptrs[cr.q.Key()][cr.id] = true
					}
					if len(r.Violations) > 5 {
						break
					}
				}
			}
			// the provider after the storm: every key once more, sequentially
			var post int64
			asked := map[string]bool{}
			for _, rs := range results {
				for _, cr := range rs {
					if asked[cr.q.Key()] || len(r.Violations) > 0 {
						continue
					}
					asked[cr.q.Key()] = true
					got, _ := askObs(pv, cr.q)
					post++
					if d := diffObs(got, rc.Ref(cr.q)); d != "" {
						r.Violate("after-concurrent-use-mismatch", fmt.Sprintf("%s provider (cached=%v), %s asked again after %d goroutines had used the provider: %s", cp.p.Kind, cp.cached, cr.q, cp.g, d),
							map[string]any{"request": cr.q.String(), "answer": got})
					}
				}
			}
			r.AddObs("conc_requests_repeated_afterwards", post)
			var single, multi int64
			for _, m := range ptrs {
				if len(m) == 1 {
					single++
				} else {
					multi++
				}
			}
			ov := firstReturn.Load()
			r.AddObs("conc_trials", 1)
			r.AddObs("conc_goroutines", int64(cp.g))
			r.AddObs("conc_calls", calls)
			r.AddObs("conc_renders", renders)
			r.AddObs("conc_fs_calls", nfs.calls.Load())
			r.AddObs("conc_distinct_keys", int64(len(ptrs)))
			if cp.cached {
				r.AddObs("conc_cached_keys_one_object", single)
				r.AddObs("conc_cached_keys_several_objects", multi)
			}
			if ov >= 2 {
				r.AddObs("conc_trials_overlapping_first_use", 1)
			}
			r.AddObs(fmt.Sprintf("conc_trials_gomaxprocs_%d", b.Procs), 1)
			r.Key = fmt.Sprintf("conc|%v|%d|%v|%s", cp.cached, cp.g, reqStr, cp.p.Canonical())
			r.Nontrivial = ov >= 2
			if idx%500 == 3 {
				r.Sample = map[string]any{"kind": "concurrent first use", "provider": cp.p.Kind, "cached": cp.cached, "goroutines": cp.g,
					"requests": reqStr, "callers_inside_before_first_return": ov}
			}
		})
	}
}
