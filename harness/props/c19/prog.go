package main

// Program = a set of helper / layout / view template files, its abstract layering model
// (written from the property text, independent of the template packages) and the generators.

import (
	"fmt"
	"math/rand"
	"sort"
	"strings"
)

const rootName = "baseTemplate" // name the providers give to the root template

// pool of definition names; a body only refers to names with a larger index, so every
// program is free of recursion (the template packages have no recursion guard worth waiting for).
var namePool = []string{"main", "a", "b", "c", "d", "e"}

func poolIndex(n string) int {
	for i, x := range namePool {
		if x == n {
			return i
		}
	}
	return -1 // the root body
}

// Item is one piece of a definition body.
type Item struct {
	K string // mark | call | block | data | func | html
	S string
}

// Def is one definition ({{define}}, a nested {{block}}, or the top-level text of a file,
// which defines the root template).
type Def struct {
	Name   string
	Items  []Item
	Nested bool // written as {{block}} inside another definition of the same file
	Top    bool // top-level text of the file (root template body)
}

// PFile is one file of the program.
type PFile struct {
	Path   string
	Defs   []*Def
	Raw    string // literal content for junk / broken files
	Broken bool   // template file that does not parse
}

// Program is a complete input.
type Program struct {
	Kind        string // html | text
	Ext         string
	HelpersPath string
	LayoutPat   string
	ViewPat     string
	Files       []*PFile
	EmptyDirs   []string
	Layouts     []string // layout names worth requesting (some have no directory)
	Views       []string // view names worth requesting
}

// Req is one request to a provider.
type Req struct {
	K byte   // 'B' base, 'L' layout, 'V' view
	L string // layout name as passed ("" = default)
	V string
}

func (q Req) String() string {
	switch q.K {
	case 'B':
		return "Base()"
	case 'L':
		return fmt.Sprintf("Layout(%q)", q.L)
	}
	return fmt.Sprintf("View(%q,%q)", q.L, q.V)
}

// Canon is the request with the default layout spelled out (what the statement calls the same request).
func (q Req) Canon() Req {
	if q.K != 'B' && q.L == "" {
		q.L = "default"
	}
	return q
}

func (q Req) Key() string { c := q.Canon(); return fmt.Sprintf("%c\x00%s\x00%s", c.K, c.L, c.V) }

func (d *Def) source(byName map[string]*Def) string {
	var sb strings.Builder
	for _, it := range d.Items {
		switch it.K {
		case "mark":
			sb.WriteString(it.S)
		case "call":
			fmt.Fprintf(&sb, "{{template %q .}}", it.S)
		case "block":
			fmt.Fprintf(&sb, "{{block %q .}}%s{{end}}", it.S, byName[it.S].source(byName))
		case "data":
			sb.WriteString("{{.V}}")
		case "func":
			fmt.Fprintf(&sb, "{{up %q}}", it.S)
		case "html":
			sb.WriteString("<i title=\"t\">{{.V}}</i>")
		}
	}
	return sb.String()
}

// Content renders the file.
func (f *PFile) Content() string {
	if f.Defs == nil {
		return f.Raw
	}
	byName := map[string]*Def{}
	for _, d := range f.Defs {
		byName[d.Name] = d
	}
	var sb strings.Builder
	for _, d := range f.Defs {
		switch {
		case d.Nested:
		case d.Top:
			sb.WriteString(d.source(byName))
		default:
			// no white space between definitions: white space is root text, and whose root text
			// survives would depend on the order in which the files are walked
			fmt.Fprintf(&sb, "{{define %q}}%s{{end}}", d.Name, d.source(byName))
		}
	}
	if f.Raw != "" {
		sb.WriteString(f.Raw)
	}
	return sb.String()
}

func trimDir(d string) string { return strings.TrimRight(d, "/") }

func (p *Program) layoutDir(name string) string {
	return trimDir(strings.Replace(p.LayoutPat, "{name}", name, 1))
}
func (p *Program) viewDir(name string) string {
	return trimDir(strings.Replace(p.ViewPat, "{name}", name, 1))
}

// layer = the template files below dir (any depth) with the provider's extension.
func (p *Program) layer(dir string) (defs map[string]*Def, files []*PFile, broken bool) {
	defs = map[string]*Def{}
	pre := trimDir(dir) + "/"
	for _, f := range p.Files {
		if !strings.HasPrefix(f.Path, pre) || !strings.HasSuffix(f.Path, p.Ext) {
			continue
		}
		if f.Defs == nil && !f.Broken {
			panic("generator bug: junk file " + f.Path + " carries the template extension")
		}
		files = append(files, f)
		if f.Broken {
			broken = true
		}
		for _, d := range f.Defs {
			defs[d.Name] = d
		}
	}
	sort.Slice(files, func(i, j int) bool { return files[i].Path < files[j].Path })
	return
}

// layersOf returns the layers of a request, most specific first.
func (p *Program) layersOf(q Req) (dirs []string) {
	q = q.Canon()
	switch q.K {
	case 'V':
		dirs = append(dirs, p.viewDir(q.V), p.layoutDir(q.L), trimDir(p.HelpersPath))
	case 'L':
		dirs = append(dirs, p.layoutDir(q.L), trimDir(p.HelpersPath))
	default:
		dirs = append(dirs, trimDir(p.HelpersPath))
	}
	return
}

// ModelObs is what the abstract layering model predicts for a request.
type ModelObs struct {
	Err   bool                // some file of a layer does not parse: the request must fail
	Names []string            // defined names, root excluded
	Marks map[string][]string // name -> marker sequence of its rendering (nil entry = rendering must fail)
	Root  bool                // some layer has top-level text
}

func (p *Program) Model(q Req) ModelObs {
	var mo ModelObs
	var layers []map[string]*Def
	for _, d := range p.layersOf(q) {
		defs, _, broken := p.layer(d)
		if broken {
			mo.Err = true
		}
		layers = append(layers, defs)
	}
	if mo.Err {
		return mo
	}
	resolve := func(n string) *Def {
		for _, l := range layers {
			if d, ok := l[n]; ok {
				return d
			}
		}
		return nil
	}
	seen := map[string]bool{}
	for _, l := range layers {
		for n := range l {
			seen[n] = true
		}
	}
	mo.Marks = map[string][]string{}
	var render func(n string, depth int) ([]string, bool)
	render = func(n string, depth int) ([]string, bool) {
		d := resolve(n)
		if d == nil || depth > 64 {
			return nil, false
		}
		out := []string{}
		for _, it := range d.Items {
			switch it.K {
			case "mark":
				out = append(out, it.S)
			case "call", "block":
				sub, ok := render(it.S, depth+1)
				if !ok {
					return nil, false
				}
				out = append(out, sub...)
			}
		}
		return out, true
	}
	for n := range seen {
		if n == rootName {
			mo.Root = true
		} else {
			mo.Names = append(mo.Names, n)
		}
		if ms, ok := render(n, 0); ok {
			mo.Marks[n] = ms
		} else {
			mo.Marks[n] = nil
		}
	}
	sort.Strings(mo.Names)
	return mo
}

// Describe gives a compact, replayable description of the program.
func (p *Program) Describe() map[string]any {
	files := map[string]string{}
	for _, f := range p.Files {
		files[f.Path] = f.Content()
	}
	return map[string]any{"kind": p.Kind, "ext": p.Ext, "helpers": p.HelpersPath, "layouts": p.LayoutPat, "views": p.ViewPat,
		"files": files, "empty_dirs": p.EmptyDirs}
}

// Canonical is a canonical string of the program (for the distinct count).
func (p *Program) Canonical() string {
	var keys []string
	for _, f := range p.Files {
		keys = append(keys, f.Path+"\x01"+f.Content())
	}
	sort.Strings(keys)
	return p.Kind + "|" + p.Ext + "|" + p.HelpersPath + "|" + p.LayoutPat + "|" + p.ViewPat + "|" + strings.Join(keys, "\x02")
}

// ---- generators -------------------------------------------------------------------------------

type genCfg struct {
	density  float64 // probability that a pool name is defined in a layer
	nested   bool    // sub-directories inside a layer
	junk     bool
	broken   bool
	topText  bool
	blocks   bool
	htmlBits bool
}

// genLayer creates the files of one layer below dir. Every name is defined at most once in the
// layer (so the result does not depend on the order in which the provider walks the files).
func genLayer(rng *rand.Rand, p *Program, dir, tag string, cfg genCfg) {
	dir = trimDir(dir)
	subs := []string{""}
	if cfg.nested {
		subs = append(subs, "sub/", "sub/deep/", "d"+p.Ext+"/", ".hid/", "sub/.d/")
	}
	nfiles := 1 + rng.Intn(3)
	files := make([]*PFile, nfiles)
	for i := range files {
		dot := "" // "any names": hidden-looking files and directories are template files like all others
		if rng.Intn(4) == 0 {
			dot = "."
		}
		files[i] = &PFile{Path: dir + "/" + subs[rng.Intn(len(subs))] + fmt.Sprintf("%sf%d%s", dot, i, p.Ext), Defs: []*Def{}}
	}
	mk := func(name string) *Def {
		d := &Def{Name: name}
		idx := poolIndex(name)
		d.Items = append(d.Items, Item{K: "mark", S: "[" + tag + "." + name + "]"})
		ncalls := rng.Intn(3)
		for c := 0; c < ncalls && idx+1 < len(namePool); c++ {
			d.Items = append(d.Items, Item{K: "call", S: namePool[idx+1+rng.Intn(len(namePool)-idx-1)]})
		}
		switch rng.Intn(6) {
		case 0:
			d.Items = append(d.Items, Item{K: "data"})
		case 1:
			d.Items = append(d.Items, Item{K: "func", S: "q" + name})
		case 2:
			if cfg.htmlBits {
				d.Items = append(d.Items, Item{K: "html"})
			}
		}
		if rng.Intn(3) == 0 {
			d.Items = append(d.Items, Item{K: "mark", S: "[/" + tag + "." + name + "]"})
		}
		return d
	}
	if cfg.topText && rng.Intn(5) < 2 {
		f := files[rng.Intn(nfiles)]
		d := mk(rootName)
		d.Top = true
		f.Defs = append(f.Defs, d)
	}
	for _, n := range namePool {
		if rng.Float64() >= cfg.density {
			continue
		}
		f := files[rng.Intn(nfiles)]
		d := mk(n)
		if cfg.blocks && rng.Intn(4) == 0 {
			// host: a non-nested definition of the same file with a smaller index
			var hosts []*Def
			for _, h := range f.Defs {
				if !h.Nested && poolIndex(h.Name) < poolIndex(n) {
					hosts = append(hosts, h)
				}
			}
			if len(hosts) > 0 {
				h := hosts[rng.Intn(len(hosts))]
				d.Nested = true
				at := 1 + rng.Intn(len(h.Items))
				h.Items = append(h.Items[:at:at], append([]Item{{K: "block", S: n}}, h.Items[at:]...)...)
			}
		}
		f.Defs = append(f.Defs, d)
	}
	for _, f := range files {
		if len(f.Defs) == 0 {
			// a template file must not be empty (the loader rejects empty files on purpose);
			// a comment-only file defines nothing
			f.Raw = "{{/* nothing */}}"
		}
		p.Files = append(p.Files, f)
	}
	if cfg.junk && rng.Intn(2) == 0 {
		other := ".gotext"
		if p.Kind == "text" {
			other = ".gohtml"
		}
		cands := []string{"notes.txt", "f0" + p.Ext + ".bak", "tpl" + strings.TrimPrefix(p.Ext, "."), "x" + other, "README"}
		n := 1 + rng.Intn(2)
		for i := 0; i < n; i++ {
			name := cands[rng.Intn(len(cands))]
			raw := fmt.Sprintf("{{define %q}}[JUNK.%s]{{end}}{{define \"junk\"}}[JUNK]{{end}}", namePool[rng.Intn(len(namePool))], tag)
			if rng.Intn(3) == 0 {
				raw = "{{ this is not a template"
			}
			path := dir + "/" + subs[rng.Intn(len(subs))] + name
			dup := false
			for _, f := range p.Files {
				if f.Path == path {
					dup = true
				}
			}
			if !dup {
				p.Files = append(p.Files, &PFile{Path: path, Raw: raw})
			}
		}
	}
}

func addBroken(rng *rand.Rand, p *Program, dir string) {
	raws := []string{"{{define \"zz\"}}never closed", "{{nosuchfunc 1}}", "{{define \"a\"}}x{{end}}{{end}}"}
	p.Files = append(p.Files, &PFile{Path: trimDir(dir) + "/broken" + p.Ext, Raw: raws[rng.Intn(len(raws))], Broken: true})
}

// genProgram creates a random program.
func genProgram(rng *rand.Rand, kind string) *Program {
	p := &Program{Kind: kind}
	if kind == "html" {
		p.Ext = ".gohtml"
	} else {
		p.Ext = ".gotext"
	}
	p.HelpersPath, p.LayoutPat, p.ViewPat = "helpers/", "layouts/{name}/", "views/{name}/"
	switch rng.Intn(6) {
	case 0:
		p.HelpersPath, p.LayoutPat, p.ViewPat = "tpl/helpers", "tpl/layouts/{name}", "tpl/pages/{name}/v"
		p.Ext = ".tpl"
	case 1:
		p.Ext = ".t"
	}
	cfg := genCfg{density: 0.25 + 0.5*rng.Float64(), nested: rng.Intn(2) == 0, junk: true, topText: true, blocks: true, htmlBits: kind == "html"}
	colon := rng.Intn(5) == 0
	var layouts, views []string
	if colon {
		layouts = []string{"x", "x:y"}
		views = []string{"a", "y:a"}
	} else if rng.Intn(7) == 0 {
		// ordinary directory names with dots inside a segment, next to their dot-less twins
		layouts = []string{"site", "site..v2", "sitev2"}[rng.Intn(2):]
		views = []string{"draft1", "draft..1", "a.b", "ab"}[:2+rng.Intn(3)]
	} else {
		lp := []string{"default", "l1", "deep/er", "sp ace", "ü"}
		rng.Shuffle(len(lp), func(i, j int) { lp[i], lp[j] = lp[j], lp[i] })
		layouts = lp[:2+rng.Intn(2)]
		if rng.Intn(2) == 0 {
			has := false
			for _, l := range layouts {
				if l == "default" {
					has = true
				}
			}
			if !has {
				layouts = append(layouts, "default")
			}
		}
		vp := []string{"a", "b", "home/index", "v 1", "ß"}
		rng.Shuffle(len(vp), func(i, j int) { vp[i], vp[j] = vp[j], vp[i] })
		views = vp[:2+rng.Intn(2)]
	}
	if rng.Intn(7) != 0 {
		genLayer(rng, p, p.HelpersPath, "h", cfg)
	} else if rng.Intn(2) == 0 {
		p.EmptyDirs = append(p.EmptyDirs, trimDir(p.HelpersPath))
	}
	for _, l := range layouts {
		switch rng.Intn(8) {
		case 0: // no directory
		case 1:
			p.EmptyDirs = append(p.EmptyDirs, p.layoutDir(l))
		default:
			genLayer(rng, p, p.layoutDir(l), "l:"+l, cfg)
		}
	}
	for _, v := range views {
		switch rng.Intn(8) {
		case 0:
		case 1:
			p.EmptyDirs = append(p.EmptyDirs, p.viewDir(v))
		default:
			genLayer(rng, p, p.viewDir(v), "v:"+v, cfg)
		}
	}
	p.Layouts = append(append([]string{}, layouts...), "nolayout")
	p.Views = append([]string{}, views...)
	// a sub-directory of a view is a view name of its own
	if cfg.nested && p.ViewPat == "views/{name}/" {
		p.Views = append(p.Views, views[0]+"/sub")
	}
	if rng.Intn(8) == 0 {
		dirs := []string{p.HelpersPath, p.layoutDir(layouts[0]), p.viewDir(views[0]), p.viewDir(views[1])}
		addBroken(rng, p, dirs[rng.Intn(len(dirs))])
	}
	return p
}

// allReqs lists every request of the program's names.
func (p *Program) allReqs() []Req {
	out := []Req{{K: 'B'}}
	for _, l := range p.Layouts {
		out = append(out, Req{K: 'L', L: l})
	}
	for _, l := range p.Layouts {
		for _, v := range p.Views {
			out = append(out, Req{K: 'V', L: l, V: v})
		}
	}
	return out
}

func genRequests(rng *rand.Rand, p *Program, n int) []Req {
	all := p.allReqs()
	// views dominate: the leaks the statement forbids are view -> view and view -> layout
	var viewsOnly []Req
	for _, q := range all {
		if q.K == 'V' {
			viewsOnly = append(viewsOnly, q)
		}
	}
	out := make([]Req, 0, n)
	for i := 0; i < n; i++ {
		var q Req
		if rng.Intn(3) > 0 {
			q = viewsOnly[rng.Intn(len(viewsOnly))]
		} else {
			q = all[rng.Intn(len(all))]
		}
		if q.K != 'B' && q.L == "default" && rng.Intn(2) == 0 {
			q.L = ""
		}
		out = append(out, q)
	}
	return out
}

// ---- bounded-exhaustive families ----------------------------------------------------------------

// exhSlots: H, L1, L2, VA, VB. Program idx encodes, for the two names "a" (which calls "b")
// and "b", the subset of slots that define them: 32*32 programs.
var exhSlotDirs = []string{"helpers", "layouts/l1", "layouts/default", "views/va", "views/vb"}
var exhSlotTags = []string{"h", "l1", "ld", "va", "vb"}

const exhDefsCount = 32 * 32

func exhDefsProgram(idx int, kind string) *Program {
	p := &Program{Kind: kind, HelpersPath: "helpers/", LayoutPat: "layouts/{name}/", ViewPat: "views/{name}/"}
	p.Ext = ".gohtml"
	if kind == "text" {
		p.Ext = ".gotext"
	}
	ma, mb := idx%32, idx/32
	for s := 0; s < 5; s++ {
		f := &PFile{Path: exhSlotDirs[s] + "/f" + p.Ext, Defs: []*Def{}}
		if ma&(1<<s) != 0 {
			f.Defs = append(f.Defs, &Def{Name: "a", Items: []Item{{K: "mark", S: "[" + exhSlotTags[s] + ".a]"}, {K: "call", S: "b"}}})
		}
		if mb&(1<<s) != 0 {
			f.Defs = append(f.Defs, &Def{Name: "b", Items: []Item{{K: "mark", S: "[" + exhSlotTags[s] + ".b]"}, {K: "data"}}})
		}
		if len(f.Defs) > 0 {
			p.Files = append(p.Files, f)
		} else if s%2 == 0 {
			p.EmptyDirs = append(p.EmptyDirs, exhSlotDirs[s])
		}
	}
	p.Layouts = []string{"l1", "default"}
	p.Views = []string{"va", "vb"}
	return p
}

var exhReqAlphabet = []Req{
	{K: 'B'}, {K: 'L', L: "l1"}, {K: 'L', L: ""},
	{K: 'V', L: "l1", V: "va"}, {K: 'V', L: "l1", V: "vb"}, {K: 'V', L: "", V: "va"}, {K: 'V', L: "default", V: "vb"},
}

// exhOrderPrograms: fixed programs with heavy overlap used for the request-order enumeration.
func exhOrderProgram(k int, kind string) *Program {
	switch k % 3 {
	case 0:
		return exhDefsProgram(31+32*31, kind) // everything everywhere
	case 1:
		return exhDefsProgram(0b11010+32*0b01101, kind)
	default:
		p := exhDefsProgram(0b01001+32*0b10110, kind)
		// root text in the layout, overridden blocks in the views (the usual way the providers are used)
		p.Files = append(p.Files, &PFile{Path: "layouts/l1/page" + p.Ext, Defs: []*Def{
			{Name: rootName, Top: true, Items: []Item{{K: "mark", S: "[l1.page]"}, {K: "block", S: "c"}, {K: "call", S: "a"}}},
			{Name: "c", Nested: true, Items: []Item{{K: "mark", S: "[l1.c]"}}},
		}})
		p.Files = append(p.Files, &PFile{Path: "views/va/c" + p.Ext, Defs: []*Def{
			{Name: "c", Items: []Item{{K: "mark", S: "[va.c]"}, {K: "html"}}},
		}})
		return p
	}
}

func decodeReqSeq(idx, n int) []Req {
	out := make([]Req, n)
	for i := n - 1; i >= 0; i-- {
		out[i] = exhReqAlphabet[idx%len(exhReqAlphabet)]
		idx /= len(exhReqAlphabet)
	}
	return out
}
