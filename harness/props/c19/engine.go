package main

// Subject (the two providers), reference renderer (html/template and text/template used
// directly) and the observation / comparison functions shared by all monitors.

import (
	"bytes"
	"fmt"
	htemplate "html/template"
	"regexp"
	"sort"
	"strings"
	ttemplate "text/template"

	"github.com/goatcms/goatcore/filesystem"
	"github.com/goatcms/goatcore/filesystem/filespace/memfs"
	"github.com/goatcms/goatcore/goathtml/ghprovider"
	"github.com/goatcms/goatcore/goattext/gtprovider"
)

var renderData = map[string]any{"V": `<x>&"'`}

func upper(s string) string { return strings.ToUpper(s) }

// T is a template set of either package.
type T interface {
	Names() []string
	Exec(name string) (string, error)
	Clone() (T, error)
	Parse(src string) error
	ID() any
}

type htmlT struct{ t *htemplate.Template }

func (h htmlT) Names() (out []string) {
	for _, x := range h.t.Templates() {
		out = append(out, x.Name())
	}
	return
}
func (h htmlT) Exec(name string) (string, error) {
	var b bytes.Buffer
	err := h.t.ExecuteTemplate(&b, name, renderData)
	return b.String(), err
}
func (h htmlT) Clone() (T, error) {
	c, err := h.t.Clone()
	if err != nil {
		return nil, err
	}
	return htmlT{c}, nil
}
func (h htmlT) Parse(src string) error { _, err := h.t.Parse(src); return err }
func (h htmlT) ID() any                { return h.t }

type textT struct{ t *ttemplate.Template }

func (h textT) Names() (out []string) {
	for _, x := range h.t.Templates() {
		out = append(out, x.Name())
	}
	return
}
func (h textT) Exec(name string) (string, error) {
	var b bytes.Buffer
	err := h.t.ExecuteTemplate(&b, name, renderData)
	return b.String(), err
}
func (h textT) Clone() (T, error) {
	c, err := h.t.Clone()
	if err != nil {
		return nil, err
	}
	return textT{c}, nil
}
func (h textT) Parse(src string) error { _, err := h.t.Parse(src); return err }
func (h textT) ID() any                { return h.t }

func newRoot(kind string) T {
	if kind == "html" {
		return htmlT{htemplate.New(rootName).Funcs(htemplate.FuncMap{"up": upper})}
	}
	return textT{ttemplate.New(rootName).Funcs(ttemplate.FuncMap{"up": upper})}
}

// P is a provider of either package.
type P interface {
	Get(q Req) (T, error)
}

type htmlP struct{ p *ghprovider.Provider }

func (h htmlP) Get(q Req) (T, error) {
	var t *htemplate.Template
	var err error
	switch q.K {
	case 'B':
		t, err = h.p.Base()
	case 'L':
		t, err = h.p.Layout(q.L)
	default:
		t, err = h.p.View(q.L, q.V)
	}
	if err != nil {
		return nil, err
	}
	if t == nil {
		return nil, fmt.Errorf("provider returned (nil, nil)")
	}
	return htmlT{t}, nil
}

type textP struct{ p *gtprovider.Provider }

func (h textP) Get(q Req) (T, error) {
	var t *ttemplate.Template
	var err error
	switch q.K {
	case 'B':
		t, err = h.p.Base()
	case 'L':
		t, err = h.p.Layout(q.L)
	default:
		t, err = h.p.View(q.L, q.V)
	}
	if err != nil {
		return nil, err
	}
	if t == nil {
		return nil, fmt.Errorf("provider returned (nil, nil)")
	}
	return textT{t}, nil
}

func newProvider(p *Program, fs filesystem.Filespace, cached bool) P {
	if p.Kind == "html" {
		return htmlP{ghprovider.NewProvider(fs, p.HelpersPath, p.LayoutPat, p.ViewPat, p.Ext, htemplate.FuncMap{"up": upper}, cached)}
	}
	return textP{gtprovider.NewProvider(fs, p.HelpersPath, p.LayoutPat, p.ViewPat, p.Ext, ttemplate.FuncMap{"up": upper}, cached)}
}

// buildFS writes the program into a fresh in-memory filespace.
func buildFS(p *Program) (filesystem.Filespace, error) {
	fs, err := memfs.NewFilespace()
	if err != nil {
		return nil, err
	}
	for _, d := range p.EmptyDirs {
		if err := fs.MkdirAll(d, 0777); err != nil {
			return nil, fmt.Errorf("MkdirAll(%q): %v", d, err)
		}
	}
	for _, f := range p.Files {
		if err := fs.WriteFile(f.Path, []byte(f.Content()), 0644); err != nil {
			return nil, fmt.Errorf("WriteFile(%q): %v", f.Path, err)
		}
	}
	// the harness' own sanity check: every file can be read back and every layer directory is a directory
	for _, f := range p.Files {
		b, err := fs.ReadFile(f.Path)
		if err != nil || string(b) != f.Content() {
			return nil, fmt.Errorf("read back of %q failed: %v", f.Path, err)
		}
	}
	return fs, nil
}

// Render is the outcome of executing one name.
type Render struct {
	Err   bool   `json:"err,omitempty"`
	Panic bool   `json:"panic,omitempty"`
	Out   string `json:"out,omitempty"`
	Msg   string `json:"msg,omitempty"`
}

// Obs is what is observable of one answer.
type Obs struct {
	Err      bool              `json:"err,omitempty"`
	Msg      string            `json:"msg,omitempty"`
	Names    []string          `json:"names,omitempty"`
	Out      map[string]Render `json:"out,omitempty"`
	CloneErr string            `json:"clone_err,omitempty"`
}

func filteredNames(t T) []string {
	var out []string
	for _, n := range t.Names() {
		if strings.Contains(n, "$htmltemplate_") { // derived by the escaper, not a definition
			continue
		}
		out = append(out, n)
	}
	sort.Strings(out)
	return out
}

// observe lists the defined names of t and renders each of them. Base and layout templates are
// rendered on a clone: the html package forbids cloning a set that has been executed, and the
// provider must stay able to derive views from them.
func observe(t T, viaClone bool) Obs {
	o := Obs{Names: filteredNames(t), Out: map[string]Render{}}
	target := t
	if viaClone {
		c, err := t.Clone()
		if err != nil {
			o.CloneErr = err.Error()
			return o
		}
		target = c
	}
	for _, n := range renderOrder(o.Names) {
		o.Out[n] = safeExec(target, n)
	}
	return o
}

// renderOrder puts callers before callees (bodies only refer to names later in the pool, the
// root body to any). html/template (Go 1.23) dereferences a nil tree when a template is escaped
// that calls a template whose own escaping failed earlier; in caller-first order that situation
// cannot arise, whatever the provider did.
func renderOrder(names []string) []string {
	out := append([]string{}, names...)
	rank := func(n string) int {
		if n == rootName {
			return -2
		}
		return poolIndex(n)
	}
	sort.SliceStable(out, func(i, j int) bool { return rank(out[i]) < rank(out[j]) })
	return out
}

func safeExec(t T, n string) (r Render) {
	defer func() {
		if p := recover(); p != nil {
			r = Render{Err: true, Panic: true, Msg: fmt.Sprintf("panic: %v", p)}
		}
	}()
	out, err := t.Exec(n)
	if err != nil {
		return Render{Err: true, Msg: err.Error()}
	}
	return Render{Out: out}
}

func askObs(pv P, q Req) (Obs, T) { return askObsVia(pv, q, q.K != 'V') }

// askObsVia: viaClone=false executes exactly what the provider handed out, as a caller would
// (the library's own tests execute the result of Layout()); the provider must stay able to
// answer every later request all the same.
func askObsVia(pv P, q Req, viaClone bool) (Obs, T) {
	t, err := pv.Get(q)
	if err != nil {
		return Obs{Err: true, Msg: err.Error()}, nil
	}
	return observe(t, viaClone), t
}

// refObs builds the answer with the template package directly: parse helpers, clone, parse the
// layout's files, clone, parse the view's files.
func refObs(p *Program, q Req) Obs {
	t := newRoot(p.Kind)
	dirs := p.layersOf(q)
	for i := len(dirs) - 1; i >= 0; i-- {
		if i != len(dirs)-1 {
			c, err := t.Clone()
			if err != nil {
				return Obs{Err: true, Msg: "reference clone: " + err.Error()}
			}
			t = c
		}
		_, files, _ := p.layer(dirs[i])
		for _, f := range files {
			if err := t.Parse(f.Content()); err != nil {
				return Obs{Err: true, Msg: err.Error()}
			}
		}
	}
	return observe(t, false)
}

func diffObs(got, want Obs) string {
	if got.Err != want.Err {
		if got.Err {
			return fmt.Sprintf("provider failed (%s) where the reference succeeds", got.Msg)
		}
		return fmt.Sprintf("provider succeeded where the reference fails (%s)", want.Msg)
	}
	if got.Err {
		return ""
	}
	if strings.Join(got.Names, "\x00") != strings.Join(want.Names, "\x00") {
		return fmt.Sprintf("defined names %q, reference %q", got.Names, want.Names)
	}
	if got.CloneErr != "" {
		return "the returned template cannot be cloned: " + got.CloneErr
	}
	for _, n := range want.Names {
		g, w := got.Out[n], want.Out[n]
		if g.Err != w.Err || g.Panic != w.Panic {
			return fmt.Sprintf("rendering %q: provider (err=%v %q %s) reference (err=%v %q %s)", n, g.Err, g.Out, g.Msg, w.Err, w.Out, w.Msg)
		}
		if !g.Err && g.Out != w.Out {
			return fmt.Sprintf("rendering %q: provider %q reference %q", n, g.Out, w.Out)
		}
	}
	return ""
}

var markRe = regexp.MustCompile(`\[[^\[\]]*\]`)

// diffModel compares an answer with the abstract layering model (names and marker sequences).
func diffModel(got Obs, mo ModelObs) string {
	if got.CloneErr != "" {
		return ""
	}
	if got.Err != mo.Err {
		if got.Err {
			return fmt.Sprintf("provider failed (%s) although every file of its layers parses", got.Msg)
		}
		return "provider succeeded although a file of its layers does not parse"
	}
	if got.Err {
		return ""
	}
	var names []string
	for _, n := range got.Names {
		if n != rootName {
			names = append(names, n)
		}
	}
	if strings.Join(names, "\x00") != strings.Join(mo.Names, "\x00") {
		return fmt.Sprintf("defined names %q, layering model says %q", names, mo.Names)
	}
	for n, want := range mo.Marks {
		g, ok := got.Out[n]
		if !ok {
			return fmt.Sprintf("name %q missing", n)
		}
		if (want == nil) != g.Err {
			return fmt.Sprintf("rendering %q: err=%v (%s), layering model expects failure=%v", n, g.Err, g.Msg, want == nil)
		}
		if want == nil {
			continue
		}
		marks := markRe.FindAllString(g.Out, -1)
		if strings.Join(marks, "") != strings.Join(want, "") {
			return fmt.Sprintf("rendering %q: marker sequence %q, layering model says %q", n, marks, want)
		}
	}
	return ""
}

// refCache memoises reference and model answers per request key of one program.
type refCache struct {
	p   *Program
	ref map[string]Obs
	mod map[string]ModelObs
}

func newRefCache(p *Program) *refCache {
	return &refCache{p: p, ref: map[string]Obs{}, mod: map[string]ModelObs{}}
}
func (rc *refCache) Ref(q Req) Obs {
	k := q.Key()
	if o, ok := rc.ref[k]; ok {
		return o
	}
	o := refObs(rc.p, q)
	rc.ref[k] = o
	return o
}
func (rc *refCache) Model(q Req) ModelObs {
	k := q.Key()
	if o, ok := rc.mod[k]; ok {
		return o
	}
	o := rc.p.Model(q)
	rc.mod[k] = o
	return o
}

// seqStats are the counters of a sequential run.
type seqStats struct {
	requests, renders, errAnswers, leakProbes, repeats, cachePairs, modelChecks int64
	overridden, directExec                                                      int64
}

type violation struct {
	class, detail string
	witness       any
}

// runSequence issues reqs against a fresh provider and checks every answer against the
// reference and the layering model. It returns the observations (for the cached/uncached
// comparison).
func runSequence(p *Program, rc *refCache, cached bool, reqs []Req, st *seqStats) ([]Obs, *violation) {
	fs, err := buildFS(p)
	if err != nil {
		return nil, &violation{"harness", err.Error(), nil}
	}
	pv := newProvider(p, fs, cached)
	seen := map[string]bool{}
	viewsBuilt := map[string]bool{}
	var all []Obs
	// in every other sequence the caller executes the base / layout templates it was handed
	// (not a private clone of them)
	direct := seqHash(reqs)%2 == 1
	for i, q := range reqs {
		got, _ := askObsVia(pv, q, q.K != 'V' && !direct)
		all = append(all, got)
		st.requests++
		if direct && q.K != 'V' && !got.Err {
			st.directExec++
		}
		st.renders += int64(len(got.Out))
		if got.Err {
			st.errAnswers++
		}
		if seen[q.Key()] {
			st.repeats++
		}
		seen[q.Key()] = true
		for k := range viewsBuilt {
			if k != q.Key() {
				st.leakProbes++ // an answer given after some other view has been built
				break
			}
		}
		if q.K == 'V' && !got.Err {
			viewsBuilt[q.Key()] = true
		}
		wit := func() any {
			var hs []string
			for _, x := range reqs[:i+1] {
				hs = append(hs, x.String())
			}
			return map[string]any{"program": p.Describe(), "cached": cached, "requests": hs, "failing_request": q.String(), "answer": got}
		}
		want := rc.Ref(q)
		if d := diffObs(got, want); d != "" {
			return all, &violation{"reference-mismatch", fmt.Sprintf("%s provider (cached=%v), request %d %s: %s", p.Kind, cached, i, q, d), wit()}
		}
		mo := rc.Model(q)
		st.modelChecks++
		if d := diffModel(got, mo); d != "" {
			return all, &violation{"layering-mismatch", fmt.Sprintf("%s provider (cached=%v), request %d %s: %s", p.Kind, cached, i, q, d), wit()}
		}
	}
	return all, nil
}

func seqHash(reqs []Req) uint32 {
	var h uint32 = 2166136261
	for _, q := range reqs {
		for _, c := range []byte(q.Key()) {
			h = (h ^ uint32(c)) * 16777619
		}
		h = (h ^ 0xff) * 16777619
	}
	return h
}

// overrideCount says how many names of a view request are defined in more than one layer
// (non-triviality of a program).
func overrideCount(p *Program, q Req) int {
	cnt := map[string]int{}
	for _, d := range p.layersOf(q) {
		defs, _, _ := p.layer(d)
		for n := range defs {
			cnt[n]++
		}
	}
	k := 0
	for _, c := range cnt {
		if c > 1 {
			k++
		}
	}
	return k
}
