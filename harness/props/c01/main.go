// C01 – the in-memory filespace behaves as an abstract file tree on every history.
package main

import (
	"fmt"
	"strings"

	"verif/internal/mfs"
	"verif/internal/sup"

	"github.com/goatcms/goatcore/filesystem/filespace/memfs"
)

func plan(tier string, seed int64) []sup.Batch {
	nRand, ops, exhLen := 4000, 40, 2
	nLong := 0
	if tier == "thorough" {
		nRand, ops, exhLen = 20000, 60, 3
		nLong = 600
	}
	var bs []sup.Batch
	nexh := exhCount(exhLen)
	bs = append(bs, sup.Chunk("exh", "exh", nexh, (nexh+31)/32, 1, map[string]any{"len": exhLen})...)
	bs = append(bs, sup.Chunk("rand", "rand", nRand, (nRand+15)/16, 1, map[string]any{"ops": ops})...)
	if nLong > 0 {
		bs = append(bs, sup.Chunk("long", "rand", nLong, (nLong+15)/16, 1, map[string]any{"ops": 200, "every": 8})...)
	}
	return bs
}

// ---- bounded-exhaustive alphabet -----------------------------------------------------------

var exhPaths = []string{"a", "b", "a/a", "a/b"}
var exhSpell = []string{"a//b", "./a", "/a", "a/b/../a", "a/.", ""}

func exhOps() []mfs.Op {
	var ops []mfs.Op
	one := append(append([]string{}, exhPaths...), exhSpell...)
	for _, p := range one {
		ops = append(ops,
			mfs.Op{Kind: mfs.OpWriteFile, P1: p, Data: []byte("w:" + p)},
			mfs.Op{Kind: mfs.OpWriter, P1: p, Data: []byte("s"), Chunks: []int{0, 1}},
			mfs.Op{Kind: mfs.OpMkdirAll, P1: p},
			mfs.Op{Kind: mfs.OpRemove, P1: p},
			mfs.Op{Kind: mfs.OpRemoveAll, P1: p},
		)
	}
	for _, s := range []string{"a", "a/b", "./a"} {
		for _, d := range []string{"b", "a/a", "a//c", "b/c/d"} {
			ops = append(ops, mfs.Op{Kind: mfs.OpCopy, P1: s, P2: d}, mfs.Op{Kind: mfs.OpCopyFile, P1: s, P2: d}, mfs.Op{Kind: mfs.OpCopyDir, P1: s, P2: d})
		}
	}
	// queries are covered by the whole-tree walk after every step; a view operation:
	ops = append(ops, mfs.Op{Kind: mfs.OpFilespace, P1: "a"})
	return ops
}

func exhCount(n int) int {
	k := len(exhOps())
	t := 1
	for i := 0; i < n; i++ {
		t *= k
	}
	return t
}

func decodeHist(idx, n int) []mfs.Op {
	all := exhOps()
	out := make([]mfs.Op, n)
	for i := n - 1; i >= 0; i-- {
		out[i] = all[idx%len(all)]
		idx /= len(all)
	}
	// after a Filespace op, later operations go through the new view half of the time
	// (deterministically: operations at odd positions)
	views := 1
	for i := range out {
		if views > 1 && i%2 == 1 {
			out[i].View = views - 1
		}
		if out[i].Kind == mfs.OpFilespace {
			views++
		}
	}
	return out
}

// runHistory executes ops in lock step on a fresh memfs and on the model.
func runHistory(r *sup.CaseResult, ops []mfs.Op, gen *mfs.Gen, nops int, every int, scribble bool, mangleAt map[int]bool) (hist []mfs.Op) {
	root, err := memfs.NewFilespace()
	if err != nil {
		r.Inconclusive = "memfs.NewFilespace: " + err.Error()
		return
	}
	subj := mfs.NewSubject(root)
	subj.Scribble = scribble
	model := mfs.NewModel()
	model.SelfCopySnapshot = true // "copies are deep": a directory copied to an absent path below itself receives the source as it was
	if gen != nil {
		gen.M = model
	}
	var mutations, queries, lenient, steps int64
	ambiguous := false
	fail := func(class, detail string) {
		r.Violate(class, detail, map[string]any{"history": mfs.HistString(hist), "model_tree": model.Root.Dump()})
	}
	for i := 0; i < nops; i++ {
		var op mfs.Op
		if gen != nil {
			op = gen.Next()
		} else {
			op = ops[i]
		}
		hist = append(hist, op)
		got := subj.Exec(i, op)
		v := model.Step(op, got)
		steps++
		if v.Ambiguous {
			r.AddObs("ambiguous_stopped", 1)
			ambiguous = true
			break
		}
		if v.Mismatch != "" {
			fail("result-mismatch", fmt.Sprintf("step %d %s: %s", i, op, v.Mismatch))
			break
		}
		if v.Lenient {
			lenient++
		}
		if v.Mutated {
			mutations++
		} else if !op.Kind.Mutating() {
			queries++
		}
		if mangleAt[i] {
			if s := subj.CheckRetained(); s != "" {
				fail("listing-not-a-snapshot", fmt.Sprintf("after step %d %s: %s", i, op, s))
				break
			}
			subj.MangleRetained()
		}
		if model.Root.Count() > 3000 {
			break // copies of a directory below itself double the tree: stop without verdict once it has grown this far
		}
		if every <= 1 || i%every == every-1 || i == nops-1 {
			obs, anomalies := mfs.ObserveLimit(root, model.Root.Depth()+2, model.Root.Count()*4+1000)
			if len(anomalies) > 0 {
				fail("tree-anomaly", fmt.Sprintf("after step %d %s: %s", i, op, strings.Join(anomalies, "; ")))
				break
			}
			if d := mfs.Diff(model.Root, obs, ""); d != "" {
				fail("tree-mismatch", fmt.Sprintf("after step %d %s: %s", i, op, d))
				break
			}
		}
	}
	if len(r.Violations) == 0 && !ambiguous {
		if s := subj.CheckRetained(); s != "" {
			fail("listing-not-a-snapshot", "end of history: "+s)
		}
		subj.MangleRetained()
		obs, anomalies := mfs.ObserveLimit(root, model.Root.Depth()+2, model.Root.Count()*4+1000)
		if len(anomalies) > 0 {
			fail("tree-anomaly", "end of history (after the caller scribbled on everything it held): "+strings.Join(anomalies, "; "))
		} else if d := mfs.Diff(model.Root, obs, ""); d != "" {
			fail("tree-mismatch", "end of history (after the caller scribbled on everything it held): "+d)
		}
	}
	r.AddObs("steps", steps)
	r.AddObs("successful_mutations", mutations)
	r.AddObs("queries", queries)
	r.AddObs("lenient_steps", lenient)
	r.AddObs("views_obtained", int64(len(subj.Views)-1))
	r.Nontrivial = mutations > 0
	return hist
}

func main() {
	sup.Main(sup.Prop{
		ID:    "C01",
		Level: "exploration",
		Rule: "lock-step differential execution of a history on a fresh memfs and on the reference tree model; after every step the result class and the whole observable tree (ReadDir+Lstat+IsExist/IsFile/IsDir+ReadFile) are compared, buffers handed in/out are scribbled on and retained listings re-inspected. " +
			"exh: all histories of length ≤ L over a fixed operation alphabet (4 canonical paths + 6 spellings × 5 mutating ops, 36 copies, 1 view); rand: seeded histories over names {a,b,c}, depth ≤ 3 with path spellings and child views. distinct = distinct operation sequences; non-trivial = at least one successful mutation",
		Assumptions: []string{
			"paths that climb above the view root are outside C01 (C03 decides them); the generator does not produce them",
			"copy onto an existing destination and RemoveAll of a missing path are accepted as error-with-unchanged-tree or the obvious success; Remove/RemoveAll of a view root and directory-onto-existing copies stop the history without verdict",
			"sizes and times of directory entries are not part of the snapshot promise; only names and kinds are",
		},
		Plan: plan,
		Run: func(c *sup.Child, b sup.Batch) {
			switch b.Kind {
			case "exh":
				n := b.P("len", 2)
				for idx := b.From; idx < b.To; idx++ {
					ops := decodeHist(idx, n)
					c.Case(idx, map[string]any{"exh": idx, "len": n}, func(r *sup.CaseResult) {
						// every prefix is a history too, but a mismatch stops at the first bad step,
						// so running the full length covers the prefixes.
						h := runHistory(r, ops, nil, n, 1, true, map[int]bool{})
						r.Key = strings.Join(mfs.HistString(h), ";")
						if idx%5000 == 0 {
							r.Sample = map[string]any{"kind": "exhaustive history", "ops": mfs.HistString(h)}
						}
					})
				}
			case "rand":
				nops := b.P("ops", 40)
				every := b.P("every", 1)
				for idx := b.From; idx < b.To; idx++ {
					rng := c.Rand(idx)
					cfg := mfs.GenCfg{Names: namePool(idx), MaxDepth: 3, Spell: true, Views: idx%3 != 0,
						PrecondBias: 0.8, Weights: mfs.DefaultWeights(), BigData: idx%7 == 0, NoDestInsideSrc: idx%5 != 0}
					if idx%11 == 0 {
						cfg.Names = []string{"a", "b"}
						cfg.MaxDepth = 2
					}
					gen := &mfs.Gen{Cfg: cfg, R: rng}
					mangle := map[int]bool{}
					if idx%2 == 0 {
						for k := 0; k < 3; k++ {
							mangle[rng.Intn(nops)] = true
						}
					}
					c.Case(idx, map[string]any{"rand": idx, "ops": nops}, func(r *sup.CaseResult) {
						h := runHistory(r, nil, gen, nops, every, true, mangle)
						r.Key = strings.Join(mfs.HistString(h), ";")
						if idx%400 == 0 {
							hs := mfs.HistString(h)
							if len(hs) > 12 {
								hs = hs[:12]
							}
							r.Sample = map[string]any{"kind": "random history (first 12 ops)", "ops": hs}
						}
					})
				}
			}
		},
		Finish: func(t *sup.Totals) string {
			if t.Obs["successful_mutations"] < 100 || t.Obs["steps"] < 1000 {
				return "too few observed steps/mutations"
			}
			return ""
		},
		Exhaustive: func(tier string) string {
			if tier == "thorough" {
				return "all histories of length ≤ 3 over the fixed operation alphabet"
			}
			return "all histories of length ≤ 2 over the fixed operation alphabet"
		},
	})
}

// namePool: every fourth history uses names one of which is a string prefix of another ("a" /
// "ab"): code that compares paths as strings instead of element by element confuses them.
func namePool(idx int) []string {
	switch idx % 8 {
	case 1, 5:
		return []string{"a", "ab", "b"}
	case 3:
		return []string{"a", "..a", "..."} // begin with dots without being "." or ".."
	case 7:
		return []string{"a", "a.tmp", "b"} // a sibling that looks like a temporary name of another
	case 2:
		return []string{"a", "a\\b", "..\\a"} // a backslash is an ordinary character of a name
	}
	return []string{"a", "b", "c"}
}
