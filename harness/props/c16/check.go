package main

import (
	"fmt"
	"sort"
	"strings"

	"verif/internal/sup"
)

// The oracle over the probe log. Everything below is read off the recorded events and the
// observations of the surrounding scopes; nothing depends on durations.

type plog struct {
	begin map[int]int64
	end   map[int]int64
	count map[int]int
	evs   []event
}

func newPlog(x *execRun) *plog {
	x.mu.Lock()
	evs := append([]event{}, x.events...)
	x.mu.Unlock()
	sort.Slice(evs, func(i, j int) bool { return evs[i].Seq < evs[j].Seq })
	l := &plog{begin: map[int]int64{}, end: map[int]int64{}, count: map[int]int{}, evs: evs}
	for _, e := range evs {
		if e.Begin {
			l.count[e.ID]++
			if _, ok := l.begin[e.ID]; !ok {
				l.begin[e.ID] = e.Seq
			}
		} else {
			l.end[e.ID] = e.Seq
		}
	}
	return l
}

func (l *plog) began(id int) bool { _, ok := l.begin[id]; return ok }
func (l *plog) ended(id int) bool { _, ok := l.end[id]; return ok }

func (l *plog) anyBegan(ids []int) bool {
	for _, id := range ids {
		if l.began(id) {
			return true
		}
	}
	return false
}

// trace renders the log as "b3 e3 b5 …" for witnesses.
func (l *plog) trace() string {
	var sb strings.Builder
	for i, e := range l.evs {
		if i > 0 {
			sb.WriteByte(' ')
		}
		if e.Begin {
			fmt.Fprintf(&sb, "b%d", e.ID)
		} else {
			fmt.Fprintf(&sb, "e%d", e.ID)
		}
	}
	return sb.String()
}

type checkStats struct {
	tries, triesBodyFailed, triesBodyOK int64
	handlersSelected, handlersBegun     int64
	handlersNotSelected                 int64
	timingPairs                         int64
	nested                              int64
	f1, f2                              int64
	mayHandlers, mayTruncated           int64
	finallyFirst, finallyLast           int64
	contained, propagated               int64
	mustProbes, notProbes               int64
	containedDepth2                     int64
}

func (s *checkStats) flush(r *sup.CaseResult) {
	r.AddObs("tries_checked", s.tries)
	r.AddObs("tries_body_failed", s.triesBodyFailed)
	r.AddObs("tries_body_succeeded", s.triesBodyOK)
	r.AddObs("handlers_expected_to_run", s.handlersSelected)
	r.AddObs("handlers_begun", s.handlersBegun)
	r.AddObs("handlers_expected_silent", s.handlersNotSelected)
	r.AddObs("handler_after_body_order_pairs", s.timingPairs)
	r.AddObs("nested_tasks_and_tries_in_bodies", s.nested)
	r.AddObs("finding_F1_finally_skipped", s.f1)
	r.AddObs("finding_F2_handler_skipped_after_finally_failed", s.f2)
	r.AddObs("handlers_racing_a_failing_sibling", s.mayHandlers)
	r.AddObs("handlers_cut_short_by_failing_sibling", s.mayTruncated)
	r.AddObs("order_finally_began_before_other_handler", s.finallyFirst)
	r.AddObs("order_finally_began_after_other_handler", s.finallyLast)
	r.AddObs("body_failures_contained", s.contained)
	r.AddObs("nested_try_body_failures_contained", s.containedDepth2)
	r.AddObs("handler_failures_reported_by_surrounding_scope", s.propagated)
	r.AddObs("probes_required_and_seen", s.mustProbes)
	r.AddObs("probes_forbidden_and_absent", s.notProbes)
}

func handlerText(h *hinfo) string {
	rd := &renderer{tag: 600}
	return rd.lines(h.Cmds)
}

// checkUnit judges one top-level command list against the log and the surrounding scopes.
func checkUnit(r *sup.CaseResult, top []*Cmd, text string, l *plog, sr surround, probes map[int]*Cmd, st *checkStats) {
	m := newModel(top)
	wit := func() map[string]any {
		return map[string]any{"program": text, "probe_log": l.trace(), "surrounding": sr}
	}
	ctxOf := func(t *tinfo) string {
		return fmt.Sprintf("try %q (nesting depth %d) of program %q, probe log [%s]", t.C.Name, t.Depth, text, l.trace())
	}
	// every probe at most once
	for id, n := range l.count {
		if n > 1 && probes[id] != nil {
			r.Violate("ran-twice", fmt.Sprintf("probe %d began %d times; program %q, probe log [%s]", id, n, text, l.trace()), wit())
		}
	}
	for _, t := range m.tries {
		if t.Mode == expNot {
			// behind a failing command of its loop: nothing of it may begin (checked through exp below)
			continue
		}
		// a body whose first command is a task in a sandbox that fails without running anything has
		// no probe that may begin: nothing is missing then, and the handlers are still judged
		bodyExpected := false
		for _, id := range t.BodyProbes {
			if m.exp[id] != expNot {
				bodyExpected = true
			}
		}
		if !l.anyBegan(t.BodyProbes) && bodyExpected {
			if t.Mode == expMust {
				r.Violate("body-missing", "no command of the body began: "+ctxOf(t), wit())
			}
			continue
		}
		st.tries++
		if t.BodyFails {
			st.triesBodyFailed++
		} else {
			st.triesBodyOK++
		}
		for _, c := range t.C.Body {
			if c.K != "p" {
				st.nested++
			}
		}
		// last end / begin of anything the body did
		var bodyLast int64
		bodyOpen := -1
		for _, id := range t.BodyProbes {
			if b, ok := l.begin[id]; ok {
				if b > bodyLast {
					bodyLast = b
				}
				if e, ok := l.end[id]; ok {
					if e > bodyLast {
						bodyLast = e
					}
				} else {
					bodyOpen = id
				}
			}
		}
		outcome := "succeeded"
		if t.BodyFails {
			outcome = "failed"
		}
		var finH, otherH *hinfo
		for _, h := range t.H {
			if !h.Selected {
				st.handlersNotSelected++
				for _, id := range h.Probes {
					if l.began(id) {
						r.Violate("wrong-handler-ran", fmt.Sprintf("the %s handler ran (probe %d began) although the body %s: %s", h.Kind, id, outcome, ctxOf(t)), wit())
						break
					}
				}
				continue
			}
			st.handlersSelected++
			if h.Kind == "finally" {
				finH = h
			} else {
				otherH = h
			}
			// handlers start only after the body and everything it spawned has finished
			for _, id := range h.Probes {
				b, ok := l.begin[id]
				if !ok {
					continue
				}
				st.timingPairs++
				if b < bodyLast {
					r.Violate("handler-before-body-end", fmt.Sprintf("probe %d of the %s handler began at seq %d, before the body was over (its last event is at seq %d): %s", id, h.Kind, b, bodyLast, ctxOf(t)), wit())
					break
				}
				if bodyOpen >= 0 {
					r.Violate("handler-before-body-end", fmt.Sprintf("probe %d of the %s handler began while body probe %d never ended: %s", id, h.Kind, bodyOpen, ctxOf(t)), wit())
					break
				}
			}
			if l.anyBegan(h.Probes) {
				st.handlersBegun++
				if h.SiblingCanFail {
					st.mayHandlers++
					for _, id := range h.Probes {
						if m.exp[id] == expMay && !l.began(id) {
							st.mayTruncated++
							break
						}
					}
				}
				continue
			}
			// The handler the statement asks for never began. Known finding iff another handler of
			// the same try has failed (its failing probe is in the log); anything else refutes.
			sibling := ""
			for _, g := range t.H {
				if g == h || !g.Selected {
					continue
				}
				for _, id := range g.Probes {
					if probes[id] != nil && probes[id].F != "" && probes[id].F != "stopok" && l.ended(id) {
						sibling = fmt.Sprintf("%s handler (failing probe %d ended at seq %d)", g.Kind, id, l.end[id])
					}
				}
			}
			switch {
			case sibling != "" && h.Kind == "finally":
				st.f1++
				r.ViolateF("C16-F1", "finally-skipped-after-handler-failure", fmt.Sprintf("finally handler %q defined, none of its probes began, and the %s of the same try failed: %s", handlerText(h), sibling, ctxOf(t)), wit())
			case sibling != "":
				st.f2++
				r.ViolateF("C16-F2", "handler-skipped-after-finally-failure", fmt.Sprintf("%s handler %q has to run (body %s), none of its probes began, and the %s of the same try failed: %s", h.Kind, handlerText(h), outcome, sibling, ctxOf(t)), wit())
			default:
				r.Violate("handler-missing", fmt.Sprintf("the %s handler %q never ran although the body %s and no other handler of the try failed: %s", h.Kind, handlerText(h), outcome, ctxOf(t)), wit())
			}
		}
		if finH != nil && otherH != nil && l.anyBegan(finH.Probes) && l.anyBegan(otherH.Probes) {
			fb, ob := int64(1<<62), int64(1<<62)
			for _, id := range finH.Probes {
				if b, ok := l.begin[id]; ok && b < fb {
					fb = b
				}
			}
			for _, id := range otherH.Probes {
				if b, ok := l.begin[id]; ok && b < ob {
					ob = b
				}
			}
			if fb < ob {
				st.finallyFirst++
			} else {
				st.finallyLast++
			}
		}
		if t.Depth > 0 && t.BodyFails && !tryFails(t.C) {
			st.containedDepth2++
		}
	}
	// per-probe expectations (command loops: in order, nothing after a failing command;
	// handlers that must not run; everything that must run to its end)
	ids := make([]int, 0, len(m.exp))
	for id := range m.exp {
		ids = append(ids, id)
	}
	sort.Ints(ids)
	for _, id := range ids {
		switch m.exp[id] {
		case expMust:
			if !l.began(id) {
				// a whole missing handler / body has been reported above with its own class
				if !inReportedGap(m, l, id) {
					r.Violate("command-missing", fmt.Sprintf("probe %d never began although every command before it succeeded; program %q, probe log [%s]", id, text, l.trace()), wit())
				}
			} else if !l.ended(id) {
				r.Violate("command-unfinished", fmt.Sprintf("probe %d began and never ended; program %q, probe log [%s]", id, text, l.trace()), wit())
			} else {
				st.mustProbes++
			}
		case expNot:
			if l.began(id) {
				if !inUnselectedHandler(m, id) { // unselected handlers have their own class above
					r.Violate("runs-after-failure", fmt.Sprintf("probe %d began although a command before it in the same command loop failed (or its loop must not run); program %q, probe log [%s]", id, text, l.trace()), wit())
				}
			} else {
				st.notProbes++
			}
		}
	}
	// containment: the surrounding scope / bootstrap.Run() / application scope report an error
	// iff some handler failed
	want := seqFails(top)
	marked := len(sr.Marks) > 0
	switch {
	case sr.PerLine: // judged for the whole script by checkScript
	case want && sr.ScopeErrs == 0:
		r.Violate("handler-failure-not-reported", fmt.Sprintf("a handler that ran failed, but the surrounding scope holds no error (%s driver; other marks: %q); program %q, probe log [%s]", sr.Driver, sr.Marks, text, l.trace()), wit())
	case want:
		st.propagated++
	case !want && marked:
		what := "no command failed at all"
		for _, t := range m.tries {
			if t.Depth == 0 && t.BodyFails {
				what = "only a body failed, no handler did"
			}
		}
		r.Violate("failure-leaked", fmt.Sprintf("%s, yet the surroundings report a failure (%s driver): %q; program %q, probe log [%s]", what, sr.Driver, sr.Marks, text, l.trace()), wit())
	default:
		for _, t := range m.tries {
			if t.Depth == 0 && t.BodyFails && l.anyBegan(t.BodyProbes) {
				st.contained++
			}
		}
	}
}

// inReportedGap: probe id belongs to a selected handler (or a body) of which nothing began –
// that has been reported as handler-missing / a finding / body-missing already.
func inReportedGap(m *model, l *plog, id int) bool {
	for _, t := range m.tries {
		if t.Mode == expNot {
			continue
		}
		if contains(t.BodyProbes, id) && !l.anyBegan(t.BodyProbes) {
			return true
		}
		for _, h := range t.H {
			if h.Selected && contains(h.Probes, id) && (!l.anyBegan(h.Probes) || !l.anyBegan(t.BodyProbes)) {
				return true
			}
		}
	}
	return false
}

func inUnselectedHandler(m *model, id int) bool {
	for _, t := range m.tries {
		if t.Mode == expNot {
			continue
		}
		for _, h := range t.H {
			if !h.Selected && contains(h.Probes, id) {
				return true
			}
		}
	}
	return false
}

func contains(xs []int, x int) bool {
	for _, y := range xs {
		if y == x {
			return true
		}
	}
	return false
}

// checkScript: containment for a non-strict terminal script. The scope around each line is the
// terminal's private loop scope; what it reports is visible as an "ERROR: …" line per failing
// loop, and the application itself must stay clean whatever the handlers did. Only the lines up
// to the first one with a failing handler are judged (see runCase).
func checkScript(r *sup.CaseResult, p *caseProg, l *plog, sr surround, st *checkStats) {
	text := strings.Join(p.texts, "\n")
	want := false
	bodiesFailed := 0
	for _, u := range p.Units {
		if seqFails(u) {
			want = true
			break
		}
		if u[0].K == "t" && seqFails(u[0].Body) {
			bodiesFailed++
		}
	}
	wit := map[string]any{"program": text, "probe_log": l.trace(), "surrounding": sr}
	if len(sr.Marks) > 0 {
		r.Violate("failure-leaked", fmt.Sprintf("non-strict terminal script: the application reports a failure %q although the terminal keeps line failures to itself; program %q, probe log [%s]", sr.Marks, text, l.trace()), wit)
	}
	switch {
	case want && sr.Reported == 0:
		r.Violate("handler-failure-not-reported", fmt.Sprintf("non-strict terminal script: a line has a failing handler, the terminal reported no failing line; program %q, probe log [%s]", text, l.trace()), wit)
	case !want && sr.Reported > 0:
		r.Violate("failure-leaked", fmt.Sprintf("non-strict terminal script: no handler fails (%d line(s) have a failing body), yet the terminal reported %d failing line(s); program %q, probe log [%s]", bodiesFailed, sr.Reported, text, l.trace()), wit)
	case want:
		st.propagated++
		st.contained += int64(bodiesFailed)
	default:
		st.contained += int64(bodiesFailed)
	}
}
