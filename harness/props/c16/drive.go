package main

import (
	"fmt"
	"github.com/goatcms/goatcore/app/modules/pipelinem/pipservices"
	"runtime"
	"strconv"
	"strings"
	"sync"
	"sync/atomic"
	"time"

	"github.com/goatcms/goatcore/app"
	"github.com/goatcms/goatcore/app/bootstrap"
	"github.com/goatcms/goatcore/app/gio"
	"github.com/goatcms/goatcore/app/goatapp"
	"github.com/goatcms/goatcore/app/modules/commonm"
	"github.com/goatcms/goatcore/app/modules/ocm"
	"github.com/goatcms/goatcore/app/modules/pipelinem"
	"github.com/goatcms/goatcore/app/modules/terminalm"
	"github.com/goatcms/goatcore/app/modules/terminalm/termservices"
	"github.com/goatcms/goatcore/app/scope"
	"github.com/goatcms/goatcore/app/scope/contextscope"
	"github.com/goatcms/goatcore/app/terminal"
	"github.com/goatcms/goatcore/varutil/goaterr"
	"github.com/goatcms/goatcore/workers/verifhook"
)

// The application stack is the one the repository's story tests build: goatapp.NewMockupApp +
// bootstrap with terminalm, commonm, ocm, pipelinem. A probe command is registered in the
// application's terminal; everything a program does is a probe, a pip:run or a pip:try.

const watchdogS = 90

const hookPoint = "pipc.try.finally-submitted"

type event struct {
	Seq   int64 `json:"s"`
	ID    int   `json:"id"`
	Begin bool  `json:"b"`
}

// execRun is the probe log of one case.
type execRun struct {
	probes  map[int]*Cmd
	seq     atomic.Int64
	inside  atomic.Int32
	mu      sync.Mutex
	events  []event
	unknown []string
}

func (x *execRun) log(id int, begin bool) {
	s := x.seq.Add(1)
	x.mu.Lock()
	x.events = append(x.events, event{s, id, begin})
	x.mu.Unlock()
}

// probe is the only command generated programs are made of.
//
//	begin(id) … [append an error to the command's scope] … hold … end(id) [return an error]
func (x *execRun) probe(a app.App, ctx app.IOContext) (err error) {
	var deps struct {
		ID string `command:"?id"`
	}
	if err = ctx.Scope().InjectTo(&deps); err != nil {
		return err
	}
	id, err := strconv.Atoi(deps.ID)
	if err != nil {
		return err
	}
	if id < 0 {
		return nil // warm-up
	}
	c := x.probes[id]
	if c == nil {
		x.mu.Lock()
		x.unknown = append(x.unknown, deps.ID)
		x.mu.Unlock()
		return nil
	}
	x.inside.Add(1)
	x.log(id, true)
	if c.F == "app" {
		ctx.Scope().AppendError(fmt.Errorf("probe %d failed (error appended to its scope)", id))
	}
	if c.F == "stop" || c.F == "stopok" {
		ctx.Scope().Stop() // the command ends its scope (as "exit" or an interrupt does); "stop" then fails, "stopok" does not
	}
	if c.F == "kill" {
		ctx.Scope().Kill() // the library's own idiom: kill the scope, then return the error
	}
	switch c.H {
	case 1:
		for k := 0; k < c.N; k++ {
			runtime.Gosched()
		}
	case 2:
		time.Sleep(time.Duration(c.N) * time.Microsecond)
	}
	x.log(id, false)
	x.inside.Add(-1)
	if c.F == "ret" || c.F == "stop" || c.F == "kill" {
		return fmt.Errorf("probe %d failed (error returned)", id)
	}
	return nil
}

func newStack(x *execRun, params goatapp.Params) (mapp *goatapp.MockupApp, bs app.Bootstrap, term termservices.Terminal, err error) {
	if mapp, err = goatapp.NewMockupApp(params); err != nil {
		return
	}
	bs = bootstrap.NewBootstrap(mapp)
	if err = goaterr.ToError(goaterr.AppendError(nil,
		bs.Register(terminalm.NewModule()),
		bs.Register(commonm.NewModule()),
		bs.Register(ocm.NewModule()),
		bs.Register(pipelinem.NewModule()),
	)); err != nil {
		return
	}
	if err = bs.Init(); err != nil {
		return
	}
	mapp.Terminal().SetCommand(terminal.NewCommand(terminal.CommandParams{Name: "probe", Callback: x.probe}))
	var deps struct {
		Terminal  termservices.Terminal        `dependency:"TerminalService"`
		Sandboxes pipservices.SandboxesManager `dependency:"PipSandboxesManager"`
	}
	if err = mapp.DependencyProvider().InjectTo(&deps); err != nil {
		return
	}
	deps.Sandboxes.Add(failSandboxBuilder{})
	return mapp, bs, deps.Terminal, nil
}

// surround is what the scopes around one top-level try reported after it was over.
type surround struct {
	Driver    string   `json:"driver"`
	Marks     []string `json:"failure_marks,omitempty"` // every place that reports a failure
	ScopeErrs int      `json:"scope_errors"`            // errors on the surrounding scope (the primary observation)
	AppErrs   int      `json:"app_scope_errors"`        // errors on the application scope
	OwnCtx    bool     `json:"own_context"`             // the surrounding scope has a context of its own (the application scope must stay clean)
	Reported  int      `json:"error_lines,omitempty"`   // non-strict terminal script: "ERROR: …" lines printed by the terminal
	PerLine   bool     `json:"-"`
}

func errStr(e error) string {
	if e == nil {
		return ""
	}
	s := e.Error()
	if len(s) > 300 {
		s = s[:300] + "…"
	}
	return s
}

// ---- the hook ------------------------------------------------------------------------------------

type hookCtl struct {
	hits    atomic.Int64
	gate    bool // hold the try goroutine until the surrounding context is done
	isDone  atomic.Value
	delayUS int
	yields  int
	expired atomic.Bool
}

var curHook atomic.Pointer[hookCtl]

func installHook() {
	verifhook.Set(func(pt string) {
		if pt != hookPoint {
			return
		}
		h := curHook.Load()
		if h == nil {
			return
		}
		h.hits.Add(1)
		switch {
		case h.gate:
			f, _ := h.isDone.Load().(func() bool)
			if f == nil {
				return
			}
			for i := 0; i < 400000; i++ { // bounded: ≈ 10 s of 25 µs naps
				if f() {
					return
				}
				time.Sleep(25 * time.Microsecond)
			}
			h.expired.Store(true)
		case h.delayUS > 0:
			time.Sleep(time.Duration(h.delayUS) * time.Microsecond)
		default:
			for i := 0; i < h.yields; i++ {
				runtime.Gosched()
			}
		}
	})
}

// ---- drivers -------------------------------------------------------------------------------------

// caseProg is one generated case: one or several units (top-level command lists). Units of the
// "conc" driver run at the same time on contexts of their own inside one application.
type caseProg struct {
	Driver   string // term | termargs | shared | conc | args | script | ownroot
	Units    [][]*Cmd
	B        *builder
	HookUS   int
	HookY    int
	Gate     bool
	Label    string
	texts    []string
	argLists [][]string
}

// render fills texts (what is written to the log / fed to the terminal).
func (p *caseProg) render() {
	p.texts, p.argLists = nil, nil
	for _, u := range p.Units {
		rd := &renderer{}
		switch p.Driver {
		case "args", "termargs":
			a := rd.args(u[0])
			p.argLists = append(p.argLists, a)
			p.texts = append(p.texts, strings.Join(a, " ⏎ "))
		default:
			p.texts = append(p.texts, rd.lines(u))
		}
	}
}

func (p *caseProg) desc(kind string) map[string]any {
	d := map[string]any{"kind": kind, "driver": p.Driver, "program": p.texts}
	if p.Label != "" {
		d["label"] = p.Label
	}
	if p.Gate {
		d["hook"] = "try goroutine held at " + hookPoint + " until the surrounding context is done"
	} else if p.HookUS > 0 {
		d["hook"] = fmt.Sprintf("%d µs nap at %s", p.HookUS, hookPoint)
	}
	fl := map[string]string{}
	for id, c := range p.B.probes {
		if c.F != "" {
			fl[strconv.Itoa(id)] = c.F
		}
	}
	if len(fl) > 0 {
		d["failing_probes"] = fl
	}
	return d
}

// runOnCtx runs one top-level try through the terminal service on a child context of the
// application's IO context and reports what the surrounding scope said afterwards.
func runOnCtx(mapp *goatapp.MockupApp, term termservices.Terminal, line string, args []string, own bool, hk *hookCtl) surround {
	return runOnCtxKind(mapp, term, line, args, own, false, hk)
}

// runOnCtxKind: ownRoot runs the line in an IO context whose scope is a root of its own
// (scope.New) instead of a child of the application scope: its data scope does not reach the
// application's, so nothing a pip command looks up there (such as the task manager) pre-exists.
func runOnCtxKind(mapp *goatapp.MockupApp, term termservices.Terminal, line string, args []string, own, ownRoot bool, hk *hookCtl) surround {
	params := gio.ChildIOContextParams{}
	if own {
		params.Scope = scope.ChildParams{ContextScope: contextscope.New()}
	}
	var ctx app.IOContext
	if ownRoot {
		ctx = gio.NewIOContext(scope.New(scope.Params{Name: "c16ownroot"}), mapp.IOContext().IO())
	} else {
		ctx = gio.NewChildIOContext(mapp.IOContext(), params)
	}
	if hk != nil {
		hk.isDone.Store(func() bool { return ctx.Scope().IsDone() })
	}
	var e1 error
	if args != nil {
		e1 = term.RunCommand(ctx, args)
	} else {
		e1 = term.RunString(ctx, line)
	}
	sr := surround{OwnCtx: own}
	sr.ScopeErrs = len(ctx.Scope().Errors())
	e2 := ctx.Scope().Wait()
	e3 := ctx.Close()
	if e1 != nil {
		sr.Marks = append(sr.Marks, "terminal run returned: "+errStr(e1))
	}
	if sr.ScopeErrs > 0 {
		sr.Marks = append(sr.Marks, fmt.Sprintf("surrounding scope holds %d error(s)", sr.ScopeErrs))
	}
	if e2 != nil {
		sr.Marks = append(sr.Marks, "surrounding scope Wait(): "+errStr(e2))
	}
	if e3 != nil {
		sr.Marks = append(sr.Marks, "surrounding scope Close(): "+errStr(e3))
	}
	return sr
}

type caseOutcome struct {
	srs      []surround
	buildErr error
	timeout  bool
	stuck    string // goroutine dump when a logical standstill was diagnosed
}

func warmUp(mapp *goatapp.MockupApp, term termservices.Terminal) {
	runOnCtx(mapp, term, "pip:try --name=warmup --body=\"probe --id=-1\" --finally=\"probe --id=-1\"", nil, true, nil)
}

// execute runs the case and returns the per-unit observations.
func execute(p *caseProg, x *execRun, hk *hookCtl) (out caseOutcome) {
	done := make(chan caseOutcome, 1)
	go func() {
		var o caseOutcome
		switch p.Driver {
		case "args", "script", "scriptstrict":
			params := goatapp.Params{}
			switch p.Driver {
			case "args":
				params.Arguments = append([]string{"appname"}, p.argLists[0]...)
			case "scriptstrict":
				params.Arguments = []string{"appname", "terminal", "--strict=true"}
			default:
				params.Arguments = []string{"appname", "terminal"}
			}
			if p.Driver != "args" {
				params.IO = goatapp.IO{In: gio.NewAppInput(strings.NewReader("\n" + strings.Join(p.texts, "\n") + "\n"))}
			}
			mapp, bs, _, err := newStack(x, params)
			if err != nil {
				o.buildErr = err
				done <- o
				return
			}
			hk.isDone.Store(func() bool { return mapp.Scopes().App().IsDone() })
			e1 := bs.Run()
			e2 := mapp.Scopes().App().Wait()
			sr := surround{Driver: p.Driver}
			sr.AppErrs = len(mapp.Scopes().App().Errors())
			sr.ScopeErrs = sr.AppErrs
			if e1 != nil {
				sr.Marks = append(sr.Marks, "bootstrap.Run() returned: "+errStr(e1))
			}
			if e2 != nil {
				sr.Marks = append(sr.Marks, "application scope Wait(): "+errStr(e2))
			}
			if sr.AppErrs > 0 {
				sr.Marks = append(sr.Marks, fmt.Sprintf("application scope holds %d error(s)", sr.AppErrs))
			}
			if p.Driver == "script" {
				// non-strict terminal: a failing line is reported as "ERROR: …" on the error
				// output and the terminal goes on with the next line in a fresh loop scope
				sr.Reported = strings.Count(mapp.OutputBuffer().String(), "ERROR: ")
			}
			o.srs = []surround{sr}
		default:
			mapp, _, term, err := newStack(x, goatapp.Params{})
			if err != nil {
				o.buildErr = err
				done <- o
				return
			}
			own := p.Driver != "shared"
			if p.Driver == "conc" {
				warmUp(mapp, term)
			}
			o.srs = make([]surround, len(p.Units))
			var wg sync.WaitGroup
			start := make(chan struct{})
			for i := range p.Units {
				wg.Add(1)
				go func(i int) {
					defer wg.Done()
					<-start
					var args []string
					if p.Driver == "termargs" {
						args = p.argLists[i]
					}
					var h *hookCtl
					if len(p.Units) == 1 {
						h = hk
					}
					o.srs[i] = runOnCtxKind(mapp, term, p.texts[i], args, own, p.Driver == "ownroot", h)
				}(i)
			}
			close(start)
			wg.Wait()
			ae := len(mapp.Scopes().App().Errors())
			for i := range o.srs {
				o.srs[i].Driver = p.Driver
				o.srs[i].AppErrs = ae
				if ae > 0 {
					o.srs[i].Marks = append(o.srs[i].Marks, fmt.Sprintf("application scope holds %d error(s)", ae))
				}
			}
			func() {
				defer func() { recover() }()
				mapp.Scopes().App().Close()
			}()
		}
		done <- o
	}()
	select {
	case out = <-done:
		return out
	case <-time.After(watchdogS * time.Second):
	}
	// The watchdog expired. That alone decides nothing: look whether the program can still move.
	out.timeout = true
	s1 := x.seq.Load()
	d1 := dumpAll()
	time.Sleep(time.Second)
	select {
	case out = <-done:
		return out
	default:
	}
	d2 := dumpAll()
	if x.seq.Load() != s1 || x.inside.Load() != 0 {
		return out
	}
	var sb strings.Builder
	n := 0
	for id, g := range d2 {
		if !hasFrame(g, "github.com/goatcms/goatcore/") {
			continue
		}
		if hasFrame(g, "contextscope.NewIsolated") { // helper goroutines that wait for a scope's end by design
			continue
		}
		o := d1[id]
		if o == nil || !blockedWait[g.state] || strings.Join(o.frames, "|") != strings.Join(g.frames, "|") {
			return out // something inside the library is running or has moved
		}
		n++
		sb.WriteString(g.raw + "\n\n")
	}
	if n > 0 {
		out.stuck = sb.String()
	}
	return out
}

// failSandboxBuilder provides the sandbox "c16fail": Run reports a failure only through the returned
// error, the way the ssh and container sandboxes do (the self sandbox also records it on the scope).
type failSandboxBuilder struct{}

func (failSandboxBuilder) Is(name string) bool { return name == "c16fail" }
func (failSandboxBuilder) Build(name string) (pipservices.Sandbox, error) {
	return failSandbox{}, nil
}

type failSandbox struct{}

func (failSandbox) Run(ctx app.IOContext) error { return fmt.Errorf("exit status 1") }
