package main

import (
	"fmt"
	"math/rand"
	"strings"
)

// Cmd is one command of a generated program: a probe, a nested pip:run task or a pip:try.
type Cmd struct {
	K      string `json:"k"`            // "p" probe, "r" pip:run, "t" pip:try
	ID     int    `json:"id,omitempty"` // probe id
	F      string `json:"f,omitempty"`  // probe failure: "" none, "ret" returns an error, "app" appends one to its scope, "stop" stops its scope and then returns an error (bodies of the exhaustive family only), "eof" the line ends inside a quote (last line of a heredoc body only): it cannot be split into arguments, the command never begins and the loop fails
	H      int    `json:"h,omitempty"`  // hold kind: 0 none, 1 Gosched×N, 2 sleep N µs
	N      int    `json:"n,omitempty"`
	Name   string `json:"name,omitempty"`
	Body   []*Cmd `json:"body,omitempty"`
	Succ   []*Cmd `json:"succ,omitempty"` // nil = handler not defined
	Fail   []*Cmd `json:"fail,omitempty"`
	Fin    []*Cmd `json:"fin,omitempty"`
	Silent int    `json:"silent,omitempty"`  // 0 not given, 1 --silent=true, 2 --silent=false
	Quote  bool   `json:"quote,omitempty"`   // write single-probe values as "…" instead of a heredoc
	Sb     string `json:"sandbox,omitempty"` // pip:run only: a sandbox registered by the harness whose Run only returns an error
}

// builder hands out unique probe ids and task names.
type builder struct {
	nextID, nextName int
	probes           map[int]*Cmd
}

func newBuilder() *builder { return &builder{probes: map[int]*Cmd{}} }

func (b *builder) probe(f string, h, n int) *Cmd {
	b.nextID++
	c := &Cmd{K: "p", ID: b.nextID, F: f, H: h, N: n}
	b.probes[c.ID] = c
	return c
}

func (b *builder) name(prefix string) string {
	b.nextName++
	// nested tasks and tries may be called anything – also what pip:try calls its own handler and
	// body tasks (the first name of a program, the top-level try, keeps its ordinary name)
	switch b.nextName {
	case 2:
		return "finally"
	case 4:
		return "fail"
	case 5:
		return "success"
	case 7:
		return "body"
	}
	return fmt.Sprintf("%s%d", prefix, b.nextName)
}

func (b *builder) run(body ...*Cmd) *Cmd { return &Cmd{K: "r", Name: b.name("n"), Body: body} }

// runFailSandbox is a nested task in the sandbox "c16fail": its Run never looks at the body and
// reports its failure only through the returned error (as the ssh and container sandboxes do).
func (b *builder) runFailSandbox() *Cmd {
	return &Cmd{K: "r", Name: b.name("n"), Body: []*Cmd{}, Sb: "c16fail"}
}

func (b *builder) try(body, succ, fail, fin []*Cmd) *Cmd {
	return &Cmd{K: "t", Name: b.name("t"), Body: body, Succ: succ, Fail: fail, Fin: fin}
}

// ---- static semantics (written from the property statement) -----------------------------------

// cmdFails: does the command end in failure when it runs to its end undisturbed?
// A probe fails iff it is told to; a nested task fails iff its body does; a try fails iff one
// of the handlers it has to run fails – never because of its body.
func cmdFails(c *Cmd) bool {
	switch c.K {
	case "p":
		return c.F != "" && c.F != "stopok"
	case "r":
		if c.Sb != "" {
			return true
		}
		return seqFails(c.Body)
	default:
		return tryFails(c)
	}
}

func seqFails(cmds []*Cmd) bool {
	for _, c := range cmds {
		if cmdFails(c) {
			return true
		}
	}
	return false
}

func tryFails(c *Cmd) bool {
	bf := seqFails(c.Body)
	if c.Fin != nil && seqFails(c.Fin) {
		return true
	}
	if bf && c.Fail != nil && seqFails(c.Fail) {
		return true
	}
	if !bf && c.Succ != nil && seqFails(c.Succ) {
		return true
	}
	return false
}

func probeIDs(cmds []*Cmd) (out []int) {
	for _, c := range cmds {
		switch c.K {
		case "p":
			out = append(out, c.ID)
		case "r":
			out = append(out, probeIDs(c.Body)...)
		default:
			out = append(out, probeIDs(c.Body)...)
			out = append(out, probeIDs(c.Succ)...)
			out = append(out, probeIDs(c.Fail)...)
			out = append(out, probeIDs(c.Fin)...)
		}
	}
	return
}

const (
	expNot  = 0 // must not begin
	expMust = 1 // must begin and end
	expMay  = 2 // may or may not run (the context it runs in can be ended by a failing sibling handler)
)

type hinfo struct {
	Kind           string // success | fail | finally
	Cmds           []*Cmd
	Selected       bool // the statement says it runs
	CanFail        bool
	SiblingCanFail bool
	Probes         []int
}

type tinfo struct {
	C          *Cmd
	Mode       int
	BodyFails  bool
	BodyProbes []int
	H          []*hinfo
	Depth      int
}

type model struct {
	exp   map[int]int
	tries []*tinfo
}

func newModel(top []*Cmd) *model {
	m := &model{exp: map[int]int{}}
	m.exec(top, expMust, 0)
	return m
}

// exec walks a command sequence the way one command loop runs it: in order, nothing after the
// first failing command.
func (m *model) exec(cmds []*Cmd, mode, depth int) bool {
	failed := false
	for _, c := range cmds {
		cm := mode
		if failed {
			cm = expNot
		}
		switch c.K {
		case "p":
			m.exp[c.ID] = cm
			if c.F == "eof" {
				m.exp[c.ID] = expNot // the line is refused before any command starts
			}
			if cm != expNot && c.F != "" && c.F != "stopok" {
				failed = true
			}
		case "r":
			if c.Sb != "" {
				if cm != expNot {
					failed = true
				}
				continue
			}
			if m.exec(c.Body, cm, depth) && cm != expNot {
				failed = true
			}
		default:
			if m.execTry(c, cm, depth) && cm != expNot {
				failed = true
			}
		}
	}
	return failed
}

func (m *model) execTry(c *Cmd, mode, depth int) bool {
	t := &tinfo{C: c, Mode: mode, Depth: depth, BodyFails: seqFails(c.Body), BodyProbes: probeIDs(c.Body)}
	m.tries = append(m.tries, t)
	m.exec(c.Body, mode, depth+1)
	add := func(kind string, cmds []*Cmd, sel bool) {
		if cmds == nil {
			return
		}
		t.H = append(t.H, &hinfo{Kind: kind, Cmds: cmds, Selected: sel && mode != expNot, CanFail: seqFails(cmds), Probes: probeIDs(cmds)})
	}
	add("finally", c.Fin, true)
	add("fail", c.Fail, t.BodyFails)
	add("success", c.Succ, !t.BodyFails)
	anyFail := false
	for _, h := range t.H {
		if !h.Selected {
			m.exec(h.Cmds, expNot, depth+1)
			continue
		}
		for _, g := range t.H {
			if g != h && g.Selected && g.CanFail {
				h.SiblingCanFail = true
			}
		}
		hm := mode
		if h.SiblingCanFail {
			hm = expMay
		}
		m.exec(h.Cmds, hm, depth+1)
		if h.CanFail {
			anyFail = true
		}
	}
	return anyFail
}

// ---- rendering ----------------------------------------------------------------------------------

// renderer writes programs as terminal text. Multi-line values use the heredoc form
// name=<<TAG … TAG with fixed-length tags that are unique in the whole program, so heredocs nest.
type renderer struct{ tag int }

func (rd *renderer) nextTag() string {
	t := rd.tag
	rd.tag++
	return "Q" + string(rune('A'+(t/26)%26)) + string(rune('A'+t%26))
}

func (rd *renderer) lines(cmds []*Cmd) string {
	out := make([]string, 0, len(cmds))
	for _, c := range cmds {
		out = append(out, rd.line(c))
	}
	return strings.Join(out, "\n")
}

func (rd *renderer) value(cmds []*Cmd, quote bool) string {
	if quote && len(cmds) == 1 && cmds[0].K == "p" {
		return "\"" + rd.line(cmds[0]) + "\""
	}
	tag := rd.nextTag()
	return "<<" + tag + "\n" + rd.lines(cmds) + "\n" + tag
}

func silentFlag(s int) string {
	switch s {
	case 1:
		return " --silent=true"
	case 2:
		return " --silent=false"
	}
	return ""
}

func (rd *renderer) line(c *Cmd) string {
	switch c.K {
	case "p":
		if c.F == "eof" {
			return fmt.Sprintf("probe --id=%d --note=\"the text ends inside this quote", c.ID)
		}
		return fmt.Sprintf("probe --id=%d", c.ID)
	case "r":
		if c.Sb != "" {
			return fmt.Sprintf("pip:run --name=%s --sandbox=%s --body=\"ignored by the sandbox\"%s", c.Name, c.Sb, silentFlag(c.Silent))
		}
		return fmt.Sprintf("pip:run --name=%s --body=%s%s", c.Name, rd.value(c.Body, c.Quote), silentFlag(c.Silent))
	default:
		var sb strings.Builder
		fmt.Fprintf(&sb, "pip:try --name=%s --body=%s", c.Name, rd.value(c.Body, c.Quote))
		if c.Succ != nil {
			sb.WriteString(" --success=" + rd.value(c.Succ, c.Quote))
		}
		if c.Fail != nil {
			sb.WriteString(" --fail=" + rd.value(c.Fail, c.Quote))
		}
		if c.Fin != nil {
			sb.WriteString(" --finally=" + rd.value(c.Fin, c.Quote))
		}
		sb.WriteString(silentFlag(c.Silent))
		return sb.String()
	}
}

// args renders a top-level pip:try as an already split argument list (as the application gets
// it from its command line): values are the raw multi-line texts.
func (rd *renderer) args(c *Cmd) []string {
	out := []string{"pip:try", "--name=" + c.Name, "--body=" + rd.lines(c.Body)}
	if c.Succ != nil {
		out = append(out, "--success="+rd.lines(c.Succ))
	}
	if c.Fail != nil {
		out = append(out, "--fail="+rd.lines(c.Fail))
	}
	if c.Fin != nil {
		out = append(out, "--finally="+rd.lines(c.Fin))
	}
	switch c.Silent {
	case 1:
		out = append(out, "--silent=true")
	case 2:
		out = append(out, "--silent=false")
	}
	return out
}

// ---- generators ---------------------------------------------------------------------------------

func genHold(rng *rand.Rand) (int, int) {
	switch rng.Intn(5) {
	case 0, 1:
		return 0, 0
	case 2, 3:
		return 1, 1 + rng.Intn(8)
	default:
		return 2, 1 + rng.Intn(250)
	}
}

func failKind(rng *rand.Rand) string {
	if rng.Intn(2) == 0 {
		return "ret"
	}
	return "app"
}

func (b *builder) genProbe(rng *rand.Rand, fail bool) *Cmd {
	h, n := genHold(rng)
	f := ""
	if fail {
		f = failKind(rng)
		if f == "app" && rng.Intn(2) == 0 { // keep running for a while after the error is on the scope
			h, n = 2, 50+rng.Intn(300)
		}
	}
	return b.probe(f, h, n)
}

// genCmd returns one command that fails iff fail.
func (b *builder) genCmd(rng *rand.Rand, depth int, fail, allowTry, allowRun bool) *Cmd {
	x := rng.Intn(100)
	switch {
	case allowTry && x < 14:
		return b.genTry(rng, depth+1, &fail)
	case allowRun && x < 38:
		n := 1 + rng.Intn(2)
		j := -1
		if fail {
			j = rng.Intn(n)
		}
		var body []*Cmd
		for i := 0; i < n; i++ {
			body = append(body, b.genProbe(rng, i == j))
		}
		c := b.run(body...)
		c.Quote = rng.Intn(2) == 0
		c.Silent = rng.Intn(3)
		return c
	default:
		return b.genProbe(rng, fail)
	}
}

// genSeq returns n commands; the sequence fails iff fail (at a random position; the commands
// behind it are still generated: they must never begin).
func (b *builder) genSeq(rng *rand.Rand, depth, n int, fail, allowTry, allowRun bool) []*Cmd {
	j := -1
	if fail {
		j = rng.Intn(n)
	}
	var out []*Cmd
	for i := 0; i < n; i++ {
		f := i == j
		if i > j && j >= 0 && rng.Intn(3) == 0 {
			f = true // a second failing command behind the first one
		}
		out = append(out, b.genCmd(rng, depth, f, allowTry, allowRun))
	}
	return out
}

// genTry returns a try; if fails != nil the try as a command fails iff *fails.
func (b *builder) genTry(rng *rand.Rand, depth int, fails *bool) *Cmd {
	bodyFail := rng.Intn(100) < 48
	body := b.genSeq(rng, depth, 1+rng.Intn(3), bodyFail, depth < 1, true)
	defS, defF, defFin := rng.Intn(100) < 62, rng.Intn(100) < 62, rng.Intn(100) < 68
	selKind := "success"
	if bodyFail {
		selKind = "fail"
	}
	selDef := defS
	if bodyFail {
		selDef = defF
	}
	// failure plan of the handlers
	fS, fF, fFin := rng.Intn(100) < 30, rng.Intn(100) < 30, rng.Intn(100) < 30
	if fails != nil {
		if *fails {
			if !selDef && !defFin {
				defFin = true
			}
			if selKind == "success" {
				selDef = defS
			} else {
				selDef = defF
			}
			// at least one handler that runs fails
			selFails := fFin && defFin
			if selKind == "success" && defS && fS || selKind == "fail" && defF && fF {
				selFails = true
			}
			if !selFails {
				if defFin && (!selDef || rng.Intn(2) == 0) {
					fFin = true
				} else if selKind == "success" {
					fS = true
				} else {
					fF = true
				}
			}
		} else {
			fFin = false
			if selKind == "success" {
				fS = false
			} else {
				fF = false
			}
		}
	}
	h := func(def, fail bool) []*Cmd {
		if !def {
			return nil
		}
		return b.genSeq(rng, depth, 1+rng.Intn(2), fail, false, rng.Intn(4) == 0)
	}
	c := b.try(body, h(defS, fS), h(defF, fF), h(defFin, fFin))
	c.Quote = rng.Intn(2) == 0
	c.Silent = rng.Intn(3)
	return c
}

// ---- bounded-exhaustive family --------------------------------------------------------------------

const (
	exhBodies   = 13
	exhHandlers = 4
	exhDrivers  = 3
	exhTotal    = exhDrivers * exhBodies * exhHandlers * exhHandlers * exhHandlers
)

var exhBodyNames = []string{"ok", "fail-return", "fail-append-then-hold", "ok;fail-return", "task(ok);ok", "task(fail);ok", "try(body fails, handled);ok", "try(finally fails)", "task(sandbox Run returns an error);ok", "ok;line ending inside a quote", "stops its scope, then fails", "stops its scope without any error", "kills its scope and returns the error"}
var exhHandlerNames = []string{"-", "ok", "fail-return", "fail-append"}

// exhProgram decodes idx into (driver, body kind, success, fail, finally kinds). The structure is
// enumerated completely; only the holds are drawn from the case PRNG.
func exhProgram(idx int, rng *rand.Rand) (b *builder, top *Cmd, driver string, label string) {
	b = newBuilder()
	d := idx % exhDrivers
	idx /= exhDrivers
	bk := idx % exhBodies
	idx /= exhBodies
	hs, hf, hfin := idx%exhHandlers, (idx/exhHandlers)%exhHandlers, (idx/exhHandlers/exhHandlers)%exhHandlers
	hold := func() (int, int) { return genHold(rng) }
	var body []*Cmd
	switch bk {
	case 0:
		h, n := hold()
		body = []*Cmd{b.probe("", h, n)}
	case 1:
		h, n := hold()
		body = []*Cmd{b.probe("ret", h, n)}
	case 2:
		body = []*Cmd{b.probe("app", 2, 100+rng.Intn(300))}
	case 3:
		h, n := hold()
		body = []*Cmd{b.probe("", 2, 50+rng.Intn(200)), b.probe("ret", h, n), b.probe("", 0, 0)}
	case 4:
		body = []*Cmd{b.run(b.probe("", 2, 50+rng.Intn(200))), b.probe("", 0, 0)}
	case 5:
		h, n := hold()
		body = []*Cmd{b.run(b.probe(failKind(rng), h, n)), b.probe("", 0, 0)}
	case 6:
		inner := b.try([]*Cmd{b.probe(failKind(rng), 0, 0)}, nil, []*Cmd{b.probe("", 0, 0)}, nil)
		body = []*Cmd{inner, b.probe("", 1, 2)}
	case 8:
		body = []*Cmd{b.runFailSandbox(), b.probe("", 0, 0)}
	case 9:
		h, n := hold()
		body = []*Cmd{b.probe("", h, n), b.probe("eof", 0, 0)}
	case 10:
		h, n := hold()
		body = []*Cmd{b.probe("stop", h, n)}
	case 11:
		h, n := hold()
		body = []*Cmd{b.probe("stopok", h, n)}
	case 12:
		h, n := hold()
		body = []*Cmd{b.probe("kill", h, n)}
	case 7:
		inner := b.try([]*Cmd{b.probe("", 0, 0)}, nil, nil, []*Cmd{b.probe(failKind(rng), 0, 0)})
		body = []*Cmd{inner, b.probe("", 0, 0)}
	default:
		panic("exhProgram: unknown body kind")
	}
	hk := func(k int) []*Cmd {
		switch k {
		case 0:
			return nil
		case 1:
			h, n := hold()
			return []*Cmd{b.probe("", h, n)}
		case 2:
			h, n := hold()
			return []*Cmd{b.probe("ret", h, n)}
		default:
			h, n := hold()
			return []*Cmd{b.probe("app", h, n)}
		}
	}
	top = b.try(body, hk(hs), hk(hf), hk(hfin))
	top.Quote = rng.Intn(2) == 0
	top.Silent = rng.Intn(3)
	driver = []string{"term", "args", "ownroot"}[d]
	label = fmt.Sprintf("body=%s success=%s fail=%s finally=%s", exhBodyNames[bk], exhHandlerNames[hs], exhHandlerNames[hf], exhHandlerNames[hfin])
	return
}
