// C16 – pip:try runs exactly the matching handler and contains the body's failure.
//
// Runtime monitors (DESIGN.md "### C16"): generated pip:try programs are run through the real
// application stack (goatapp mock application + terminalm, commonm, ocm, pipelinem) with a probe
// command that logs begin/end events; an offline oracle over the probe log and over what the
// surrounding scopes report decides.
//
//	exh      every combination of 8 body kinds × {absent, ok, failing by return, failing by append}³
//	         handlers × {terminal, command-line arguments} (structure complete, holds seeded)
//	rand     random programs: multi-command bodies failing at any command, nested pip:run tasks,
//	         nested tries, handlers with several commands; drivers: terminal on a context of its
//	         own, on the application's context, several tries at once, arguments, terminal script
//	refuse   scripted schedule through the verif hook in pipc.Try: the finally handler has failed
//	         before the success/fail handler is submitted
//	orphan   nested try, finally fails while the try goroutine naps at the hook: the other
//	         handler is submitted into a scope that has ended but is accepted by the task manager
//	witness  the minimal witness programs of the known finding C16-F1, verbatim
package main

import (
	"fmt"
	"math/rand"
	"strings"

	"verif/internal/sup"
)

type sizes struct{ exhRounds, rand, refuse, orphan, witness int }

func tierSizes(tier string) sizes {
	if tier == "thorough" {
		return sizes{exhRounds: 10, rand: 40000, refuse: 800, orphan: 9600, witness: 600}
	}
	return sizes{exhRounds: 2, rand: 3600, refuse: 96, orphan: 1600, witness: 80}
}

var procCycle = []int{4, 1, 2, 8, 2, 4, 16, 2}

func chunkVar(name, kind string, n, nb, timeout int) []sup.Batch {
	var out []sup.Batch
	if n <= 0 {
		return nil
	}
	per := (n + nb - 1) / nb
	for i, from := 0, 0; from < n; i, from = i+1, from+per {
		to := from + per
		if to > n {
			to = n
		}
		out = append(out, sup.Batch{Name: fmt.Sprintf("%s-%d", name, i), Kind: kind, From: from, To: to,
			Procs: procCycle[i%len(procCycle)], TimeoutS: timeout, MemMB: 3072})
	}
	return out
}

func plan(tier string, seed int64) []sup.Batch {
	z := tierSizes(tier)
	nb := 8
	if tier == "thorough" {
		nb = 24
	}
	var bs []sup.Batch
	bs = append(bs, chunkVar("witness", "witness", z.witness, 2, 1500)...)
	bs = append(bs, chunkVar("refuse", "refuse", z.refuse, 2, 1500)...)
	// the orphan schedule needs parallelism and its failure is process-fatal: many small batches
	ob := chunkVar("orphan", "orphan", z.orphan, z.orphan/100, 1500)
	for i := range ob {
		ob[i].Procs = []int{4, 2, 8, 2}[i%4]
	}
	bs = append(bs, ob...)
	bs = append(bs, chunkVar("exh", "exh", exhTotal*z.exhRounds, nb, 1500)...)
	bs = append(bs, chunkVar("rand", "rand", z.rand, nb, 1500)...)
	return bs
}

// ---- case construction -----------------------------------------------------------------------------

func exhCase(idx int, rng *rand.Rand) *caseProg {
	b, top, driver, label := exhProgram(idx%exhTotal, rng)
	p := &caseProg{Driver: driver, Units: [][]*Cmd{{top}}, B: b, Label: label}
	hookPerturb(p, rng)
	return p
}

func hookPerturb(p *caseProg, rng *rand.Rand) {
	switch rng.Intn(10) {
	case 0, 1:
		p.HookUS = 1 + rng.Intn(300)
	case 2:
		p.HookY = 1 + rng.Intn(20)
	}
}

var randDrivers = []string{"term", "term", "termargs", "shared", "conc", "conc", "args", "args", "script", "scriptstrict", "ownroot"}

func randCase(idx int, rng *rand.Rand) *caseProg {
	b := newBuilder()
	p := &caseProg{Driver: randDrivers[rng.Intn(len(randDrivers))], B: b}
	switch p.Driver {
	case "conc":
		n := 2 + rng.Intn(3)
		for i := 0; i < n; i++ {
			p.Units = append(p.Units, []*Cmd{b.genTry(rng, 0, nil)})
		}
	case "script", "scriptstrict":
		// strict terminal: one command loop, it ends at the first failing line. Non-strict
		// terminal: every line is a unit of its own (a failing line ends only its own loop).
		n := 1 + rng.Intn(3)
		var u []*Cmd
		for i := 0; i < n; i++ {
			if rng.Intn(5) == 0 {
				u = append(u, b.genProbe(rng, false))
			}
			u = append(u, b.genTry(rng, 0, nil))
		}
		if p.Driver == "scriptstrict" {
			p.Units = [][]*Cmd{u}
		} else {
			for _, c := range u {
				p.Units = append(p.Units, []*Cmd{c})
			}
		}
	default:
		p.Units = [][]*Cmd{{b.genTry(rng, 0, nil)}}
	}
	hookPerturb(p, rng)
	return p
}

// refuseCase: the finally handler fails; the try goroutine is held at the hook until the
// surrounding context is done, then submits the success / fail handler.
func refuseCase(idx int, rng *rand.Rand) *caseProg {
	b := newBuilder()
	k := idx % 8
	bodyFail := k&1 == 1
	finKind := []string{"ret", "app"}[(k>>1)&1]
	driver := []string{"term", "args"}[(k>>2)&1]
	bf := ""
	if bodyFail {
		bf = "ret"
	}
	body := []*Cmd{b.probe(bf, 0, 0)}
	other := []*Cmd{b.probe("", 0, 0)}
	fin := []*Cmd{b.probe(finKind, 0, 0)}
	var top *Cmd
	if bodyFail {
		top = b.try(body, nil, other, fin)
	} else {
		top = b.try(body, other, nil, fin)
	}
	top.Quote = rng.Intn(2) == 0
	return &caseProg{Driver: driver, Units: [][]*Cmd{{top}}, B: b, Gate: true,
		Label: fmt.Sprintf("finally fails (%s) before the %s handler is submitted", finKind, map[bool]string{true: "fail", false: "success"}[bodyFail])}
}

// orphanCase: a nested try whose finally handler fails at once while the try goroutine naps at
// the hook: the inner fail/success handler is then submitted into a surrounding scope (the outer
// body's) that has already ended, while the task manager's root scope (the outer command's) is
// still alive. The outer try has few or no handlers, so that the late handler task is the last
// thing the outer command scope waits for.
func orphanCase(idx int, rng *rand.Rand) *caseProg {
	b := newBuilder()
	k := idx % 16
	bodyFail := k&1 == 1
	finKind := []string{"ret", "app"}[(k>>1)&1]
	driver := []string{"term", "args"}[(k>>2)&1]
	outerFin := (k>>3)&1 == 1
	bf := ""
	if bodyFail {
		bf = "ret"
	}
	other := []*Cmd{b.probe("", 0, 0)}
	fin := []*Cmd{b.probe(finKind, 0, 0)}
	var inner *Cmd
	if bodyFail {
		inner = b.try([]*Cmd{b.probe(bf, 0, 0)}, nil, other, fin)
	} else {
		inner = b.try([]*Cmd{b.probe(bf, 0, 0)}, other, nil, fin)
	}
	var ofin []*Cmd
	if outerFin {
		ofin = []*Cmd{b.probe("", 0, 0)}
	}
	top := b.try([]*Cmd{inner}, nil, nil, ofin)
	top.Quote = rng.Intn(2) == 0
	return &caseProg{Driver: driver, Units: [][]*Cmd{{top}}, B: b, HookUS: 150 + rng.Intn(300),
		Label: fmt.Sprintf("nested try: finally fails (%s) before the %s handler is submitted", finKind, map[bool]string{true: "fail", false: "success"}[bodyFail])}
}

// witnessCase: the minimal witness programs of C16-F1, exactly as recorded:
//
//	appname pip:try --name=t --body="probe --id=1" --success="probe --id=2" --finally="probe --id=3"   (probe 2 fails)
//	appname pip:try --name=t --body="probe --id=1" --fail="probe --id=2" --finally="probe --id=3"      (probes 1 and 2 fail)
func witnessCase(idx int) *caseProg {
	b := newBuilder()
	var top *Cmd
	if idx%2 == 0 {
		top = &Cmd{K: "t", Name: "t", Body: []*Cmd{b.probe("", 0, 0)}, Succ: []*Cmd{b.probe("ret", 0, 0)}, Fin: []*Cmd{b.probe("", 0, 0)}}
	} else {
		top = &Cmd{K: "t", Name: "t", Body: []*Cmd{b.probe("ret", 0, 0)}, Fail: []*Cmd{b.probe("ret", 0, 0)}, Fin: []*Cmd{b.probe("", 0, 0)}}
	}
	return &caseProg{Driver: "args", Units: [][]*Cmd{{top}}, B: b, Label: "C16-F1 witness"}
}

// ---- running a case --------------------------------------------------------------------------------

// runCase returns ok=false when the batch must stop (goroutines of a stuck program stay behind).
func runCase(c *sup.Child, idx int, kind string, p *caseProg) (ok, violated bool) {
	p.render()
	ok = true
	c.Case(idx, p.desc(kind), func(r *sup.CaseResult) {
		defer func() { violated = len(r.Violations) > 0 }()
		x := &execRun{probes: p.B.probes}
		hk := &hookCtl{gate: p.Gate, delayUS: p.HookUS, yields: p.HookY}
		curHook.Store(hk)
		defer curHook.Store(nil)
		out := execute(p, x, hk)
		r.Key = p.Driver + "|" + strings.Join(p.texts, "||")
		switch {
		case out.buildErr != nil:
			r.Inconclusive = "application stack could not be built: " + out.buildErr.Error()
			return
		case out.stuck != "":
			l := newPlog(x)
			r.Violate("try-stuck", fmt.Sprintf("program %q does not finish: no probe is running, the probe log [%s] has stopped growing and every goroutine inside the library is parked with an unchanged stack", p.texts, l.trace()), out.stuck)
			ok = false
			return
		case out.timeout:
			r.Inconclusive = fmt.Sprintf("program %q did not finish within the %d s watchdog and no standstill could be diagnosed", p.texts, watchdogS)
			ok = false
			return
		}
		l := newPlog(x)
		var st checkStats
		for i, u := range p.Units {
			var sr surround
			if p.Driver == "script" {
				sr = surround{Driver: "script", PerLine: true}
			} else {
				sr = out.srs[i]
			}
			checkUnit(r, u, p.texts[i], l, sr, p.B.probes, &st)
			if p.Driver == "script" && seqFails(u) {
				// Lines behind the first line with a failing handler are not judged: the session's
				// task manager stays bound to the scope of the loop that has just failed and
				// refuses every later pip:try / pip:run ("scope is done") – nothing C16 speaks about.
				r.AddObs("script_lines_not_judged_after_a_failed_line", int64(len(p.Units)-i-1))
				break
			}
		}
		if p.Driver == "script" {
			checkScript(r, p, l, out.srs[0], &st)
		}
		x.mu.Lock()
		unknown := append([]string{}, x.unknown...)
		x.mu.Unlock()
		if len(unknown) > 0 {
			r.Violate("unknown-probe", fmt.Sprintf("probe called with ids %q that the program %q does not contain", unknown, p.texts), nil)
		}
		st.flush(r)
		r.AddObs("programs", 1)
		r.AddObs("programs_driver_"+p.Driver, 1)
		r.AddObs("probe_events", int64(len(l.evs)))
		r.AddObs("hook_hits", hk.hits.Load())
		if len(p.Units) > 1 {
			r.AddObs("tries_run_at_the_same_time", int64(len(p.Units)))
		}
		if p.Gate {
			r.AddObs("scripted_schedules", 1)
			if hk.hits.Load() == 0 {
				r.Inconclusive = "hook point " + hookPoint + " was never reached (worker built without the verif hook patch?)"
			} else if hk.expired.Load() {
				r.Inconclusive = "the surrounding context did not end while the try goroutine was held at the hook"
			}
		}
		r.Nontrivial = st.handlersSelected > 0
		if (kind == "exh" && idx%173 == 5) || (kind == "rand" && idx%257 == 3) || (kind == "refuse" && idx == 1) || (kind == "orphan" && idx == 2) {
			r.Sample = map[string]any{"kind": kind, "driver": p.Driver, "program": p.texts, "probe_log": l.trace(), "surroundings": out.srs}
		}
	})
	return ok, violated
}

func run(c *sup.Child, b sup.Batch) {
	installHook()
	// A replay restricts the batch to one case. Schedules are reproducible only statistically,
	// so the recorded case is repeated until it shows a violation again (at most 200 times).
	repeat := 1
	if !c.Want(-1) {
		repeat = 200
	}
	for idx := b.From; idx < b.To; idx++ {
		if !c.Want(idx) {
			continue
		}
		var p *caseProg
		switch b.Kind {
		case "exh":
			p = exhCase(idx, c.Rand(idx))
		case "rand":
			p = randCase(idx, c.Rand(idx))
		case "refuse":
			p = refuseCase(idx, c.Rand(idx))
		case "witness":
			p = witnessCase(idx)
		case "orphan":
			p = orphanCase(idx, c.Rand(idx))
		default:
			return
		}
		for k := 0; k < repeat; k++ {
			ok, violated := runCase(c, idx, b.Kind, p)
			if !ok {
				return
			}
			if violated {
				break
			}
		}
	}
}

func main() {
	sup.Main(sup.Prop{
		ID:    "C16",
		Level: "exploration",
		Race:  true,
		Rule: "exh: all 9×4×4×4 combinations of body kind (ok / fails by return / fails by append and keeps running / fails at the 2nd command / nested task ok / nested task fails / nested try whose body fails / nested try whose finally fails / nested task in a sandbox whose Run only returns an error) and success, fail, finally handler kind (absent / ok / fails by return / fails by append), each through the terminal service and through the application's argument list; " +
			"rand: random pip:try programs (1–3 body commands failing at any position, nested pip:run tasks and nested tries, handlers of 1–2 commands, holds) run on a context of their own, on the application's context, 2–4 at the same time, from the argument list and from a terminal script; " +
			"refuse: finally failed before the other handler is submitted (verif hook, scripted); orphan: the same inside a nested try (verif hook, nap); witness: the recorded minimal programs of C16-F1. " +
			"distinct = distinct (driver, program text); non-trivial = at least one handler has to run",
		Assumptions: []string{
			"the finally handler 'runs' when at least one of its commands began; a handler that is cut short because a sibling handler failed meanwhile is not judged (the statement only says which handlers run)",
			"body outcome = failed iff one of its commands or a task it spawned failed (probe result at design time: the fail handler runs for a failing nested task)",
			"interleavings are those the scheduler produced under GOMAXPROCS 1…16, holds inside probes and naps at the verif hook in pipc.Try; race reports are recorded, they do not decide",
			"nothing-begins-after-a-failing-command inside one command loop (C14's rule 3) is checked as well because the body outcome is defined through it",
		},
		Plan:        plan,
		Run:         run,
		RaceAnchors: []string{"pipcommands/pipc/try.go", "pipservices/runner/runner.go", "app/scope/scope.go"},
		RaceDecides: false,
		Finish: func(t *sup.Totals) string {
			o := t.Obs
			switch {
			case o["programs"] == 0 || o["probe_events"] == 0:
				return "no program ran"
			case o["tries_body_failed"] == 0 || o["tries_body_succeeded"] == 0:
				return "the monitor did not see both body outcomes"
			case o["handler_after_body_order_pairs"] == 0 || o["handlers_begun"] == 0:
				return "no handler was observed"
			case o["handlers_expected_silent"] == 0:
				return "no case with a handler that must stay silent"
			case o["body_failures_contained"] == 0 || o["handler_failures_reported_by_surrounding_scope"] == 0:
				return "containment was not exercised in both directions"
			case o["scripted_schedules"] > 0 && o["hook_hits"] == 0:
				return "the verif hook was never hit"
			}
			return ""
		},
		Exhaustive: func(tier string) string {
			return "all 9 body kinds × 4³ handler kinds × 2 drivers (program structure; holds are seeded)"
		},
	})
}
