package main

// ---- W8: copies that meet a busy file, and copies in opposite directions ---------------------------------
//
// (a) busy file: goroutine 0 holds a stream writer on s/f; goroutine 1 copies s/f to d/g (it has to
// wait for the writer); goroutine 0 then lists d and writes another file into d BEFORE it closes
// the writer – a copy that waits for its source must not hold up the destination directory, or
// the owner of the handle can never get to its Close. (b) crossing copies: a is copied below b
// while b is copied below a, from 2–4 goroutines. Both must complete (completion or the
// deadlock diagnosis of runGoroutines) and the copies must be whole.

import (
	"fmt"
	"math/rand"
	"runtime"
	"strings"
	"sync/atomic"
	"time"

	"verif/internal/sup"

	"github.com/goatcms/goatcore/filesystem/filespace/memfs"
)

func w8(r *sup.CaseResult, rng *rand.Rand, g int) {
	if rng.Intn(2) == 0 {
		w8busy(r, rng)
	} else {
		w8cross(r, rng, g)
	}
}

func w8busy(r *sup.CaseResult, rng *rand.Rand) {
	fs, _ := memfs.NewFilespace()
	fs.MkdirAll("s", 0777)
	fs.MkdirAll("d", 0777)
	replace := rng.Intn(2) == 0
	if replace {
		fs.WriteFile("s/f", []byte(mkValue(0, 1)), 0644)
	}
	val := mkValue(0, 2)
	var copyStarted, copyErrSet int64
	var copyErr error
	var listed, wrote bool
	ok := runGoroutines(r, 2, func(i int) {
		if i == 1 {
			for k := 0; k < 200000 && atomic.LoadInt64(&copyStarted) == 0; k++ {
				runtime.Gosched()
			}
			copyErr = fs.Copy("s/f", "d/g")
			atomic.StoreInt64(&copyErrSet, 1)
			return
		}
		w, err := fs.Writer("s/f")
		if err != nil || w == nil {
			atomic.StoreInt64(&copyStarted, 1)
			return
		}
		w.Write([]byte(val[:len(val)/2]))
		atomic.StoreInt64(&copyStarted, 1)
		// wait (bounded) until the copier is parked inside memfs or has returned
		for k := 0; k < 400 && atomic.LoadInt64(&copyErrSet) == 0; k++ {
			parked := false
			for _, b := range workloadGoroutines(dump()) {
				if strings.Contains(b.body, "memfs.(*Filespace).Copy") && (strings.HasPrefix(b.state, "sync.") || strings.HasPrefix(b.state, "semacquire")) {
					parked = true
				}
			}
			if parked {
				r.AddObs("w8_copies_seen_waiting_for_a_busy_source", 1)
				break
			}
			time.Sleep(50 * time.Microsecond)
		}
		if _, err := fs.ReadDir("d"); err == nil {
			listed = true
		}
		if err := fs.WriteFile("d/other", []byte(mkValue(0, 3)), 0644); err == nil {
			wrote = true
		}
		w.Write([]byte(val[len(val)/2:]))
		w.Close()
	})
	if !ok {
		return
	}
	if !listed || !wrote {
		r.Violate("write-lost", fmt.Sprintf("while a copy waited for its busy source, ReadDir(\"d\") ok=%v, WriteFile(\"d/other\") ok=%v in the destination directory", listed, wrote), nil)
	}
	if copyErr == nil {
		got, err := fs.ReadFile("d/g")
		if err != nil || !valueOK(string(got)) {
			r.Violate("torn-read", fmt.Sprintf("Copy(\"s/f\",\"d/g\") returned nil while the source was being written; d/g reads %q (err %v), which is not a complete written value", clip(string(got), 60), err), nil)
		}
	}
	r.AddObs("w8_runs", 1)
	r.AddObs("w8_busy_file_runs", 1)
}

func w8cross(r *sup.CaseResult, rng *rand.Rand, g int) {
	if g > 4 {
		g = 2 + rng.Intn(3)
	}
	fs, _ := memfs.NewFilespace()
	for _, d := range []string{"a", "b"} {
		fs.MkdirAll(d+"/in", 0777)
		for k := 0; k < 1+rng.Intn(3); k++ {
			fs.WriteFile(fmt.Sprintf("%s/f%d", d, k), []byte(mkValue(k, 7)), 0644)
			fs.WriteFile(fmt.Sprintf("%s/in/f%d", d, k), []byte(mkValue(k, 8)), 0644)
		}
	}
	errs := make([]error, g)
	dsts := make([]string, g)
	ok := runGoroutines(r, g, func(i int) {
		src, dst := "a", fmt.Sprintf("b/in/x%d", i)
		if i%2 == 1 {
			src, dst = "b", fmt.Sprintf("a/in/y%d", i)
		}
		dsts[i] = dst
		errs[i] = fs.Copy(src, dst)
	})
	if !ok {
		return
	}
	for i, e := range errs {
		if e != nil {
			continue // the statement does not say a copy racing with changes of its source must succeed
		}
		// what was in the source before any copy started is in the copy, whole
		for _, f := range []string{"f0", "in/f0"} {
			got, err := fs.ReadFile(dsts[i] + "/" + f)
			if err != nil || !valueOK(string(got)) {
				r.Violate("torn-read", fmt.Sprintf("Copy to %q returned nil; %s/%s reads %q (err %v)", dsts[i], dsts[i], f, clip(string(got), 60), err), nil)
				return
			}
		}
		r.AddObs("w8_crossing_copies_completed", 1)
	}
	r.AddObs("w8_runs", 1)
	r.AddObs("w8_crossing_runs", 1)
}
