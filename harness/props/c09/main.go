// C09 – the in-memory filespace stays consistent under concurrent use.
package main

import (
	"fmt"
	"hash/crc32"
	"math/rand"
	"os"
	"runtime"
	"sort"
	"strings"
	"sync"
	"sync/atomic"
	"time"

	"verif/internal/mfs"
	"verif/internal/sup"

	"github.com/anishathalye/porcupine"
	"github.com/goatcms/goatcore/filesystem"
	"github.com/goatcms/goatcore/filesystem/filespace/memfs"
	"github.com/goatcms/goatcore/workers/verifhook"
)

// ---- unique, self-checking values ---------------------------------------------------------------------

const valLen = 48

func mkValue(g, n int) string {
	body := fmt.Sprintf("g%03d-%06d|", g, n)
	for len(body) < valLen-8 {
		body += "."
	}
	return body + fmt.Sprintf("%08x", crc32.ChecksumIEEE([]byte(body)))
}

func valueOK(v string) bool {
	if len(v) != valLen {
		return false
	}
	return fmt.Sprintf("%08x", crc32.ChecksumIEEE([]byte(v[:valLen-8]))) == v[valLen-8:]
}

// ---- history recorder -----------------------------------------------------------------------------------

type opRec struct {
	Client int
	Kind   string // write read remove isfile
	Path   string
	Arg    string // value written
	Call   int64
	Ret    int64
	OK     bool
	Out    string
}

type recorder struct {
	seq int64
	mu  sync.Mutex
	ops []opRec
}

func (r *recorder) call() int64 { return atomic.AddInt64(&r.seq, 1) }
func (r *recorder) done(o opRec) {
	o.Ret = atomic.AddInt64(&r.seq, 1)
	r.mu.Lock()
	r.ops = append(r.ops, o)
	r.mu.Unlock()
}

// register-with-existence model per file
type regIn struct {
	Kind string
	Arg  string
}
type regOut struct {
	OK  bool
	Val string
}

const absent = "\x00absent"

var regModel = porcupine.Model{
	Init: func() interface{} { return absent },
	Step: func(state, input, output interface{}) (bool, interface{}) {
		st := state.(string)
		in := input.(regIn)
		out := output.(regOut)
		switch in.Kind {
		case "write":
			if !out.OK {
				return false, st // a write to a file in an existing directory never fails
			}
			return true, in.Arg
		case "read":
			if st == absent {
				return !out.OK, st
			}
			return out.OK && out.Val == st, st
		case "isfile":
			return out.OK == (st != absent), st
		case "remove":
			if st == absent {
				return !out.OK, st
			}
			return out.OK, absent
		}
		return false, st
	},
	DescribeOperation: func(input, output interface{}) string {
		return fmt.Sprintf("%v -> %v", input, output)
	},
}

func checkRegisters(r *sup.CaseResult, ops []opRec, initial map[string]string, wit map[string]any) {
	byPath := map[string][]porcupine.Operation{}
	for _, o := range ops {
		byPath[o.Path] = append(byPath[o.Path], porcupine.Operation{ClientId: o.Client, Input: regIn{o.Kind, o.Arg}, Call: o.Call, Output: regOut{o.OK, o.Out}, Return: o.Ret})
	}
	for p, hist := range byPath {
		m := regModel
		init := absent
		if v, ok := initial[p]; ok {
			init = v
		}
		m.Init = func() interface{} { return init }
		res, _ := porcupine.CheckOperationsVerbose(m, hist, 60*time.Second)
		switch res {
		case porcupine.Ok:
			r.AddObs("porcupine_ok", 1)
		case porcupine.Unknown:
			r.AddObs("porcupine_unknown", 1)
			r.Inconclusive = "porcupine timed out on the history of " + p
		case porcupine.Illegal:
			r.AddObs("porcupine_illegal", 1)
			sort.Slice(hist, func(i, j int) bool { return hist[i].Call < hist[j].Call })
			var lines []string
			for _, h := range hist {
				lines = append(lines, fmt.Sprintf("c%d [%d,%d] %v -> %v", h.ClientId, h.Call, h.Return, h.Input, h.Output))
			}
			if len(lines) > 60 {
				lines = lines[:60]
			}
			w := map[string]any{"file": p, "history": lines}
			for k, v := range wit {
				w[k] = v
			}
			r.Violate("file-history-not-linearizable", fmt.Sprintf("the recorded history of file %q is not explained by 'a file holds exactly one of the values written, a completed write is visible afterwards' (%d operations)", p, len(hist)), w)
		}
		r.AddObs("histories_checked", 1)
		r.AddObs("history_events", int64(len(hist)))
	}
}

// ---- noise through the memfs yield hooks -----------------------------------------------------------------

var noiseCtr uint64
var hookHits int64

func armNoise(seed uint64, level int) {
	if level == 0 {
		verifhook.Set(func(string) { atomic.AddInt64(&hookHits, 1) })
		return
	}
	verifhook.Set(func(pt string) {
		atomic.AddInt64(&hookHits, 1)
		x := atomic.AddUint64(&noiseCtr, 0x9E3779B97F4A7C15) ^ seed
		x ^= x >> 31
		x *= 0xBF58476D1CE4E5B9
		x ^= x >> 29
		switch x % 6 {
		case 0, 1:
			runtime.Gosched()
		case 2:
			for i := 0; i < 4; i++ {
				runtime.Gosched()
			}
		case 3:
			if level > 1 {
				time.Sleep(time.Duration(x>>20%30) * time.Microsecond)
			}
		}
	})
}

func guard(r *sup.CaseResult, what string, fn func()) (ok bool) {
	defer func() {
		if x := recover(); x != nil {
			r.Violate("panic", fmt.Sprintf("%s panicked: %v", what, x), nil)
			ok = false
		}
	}()
	fn()
	return true
}

// runGoroutines starts n goroutines and waits for them; a goroutine panic becomes a violation;
// no completion within the watchdog is diagnosed from two goroutine dumps.
func runGoroutines(r *sup.CaseResult, n int, body func(g int)) bool {
	var wg sync.WaitGroup
	var mu sync.Mutex
	start := make(chan struct{})
	var steps int64
	for g := 0; g < n; g++ {
		wg.Add(1)
		go func(g int) {
			defer wg.Done()
			defer func() {
				if x := recover(); x != nil {
					mu.Lock()
					r.Violate("panic", fmt.Sprintf("goroutine %d panicked: %v", g, x), nil)
					mu.Unlock()
				}
			}()
			<-start
			body(g)
			atomic.AddInt64(&steps, 1)
		}(g)
	}
	close(start)
	done := make(chan struct{})
	go func() { wg.Wait(); close(done) }()
	// bounded progress: completion, or a logical-deadlock diagnosis (never a bare timeout)
	for waited := 0; waited < 24; waited++ {
		select {
		case <-done:
			return true
		case <-time.After(5 * time.Second):
		}
		s1 := atomic.LoadInt64(&steps)
		g1 := workloadGoroutines(dump())
		time.Sleep(time.Second)
		g2 := workloadGoroutines(dump())
		if s1 == atomic.LoadInt64(&steps) && len(g1) > 0 && allParked(g1) && sameStacks(g1, g2) {
			select {
			case <-done:
				return true
			default:
			}
			poisoned = true
			var sb strings.Builder
			for _, b := range g2 {
				sb.WriteString(b.raw + "\n\n")
			}
			r.Violate("blocked-forever", fmt.Sprintf("%d workload goroutines are parked in lock acquisition inside memfs with identical stacks in two dumps one second apart and no goroutine finished in between", len(g2)), map[string]any{"dump": clip(sb.String(), 8000)})
			return false
		}
	}
	poisoned = true
	r.Inconclusive = "workload did not finish within the watchdog and no logical deadlock was diagnosed"
	return false
}

var poisoned bool

type gblock struct {
	id    string
	state string
	body  string
	raw   string
}

// workloadGoroutines returns the goroutines of a full dump that belong to the running workload.
func workloadGoroutines(d string) []gblock {
	var out []gblock
	for _, blk := range strings.Split(d, "\n\n") {
		if !strings.Contains(blk, "main.runGoroutines.func1") {
			continue
		}
		lines := strings.SplitN(blk, "\n", 2)
		if len(lines) < 2 || !strings.HasPrefix(lines[0], "goroutine ") {
			continue
		}
		h := lines[0]
		b := gblock{raw: blk, body: lines[1]}
		if i := strings.Index(h, "["); i > 0 {
			b.id = strings.TrimSpace(h[:i])
			b.state = strings.TrimSuffix(strings.TrimSpace(h[i+1:]), "]:")
			if j := strings.Index(b.state, ","); j > 0 {
				b.state = b.state[:j]
			}
		}
		out = append(out, b)
	}
	sort.Slice(out, func(i, j int) bool { return out[i].id < out[j].id })
	return out
}

func allParked(gs []gblock) bool {
	for _, g := range gs {
		parked := strings.HasPrefix(g.state, "sync.") || strings.HasPrefix(g.state, "semacquire")
		if !parked || !strings.Contains(g.body, "filespace/memfs.") {
			return false
		}
	}
	return true
}

func sameStacks(a, b []gblock) bool {
	if len(a) != len(b) {
		return false
	}
	for i := range a {
		if a[i].id != b[i].id || a[i].state != b[i].state || a[i].body != b[i].body {
			return false
		}
	}
	return true
}

func dump() string {
	buf := make([]byte, 1<<20)
	return string(buf[:runtime.Stack(buf, true)])
}
func clip(s string, n int) string {
	if len(s) > n {
		return s[:n]
	}
	return s
}

// ---- W1: writers to distinct files in shared directories + listers ---------------------------------------

func w1(r *sup.CaseResult, rng *rand.Rand, g int) {
	fs, _ := memfs.NewFilespace()
	dirs := []string{"d0", "d1", "d0/sub"}
	for _, d := range dirs[:1+rng.Intn(3)] {
		fs.MkdirAll(d, 0777)
	}
	per := 3 + rng.Intn(10)
	type fin struct {
		path, val string
		seq       int64
	}
	var seq int64
	started := sync.Map{} // path → true (before the write is issued)
	finished := make([][]fin, g)
	var listings, listed int64
	var mu sync.Mutex
	writers := g - g/3
	if writers < 1 {
		writers = 1
	}
	ok := runGoroutines(r, g, func(i int) {
		if i < writers {
			for j := 0; j < per; j++ {
				d := dirs[(i+j)%len(dirs)]
				p := fmt.Sprintf("%s/f%d_%d", d, i, j)
				v := mkValue(i, j)
				started.Store(p, true)
				var err error
				if j%3 == 2 {
					var w filesystem.Writer
					if w, err = fs.Writer(p); err == nil {
						w.Write([]byte(v[:10]))
						runtime.Gosched()
						w.Write([]byte(v[10:]))
						err = w.Close()
					}
				} else {
					err = fs.WriteFile(p, []byte(v), 0644)
				}
				if err != nil {
					mu.Lock()
					r.Violate("write-failed", fmt.Sprintf("write of the distinct path %q failed: %v", p, err), nil)
					mu.Unlock()
					return
				}
				finished[i] = append(finished[i], fin{p, v, atomic.AddInt64(&seq, 1)})
			}
			return
		}
		for j := 0; j < per; j++ {
			d := dirs[(i+j)%len(dirs)]
			callSeq := atomic.LoadInt64(&seq)
			_ = callSeq
			infos, err := fs.ReadDir(d)
			if err != nil {
				continue // directory may not exist yet (created by a writer)
			}
			atomic.AddInt64(&listings, 1)
			seen := map[string]bool{}
			for _, fi := range infos {
				if fi == nil {
					mu.Lock()
					r.Violate("listing-nil-entry", fmt.Sprintf("ReadDir(%q) returned a nil entry", d), nil)
					mu.Unlock()
					continue
				}
				atomic.AddInt64(&listed, 1)
				if seen[fi.Name()] {
					mu.Lock()
					r.Violate("listing-duplicate", fmt.Sprintf("ReadDir(%q) lists %q twice", d, fi.Name()), nil)
					mu.Unlock()
				}
				seen[fi.Name()] = true
				if !fi.IsDir() {
					if _, ok := started.Load(d + "/" + fi.Name()); !ok {
						mu.Lock()
						r.Violate("listing-phantom", fmt.Sprintf("ReadDir(%q) lists %q, which nobody has started to create", d, fi.Name()), nil)
						mu.Unlock()
					}
				}
			}
			runtime.Gosched()
		}
	})
	if !ok {
		return
	}
	// quiescence: every successful write on a distinct path took effect
	for i := range finished {
		for _, f := range finished[i] {
			got, err := fs.ReadFile(f.path)
			if err != nil || string(got) != f.val {
				r.Violate("write-lost", fmt.Sprintf("after all goroutines finished, %q (written successfully) reads %q, err %v; expected %q", f.path, clip(string(got), 60), err, f.val), nil)
			}
		}
	}
	for _, d := range dirs {
		infos, err := fs.ReadDir(d)
		if err != nil {
			continue
		}
		seen := map[string]bool{}
		for _, fi := range infos {
			if seen[fi.Name()] {
				r.Violate("listing-duplicate", fmt.Sprintf("final ReadDir(%q) lists %q twice", d, fi.Name()), nil)
			}
			seen[fi.Name()] = true
		}
	}
	r.AddObs("w1_runs", 1)
	r.AddObs("w1_listings", listings)
	r.AddObs("w1_entries_seen", listed)
}

// ---- W2/W5: shared files, unique values, per-file porcupine ---------------------------------------------

func w2(r *sup.CaseResult, rng *rand.Rand, g int, streams bool) {
	fs, _ := memfs.NewFilespace()
	fs.MkdirAll("s", 0777)
	files := []string{"s/a", "s/b", "s/c"}[:1+rng.Intn(3)]
	initial := map[string]string{}
	written := sync.Map{}
	for i, f := range files {
		if rng.Intn(2) == 0 {
			v := mkValue(900+i, 0)
			fs.WriteFile(f, []byte(v), 0644)
			initial[f] = v
			written.Store(v, true)
		}
	}
	rec := &recorder{}
	per := 4 + rng.Intn(8)
	if g > 8 {
		per = 3 + rng.Intn(4)
	}
	withRemove := rng.Intn(3) == 0
	plans := make([][]int, g)
	for i := range plans {
		for j := 0; j < per; j++ {
			plans[i] = append(plans[i], rng.Intn(100))
		}
	}
	var mu sync.Mutex
	bad := func(class, detail string) {
		mu.Lock()
		r.Violate(class, detail, nil)
		mu.Unlock()
	}
	ok := runGoroutines(r, g, func(i int) {
		for j, x := range plans[i] {
			f := files[(i+j+x)%len(files)]
			switch {
			case x < 35: // write
				v := mkValue(i, j)
				written.Store(v, true)
				o := opRec{Client: i, Kind: "write", Path: f, Arg: v, Call: rec.call()}
				var err error
				if streams && x%2 == 0 {
					var w filesystem.Writer
					if w, err = fs.Writer(f); err == nil {
						k := 1 + x%20
						w.Write([]byte(v[:k]))
						runtime.Gosched()
						w.Write([]byte(v[k:]))
						err = w.Close()
					}
				} else {
					err = fs.WriteFile(f, []byte(v), 0644)
				}
				o.OK = err == nil
				rec.done(o)
			case x < 80: // read
				o := opRec{Client: i, Kind: "read", Path: f, Call: rec.call()}
				var data []byte
				var err error
				if streams && x%2 == 0 {
					var rd filesystem.Reader
					if rd, err = fs.Reader(f); err == nil {
						var anom string
						data, anom = mfs.ReadAllVia(rd, []int{7, 64, 5}[x%3], 1000)
						rd.Close()
						if anom != "" {
							bad("reader-contract", "Reader on "+f+": "+anom)
						}
					}
				} else {
					data, err = fs.ReadFile(f)
				}
				o.OK = err == nil
				o.Out = string(data)
				rec.done(o)
				if err == nil {
					if !valueOK(o.Out) {
						bad("torn-read", fmt.Sprintf("read of %q returned %q, which is not a complete written value", f, clip(o.Out, 80)))
					} else if _, ok := written.Load(o.Out); !ok {
						bad("unwritten-value", fmt.Sprintf("read of %q returned %q, which nobody wrote", f, o.Out))
					}
				}
			case x < 90 || !withRemove:
				o := opRec{Client: i, Kind: "isfile", Path: f, Call: rec.call()}
				o.OK = fs.IsFile(f)
				rec.done(o)
			default:
				o := opRec{Client: i, Kind: "remove", Path: f, Call: rec.call()}
				o.OK = fs.Remove(f) == nil
				rec.done(o)
			}
		}
	})
	if !ok {
		return
	}
	checkRegisters(r, rec.ops, initial, map[string]any{"goroutines": g, "streams": streams})
	if streams {
		r.AddObs("w5_runs", 1)
	} else {
		r.AddObs("w2_runs", 1)
	}
	r.AddObs("recorded_ops", int64(len(rec.ops)))
}

// ---- W3: concurrent creators of the same new node ----------------------------------------------------------

func w3(r *sup.CaseResult, rng *rand.Rand, g int) {
	fs, _ := memfs.NewFilespace()
	kind := rng.Intn(4)
	fs.MkdirAll("p", 0777)
	fs.WriteFile("src/file", []byte(mkValue(999, 0)), 0644)
	fs.WriteFile("src/dir/in", []byte(mkValue(999, 1)), 0644)
	results := make([]error, g)
	vals := make([]string, g)
	ok := runGoroutines(r, g, func(i int) {
		vals[i] = mkValue(i, 0)
		switch kind {
		case 0:
			results[i] = fs.WriteFile("p/new", []byte(vals[i]), 0644)
		case 1:
			results[i] = fs.MkdirAll("p/q/r", 0777)
		case 2:
			if i%2 == 0 {
				results[i] = fs.CopyFile("src/file", "p/copy")
			} else {
				results[i] = fs.Copy("src/file", "p/copy")
			}
		case 3:
			if i%2 == 0 {
				results[i] = fs.MkdirAll("p/q", 0777)
			} else {
				results[i] = fs.WriteFile(fmt.Sprintf("p/q/f%d", i), []byte(vals[i]), 0644)
			}
		}
	})
	if !ok {
		return
	}
	wit := map[string]any{"creators": g, "kind": []string{"WriteFile same path", "MkdirAll same path", "Copy to one destination", "MkdirAll vs WriteFile below"}[kind]}
	count := func(dir, name string) (n int, isDir bool) {
		infos, _ := fs.ReadDir(dir)
		for _, fi := range infos {
			if fi.Name() == name {
				n++
				isDir = fi.IsDir()
			}
		}
		return
	}
	switch kind {
	case 0:
		for i, e := range results {
			if e != nil {
				r.Violate("create-failed", fmt.Sprintf("concurrent WriteFile #%d of the same new path failed: %v", i, e), wit)
			}
		}
		n, _ := count("p", "new")
		got, err := fs.ReadFile("p/new")
		found := false
		for _, v := range vals {
			if v == string(got) {
				found = true
			}
		}
		if n != 1 || err != nil || !found {
			r.Violate("double-create", fmt.Sprintf("after %d concurrent creations of p/new: listed %d times, content %q (err %v) is one of the written values: %v", g, n, clip(string(got), 60), err, found), wit)
		}
	case 1:
		for i, e := range results {
			if e != nil {
				r.Violate("create-failed", fmt.Sprintf("concurrent MkdirAll #%d failed: %v", i, e), wit)
			}
		}
		n1, d1 := count("p", "q")
		n2, d2 := count("p/q", "r")
		if n1 != 1 || n2 != 1 || !d1 || !d2 {
			r.Violate("double-create", fmt.Sprintf("after %d concurrent MkdirAll(p/q/r): p lists q %d times, p/q lists r %d times", g, n1, n2), wit)
		}
	case 2:
		succ := 0
		for _, e := range results {
			if e == nil {
				succ++
			}
		}
		n, _ := count("p", "copy")
		got, err := fs.ReadFile("p/copy")
		if succ < 1 || n != 1 || err != nil || string(got) != mkValue(999, 0) {
			r.Violate("double-create", fmt.Sprintf("after %d concurrent copies to p/copy: %d succeeded, listed %d times, content ok=%v err=%v", g, succ, n, string(got) == mkValue(999, 0), err), wit)
		}
	case 3:
		n, d := count("p", "q")
		if n != 1 || !d {
			r.Violate("double-create", fmt.Sprintf("p lists q %d times (dir=%v) after MkdirAll raced with writes below it", n, d), wit)
		}
		for i, e := range results {
			if e != nil {
				r.Violate("create-failed", fmt.Sprintf("operation #%d failed: %v", i, e), wit)
			} else if i%2 == 1 {
				if got, err := fs.ReadFile(fmt.Sprintf("p/q/f%d", i)); err != nil || string(got) != vals[i] {
					r.Violate("write-lost", fmt.Sprintf("p/q/f%d written successfully while p/q was being created, reads %q err %v", i, clip(string(got), 60), err), wit)
				}
			}
		}
	}
	r.AddObs("w3_runs", 1)
}

// ---- W4: short mixed histories on a small tree (observational linearizability + spelled-out clauses) ------

type treeIn struct {
	Kind   string
	P1, P2 string
	Val    string
}
type treeOut struct {
	OK   bool
	Val  string
	List string
}

func decodeTree(s string) map[string]string {
	m := map[string]string{}
	if s == "" {
		return m
	}
	for _, kv := range strings.Split(s, ";") {
		if i := strings.Index(kv, "="); i >= 0 {
			m[kv[:i]] = kv[i+1:]
		}
	}
	return m
}
func encodeTree(m map[string]string) string {
	ks := make([]string, 0, len(m))
	for k := range m {
		ks = append(ks, k)
	}
	sort.Strings(ks)
	var sb strings.Builder
	for i, k := range ks {
		if i > 0 {
			sb.WriteByte(';')
		}
		sb.WriteString(k + "=" + m[k])
	}
	return sb.String()
}
func parentOf(p string) string {
	if i := strings.LastIndex(p, "/"); i >= 0 {
		return p[:i]
	}
	return ""
}
func mkParents(m map[string]string, p string) bool {
	for q := parentOf(p); q != ""; q = parentOf(q) {
		if v, ok := m[q]; ok && v != "D" {
			return false
		}
	}
	for q := parentOf(p); q != ""; q = parentOf(q) {
		m[q] = "D"
	}
	return true
}

var treeModel = porcupine.Model{
	Init: func() interface{} { return "" },
	Step: func(state, input, output interface{}) (bool, interface{}) {
		m := decodeTree(state.(string))
		in, out := input.(treeIn), output.(treeOut)
		switch in.Kind {
		case "write":
			if v, ok := m[in.P1]; ok && v == "D" {
				return !out.OK, state
			}
			if !mkParents(m, in.P1) {
				return !out.OK, state
			}
			if !out.OK {
				return false, state
			}
			m[in.P1] = "F" + in.Val
			return true, encodeTree(m)
		case "mkdir":
			if v, ok := m[in.P1]; ok && v != "D" {
				return !out.OK, state
			}
			if !mkParents(m, in.P1) {
				return !out.OK, state
			}
			if !out.OK {
				return false, state
			}
			m[in.P1] = "D"
			return true, encodeTree(m)
		case "read":
			v, ok := m[in.P1]
			if !ok || v == "D" {
				return !out.OK, state
			}
			return out.OK && "F"+out.Val == v, state
		case "exist":
			_, ok := m[in.P1]
			return out.OK == ok, state
		case "list":
			v, ok := m[in.P1]
			if !ok || v != "D" {
				return !out.OK, state
			}
			var names []string
			for k := range m {
				if parentOf(k) == in.P1 {
					names = append(names, k[len(in.P1)+1:])
				}
			}
			sort.Strings(names)
			return out.OK && strings.Join(names, ",") == out.List, state
		case "remove", "removeall":
			v, ok := m[in.P1]
			if !ok {
				if in.Kind == "removeall" {
					return true, state
				}
				return !out.OK, state
			}
			hasKids := false
			for k := range m {
				if strings.HasPrefix(k, in.P1+"/") {
					hasKids = true
				}
			}
			if in.Kind == "remove" && v == "D" && hasKids {
				return !out.OK, state
			}
			if !out.OK {
				return false, state
			}
			for k := range m {
				if k == in.P1 || strings.HasPrefix(k, in.P1+"/") {
					delete(m, k)
				}
			}
			return true, encodeTree(m)
		case "copyfile":
			v, ok := m[in.P1]
			if !ok || v == "D" {
				return !out.OK, state
			}
			if _, exists := m[in.P2]; exists {
				return !out.OK, state // memfs refuses an existing destination (statement silent: observational only)
			}
			if !mkParents(m, in.P2) {
				return !out.OK, state
			}
			if !out.OK {
				return false, state
			}
			m[in.P2] = v
			return true, encodeTree(m)
		}
		return false, state
	},
}

func related(a, b string) bool {
	return a == b || strings.HasPrefix(a, b+"/") || strings.HasPrefix(b, a+"/")
}

func w4(r *sup.CaseResult, rng *rand.Rand, g int) {
	fs, _ := memfs.NewFilespace()
	paths := []string{"t/a", "t/b", "t/d", "t/d/x", "u/y", "u"}
	type step struct {
		in  treeIn
		out treeOut
		c   int
		t0  int64
		t1  int64
	}
	rec := &recorder{}
	total := 8 + rng.Intn(17)
	per := total / g
	if per < 1 {
		per = 1
	}
	plans := make([][]treeIn, g)
	for i := range plans {
		for j := 0; j < per; j++ {
			p := paths[rng.Intn(len(paths))]
			var in treeIn
			switch x := rng.Intn(100); {
			case x < 28:
				in = treeIn{Kind: "write", P1: p, Val: mkValue(i, j)}
			case x < 40:
				in = treeIn{Kind: "mkdir", P1: p}
			case x < 58:
				in = treeIn{Kind: "read", P1: p}
			case x < 66:
				in = treeIn{Kind: "exist", P1: p}
			case x < 76:
				in = treeIn{Kind: "list", P1: []string{"t", "u", "t/d"}[rng.Intn(3)]}
			case x < 86:
				in = treeIn{Kind: "remove", P1: p}
			case x < 92:
				in = treeIn{Kind: "removeall", P1: p}
			default:
				in = treeIn{Kind: "copyfile", P1: p, P2: paths[rng.Intn(len(paths))]}
			}
			plans[i] = append(plans[i], in)
		}
	}
	var mu sync.Mutex
	var steps []step
	ok := runGoroutines(r, g, func(i int) {
		for _, in := range plans[i] {
			st := step{in: in, c: i, t0: rec.call()}
			switch in.Kind {
			case "write":
				st.out.OK = fs.WriteFile(in.P1, []byte(in.Val), 0644) == nil
			case "mkdir":
				st.out.OK = fs.MkdirAll(in.P1, 0777) == nil
			case "read":
				d, err := fs.ReadFile(in.P1)
				st.out.OK, st.out.Val = err == nil, string(d)
			case "exist":
				st.out.OK = fs.IsExist(in.P1)
			case "list":
				infos, err := fs.ReadDir(in.P1)
				var names []string
				for _, fi := range infos {
					names = append(names, fi.Name())
				}
				sort.Strings(names)
				st.out.OK, st.out.List = err == nil, strings.Join(names, ",")
			case "remove":
				st.out.OK = fs.Remove(in.P1) == nil
			case "removeall":
				st.out.OK = fs.RemoveAll(in.P1) == nil
			case "copyfile":
				st.out.OK = fs.CopyFile(in.P1, in.P2) == nil
			}
			st.t1 = rec.call()
			mu.Lock()
			steps = append(steps, st)
			mu.Unlock()
		}
	})
	if !ok {
		return
	}
	var hist []porcupine.Operation
	for _, s := range steps {
		hist = append(hist, porcupine.Operation{ClientId: s.c, Input: s.in, Call: s.t0, Output: s.out, Return: s.t1})
	}
	res := porcupine.CheckOperations(treeModel, hist)
	if res {
		r.AddObs("w4_linearizable", 1)
	} else {
		r.AddObs("w4_not_linearizable_observed", 1)
		if os.Getenv("C09_DEBUG_W4") != "" {
			sort.Slice(steps, func(i, j int) bool { return steps[i].t0 < steps[j].t0 })
			for _, s := range steps {
				fmt.Fprintf(os.Stderr, "W4 c%d [%d,%d] %+v -> %+v\n", s.c, s.t0, s.t1, s.in, s.out)
			}
			fmt.Fprintln(os.Stderr, "W4 ----")
		}
	}
	// spelled-out clauses, independent of the linearizability verdict:
	// a successful mutation on a path that no other operation of the history touches (nor an
	// ancestor / descendant of it) must be visible at quiescence; listings have each name once; values whole.
	for i, s := range steps {
		if !s.out.OK || (s.in.Kind != "write" && s.in.Kind != "mkdir") {
			if s.in.Kind == "read" && s.out.OK && !valueOK(s.out.Val) {
				r.Violate("torn-read", fmt.Sprintf("read of %q returned the incomplete value %q", s.in.P1, clip(s.out.Val, 80)), nil)
			}
			if s.in.Kind == "list" && s.out.OK {
				names := strings.Split(s.out.List, ",")
				for k := 1; k < len(names); k++ {
					if names[k] != "" && names[k] == names[k-1] {
						r.Violate("listing-duplicate", fmt.Sprintf("ReadDir(%q) lists %q twice", s.in.P1, names[k]), nil)
					}
				}
			}
			continue
		}
		alone := true
		for j, o := range steps {
			if i == j {
				continue
			}
			mut := o.in.Kind != "read" && o.in.Kind != "exist" && o.in.Kind != "list"
			if mut && (related(o.in.P1, s.in.P1) || (o.in.P2 != "" && related(o.in.P2, s.in.P1))) {
				alone = false
			}
		}
		if !alone {
			continue
		}
		if s.in.Kind == "write" {
			if got, err := fs.ReadFile(s.in.P1); err != nil || string(got) != s.in.Val {
				r.Violate("write-lost", fmt.Sprintf("WriteFile(%q) succeeded, no other operation touched that path or its ancestors/descendants, yet at quiescence it reads %q (err %v)", s.in.P1, clip(string(got), 60), err), map[string]any{"steps": len(steps)})
			}
		} else if !fs.IsDir(s.in.P1) {
			r.Violate("mkdir-lost", fmt.Sprintf("MkdirAll(%q) succeeded, nothing else touched it, yet it is not a directory at quiescence", s.in.P1), nil)
		}
		r.AddObs("w4_undisturbed_mutations_checked", 1)
	}
	r.AddObs("w4_runs", 1)
	r.AddObs("w4_ops", int64(len(steps)))
}

// ---- W6: directory copies racing with mkdir / remove of empty sub-directories and listers -----------------

func w6(r *sup.CaseResult, rng *rand.Rand, g int) {
	fs, _ := memfs.NewFilespace()
	fs.WriteFile("p/keep", []byte(mkValue(998, 0)), 0644)
	fs.MkdirAll("p/s/t", 0777)
	rounds := 10 + rng.Intn(30)
	var copies, removes int64
	var mu sync.Mutex
	ok := runGoroutines(r, g, func(i int) {
		for k := 0; k < rounds; k++ {
			switch i % 4 {
			case 0: // create and remove an empty directory below p
				d := fmt.Sprintf("p/c%d", i%3)
				fs.MkdirAll(d, 0777)
				runtime.Gosched()
				if fs.Remove(d) == nil {
					atomic.AddInt64(&removes, 1)
				}
			case 1: // copy p (or the root of the subtree) somewhere else, check the copy, drop it
				dst := fmt.Sprintf("q%d", i)
				var err error
				if k%2 == 0 {
					err = fs.CopyDirectory("p", dst)
				} else {
					err = fs.Copy("p", dst)
				}
				if err == nil {
					atomic.AddInt64(&copies, 1)
					if got, e := fs.ReadFile(dst + "/keep"); e != nil || string(got) != mkValue(998, 0) {
						mu.Lock()
						r.Violate("copy-incomplete", fmt.Sprintf("copy of p to %s succeeded but %s/keep reads %q (err %v)", dst, dst, clip(string(got), 60), e), nil)
						mu.Unlock()
					}
					if !fs.IsDir(dst + "/s/t") {
						mu.Lock()
						r.Violate("copy-incomplete", fmt.Sprintf("copy of p to %s succeeded but %s/s/t is missing", dst, dst), nil)
						mu.Unlock()
					}
				}
				fs.RemoveAll(dst)
			case 2: // nested empty directory churn
				fs.MkdirAll("p/s/t/u", 0777)
				fs.Remove("p/s/t/u")
			case 3:
				if infos, err := fs.ReadDir("p"); err == nil {
					seen := map[string]bool{}
					for _, fi := range infos {
						if seen[fi.Name()] {
							mu.Lock()
							r.Violate("listing-duplicate", fmt.Sprintf("ReadDir(p) lists %q twice", fi.Name()), nil)
							mu.Unlock()
						}
						seen[fi.Name()] = true
					}
				}
				fs.IsDir("p/s/t")
			}
		}
	})
	if !ok {
		return
	}
	if got, err := fs.ReadFile("p/keep"); err != nil || string(got) != mkValue(998, 0) {
		r.Violate("write-lost", fmt.Sprintf("p/keep, never modified, reads %q (err %v) after concurrent copies/removes", clip(string(got), 60), err), nil)
	}
	r.AddObs("w6_runs", 1)
	r.AddObs("w6_directory_copies", copies)
	r.AddObs("w6_empty_dir_removes", removes)
}

// ---- W7: refused operations in a shared directory, then writes on distinct paths --------------------------

// w7: every goroutine first provokes the refusals a directory has to give (stream writer / whole-file
// write / reader on a name that is a directory, mkdir below a file, remove of a non-empty directory,
// file copy of a directory) and then writes its own distinct files into the same shared directory
// with WriteFile and with stream writers. A refusal must leave nothing locked: all writes return
// (completion or deadlock diagnosis) and are visible afterwards.
func w7(r *sup.CaseResult, rng *rand.Rand, g int) {
	fs, _ := memfs.NewFilespace()
	fs.MkdirAll("shared", 0777)
	rounds := 2 + rng.Intn(4)
	var refused, notRefused int64
	var mu sync.Mutex
	want := map[string]string{}
	ok := runGoroutines(r, g, func(i int) {
		sub := fmt.Sprintf("shared/sub%d", i)
		file := fmt.Sprintf("shared/file%d", i)
		fs.MkdirAll(sub, 0777)
		fs.WriteFile(file, []byte(mkValue(i, 0)), 0644)
		ref := func(what string, err error) {
			if err != nil {
				atomic.AddInt64(&refused, 1)
			} else {
				atomic.AddInt64(&notRefused, 1)
				mu.Lock()
				r.Violate("refusal-missing", what+" succeeded", nil)
				mu.Unlock()
			}
		}
		for k := 0; k < rounds; k++ {
			switch (i + k) % 6 {
			case 0:
				w, err := fs.Writer(sub)
				if err == nil && w != nil {
					w.Close()
				}
				ref(fmt.Sprintf("Writer(%q) on a directory", sub), err)
			case 1:
				ref(fmt.Sprintf("WriteFile(%q) on a directory", sub), fs.WriteFile(sub, []byte("x"), 0644))
			case 2:
				ref(fmt.Sprintf("MkdirAll(%q) below a file", file+"/below"), fs.MkdirAll(file+"/below", 0777))
			case 3:
				ref("Remove(\"shared\") of a non-empty directory", fs.Remove("shared"))
			case 4:
				rd, err := fs.Reader(sub)
				if err == nil && rd != nil {
					_, err = rd.Read(make([]byte, 4))
					rd.Close()
				}
				ref(fmt.Sprintf("Reader(%q) on a directory", sub), err)
			default:
				ref(fmt.Sprintf("CopyFile(%q, …) of a directory", sub), fs.CopyFile(sub, fmt.Sprintf("shared/cp%d_%d", i, k)))
			}
			runtime.Gosched()
			// writes on distinct paths in the same directory
			p1 := fmt.Sprintf("shared/w%d_%d", i, k)
			v1 := mkValue(i, 100+k)
			if err := fs.WriteFile(p1, []byte(v1), 0644); err == nil {
				mu.Lock()
				want[p1] = v1
				mu.Unlock()
			}
			p2 := fmt.Sprintf("shared/s%d_%d", i, k)
			v2 := mkValue(i, 200+k)
			if w, err := fs.Writer(p2); err == nil && w != nil {
				_, e1 := w.Write([]byte(v2))
				e2 := w.Close()
				if e1 == nil && e2 == nil {
					mu.Lock()
					want[p2] = v2
					mu.Unlock()
				}
			}
		}
	})
	if !ok {
		return
	}
	for p, v := range want {
		if got, err := fs.ReadFile(p); err != nil || string(got) != v {
			r.Violate("write-lost", fmt.Sprintf("%s was written successfully and reads %q (err %v) at quiescence", p, clip(string(got), 60), err), nil)
			break
		}
	}
	r.AddObs("w7_runs", 1)
	r.AddObs("w7_refusals_followed_by_writes_in_the_same_directory", refused)
	r.AddObs("w7_writes_after_refusals", int64(len(want)))
}

// -----------------------------------------------------------------------------------------------------------

func plan(tier string, seed int64) []sup.Batch {
	n := 4800
	if tier == "thorough" {
		n = 120000
	}
	procs := []int{1, 2, 4, 16, 4, 2}
	var bs []sup.Batch
	nb := 24
	per := (n + nb - 1) / nb
	i := 0
	for from := 0; from < n; from += per {
		to := from + per
		if to > n {
			to = n
		}
		bs = append(bs, sup.Batch{Name: fmt.Sprintf("mix-%d", i), Kind: "mix", From: from, To: to, Procs: procs[i%len(procs)], TimeoutS: 2400})
		i++
	}
	return bs
}

func main() {
	_ = os.Getpid
	sup.Main(sup.Prop{
		ID:    "C09",
		Level: "exploration",
		Race:  true,
		Rule:  "2…32 goroutines on one memfs (GOMAXPROCS 1/2/4/16, yields/sleeps injected at the three memfs verif hook points): W1 writers to distinct files in shared directories + listers (unique names, no phantom, every successful write present at quiescence); W2/W5 writers/readers/removers (whole-file and always-closed stream handles) on 1–3 shared files with unique checksummed values – every value read is complete and was written, and the recorded per-file history is checked with porcupine against a register-with-existence model; W3 N concurrent creations of the same new node (WriteFile, MkdirAll, Copy to one destination, MkdirAll vs WriteFile below it) give one node; W6 directory copies (Copy/CopyDirectory) racing with MkdirAll/Remove of empty sub-directories, RemoveAll of the copies and listers (copies complete, completion or deadlock diagnosis); W7 refusals a directory has to give (stream writer / write / reader on a directory name, mkdir below a file, remove of a non-empty directory, file copy of a directory) followed by WriteFile and stream writes of distinct files in the same directory (all return and are visible); W8 a copy that has to wait for a source held by a stream writer while the holder lists and writes the destination directory before closing, and copies of two trees below each other in opposite directions (completion or deadlock diagnosis, copies whole); W4 short mixed histories on a 6-node tree – whole-tree porcupine model (observational) plus the spelled-out clauses (an undisturbed successful mutation is visible at quiescence, names once, values whole). Process-fatal errors, panics, a deadlock diagnosis from two goroutine dumps and race reports in memfs/* decide. distinct = (workload, goroutines, seed index)",
		Assumptions: []string{
			"'not linearizable' for a mixed W4 history is an observation only; a violation needs a witness against a clause the statement spells out (operations on related paths – ancestor/descendant – are not 'distinct paths')",
			"'blocks forever' is restated as: the workload completes, or two goroutine dumps one second apart show the same parked stacks inside memfs and no progress (violation); watchdog expiry without that diagnosis is inconclusive",
			"stream handles are always closed by the workload (an unclosed handle holds the file lock by design)",
		},
		Plan: plan,
		Run: func(c *sup.Child, b sup.Batch) {
			const blk = 25
			for from := b.From; from < b.To; from += blk {
				to := from + blk
				if to > b.To {
					to = b.To
				}
				c.Case(from, map[string]any{"from": from, "to": to}, func(r *sup.CaseResult) {
					for idx := from; idx < to && len(r.Violations) == 0 && r.Inconclusive == ""; idx++ {
						if poisoned {
							r.AddObs("trials_skipped_after_a_blocked_workload", 1)
							continue
						}
						rng := c.Rand(idx)
						g := []int{2, 3, 4, 8, 16, 32}[rng.Intn(6)]
						r.Evals++
						r.AddKey(fmt.Sprintf("w%d|%d|%d|%d", idx%6, idx, g, rng.Int63()))
						armNoise(rng.Uint64(), rng.Intn(3))
						switch idx % 6 {
						case 5:
							if g > 16 {
								g = 16
							}
							if g < 4 {
								g = 4
							}
							if idx%12 == 11 {
								if idx%24 == 23 {
									w8(r, rng, g)
								} else {
									w7(r, rng, g)
								}
							} else {
								w6(r, rng, g)
							}
						case 0:
							w1(r, rng, g)
						case 1:
							if g > 12 {
								g = 12
							}
							w2(r, rng, g, false)
						case 2:
							w3(r, rng, g)
						case 3:
							w4(r, rng, 2+rng.Intn(3))
						case 4:
							if g > 12 {
								g = 12
							}
							w2(r, rng, g, true)
						}
					}
					verifhook.Set(nil)
					r.AddObs("memfs_hook_hits", atomic.SwapInt64(&hookHits, 0))
					r.Key = fmt.Sprintf("mix|%d", from)
					r.Nontrivial = true
					if from%1000 == 0 {
						r.Sample = map[string]any{"trials": to - from, "observed": r.Obs}
					}
				})
			}
		},
		Finish: func(t *sup.Totals) string {
			for _, k := range []string{"w1_runs", "w2_runs", "w3_runs", "w4_runs", "w5_runs", "w6_runs", "w6_directory_copies", "w7_runs", "w7_refusals_followed_by_writes_in_the_same_directory", "w8_busy_file_runs", "w8_crossing_runs", "porcupine_ok", "memfs_hook_hits", "w4_undisturbed_mutations_checked"} {
				if t.Obs[k] == 0 {
					return "monitor observed nothing for " + k
				}
			}
			return ""
		},
		RaceAnchors: []string{"filesystem/filespace/memfs/"},
		RaceDecides: true,
	})
}
