// C12 – scope failure signalling is safe from any number of goroutines.
package main

import (
	"context"
	"errors"
	"fmt"
	"math/rand"
	"runtime"
	"strings"
	"sync"
	"sync/atomic"
	"time"

	"verif/internal/sup"

	"github.com/goatcms/goatcore/app"
	"github.com/goatcms/goatcore/app/bootstrap"
	"github.com/goatcms/goatcore/app/gio"
	"github.com/goatcms/goatcore/app/goatapp"
	"github.com/goatcms/goatcore/app/modules/commonm"
	"github.com/goatcms/goatcore/app/modules/terminalm"
	"github.com/goatcms/goatcore/app/modules/terminalm/termservices"
	"github.com/goatcms/goatcore/app/scope"
	"github.com/goatcms/goatcore/app/scope/contextscope"
	"github.com/goatcms/goatcore/app/terminal"
)

type uerr struct{ id int64 }

func (e *uerr) Error() string { return fmt.Sprintf("unique-error-%d", e.id) }

var errCtr int64

var errForeign = errors.New("error of a caller, never appended to any scope")

// errSame is one error value that many callers append (a sentinel such as io.ErrUnexpectedEOF): every
// append is an appended error of its own.
var errSame = errors.New("the same sentinel error value, appended by several callers")

// sliceErr is an error of a non-comparable dynamic type (like go/scanner.ErrorList).
type sliceErr []string

func (e sliceErr) Error() string { return "slice error " + strings.Join(e, ",") }

// ---- subjects -----------------------------------------------------------------------------------------

type subject struct {
	kind   string
	ctx    app.ContextScope // what the callers hammer
	scp    app.Scope        // non-nil when the subject is a full scope (Wait/Close checked)
	parent app.Scope        // for child subjects: the parent (must end up failed too for shared children)
	isoPar app.ContextScope
	rawIso app.ContextScope // isolated subjects: the isolated context itself
	rawPar app.ContextScope // … and the context it watches
}

func newSubject(kind string) *subject {
	s := &subject{kind: kind}
	switch kind {
	case "context":
		s.ctx = contextscope.New()
	case "isolated":
		s.isoPar = contextscope.New()
		s.ctx = contextscope.NewIsolated(s.isoPar)
		s.rawIso, s.rawPar = s.ctx, s.isoPar
	case "scope":
		s.scp = scope.New(scope.Params{})
		s.ctx = s.scp
	case "child-shared":
		s.parent = scope.New(scope.Params{})
		s.scp = scope.NewChild(s.parent, scope.ChildParams{})
		s.ctx = s.scp
	case "child-isolated":
		s.parent = scope.New(scope.Params{})
		s.rawPar = s.parent.BaseContextScope()
		s.rawIso = contextscope.NewIsolated(s.rawPar)
		s.scp = scope.NewChild(s.parent, scope.ChildParams{ContextScope: s.rawIso})
		s.ctx = s.scp
	}
	return s
}

var kinds = []string{"context", "isolated", "scope", "child-shared", "child-isolated"}

// collect gathers the unique test errors reachable from e (goaterr wrappers expose UnwrapAll).
func collect(e error, into map[*uerr]bool, depth int) {
	if e == nil || depth > 8 {
		return
	}
	if u, ok := e.(*uerr); ok {
		into[u] = true
		return
	}
	if w, ok := e.(interface{ UnwrapAll() []error }); ok {
		for _, x := range w.UnwrapAll() {
			collect(x, into, depth+1)
		}
		return
	}
	collect(errors.Unwrap(e), into, depth+1)
}

// hammer: G goroutines, each a short PRNG-chosen sequence of signalling calls.
func hammer(r *sup.CaseResult, rng *rand.Rand, kind string, g, opsPer int) {
	s := newSubject(kind)
	type plan struct{ ops []int }
	plans := make([]plan, g)
	for i := range plans {
		for j := 0; j < opsPer; j++ {
			plans[i].ops = append(plans[i].ops, rng.Intn(10))
		}
	}
	var appended sync.Map // *uerr → true
	var nAppended, nKill, nStop, panics, listsRewritten, nSame, nSlice int64
	var firstPanic atomic.Value
	start := make(chan struct{})
	var wg sync.WaitGroup
	// isolated subjects: in half of the trials another goroutine ends the PARENT while the isolated
	// scope is being signalled (1 Kill, 2 AppendError, 3 Stop): the watcher goroutine of the isolated
	// context then stops / kills it on top of what the callers did – nothing appended may get lost
	var parentCtx app.ContextScope
	if s.isoPar != nil {
		parentCtx = s.isoPar
	} else if kind == "child-isolated" {
		parentCtx = s.parent
	}
	parentEnd := 0
	var parentErr *uerr
	me := goid()
	if parentCtx != nil {
		defer func() { // no watcher goroutine outlives its trial (the raw contexts: a closed scope refuses calls)
			s.rawIso.Stop()
			s.rawPar.Stop()
		}()
		if rng.Intn(2) == 0 {
			parentEnd = 1 + rng.Intn(3)
			parentErr = &uerr{id: atomic.AddInt64(&errCtr, 1)}
			delay := rng.Intn(12)
			wg.Add(1)
			go func() {
				defer wg.Done()
				defer func() {
					if x := recover(); x != nil {
						atomic.AddInt64(&panics, 1)
						firstPanic.CompareAndSwap(nil, fmt.Sprint(x))
					}
				}()
				<-start
				for i := 0; i < delay; i++ {
					runtime.Gosched()
				}
				switch parentEnd {
				case 1:
					parentCtx.Kill()
				case 2:
					parentCtx.AppendError(parentErr)
				default:
					parentCtx.Stop()
				}
			}()
		}
	}
	for i := 0; i < g; i++ {
		wg.Add(1)
		go func(p plan) {
			defer wg.Done()
			defer func() {
				if x := recover(); x != nil {
					atomic.AddInt64(&panics, 1)
					firstPanic.CompareAndSwap(nil, fmt.Sprint(x))
				}
			}()
			<-start
			for _, op := range p.ops {
				switch op {
				case 0:
					e := &uerr{id: atomic.AddInt64(&errCtr, 1)}
					appended.Store(e, true)
					atomic.AddInt64(&nAppended, 1)
					s.ctx.AppendError(e)
				case 1:
					// a result list with gaps, as a caller collects it from several steps; the list is
					// the caller's: it must read the same after the call
					e1 := &uerr{id: atomic.AddInt64(&errCtr, 1)}
					e2 := &uerr{id: atomic.AddInt64(&errCtr, 1)}
					appended.Store(e1, true)
					appended.Store(e2, true)
					atomic.AddInt64(&nAppended, 2)
					lst := []error{nil, e1, nil, e2, nil}
					s.ctx.AppendError(lst...)
					if lst[0] != nil || lst[1] != error(e1) || lst[2] != nil || lst[3] != error(e2) || lst[4] != nil {
						atomic.AddInt64(&listsRewritten, 1)
					}
				case 2:
					atomic.AddInt64(&nKill, 1)
					s.ctx.Kill()
				case 3:
					atomic.AddInt64(&nStop, 1)
					s.ctx.Stop()
				case 4:
					s.ctx.IsDone()
				case 5:
					_ = s.ctx.Err()
					if s.parent != nil {
						_ = s.parent.Err() // the parent of a shared child is asked while errors still arrive
					}
				case 6:
					// a caller owns the list it was given: it extends it with an error of its own
					// and wipes it afterwards – the scope's list must not notice
					es := s.ctx.Errors()
					runtime.Gosched()
					es = append(es, errForeign)
					for i := range es {
						es[i] = nil
					}
				case 7:
					select {
					case <-s.ctx.Done():
					default:
					}
					runtime.Gosched()
				case 8:
					atomic.AddInt64(&nSame, 1)
					s.ctx.AppendError(errSame)
				case 9:
					atomic.AddInt64(&nSlice, 1)
					s.ctx.AppendError(sliceErr{"a", "b"})
				}
			}
		}(plans[i])
	}
	close(start)
	wg.Wait()
	wit := map[string]any{"kind": kind, "goroutines": g, "ops_per_goroutine": opsPer, "parent_ended_by": []string{"-", "Kill", "AppendError", "Stop"}[parentEnd]}
	if panics > 0 {
		r.Violate("panic", fmt.Sprintf("[%s] %d signalling calls panicked; first: %v", kind, panics, firstPanic.Load()), wit)
		return
	}
	if parentEnd != 0 {
		// the watcher acts asynchronously: judge only after it has returned (no goroutine of
		// NewIsolated created by this goroutine is left); logical steps, not a deadline
		if !watchersGone(me) {
			r.AddObs("parent_end_trials_skipped_watcher_still_running", 1)
			return
		}
		r.AddObs("parent_end_trials_"+[]string{"", "kill", "append", "stop"}[parentEnd], 1)
	}
	signalled := nAppended+nKill+nStop+nSame+nSlice > 0 || parentEnd != 0
	errs := s.ctx.Errors()
	count := map[error]int{}
	cancels := 0
	var gotSame, gotSlice int64
	for _, e := range errs {
		if _, ok := e.(sliceErr); ok {
			gotSlice++
			continue
		}
		if e == errSame {
			gotSame++
			continue
		}
		if errors.Is(e, context.Canceled) && e == context.Canceled {
			cancels++
			continue
		}
		count[e]++
	}
	if gotSame != nSame || gotSlice != nSlice {
		r.Violate("errors-not-retained", fmt.Sprintf("[%s] the same sentinel value was appended %d times and is listed %d times; errors of a non-comparable type were appended %d times and are listed %d times", kind, nSame, gotSame, nSlice, gotSlice), wit)
	}
	r.AddObs("appends_of_one_shared_error_value", nSame)
	r.AddObs("appends_of_non_comparable_errors", nSlice)
	missing, dup := 0, 0
	appended.Range(func(k, _ any) bool {
		n := count[k.(*uerr)]
		if n == 0 {
			missing++
		}
		if n > 1 {
			dup++
		}
		return true
	})
	if listsRewritten > 0 {
		r.Violate("caller-list-rewritten", fmt.Sprintf("[%s] AppendError(nil, e1, nil, e2, nil) rewrote the caller's own list in %d calls", kind, listsRewritten), wit)
	}
	if missing > 0 || dup > 0 {
		r.Violate("errors-not-retained", fmt.Sprintf("[%s] %d of %d appended errors are missing from Errors(), %d appear more than once (len(Errors())=%d)", kind, missing, nAppended, dup, len(errs)), wit)
	}
	watcherKill := int64(0)
	if (parentEnd == 1 || parentEnd == 2) && int64(cancels) == nKill+1 {
		watcherKill = 1 // the watcher saw the failed parent first and killed the isolated scope
		r.AddObs("isolated_killed_by_its_watcher", 1)
	}
	if int64(cancels) != nKill+watcherKill {
		r.Violate("kill-not-recorded", fmt.Sprintf("[%s] %d Kill calls but %d context.Canceled entries", kind, nKill, cancels), wit)
	}
	wantErr := nAppended+nKill+watcherKill+nSame+nSlice > 0
	if (s.ctx.Err() != nil) != wantErr {
		r.Violate("err-accessor", fmt.Sprintf("[%s] Err()=%v although appended=%d kills=%d", kind, s.ctx.Err(), nAppended, nKill), wit)
	}
	// every appended error is reported by Err / Wait / Close, not only by Errors()
	reports := func(what string, e error) {
		if e == nil {
			return
		}
		got := map[*uerr]bool{}
		collect(e, got, 0)
		miss := 0
		appended.Range(func(k, _ any) bool {
			if !got[k.(*uerr)] {
				miss++
			}
			return true
		})
		if miss > 0 {
			r.Violate("error-not-reported", fmt.Sprintf("[%s] %s reports an error that lacks %d of the %d appended errors (Errors() holds %d entries)", kind, what, miss, nAppended, len(errs)), wit)
		}
	}
	reports("Err()", s.ctx.Err())
	if s.parent != nil && kind == "child-shared" {
		reports("parent.Err()", s.parent.Err())
	}
	if signalled {
		select {
		case <-s.ctx.Done():
		default:
			r.Violate("done-not-signalled", fmt.Sprintf("[%s] Done() is not closed after %d appends, %d kills, %d stops", kind, nAppended, nKill, nStop), wit)
		}
		if !s.ctx.IsDone() {
			r.Violate("done-not-signalled", fmt.Sprintf("[%s] IsDone()=false after signalling", kind), wit)
		}
	}
	// the done signal fires exactly once: a second receive on a closed channel also succeeds, a panic
	// on double close was caught above; nothing more is observable here.
	// errors that arrive while Close is already rolling back (a failing rollback listener) are
	// appended errors like any other: Close must report them too
	var lateMu sync.Mutex
	var late []*uerr
	if s.scp != nil && rng.Intn(2) == 0 {
		ev := []int{app.BeforeRollbackEvent, app.RollbackEvent, app.AfterRollbackEvent}[rng.Intn(3)]
		s.scp.On(ev, func(interface{}) error {
			e := &uerr{id: atomic.AddInt64(&errCtr, 1)}
			lateMu.Lock()
			late = append(late, e)
			lateMu.Unlock()
			return e
		})
	}
	if s.scp != nil {
		werr := s.scp.Wait()
		if (werr != nil) != wantErr {
			r.Violate("wait-result", fmt.Sprintf("[%s] Wait()=%v although appended=%d kills=%d", kind, werr, nAppended, nKill), wit)
		}
		reports("Wait()", werr)
		var cerr error
		func() {
			defer func() {
				if x := recover(); x != nil {
					r.Violate("close-panic", fmt.Sprintf("[%s] Close panicked: %v", kind, x), wit)
				}
			}()
			cerr = s.scp.Close()
		}()
		if (cerr != nil) != wantErr {
			r.Violate("close-result", fmt.Sprintf("[%s] Close()=%v although appended=%d kills=%d", kind, cerr, nAppended, nKill), wit)
		}
		reports("Close()", cerr)
		lateMu.Lock()
		lateErrs := append([]*uerr{}, late...)
		lateMu.Unlock()
		if len(lateErrs) > 0 {
			r.AddObs("closes_with_a_failing_rollback_listener", 1)
			got := map[*uerr]bool{}
			collect(cerr, got, 0)
			held := map[*uerr]bool{}
			for _, e := range s.ctx.Errors() {
				if u, ok := e.(*uerr); ok {
					held[u] = true
				}
			}
			for _, e := range lateErrs {
				if !held[e] {
					r.Violate("errors-not-retained", fmt.Sprintf("[%s] the error returned by a rollback listener during Close is not in Errors()", kind), wit)
				} else if !got[e] {
					r.Violate("error-not-reported", fmt.Sprintf("[%s] Close() reports an error that lacks the error a rollback listener returned during this Close (Errors() holds it)", kind), wit)
				}
			}
		}
		if s.parent != nil {
			parentFailed := s.parent.Err() != nil
			if kind == "child-shared" && parentFailed != wantErr {
				r.Violate("shared-child-parent", fmt.Sprintf("[child-shared] parent Err()=%v although the child got appended=%d kills=%d", s.parent.Err(), nAppended, nKill), wit)
			}
			if kind == "child-isolated" && parentEnd == 0 && parentFailed {
				r.Violate("isolated-child-leaked", fmt.Sprintf("[child-isolated] parent Err()=%v", s.parent.Err()), wit)
			}
			if kind == "child-isolated" && parentEnd != 0 {
				checkParentOwnErrors(r, kind, s.parent, parentEnd, parentErr, &appended, wit)
			}
			done := make(chan error, 1)
			go func() { done <- s.parent.Wait() }()
			select {
			case <-done:
			case <-time.After(20 * time.Second):
				r.Inconclusive = "parent.Wait() did not return within the watchdog after the child closed"
				return
			}
			func() {
				defer func() {
					if x := recover(); x != nil {
						r.Violate("close-panic", fmt.Sprintf("[%s] parent Close panicked: %v", kind, x), wit)
					}
				}()
				s.parent.Close()
			}()
		}
	}
	if s.isoPar != nil && parentEnd == 0 && s.isoPar.Err() != nil {
		r.Violate("isolated-leaked", fmt.Sprintf("[isolated] parent context Err()=%v", s.isoPar.Err()), wit)
	}
	if s.isoPar != nil && parentEnd != 0 {
		checkParentOwnErrors(r, kind, s.isoPar, parentEnd, parentErr, &appended, wit)
	}
	r.AddObs("hammer_trials", 1)
	r.AddObs("signalling_calls", int64(g*opsPer))
	r.AddObs("errors_appended", nAppended)
	r.AddObs("kills", nKill)
	r.AddObs("stops", nStop)
	r.AddObs("subject_"+kind, 1)
}

// checkParentOwnErrors: the parent of an isolated subject holds exactly what was done to the parent.
func checkParentOwnErrors(r *sup.CaseResult, kind string, parent app.ContextScope, parentEnd int, parentErr *uerr, appended *sync.Map, wit map[string]any) {
	errs := parent.Errors()
	want := map[int]int{1: 1, 2: 1, 3: 0}[parentEnd]
	leaked := 0
	for _, e := range errs {
		if u, ok := e.(*uerr); ok {
			if _, mine := appended.Load(u); mine {
				leaked++
			}
		}
	}
	if leaked > 0 {
		r.Violate("isolated-leaked", fmt.Sprintf("[%s] %d errors appended to the isolated scope appear in its parent's Errors()", kind, leaked), wit)
	}
	if len(errs) != want {
		r.Violate("isolated-parent-errors", fmt.Sprintf("[%s] parent ended by %s holds %d errors, want %d: %v", kind, []string{"", "Kill", "AppendError", "Stop"}[parentEnd], len(errs), want, errs), wit)
	}
	if parentEnd == 2 && want == len(errs) && errs[0] != error(parentErr) {
		r.Violate("isolated-parent-errors", fmt.Sprintf("[%s] parent holds %v instead of the error appended to it", kind, errs[0]), wit)
	}
}

// goid is the id of the calling goroutine (as printed in goroutine dumps).
func goid() string {
	buf := make([]byte, 64)
	f := strings.Fields(string(buf[:runtime.Stack(buf, false)]))
	if len(f) > 1 {
		return f[1]
	}
	return "?"
}

// watchersGone waits (scheduler yields, a bounded number of rounds) until no watcher goroutine of
// contextscope.NewIsolated created by goroutine creator is left.
func watchersGone(creator string) bool {
	buf := make([]byte, 4<<20)
	for round := 0; round < 4000; round++ {
		left := false
		for _, blk := range strings.Split(string(buf[:runtime.Stack(buf, true)]), "\n\n") {
			if strings.Contains(blk, "contextscope.NewIsolated.func") && strings.Contains(blk, "in goroutine "+creator+"\n") {
				left = true
				break
			}
		}
		if !left {
			return true
		}
		if round%20 == 19 {
			time.Sleep(100 * time.Microsecond)
		} else {
			runtime.Gosched()
		}
	}
	return false
}

// observers: the scope is ended by Kill / AppendError only (no Stop anywhere), so its done signal
// is caused by a call that carries an error. Whoever reacts to the done signal – a goroutine
// polling IsDone()/Done(), or Wait() returning because the scope's task left on Done() – must
// find that error: it is "reported by the error accessors and by waiting on it".
func observers(r *sup.CaseResult, rng *rand.Rand, kind string) {
	s := newSubject(kind)
	defer func() {
		if s.rawPar != nil {
			s.rawIso.Stop()
			s.rawPar.Stop()
		}
	}()
	nEnd, nObs := 1+rng.Intn(3), 1+rng.Intn(3)
	withTask := s.scp != nil && rng.Intn(2) == 0
	var bad, seen, panics int64
	var first atomic.Value
	var wg sync.WaitGroup
	start := make(chan struct{})
	guard := func() {
		if x := recover(); x != nil {
			atomic.AddInt64(&panics, 1)
			first.CompareAndSwap(nil, "panic: "+fmt.Sprint(x))
		}
	}
	var werr error
	waited := false
	if withTask {
		if s.scp.AddTasks(1) == nil {
			waited = true
			wg.Add(2)
			go func() {
				defer wg.Done()
				defer guard()
				<-s.scp.Done()
				s.scp.DoneTask()
			}()
			go func() {
				defer wg.Done()
				defer guard()
				werr = s.scp.Wait()
			}()
		}
	}
	for i := 0; i < nObs; i++ {
		wg.Add(1)
		how := rng.Intn(3)
		if how == 0 && runtime.GOMAXPROCS(0) == 1 {
			how = 2 // a tight loop on one processor only waits for its own preemption
		}
		go func() {
			defer wg.Done()
			defer guard()
			<-start
			switch how {
			case 0:
				for !s.ctx.IsDone() {
				}
			case 1:
				<-s.ctx.Done()
			default:
				for !s.ctx.IsDone() {
					runtime.Gosched()
				}
			}
			e, n := s.ctx.Err(), len(s.ctx.Errors())
			atomic.AddInt64(&seen, 1)
			if e == nil || n == 0 {
				atomic.AddInt64(&bad, 1)
				first.CompareAndSwap(nil, fmt.Sprintf("after the done signal (observed through %s) Err()=%v and len(Errors())=%d", []string{"a tight IsDone loop", "<-Done()", "an IsDone loop with yields"}[how], e, n))
			}
		}()
	}
	nKill := 0
	for i := 0; i < nEnd; i++ {
		wg.Add(1)
		kill := rng.Intn(2) == 0
		if kill {
			nKill++
		}
		delay := rng.Intn(10)
		go func() {
			defer wg.Done()
			defer guard()
			<-start
			for k := 0; k < delay; k++ {
				runtime.Gosched()
			}
			if kill {
				s.ctx.Kill()
			} else {
				s.ctx.AppendError(&uerr{id: atomic.AddInt64(&errCtr, 1)})
			}
		}()
	}
	close(start)
	wg.Wait()
	wit := map[string]any{"kind": kind, "enders": nEnd, "kills": nKill, "observers": nObs, "task_and_waiter": waited}
	if panics > 0 {
		r.Violate("panic", fmt.Sprintf("[%s] observers scenario: %d goroutines panicked; first: %v", kind, panics, first.Load()), wit)
		return
	}
	if bad > 0 {
		r.Violate("done-without-error-observed", fmt.Sprintf("[%s] the scope was ended by Kill/AppendError only (%d enders, %d Kill), yet %d of %d observers found no error once the done signal had fired: %v", kind, nEnd, nKill, bad, nObs, first.Load()), wit)
	}
	if waited {
		r.AddObs("waits_released_by_the_done_signal", 1)
		if werr == nil {
			r.Violate("wait-result", fmt.Sprintf("[%s] Wait() was released by the done signal of a scope ended by Kill/AppendError only (%d enders, %d Kill) and returned nil", kind, nEnd, nKill), wit)
		}
	}
	if s.scp != nil {
		func() {
			defer func() {
				if x := recover(); x != nil {
					r.Violate("close-panic", fmt.Sprintf("[%s] Close panicked: %v", kind, x), wit)
				}
			}()
			if s.scp.Close() == nil {
				r.Violate("close-result", fmt.Sprintf("[%s] Close()=nil after %d Kill/AppendError calls", kind, nEnd), wit)
			}
			if s.parent != nil {
				s.parent.Close()
			}
		}()
	}
	r.AddObs("observer_trials", 1)
	r.AddObs("observations_after_the_done_signal", seen)
}

// waitIsStuck decides what a Wait() that has not returned by the watchdog means: a violation
// only if, in two goroutine dumps, the only goroutines inside goatcore are parked in
// sync.WaitGroup.Wait (nobody is left who could ever sign off); anything else is inconclusive.
func waitIsStuck() bool {
	look := func() bool {
		buf := make([]byte, 8<<20)
		parked := false
		for _, blk := range strings.Split(string(buf[:runtime.Stack(buf, true)]), "\n\n") {
			if !strings.Contains(blk, "github.com/goatcms/goatcore/") || strings.Contains(blk, "[running]") {
				continue
			}
			if strings.Contains(blk, "sync.(*WaitGroup).Wait") {
				parked = true
				continue
			}
			if strings.Contains(blk, "contextscope.NewIsolated.func") {
				continue // watchers of isolated contexts sign nothing off
			}
			return false // somebody else is still at work inside the library
		}
		return parked
	}
	if !look() {
		return false
	}
	time.Sleep(500 * time.Millisecond)
	return look()
}

// twoTasks: two tasks (child scopes sharing the context) are registered on a scope; the first fails at once, the second notices the
// done signal, works a little longer, fails as well and signs off. Wait() and Close() return only
// after both have signed off, so they report both errors.
func twoTasks(r *sup.CaseResult, rng *rand.Rand, kind string) {
	s := newSubject(kind)
	if s.scp == nil {
		return
	}
	defer func() {
		if s.rawPar != nil {
			s.rawIso.Stop()
			s.rawPar.Stop()
		}
	}()
	// the tasks are child scopes on the owner's context (what a command or a pipeline task is):
	// creating one registers it with the owner, closing it signs it off
	c1 := scope.NewChild(s.scp, scope.ChildParams{})
	c2 := scope.NewChild(s.scp, scope.ChildParams{})
	e1 := &uerr{id: atomic.AddInt64(&errCtr, 1)}
	e2 := &uerr{id: atomic.AddInt64(&errCtr, 1)}
	work := 1 + rng.Intn(60)
	var second int64 // 1 once the second task has signed off
	go func() {
		defer func() { recover() }()
		c1.AppendError(e1)
		c1.Close()
	}()
	go func() {
		defer func() { recover() }()
		<-c2.Done()
		for k := 0; k < work; k++ {
			runtime.Gosched()
		}
		c2.AppendError(e2)
		atomic.StoreInt64(&second, 1)
		c2.Close()
	}()
	useClose := rng.Intn(2) == 0
	var err error
	what := "Wait()"
	if useClose {
		what = "Close()"
		func() {
			defer func() {
				if x := recover(); x != nil {
					r.Violate("close-panic", fmt.Sprintf("[%s] Close panicked: %v", kind, x), nil)
				}
			}()
			err = s.scp.Close()
		}()
	} else {
		err = s.scp.Wait()
	}
	wit := map[string]any{"kind": kind, "second_task_work": work, "via": what}
	if atomic.LoadInt64(&second) != 1 {
		r.Violate("wait-returned-before-tasks-signed-off", fmt.Sprintf("[%s] %s returned while the second registered task had not signed off", kind, what), wit)
	}
	got := map[*uerr]bool{}
	collect(err, got, 0)
	if !got[e1] || !got[e2] {
		r.Violate("error-not-reported", fmt.Sprintf("[%s] %s reports %v: the error of the first task present=%v, of the second task present=%v (both tasks were registered before and signed off)", kind, what, err, got[e1], got[e2]), wit)
	}
	if !useClose {
		func() {
			defer func() { recover() }()
			s.scp.Close()
		}()
	}
	if s.parent != nil {
		func() {
			defer func() { recover() }()
			s.parent.Close()
		}()
	}
	r.AddObs("two_failing_tasks_trials", 1)
}

// childOfDone: child creation/closing racing with and following the parent's end.
func childOfDone(r *sup.CaseResult, rng *rand.Rand, g int, isolated bool) {
	parent := scope.New(scope.Params{})
	var panics int64
	var firstPanic atomic.Value
	var created, afterDone int64
	start := make(chan struct{})
	var wg sync.WaitGroup
	ender := rng.Intn(3) // 0 kill, 1 stop, 2 append
	delay := rng.Intn(6)
	wg.Add(1)
	go func() {
		defer wg.Done()
		<-start
		for i := 0; i < delay; i++ {
			runtime.Gosched()
		}
		switch ender {
		case 0:
			parent.Kill()
		case 1:
			parent.Stop()
		default:
			parent.AppendError(&uerr{id: atomic.AddInt64(&errCtr, 1)})
		}
	}()
	for i := 0; i < g; i++ {
		wg.Add(1)
		n := 1 + rng.Intn(6)
		go func() {
			defer wg.Done()
			defer func() {
				if x := recover(); x != nil {
					atomic.AddInt64(&panics, 1)
					firstPanic.CompareAndSwap(nil, fmt.Sprint(x))
				}
			}()
			<-start
			for k := 0; k < n; k++ {
				wasDone := parent.IsDone()
				params := scope.ChildParams{}
				if isolated {
					params.ContextScope = contextscope.NewIsolated(parent.BaseContextScope())
				}
				c := scope.NewChild(parent, params)
				atomic.AddInt64(&created, 1)
				if wasDone {
					atomic.AddInt64(&afterDone, 1)
				}
				runtime.Gosched()
				c.Close()
			}
		}()
	}
	close(start)
	wg.Wait()
	wit := map[string]any{"creators": g, "isolated_children": isolated, "ender": []string{"Kill", "Stop", "AppendError"}[ender]}
	if panics > 0 {
		r.Violate("child-of-done-panic", fmt.Sprintf("%d goroutines panicked while creating/closing children of an ending scope; first: %v", panics, firstPanic.Load()), wit)
		return
	}
	// an isolated child created after the parent's end is still stopped by it ("a child with an
	// isolated context ... is still stopped when the parent stops"): its Done() must close. The
	// verdict is not a timeout: if the context is still open and no watcher goroutine of an
	// isolated context is left in the process, nothing can ever close it.
	if isolated {
		for k := 0; k < 2; k++ {
			ictx := contextscope.NewIsolated(parent.BaseContextScope())
			closed := false
			for w := 0; w < 20000 && !closed; w++ {
				if ictx.IsDone() {
					closed = true
					break
				}
				if w%50 == 49 {
					time.Sleep(50 * time.Microsecond)
				} else {
					runtime.Gosched()
				}
			}
			if !closed {
				buf := make([]byte, 1<<20)
				d := string(buf[:runtime.Stack(buf, true)])
				if !strings.Contains(d, "contextscope.NewIsolated.func") {
					r.Violate("isolated-child-of-ended-parent-never-stopped", fmt.Sprintf("an isolated context created after the parent's %s is not done and no watcher goroutine exists that could ever stop it", []string{"Kill", "Stop", "AppendError"}[ender]), wit)
				} else {
					r.Inconclusive = "isolated child of an ended parent not yet done, watcher goroutine still present"
				}
				return
			}
			r.AddObs("isolated_children_of_ended_parent_stopped", 1)
			// the scope of an ended parent is a scope like any other: signalling on it is safe
			func() {
				how := (k + int(atomic.LoadInt64(&created))) % 3
				defer func() {
					if x := recover(); x != nil {
						r.Violate("child-of-done-panic", fmt.Sprintf("signalling (%s) on an isolated context created after the parent's %s panicked: %v", []string{"AppendError", "Kill", "Stop"}[how], []string{"Kill", "Stop", "AppendError"}[ender], x), wit)
					}
				}()
				switch how {
				case 0:
					ictx.AppendError(&uerr{id: atomic.AddInt64(&errCtr, 1)})
				case 1:
					ictx.Kill()
				default:
					ictx.Stop()
				}
				ictx.Stop()
				_ = ictx.Err()
			}()
		}
	}
	// children of the already finished scope are created and closed while other goroutines wait on
	// it: a done scope refuses the registration without touching its task accounting, so this is
	// safe use (no Add can race with the Wait)
	{
		var wg2 sync.WaitGroup
		var p2 int64
		var first2 atomic.Value
		for i := 0; i < 3; i++ {
			wg2.Add(1)
			go func() {
				defer wg2.Done()
				defer func() {
					if x := recover(); x != nil {
						atomic.AddInt64(&p2, 1)
						first2.CompareAndSwap(nil, fmt.Sprint(x))
					}
				}()
				for k := 0; k < 40; k++ {
					c := scope.NewChild(parent, scope.ChildParams{})
					c.Close()
					atomic.AddInt64(&afterDone, 1)
				}
			}()
		}
		for i := 0; i < 2; i++ {
			wg2.Add(1)
			go func() {
				defer wg2.Done()
				defer func() {
					if x := recover(); x != nil {
						atomic.AddInt64(&p2, 1)
						first2.CompareAndSwap(nil, fmt.Sprint(x))
					}
				}()
				for k := 0; k < 40; k++ {
					parent.Wait()
					runtime.Gosched()
				}
			}()
		}
		joined := make(chan struct{})
		go func() { wg2.Wait(); close(joined) }()
		select {
		case <-joined:
		case <-time.After(20 * time.Second):
			// the parent is done and every child closes at once: only a task that was registered
			// and never signed off can keep parent.Wait() from returning
			if waitIsStuck() {
				r.Violate("parent-unbalanced", "parent.Wait() of the finished scope blocks for good while children are created and closed beside it: nobody is left inside the library who could sign a task off (task accounting unbalanced)", wit)
			} else {
				r.Inconclusive = "waiters on the finished scope did not return within the watchdog while other goroutines were still inside the library"
			}
			return
		}
		if p2 > 0 {
			r.Violate("child-of-done-panic", fmt.Sprintf("children of the already finished scope were created and closed while other goroutines waited on it: %d calls panicked; first: %v", p2, first2.Load()), wit)
			return
		}
		r.AddObs("children_of_done_scope_created_beside_waiters", 120)
	}
	// a child created after the end: must be safe too (deterministic part)
	func() {
		defer func() {
			if x := recover(); x != nil {
				r.Violate("child-of-done-panic", fmt.Sprintf("creating/closing a child after the parent's end panicked: %v", x), wit)
			}
		}()
		for k := 0; k < 3; k++ {
			c := scope.NewChild(parent, scope.ChildParams{})
			c.Close()
			atomic.AddInt64(&afterDone, 1)
		}
	}()
	done := make(chan error, 1)
	go func() {
		defer func() {
			if x := recover(); x != nil {
				done <- fmt.Errorf("panic: %v", x)
			}
		}()
		done <- parent.Wait()
	}()
	select {
	case err := <-done:
		if err != nil && len(fmt.Sprint(err)) > 6 && fmt.Sprint(err)[:6] == "panic:" {
			r.Violate("parent-unbalanced", fmt.Sprintf("parent.Wait() after the children closed: %v", err), wit)
		}
	case <-time.After(20 * time.Second):
		// all children are closed (joined above); a Wait that still blocks means the parent's task
		// accounting is unbalanced. The decision is the join order, the timer is only the watchdog.
		if waitIsStuck() {
			r.Violate("parent-unbalanced", "parent.Wait() still blocks although every child has been closed and nobody is left inside the library (task accounting unbalanced)", wit)
		} else {
			r.Inconclusive = "parent.Wait() did not return within the watchdog while other goroutines were still inside the library"
		}
		return
	}
	// children of the done scope that outlive it: created now (the done parent does not register
	// them, so its Close does not wait for them), signalled and closed after the parent's Close
	var late []app.Scope
	func() {
		defer func() {
			if x := recover(); x != nil {
				r.Violate("child-of-done-panic", fmt.Sprintf("creating a child after the parent's end panicked: %v", x), wit)
			}
		}()
		for k := 0; k < 4; k++ {
			params := scope.ChildParams{}
			if k%2 == 1 {
				params.ContextScope = contextscope.NewIsolated(parent.BaseContextScope())
			}
			c := scope.NewChild(parent, params)
			if k == 3 {
				c = scope.NewChild(c, scope.ChildParams{}) // a grandchild through a child that is never closed before it
			}
			late = append(late, c)
		}
	}()
	func() {
		defer func() {
			if x := recover(); x != nil {
				r.Violate("close-panic", fmt.Sprintf("parent Close panicked: %v", x), wit)
			}
		}()
		parent.Close()
	}()
	for k, c := range late {
		how := (k + int(atomic.LoadInt64(&created))) % 4
		func() {
			defer func() {
				if x := recover(); x != nil {
					r.Violate("child-of-done-panic", fmt.Sprintf("a child (%d: %s) created after the parent's %s and used after the parent's Close: %s then Close panicked: %v",
						k, []string{"shared", "isolated", "shared", "grandchild"}[k], []string{"Kill", "Stop", "AppendError"}[ender], []string{"Kill", "Stop", "AppendError", "nothing"}[how], x), wit)
				}
			}()
			switch how {
			case 0:
				c.Kill()
			case 1:
				c.Stop()
			case 2:
				c.AppendError(&uerr{id: atomic.AddInt64(&errCtr, 1)})
			}
			_ = c.IsDone()
			c.Close()
		}()
		r.AddObs("children_of_done_scope_closed_after_the_parents_close", 1)
	}
	r.AddObs("child_trials", 1)
	r.AddObs("children_created", atomic.LoadInt64(&created))
	r.AddObs("children_created_after_parent_done", atomic.LoadInt64(&afterDone))
}

// ---- commands on a scope that may just have ended (termexec.RunCommand) ---------------------------------

type miniApp struct {
	mapp *goatapp.MockupApp
	term termservices.Terminal
	runs int64
}

func newMiniApp() (*miniApp, error) {
	m := &miniApp{}
	var err error
	if m.mapp, err = goatapp.NewMockupApp(goatapp.Params{}); err != nil {
		return nil, err
	}
	bs := bootstrap.NewBootstrap(m.mapp)
	if err = bs.Register(terminalm.NewModule()); err != nil {
		return nil, err
	}
	if err = bs.Register(commonm.NewModule()); err != nil {
		return nil, err
	}
	if err = bs.Init(); err != nil {
		return nil, err
	}
	m.mapp.Terminal().SetCommand(terminal.NewCommand(terminal.CommandParams{Name: "probe", Callback: func(a app.App, ctx app.IOContext) error {
		atomic.AddInt64(&m.runs, 1)
		runtime.Gosched()
		return nil
	}}))
	var deps struct {
		Terminal termservices.Terminal `dependency:"TerminalService"`
	}
	if err = m.mapp.DependencyProvider().InjectTo(&deps); err != nil {
		return nil, err
	}
	m.term = deps.Terminal
	return m, nil
}

func commandsOnEndingScope(r *sup.CaseResult, rng *rand.Rand, m *miniApp, g int) {
	ctx := gio.NewChildIOContext(m.mapp.IOContext(), gio.ChildIOContextParams{})
	var panics int64
	var firstPanic atomic.Value
	start := make(chan struct{})
	var wg sync.WaitGroup
	delay := rng.Intn(8)
	wg.Add(1)
	go func() {
		defer wg.Done()
		<-start
		for i := 0; i < delay; i++ {
			runtime.Gosched()
		}
		if rng.Intn(2) == 0 {
			ctx.Scope().Kill()
		} else {
			ctx.Scope().AppendError(&uerr{id: atomic.AddInt64(&errCtr, 1)})
		}
	}()
	var ran int64
	for i := 0; i < g; i++ {
		wg.Add(1)
		n := 1 + rng.Intn(4)
		go func() {
			defer wg.Done()
			defer func() {
				if x := recover(); x != nil {
					atomic.AddInt64(&panics, 1)
					firstPanic.CompareAndSwap(nil, fmt.Sprint(x))
				}
			}()
			<-start
			for k := 0; k < n; k++ {
				m.term.RunString(ctx, "probe")
				atomic.AddInt64(&ran, 1)
			}
		}()
	}
	close(start)
	wg.Wait()
	wit := map[string]any{"command_goroutines": g}
	if panics > 0 {
		r.Violate("command-on-ended-scope-panic", fmt.Sprintf("%d command runs panicked on a scope that was ending; first: %v", panics, firstPanic.Load()), wit)
		return
	}
	done := make(chan struct{})
	go func() {
		defer func() { recover(); close(done) }()
		ctx.Scope().Wait()
	}()
	select {
	case <-done:
	case <-time.After(20 * time.Second):
		if waitIsStuck() {
			r.Violate("parent-unbalanced", "scope.Wait() of the command context still blocks after every command returned and nobody is left inside the library", wit)
		} else {
			r.Inconclusive = "scope.Wait() of the command context did not return within the watchdog while other goroutines were still inside the library"
		}
		return
	}
	func() {
		defer func() {
			if x := recover(); x != nil {
				r.Violate("close-panic", fmt.Sprintf("closing the command context panicked: %v", x), wit)
			}
		}()
		ctx.Close()
	}()
	r.AddObs("command_trials", 1)
	r.AddObs("commands_run", atomic.LoadInt64(&ran))
}

func plan(tier string, seed int64) []sup.Batch {
	nHammer, nChild, nCmd := 24000, 8000, 1600
	if tier == "thorough" {
		nHammer, nChild, nCmd = 600000, 200000, 40000
	}
	var bs []sup.Batch
	procs := []int{2, 4, 16, 1}
	add := func(name, kind string, n, nb int) {
		per := (n + nb - 1) / nb
		i := 0
		for from := 0; from < n; from += per {
			to := from + per
			if to > n {
				to = n
			}
			bs = append(bs, sup.Batch{Name: fmt.Sprintf("%s-%d", name, i), Kind: kind, From: from, To: to, Procs: procs[i%4], TimeoutS: 1800})
			i++
		}
	}
	add("hammer", "hammer", nHammer, 12)
	add("child", "child", nChild, 8)
	add("cmd", "cmd", nCmd, 4)
	add("observe", "observe", nHammer/2, 8)
	return bs
}

func main() {
	sup.Main(sup.Prop{
		ID:    "C12",
		Level: "exploration",
		Race:  true,
		Rule: "hammer: 2…64 goroutines released together issue PRNG-chosen AppendError(unique)/Kill/Stop/IsDone/Err/Errors (the returned list is extended and wiped by the caller)/Done on one plain context, isolated context, scope, shared child or isolated child (GOMAXPROCS 1/2/4/16) – no panic, every appended error retained exactly once (+ one context.Canceled per Kill), Err/Wait/Close report an error iff something was appended, Done closed, shared child fails its parent, isolated child does not; half of the scopes carry a rollback listener that fails during Close – Close reports that error too; for isolated subjects in half of the trials another goroutine ends the parent (Kill/AppendError/Stop) meanwhile: judged once the watcher goroutine has returned – still every appended error retained, at most one extra context.Canceled, the parent holds exactly its own errors; " +
			"observe: the scope is ended by 1…3 concurrent Kill/AppendError calls only, 1…3 observers react to the done signal (tight IsDone loop, <-Done(), IsDone with yields) and read Err()/Errors(); scopes also with a task that leaves on Done() and a Wait() released by it – an error must be there; " +
			"child: goroutines create and close children of a scope while another goroutine ends it, then after its end – no panic, parent.Wait() returns, parent closes; children (shared, isolated, a grandchild) created after the end are kept over the parent's Close and signalled and closed afterwards; cmd: terminal commands (termexec.RunCommand through the real terminal service) issued on an IO context whose scope is being killed. The race detector decides for contextscope/*, scope/scope.go, scope/child.go. distinct = distinct (subject, goroutine count, plan)",
		Assumptions: []string{
			"'the done signal fires exactly once' is observable only as the absence of a close-of-closed-channel panic",
			"in a trial whose only ending calls are Kill/AppendError the done signal is caused by a call that carries an error, so an observation made after the signal (accessors, or Wait released by it) must report an error; with Stop calls in the mix a done scope without errors is legitimate and nothing is asserted",
			"Wait() of the parent is called after all racing creators were joined (calling WaitGroup.Wait concurrently with the first Add is documented misuse and not exercised)",
		},
		Plan: plan,
		Run: func(c *sup.Child, b sup.Batch) {
			var m *miniApp
			// many trials per case keep the event log small; the case description names the range
			const blk = 200
			for from := b.From; from < b.To; from += blk {
				to := from + blk
				if to > b.To {
					to = b.To
				}
				c.Case(from, map[string]any{"kind": b.Kind, "from": from, "to": to}, func(r *sup.CaseResult) {
					for idx := from; idx < to && len(r.Violations) == 0 && r.Inconclusive == ""; idx++ {
						rng := c.Rand(idx)
						g := []int{2, 3, 4, 8, 16, 64}[rng.Intn(6)]
						r.Evals++
						r.AddKey(fmt.Sprintf("%s|%d|%d|%d", b.Kind, idx, g, rng.Int63()))
						switch b.Kind {
						case "hammer":
							hammer(r, rng, kinds[idx%len(kinds)], g, 1+rng.Intn(5))
						case "child":
							if g > 16 {
								g = 16
							}
							childOfDone(r, rng, g, idx%3 == 0)
						case "observe":
							if idx%4 == 3 {
								twoTasks(r, rng, []string{"scope", "child-shared", "child-isolated"}[(idx/4)%3])
							} else {
								observers(r, rng, kinds[idx%len(kinds)])
							}
						case "cmd":
							if m == nil {
								var err error
								if m, err = newMiniApp(); err != nil {
									r.Inconclusive = "application set-up: " + err.Error()
									return
								}
							}
							if g > 8 {
								g = 8
							}
							commandsOnEndingScope(r, rng, m, g)
						}
					}
					r.Key = fmt.Sprintf("%s|%d", b.Kind, from)
					r.Nontrivial = true
					if from == 0 {
						r.Sample = map[string]any{"kind": b.Kind, "trials": to - from, "observed": r.Obs}
					}
				})
			}
		},
		Finish: func(t *sup.Totals) string {
			for _, k := range []string{"observer_trials", "observations_after_the_done_signal", "waits_released_by_the_done_signal", "parent_end_trials_kill", "parent_end_trials_append", "parent_end_trials_stop", "isolated_killed_by_its_watcher", "closes_with_a_failing_rollback_listener", "two_failing_tasks_trials", "appends_of_one_shared_error_value", "appends_of_non_comparable_errors"} {
				if t.Obs[k] == 0 {
					return "monitor observed nothing for " + k
				}
			}
			if t.Obs["hammer_trials"] == 0 || t.Obs["child_trials"] == 0 || t.Obs["command_trials"] == 0 || t.Obs["children_created_after_parent_done"] == 0 {
				return "a monitor observed nothing"
			}
			return ""
		},
		RaceAnchors: []string{"app/scope/contextscope/", "app/scope/scope.go", "app/scope/child.go"},
		RaceDecides: true,
	})
}
