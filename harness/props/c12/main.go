// C12 – scope failure signalling is safe from any number of goroutines.
package main

import (
	"context"
	"errors"
	"fmt"
	"math/rand"
	"runtime"
	"strings"
	"sync"
	"sync/atomic"
	"time"

	"verif/internal/sup"

	"github.com/goatcms/goatcore/app"
	"github.com/goatcms/goatcore/app/bootstrap"
	"github.com/goatcms/goatcore/app/gio"
	"github.com/goatcms/goatcore/app/goatapp"
	"github.com/goatcms/goatcore/app/modules/commonm"
	"github.com/goatcms/goatcore/app/modules/terminalm"
	"github.com/goatcms/goatcore/app/modules/terminalm/termservices"
	"github.com/goatcms/goatcore/app/scope"
	"github.com/goatcms/goatcore/app/scope/contextscope"
	"github.com/goatcms/goatcore/app/terminal"
)

type uerr struct{ id int64 }

func (e *uerr) Error() string { return fmt.Sprintf("unique-error-%d", e.id) }

var errCtr int64

// ---- subjects -----------------------------------------------------------------------------------------

type subject struct {
	kind   string
	ctx    app.ContextScope // what the callers hammer
	scp    app.Scope        // non-nil when the subject is a full scope (Wait/Close checked)
	parent app.Scope        // for child subjects: the parent (must end up failed too for shared children)
	isoPar app.ContextScope
}

func newSubject(kind string) *subject {
	s := &subject{kind: kind}
	switch kind {
	case "context":
		s.ctx = contextscope.New()
	case "isolated":
		s.isoPar = contextscope.New()
		s.ctx = contextscope.NewIsolated(s.isoPar)
	case "scope":
		s.scp = scope.New(scope.Params{})
		s.ctx = s.scp
	case "child-shared":
		s.parent = scope.New(scope.Params{})
		s.scp = scope.NewChild(s.parent, scope.ChildParams{})
		s.ctx = s.scp
	case "child-isolated":
		s.parent = scope.New(scope.Params{})
		s.scp = scope.NewChild(s.parent, scope.ChildParams{ContextScope: contextscope.NewIsolated(s.parent.BaseContextScope())})
		s.ctx = s.scp
	}
	return s
}

var kinds = []string{"context", "isolated", "scope", "child-shared", "child-isolated"}

// collect gathers the unique test errors reachable from e (goaterr wrappers expose UnwrapAll).
func collect(e error, into map[*uerr]bool, depth int) {
	if e == nil || depth > 8 {
		return
	}
	if u, ok := e.(*uerr); ok {
		into[u] = true
		return
	}
	if w, ok := e.(interface{ UnwrapAll() []error }); ok {
		for _, x := range w.UnwrapAll() {
			collect(x, into, depth+1)
		}
		return
	}
	collect(errors.Unwrap(e), into, depth+1)
}

// hammer: G goroutines, each a short PRNG-chosen sequence of signalling calls.
func hammer(r *sup.CaseResult, rng *rand.Rand, kind string, g, opsPer int) {
	s := newSubject(kind)
	type plan struct{ ops []int }
	plans := make([]plan, g)
	for i := range plans {
		for j := 0; j < opsPer; j++ {
			plans[i].ops = append(plans[i].ops, rng.Intn(8))
		}
	}
	var appended sync.Map // *uerr → true
	var nAppended, nKill, nStop, panics int64
	var firstPanic atomic.Value
	start := make(chan struct{})
	var wg sync.WaitGroup
	for i := 0; i < g; i++ {
		wg.Add(1)
		go func(p plan) {
			defer wg.Done()
			defer func() {
				if x := recover(); x != nil {
					atomic.AddInt64(&panics, 1)
					firstPanic.CompareAndSwap(nil, fmt.Sprint(x))
				}
			}()
			<-start
			for _, op := range p.ops {
				switch op {
				case 0, 1:
					e := &uerr{id: atomic.AddInt64(&errCtr, 1)}
					appended.Store(e, true)
					atomic.AddInt64(&nAppended, 1)
					s.ctx.AppendError(e)
				case 2:
					atomic.AddInt64(&nKill, 1)
					s.ctx.Kill()
				case 3:
					atomic.AddInt64(&nStop, 1)
					s.ctx.Stop()
				case 4:
					s.ctx.IsDone()
				case 5:
					_ = s.ctx.Err()
					if s.parent != nil {
						_ = s.parent.Err() // the parent of a shared child is asked while errors still arrive
					}
				case 6:
					_ = len(s.ctx.Errors())
				case 7:
					select {
					case <-s.ctx.Done():
					default:
					}
					runtime.Gosched()
				}
			}
		}(plans[i])
	}
	close(start)
	wg.Wait()
	wit := map[string]any{"kind": kind, "goroutines": g, "ops_per_goroutine": opsPer}
	if panics > 0 {
		r.Violate("panic", fmt.Sprintf("[%s] %d signalling calls panicked; first: %v", kind, panics, firstPanic.Load()), wit)
		return
	}
	signalled := nAppended+nKill+nStop > 0
	errs := s.ctx.Errors()
	count := map[error]int{}
	cancels := 0
	for _, e := range errs {
		if errors.Is(e, context.Canceled) && e == context.Canceled {
			cancels++
			continue
		}
		count[e]++
	}
	missing, dup := 0, 0
	appended.Range(func(k, _ any) bool {
		n := count[k.(*uerr)]
		if n == 0 {
			missing++
		}
		if n > 1 {
			dup++
		}
		return true
	})
	if missing > 0 || dup > 0 {
		r.Violate("errors-not-retained", fmt.Sprintf("[%s] %d of %d appended errors are missing from Errors(), %d appear more than once (len(Errors())=%d)", kind, missing, nAppended, dup, len(errs)), wit)
	}
	if int64(cancels) != nKill {
		r.Violate("kill-not-recorded", fmt.Sprintf("[%s] %d Kill calls but %d context.Canceled entries", kind, nKill, cancels), wit)
	}
	wantErr := nAppended+nKill > 0
	if (s.ctx.Err() != nil) != wantErr {
		r.Violate("err-accessor", fmt.Sprintf("[%s] Err()=%v although appended=%d kills=%d", kind, s.ctx.Err(), nAppended, nKill), wit)
	}
	// every appended error is reported by Err / Wait / Close, not only by Errors()
	reports := func(what string, e error) {
		if e == nil {
			return
		}
		got := map[*uerr]bool{}
		collect(e, got, 0)
		miss := 0
		appended.Range(func(k, _ any) bool {
			if !got[k.(*uerr)] {
				miss++
			}
			return true
		})
		if miss > 0 {
			r.Violate("error-not-reported", fmt.Sprintf("[%s] %s reports an error that lacks %d of the %d appended errors (Errors() holds %d entries)", kind, what, miss, nAppended, len(errs)), wit)
		}
	}
	reports("Err()", s.ctx.Err())
	if s.parent != nil && kind == "child-shared" {
		reports("parent.Err()", s.parent.Err())
	}
	if signalled {
		select {
		case <-s.ctx.Done():
		default:
			r.Violate("done-not-signalled", fmt.Sprintf("[%s] Done() is not closed after %d appends, %d kills, %d stops", kind, nAppended, nKill, nStop), wit)
		}
		if !s.ctx.IsDone() {
			r.Violate("done-not-signalled", fmt.Sprintf("[%s] IsDone()=false after signalling", kind), wit)
		}
	}
	// the done signal fires exactly once: a second receive on a closed channel also succeeds, a panic
	// on double close was caught above; nothing more is observable here.
	if s.scp != nil {
		werr := s.scp.Wait()
		if (werr != nil) != wantErr {
			r.Violate("wait-result", fmt.Sprintf("[%s] Wait()=%v although appended=%d kills=%d", kind, werr, nAppended, nKill), wit)
		}
		reports("Wait()", werr)
		var cerr error
		func() {
			defer func() {
				if x := recover(); x != nil {
					r.Violate("close-panic", fmt.Sprintf("[%s] Close panicked: %v", kind, x), wit)
				}
			}()
			cerr = s.scp.Close()
		}()
		if (cerr != nil) != wantErr {
			r.Violate("close-result", fmt.Sprintf("[%s] Close()=%v although appended=%d kills=%d", kind, cerr, nAppended, nKill), wit)
		}
		reports("Close()", cerr)
		if s.parent != nil {
			parentFailed := s.parent.Err() != nil
			if kind == "child-shared" && parentFailed != wantErr {
				r.Violate("shared-child-parent", fmt.Sprintf("[child-shared] parent Err()=%v although the child got appended=%d kills=%d", s.parent.Err(), nAppended, nKill), wit)
			}
			if kind == "child-isolated" && parentFailed {
				r.Violate("isolated-child-leaked", fmt.Sprintf("[child-isolated] parent Err()=%v", s.parent.Err()), wit)
			}
			done := make(chan error, 1)
			go func() { done <- s.parent.Wait() }()
			select {
			case <-done:
			case <-time.After(20 * time.Second):
				r.Inconclusive = "parent.Wait() did not return within the watchdog after the child closed"
				return
			}
			func() {
				defer func() {
					if x := recover(); x != nil {
						r.Violate("close-panic", fmt.Sprintf("[%s] parent Close panicked: %v", kind, x), wit)
					}
				}()
				s.parent.Close()
			}()
		}
	}
	if s.isoPar != nil && s.isoPar.Err() != nil {
		r.Violate("isolated-leaked", fmt.Sprintf("[isolated] parent context Err()=%v", s.isoPar.Err()), wit)
	}
	r.AddObs("hammer_trials", 1)
	r.AddObs("signalling_calls", int64(g*opsPer))
	r.AddObs("errors_appended", nAppended)
	r.AddObs("kills", nKill)
	r.AddObs("stops", nStop)
	r.AddObs("subject_"+kind, 1)
}

// childOfDone: child creation/closing racing with and following the parent's end.
func childOfDone(r *sup.CaseResult, rng *rand.Rand, g int, isolated bool) {
	parent := scope.New(scope.Params{})
	var panics int64
	var firstPanic atomic.Value
	var created, afterDone int64
	start := make(chan struct{})
	var wg sync.WaitGroup
	ender := rng.Intn(3) // 0 kill, 1 stop, 2 append
	delay := rng.Intn(6)
	wg.Add(1)
	go func() {
		defer wg.Done()
		<-start
		for i := 0; i < delay; i++ {
			runtime.Gosched()
		}
		switch ender {
		case 0:
			parent.Kill()
		case 1:
			parent.Stop()
		default:
			parent.AppendError(&uerr{id: atomic.AddInt64(&errCtr, 1)})
		}
	}()
	for i := 0; i < g; i++ {
		wg.Add(1)
		n := 1 + rng.Intn(6)
		go func() {
			defer wg.Done()
			defer func() {
				if x := recover(); x != nil {
					atomic.AddInt64(&panics, 1)
					firstPanic.CompareAndSwap(nil, fmt.Sprint(x))
				}
			}()
			<-start
			for k := 0; k < n; k++ {
				wasDone := parent.IsDone()
				params := scope.ChildParams{}
				if isolated {
					params.ContextScope = contextscope.NewIsolated(parent.BaseContextScope())
				}
				c := scope.NewChild(parent, params)
				atomic.AddInt64(&created, 1)
				if wasDone {
					atomic.AddInt64(&afterDone, 1)
				}
				runtime.Gosched()
				c.Close()
			}
		}()
	}
	close(start)
	wg.Wait()
	wit := map[string]any{"creators": g, "isolated_children": isolated, "ender": []string{"Kill", "Stop", "AppendError"}[ender]}
	if panics > 0 {
		r.Violate("child-of-done-panic", fmt.Sprintf("%d goroutines panicked while creating/closing children of an ending scope; first: %v", panics, firstPanic.Load()), wit)
		return
	}
	// an isolated child created after the parent's end is still stopped by it ("a child with an
	// isolated context ... is still stopped when the parent stops"): its Done() must close. The
	// verdict is not a timeout: if the context is still open and no watcher goroutine of an
	// isolated context is left in the process, nothing can ever close it.
	if isolated {
		for k := 0; k < 2; k++ {
			ictx := contextscope.NewIsolated(parent.BaseContextScope())
			closed := false
			for w := 0; w < 20000 && !closed; w++ {
				if ictx.IsDone() {
					closed = true
					break
				}
				if w%50 == 49 {
					time.Sleep(50 * time.Microsecond)
				} else {
					runtime.Gosched()
				}
			}
			if !closed {
				buf := make([]byte, 1<<20)
				d := string(buf[:runtime.Stack(buf, true)])
				if !strings.Contains(d, "contextscope.NewIsolated.func") {
					r.Violate("isolated-child-of-ended-parent-never-stopped", fmt.Sprintf("an isolated context created after the parent's %s is not done and no watcher goroutine exists that could ever stop it", []string{"Kill", "Stop", "AppendError"}[ender]), wit)
				} else {
					r.Inconclusive = "isolated child of an ended parent not yet done, watcher goroutine still present"
				}
				return
			}
			r.AddObs("isolated_children_of_ended_parent_stopped", 1)
		}
	}
	// children of the already finished scope are created and closed while other goroutines wait on
	// it: a done scope refuses the registration without touching its task accounting, so this is
	// safe use (no Add can race with the Wait)
	{
		var wg2 sync.WaitGroup
		var p2 int64
		var first2 atomic.Value
		for i := 0; i < 3; i++ {
			wg2.Add(1)
			go func() {
				defer wg2.Done()
				defer func() {
					if x := recover(); x != nil {
						atomic.AddInt64(&p2, 1)
						first2.CompareAndSwap(nil, fmt.Sprint(x))
					}
				}()
				for k := 0; k < 40; k++ {
					c := scope.NewChild(parent, scope.ChildParams{})
					c.Close()
					atomic.AddInt64(&afterDone, 1)
				}
			}()
		}
		for i := 0; i < 2; i++ {
			wg2.Add(1)
			go func() {
				defer wg2.Done()
				defer func() {
					if x := recover(); x != nil {
						atomic.AddInt64(&p2, 1)
						first2.CompareAndSwap(nil, fmt.Sprint(x))
					}
				}()
				for k := 0; k < 40; k++ {
					parent.Wait()
					runtime.Gosched()
				}
			}()
		}
		wg2.Wait()
		if p2 > 0 {
			r.Violate("child-of-done-panic", fmt.Sprintf("children of the already finished scope were created and closed while other goroutines waited on it: %d calls panicked; first: %v", p2, first2.Load()), wit)
			return
		}
		r.AddObs("children_of_done_scope_created_beside_waiters", 120)
	}
	// a child created after the end: must be safe too (deterministic part)
	func() {
		defer func() {
			if x := recover(); x != nil {
				r.Violate("child-of-done-panic", fmt.Sprintf("creating/closing a child after the parent's end panicked: %v", x), wit)
			}
		}()
		for k := 0; k < 3; k++ {
			c := scope.NewChild(parent, scope.ChildParams{})
			c.Close()
			atomic.AddInt64(&afterDone, 1)
		}
	}()
	done := make(chan error, 1)
	go func() {
		defer func() {
			if x := recover(); x != nil {
				done <- fmt.Errorf("panic: %v", x)
			}
		}()
		done <- parent.Wait()
	}()
	select {
	case err := <-done:
		if err != nil && len(fmt.Sprint(err)) > 6 && fmt.Sprint(err)[:6] == "panic:" {
			r.Violate("parent-unbalanced", fmt.Sprintf("parent.Wait() after the children closed: %v", err), wit)
		}
	case <-time.After(20 * time.Second):
		// all children are closed (joined above); a Wait that still blocks means the parent's task
		// accounting is unbalanced. The decision is the join order, the timer is only the watchdog.
		r.Violate("parent-unbalanced", "parent.Wait() still blocks although every child has been closed (task accounting unbalanced)", wit)
		return
	}
	func() {
		defer func() {
			if x := recover(); x != nil {
				r.Violate("close-panic", fmt.Sprintf("parent Close panicked: %v", x), wit)
			}
		}()
		parent.Close()
	}()
	r.AddObs("child_trials", 1)
	r.AddObs("children_created", atomic.LoadInt64(&created))
	r.AddObs("children_created_after_parent_done", atomic.LoadInt64(&afterDone))
}

// ---- commands on a scope that may just have ended (termexec.RunCommand) ---------------------------------

type miniApp struct {
	mapp *goatapp.MockupApp
	term termservices.Terminal
	runs int64
}

func newMiniApp() (*miniApp, error) {
	m := &miniApp{}
	var err error
	if m.mapp, err = goatapp.NewMockupApp(goatapp.Params{}); err != nil {
		return nil, err
	}
	bs := bootstrap.NewBootstrap(m.mapp)
	if err = bs.Register(terminalm.NewModule()); err != nil {
		return nil, err
	}
	if err = bs.Register(commonm.NewModule()); err != nil {
		return nil, err
	}
	if err = bs.Init(); err != nil {
		return nil, err
	}
	m.mapp.Terminal().SetCommand(terminal.NewCommand(terminal.CommandParams{Name: "probe", Callback: func(a app.App, ctx app.IOContext) error {
		atomic.AddInt64(&m.runs, 1)
		runtime.Gosched()
		return nil
	}}))
	var deps struct {
		Terminal termservices.Terminal `dependency:"TerminalService"`
	}
	if err = m.mapp.DependencyProvider().InjectTo(&deps); err != nil {
		return nil, err
	}
	m.term = deps.Terminal
	return m, nil
}

func commandsOnEndingScope(r *sup.CaseResult, rng *rand.Rand, m *miniApp, g int) {
	ctx := gio.NewChildIOContext(m.mapp.IOContext(), gio.ChildIOContextParams{})
	var panics int64
	var firstPanic atomic.Value
	start := make(chan struct{})
	var wg sync.WaitGroup
	delay := rng.Intn(8)
	wg.Add(1)
	go func() {
		defer wg.Done()
		<-start
		for i := 0; i < delay; i++ {
			runtime.Gosched()
		}
		if rng.Intn(2) == 0 {
			ctx.Scope().Kill()
		} else {
			ctx.Scope().AppendError(&uerr{id: atomic.AddInt64(&errCtr, 1)})
		}
	}()
	var ran int64
	for i := 0; i < g; i++ {
		wg.Add(1)
		n := 1 + rng.Intn(4)
		go func() {
			defer wg.Done()
			defer func() {
				if x := recover(); x != nil {
					atomic.AddInt64(&panics, 1)
					firstPanic.CompareAndSwap(nil, fmt.Sprint(x))
				}
			}()
			<-start
			for k := 0; k < n; k++ {
				m.term.RunString(ctx, "probe")
				atomic.AddInt64(&ran, 1)
			}
		}()
	}
	close(start)
	wg.Wait()
	wit := map[string]any{"command_goroutines": g}
	if panics > 0 {
		r.Violate("command-on-ended-scope-panic", fmt.Sprintf("%d command runs panicked on a scope that was ending; first: %v", panics, firstPanic.Load()), wit)
		return
	}
	done := make(chan struct{})
	go func() {
		defer func() { recover(); close(done) }()
		ctx.Scope().Wait()
	}()
	select {
	case <-done:
	case <-time.After(20 * time.Second):
		r.Violate("parent-unbalanced", "scope.Wait() of the command context still blocks after every command returned", wit)
		return
	}
	func() {
		defer func() {
			if x := recover(); x != nil {
				r.Violate("close-panic", fmt.Sprintf("closing the command context panicked: %v", x), wit)
			}
		}()
		ctx.Close()
	}()
	r.AddObs("command_trials", 1)
	r.AddObs("commands_run", atomic.LoadInt64(&ran))
}

func plan(tier string, seed int64) []sup.Batch {
	nHammer, nChild, nCmd := 24000, 8000, 1600
	if tier == "thorough" {
		nHammer, nChild, nCmd = 600000, 200000, 40000
	}
	var bs []sup.Batch
	procs := []int{2, 4, 16, 1}
	add := func(name, kind string, n, nb int) {
		per := (n + nb - 1) / nb
		i := 0
		for from := 0; from < n; from += per {
			to := from + per
			if to > n {
				to = n
			}
			bs = append(bs, sup.Batch{Name: fmt.Sprintf("%s-%d", name, i), Kind: kind, From: from, To: to, Procs: procs[i%4], TimeoutS: 1800})
			i++
		}
	}
	add("hammer", "hammer", nHammer, 12)
	add("child", "child", nChild, 8)
	add("cmd", "cmd", nCmd, 4)
	return bs
}

func main() {
	sup.Main(sup.Prop{
		ID:    "C12",
		Level: "exploration",
		Race:  true,
		Rule: "hammer: 2…64 goroutines released together issue PRNG-chosen AppendError(unique)/Kill/Stop/IsDone/Err/Errors/Done on one plain context, isolated context, scope, shared child or isolated child (GOMAXPROCS 1/2/4/16) – no panic, every appended error retained exactly once (+ one context.Canceled per Kill), Err/Wait/Close report an error iff something was appended, Done closed, shared child fails its parent, isolated child does not; " +
			"child: goroutines create and close children of a scope while another goroutine ends it, then after its end – no panic, parent.Wait() returns, parent closes; cmd: terminal commands (termexec.RunCommand through the real terminal service) issued on an IO context whose scope is being killed. The race detector decides for contextscope/*, scope/scope.go, scope/child.go. distinct = distinct (subject, goroutine count, plan)",
		Assumptions: []string{
			"'the done signal fires exactly once' is observable only as the absence of a close-of-closed-channel panic",
			"Wait() of the parent is called after all racing creators were joined (calling WaitGroup.Wait concurrently with the first Add is documented misuse and not exercised)",
		},
		Plan: plan,
		Run: func(c *sup.Child, b sup.Batch) {
			var m *miniApp
			// many trials per case keep the event log small; the case description names the range
			const blk = 200
			for from := b.From; from < b.To; from += blk {
				to := from + blk
				if to > b.To {
					to = b.To
				}
				c.Case(from, map[string]any{"kind": b.Kind, "from": from, "to": to}, func(r *sup.CaseResult) {
					for idx := from; idx < to && len(r.Violations) == 0 && r.Inconclusive == ""; idx++ {
						rng := c.Rand(idx)
						g := []int{2, 3, 4, 8, 16, 64}[rng.Intn(6)]
						r.Evals++
						r.AddKey(fmt.Sprintf("%s|%d|%d|%d", b.Kind, idx, g, rng.Int63()))
						switch b.Kind {
						case "hammer":
							hammer(r, rng, kinds[idx%len(kinds)], g, 1+rng.Intn(5))
						case "child":
							if g > 16 {
								g = 16
							}
							childOfDone(r, rng, g, idx%3 == 0)
						case "cmd":
							if m == nil {
								var err error
								if m, err = newMiniApp(); err != nil {
									r.Inconclusive = "application set-up: " + err.Error()
									return
								}
							}
							if g > 8 {
								g = 8
							}
							commandsOnEndingScope(r, rng, m, g)
						}
					}
					r.Key = fmt.Sprintf("%s|%d", b.Kind, from)
					r.Nontrivial = true
					if from == 0 {
						r.Sample = map[string]any{"kind": b.Kind, "trials": to - from, "observed": r.Obs}
					}
				})
			}
		},
		Finish: func(t *sup.Totals) string {
			if t.Obs["hammer_trials"] == 0 || t.Obs["child_trials"] == 0 || t.Obs["command_trials"] == 0 || t.Obs["children_created_after_parent_done"] == 0 {
				return "a monitor observed nothing"
			}
			return ""
		},
		RaceAnchors: []string{"app/scope/contextscope/", "app/scope/scope.go", "app/scope/child.go"},
		RaceDecides: true,
	})
}
