package main

import (
	"math/rand"
)

// ---- bounded-exhaustive scripts --------------------------------------------------------------
//
// All trees of at most three scopes (every shared/isolated combination), crossed with
//   - one disturbance: nothing | AppendError/Kill/Stop on any scope, before the first Close or
//     while the first Close is waiting | one always-failing listener on any scope for any of the
//     eleven events (for kill/stop/error events the matching call is issued too),
//   - one task on any scope (or none), finished before the first Close or while it waits,
//   - every order of closing the scopes,
//   - with and without a second Close of the scope closed first.
// Every step is issued synchronously (a Close that cannot finish yet: after its before-close
// was seen), so the schedule of these cases is fixed.

func exhShapes() [][]NodeSpec {
	var out [][]NodeSpec
	out = append(out, []NodeSpec{{P: -1}})
	for _, a := range []bool{false, true} {
		out = append(out, []NodeSpec{{P: -1}, {P: 0, Iso: a}})
	}
	for _, a := range []bool{false, true} {
		for _, b := range []bool{false, true} {
			out = append(out, []NodeSpec{{P: -1}, {P: 0, Iso: a}, {P: 1, Iso: b}})
		}
	}
	for _, ab := range [][2]bool{{false, false}, {false, true}, {true, true}} {
		out = append(out, []NodeSpec{{P: -1}, {P: 0, Iso: ab[0]}, {P: 0, Iso: ab[1]}})
	}
	return out
}

func perms(n int) [][]int {
	if n == 1 {
		return [][]int{{0}}
	}
	var out [][]int
	var rec func(cur []int, used int)
	rec = func(cur []int, used int) {
		if len(cur) == n {
			out = append(out, append([]int(nil), cur...))
			return
		}
		for i := 0; i < n; i++ {
			if used&(1<<uint(i)) == 0 {
				rec(append(cur, i), used|1<<uint(i))
			}
		}
	}
	rec(nil, 0)
	return out
}

type exhFault struct {
	kind   int // 0 none, 1 call, 2 failing listener
	opk    int
	node   int
	timing int // 0 before the first close, 1 while the first close waits
	ev     int
}

func exhPlans() []Plan {
	var out []Plan
	for si, shape := range exhShapes() {
		n := len(shape)
		nodes := make([]NodeSpec, n)
		copy(nodes, shape)
		for i := range nodes {
			nodes[i].Gio = (si+i)%2 == 1
		}
		faults := []exhFault{{}}
		for nd := 0; nd < n; nd++ {
			for _, k := range []int{kAppend, kKill, kStop} {
				for t := 0; t < 2; t++ {
					faults = append(faults, exhFault{kind: 1, opk: k, node: nd, timing: t})
				}
			}
			for ev := range evIDs {
				faults = append(faults, exhFault{kind: 2, node: nd, ev: ev})
			}
		}
		type task struct{ node, timing int }
		tasks := []task{{-1, 0}}
		for nd := 0; nd < n; nd++ {
			tasks = append(tasks, task{nd, 0}, task{nd, 1})
		}
		for _, f := range faults {
			for _, tk := range tasks {
				for _, order := range perms(n) {
					for dbl := 0; dbl < 2; dbl++ {
						p := Plan{Nodes: nodes, Drain: order, DrainBC: true}
						var pre, mid []OpSpec
						if tk.node >= 0 {
							pre = append(pre, OpSpec{K: kAdd, N: tk.node, D: 1})
						}
						switch f.kind {
						case 1:
							o := OpSpec{K: f.opk, N: f.node, D: 1}
							if f.timing == 0 {
								pre = append(pre, o)
							} else {
								mid = append(mid, o)
							}
						case 2:
							p.Ls = []LSpec{{N: f.node, Ev: f.ev, Mode: 1}}
							switch f.ev {
							case evKill:
								pre = append(pre, OpSpec{K: kKill, N: f.node})
							case evStop:
								pre = append(pre, OpSpec{K: kStop, N: f.node})
							case evError:
								pre = append(pre, OpSpec{K: kAppend, N: f.node, D: 1})
							}
						}
						if tk.node >= 0 {
							if tk.timing == 0 {
								pre = append(pre, OpSpec{K: kDone, N: tk.node})
							} else {
								mid = append(mid, OpSpec{K: kDone, N: tk.node})
							}
						}
						p.Ops = append(p.Ops, pre...)
						p.Ops = append(p.Ops, OpSpec{K: kClose, N: order[0], M: mSync})
						p.Ops = append(p.Ops, OpSpec{K: kProbe, N: 0})
						p.Ops = append(p.Ops, mid...)
						if dbl == 1 {
							p.Ops = append(p.Ops, OpSpec{K: kClose, N: order[0], M: mSync})
						}
						for _, nd := range order[1:] {
							p.Ops = append(p.Ops, OpSpec{K: kClose, N: nd, M: mSync})
						}
						out = append(out, p)
					}
				}
			}
		}
	}
	return out
}

// ---- seeded random trees and scripts ---------------------------------------------------------

func randPlan(rng *rand.Rand, big bool) Plan {
	var p Plan
	p.Nodes = []NodeSpec{{P: -1, Gio: rng.Intn(4) == 0}}
	depth := []int{0}
	maxN := 3 + rng.Intn(8)
	if big {
		maxN = 6 + rng.Intn(20)
	}
	isoP := []float64{0, 0.3, 0.6}[rng.Intn(3)]
	for i := 0; i < len(p.Nodes) && len(p.Nodes) < maxN; i++ {
		if depth[i] >= 3 {
			continue
		}
		kids := rng.Intn(4) // fan-out ≤ 3
		if i == 0 && kids == 0 {
			kids = 1 + rng.Intn(3)
		}
		for k := 0; k < kids && len(p.Nodes) < maxN; k++ {
			p.Nodes = append(p.Nodes, NodeSpec{P: i, Iso: rng.Float64() < isoP, Gio: rng.Intn(3) == 0})
			depth = append(depth, depth[i]+1)
		}
	}
	n := len(p.Nodes)
	// listeners
	if rng.Intn(5) >= 2 {
		nl := 1 + rng.Intn(4)
		for i := 0; i < nl; i++ {
			l := LSpec{N: rng.Intn(n), Mode: rng.Intn(3)}
			if rng.Intn(4) == 0 {
				l.Ev = rng.Intn(3)
			} else {
				l.Ev = evBCo + rng.Intn(8)
			}
			if l.Mode == 2 {
				l.Mask = rng.Uint64()
			}
			if rng.Intn(3) == 0 {
				l.N = 0
			}
			p.Ls = append(p.Ls, l)
		}
	}
	// script
	clean := rng.Intn(3) == 0 // no append/kill/stop at all: commits with real waiting
	m := 4 + rng.Intn(30)
	if big {
		m = 20 + rng.Intn(80)
	}
	weights := []int{kAdd: 5, kDone: 5, kAppend: 2, kKill: 1, kStop: 1, kClose: 6, kWait: 1, kProbe: 2}
	if clean {
		weights[kAppend], weights[kKill], weights[kStop] = 0, 0, 0
	}
	tot := 0
	for _, w := range weights {
		tot += w
	}
	for i := 0; i < m; i++ {
		x := rng.Intn(tot)
		k := 0
		for ; k < len(weights); k++ {
			if x < weights[k] {
				break
			}
			x -= weights[k]
		}
		o := OpSpec{K: k, N: rng.Intn(n), Y: rng.Intn(4) * rng.Intn(2)}
		switch k {
		case kAdd:
			o.D = 1 + rng.Intn(3)
		case kAppend:
			o.D = 1 + rng.Intn(2)
		}
		switch k {
		case kClose:
			o.M = []int{mSync, mAsync, mAsync, mWaitBC, mWaitBC}[rng.Intn(5)]
		default:
			o.M = rng.Intn(2)
		}
		// early in the script prefer work, closes come later (otherwise most scripts are closed at once)
		if k == kClose && i < m/3 && rng.Intn(3) != 0 {
			o.K = kAdd
			o.D = 1
			o.M = mSync
		}
		p.Ops = append(p.Ops, o)
	}
	p.Drain = rng.Perm(n)
	p.DrainBC = rng.Intn(2) == 0
	return p
}
