package main

import (
	"context"
	"fmt"
	"runtime"
	"sort"
	"strings"
	"sync"
	"sync/atomic"
	"time"

	"verif/internal/sup"

	"github.com/goatcms/goatcore/app"
	"github.com/goatcms/goatcore/app/gio"
	"github.com/goatcms/goatcore/app/scope"
	"github.com/goatcms/goatcore/app/scope/contextscope"
	"github.com/goatcms/goatcore/filesystem/filespace/memfs"
)

// ---- plan ------------------------------------------------------------------------------------

const (
	kAdd = iota
	kDone
	kAppend
	kKill
	kStop
	kClose
	kWait
	kProbe
)

var kindNames = []string{"add", "done", "append", "kill", "stop", "close", "wait", "probe"}

const (
	mSync   = 0 // the issuing goroutine waits for the call to return before the next step
	mAsync  = 1 // the call overlaps with the following steps
	mWaitBC = 2 // (close) the next step is issued once before-close of that scope was observed
)

// the eleven event ids, in the order of app/consts.go
var evIDs = []interface{}{app.KillEvent, app.StopEvent, app.ErrorEvent,
	app.BeforeCommitEvent, app.CommitEvent, app.AfterCommitEvent,
	app.BeforeRollbackEvent, app.RollbackEvent, app.AfterRollbackEvent,
	app.BeforeCloseEvent, app.AfterCloseEvent}
var evNames = []string{"kill", "stop", "error", "before-commit", "commit", "after-commit",
	"before-rollback", "rollback", "after-rollback", "before-close", "after-close"}

const (
	evKill  = 0
	evStop  = 1
	evError = 2
	evBCo   = 3
	evBRo   = 6
	evBC    = 9
	evAC    = 10
)

// NodeSpec is one scope of the tree (index 0 = root, parents precede children).
type NodeSpec struct {
	P   int  `json:"p"`
	Iso bool `json:"iso,omitempty"` // own isolated context instead of the parent's
	Gio bool `json:"gio,omitempty"` // created and closed through a gio.IOContext
}

// LSpec is one extra listener (registered after the recorder, in list order).
type LSpec struct {
	N    int    `json:"n"`
	Ev   int    `json:"ev"`
	Mode int    `json:"m"` // 0 never fails; 1 always fails; 2 fails for scopes in Mask (odd calls if the event carries no scope)
	Mask uint64 `json:"mask,omitempty"`
}

// OpSpec is one step of the script.
type OpSpec struct {
	K int `json:"k"`
	N int `json:"n"`
	D int `json:"d,omitempty"` // add: delta; append: number of errors
	M int `json:"m,omitempty"`
	Y int `json:"y,omitempty"` // yields before the step
}

// Plan is a complete case.
type Plan struct {
	Nodes   []NodeSpec `json:"nodes"`
	Ls      []LSpec    `json:"ls,omitempty"`
	Ops     []OpSpec   `json:"ops"`
	Drain   []int      `json:"drain"`              // order in which still open scopes are closed at the end
	DrainBC bool       `json:"drain_bc,omitempty"` // wait for before-close between the final closes
}

func (p *Plan) String() string {
	var sb strings.Builder
	for i, n := range p.Nodes {
		fmt.Fprintf(&sb, "%d<%d", i, n.P)
		if n.Iso {
			sb.WriteByte('i')
		}
		if n.Gio {
			sb.WriteByte('g')
		}
		sb.WriteByte(' ')
	}
	sb.WriteByte('|')
	for _, l := range p.Ls {
		fmt.Fprintf(&sb, "L%d:%s:%d:%x ", l.N, evNames[l.Ev], l.Mode, l.Mask)
	}
	sb.WriteByte('|')
	for _, o := range p.Ops {
		fmt.Fprintf(&sb, "%s(%d,%d)%c ", kindNames[o.K], o.N, o.D, "sab"[o.M])
	}
	fmt.Fprintf(&sb, "|%v%v", p.Drain, p.DrainBC)
	return sb.String()
}

// ---- event log -------------------------------------------------------------------------------

const (
	tCall  = "call"
	tRet   = "ret"
	tEv    = "ev"    // recorder (first listener of the root) saw an event
	tLCall = "lcall" // an extra listener was invoked
	tLFail = "lfail" // ... and returns an error
	tProbe = "probe"
)

type ent struct {
	Seq   int    `json:"s"`
	T     string `json:"t"`
	Op    int    `json:"op"`            // operation (call/ret) or the operation whose goroutine ran the listener (-1 unknown)
	Node  int    `json:"n"`             // target scope / scope carried by the event (-1 none, -2 unknown object)
	Ev    int    `json:"ev"`            // event id (-1 none)
	Lid   int    `json:"lid"`           // listener index (-1 none)
	IDs   []int  `json:"ids,omitempty"` // error ids (append call, error event data, listener error, probe content)
	Panic string `json:"panic,omitempty"`
	Err   bool   `json:"err,omitempty"`  // ret: the call returned an error; probe: Err()!=nil
	Done  bool   `json:"done,omitempty"` // probe: IsDone()
	Start int    `json:"start,omitempty"`
}

func (e ent) String() string {
	s := fmt.Sprintf("%d %s", e.Seq, e.T)
	if e.Op >= 0 {
		s += fmt.Sprintf(" op%d", e.Op)
	}
	if e.Node != -1 {
		s += fmt.Sprintf(" n%d", e.Node)
	}
	if e.Ev >= 0 {
		s += " " + evNames[e.Ev]
	}
	if e.Lid >= 0 {
		s += fmt.Sprintf(" L%d", e.Lid)
	}
	if len(e.IDs) > 0 {
		s += fmt.Sprintf(" ids=%v", e.IDs)
	}
	if e.Panic != "" {
		s += " PANIC(" + e.Panic + ")"
	}
	if e.T == tRet && e.Err {
		s += " err"
	}
	if e.T == tProbe {
		s += fmt.Sprintf(" done=%v err=%v start=%d", e.Done, e.Err, e.Start)
	}
	return s
}

type elog struct {
	mu sync.Mutex
	es []ent
}

func (l *elog) add(e ent) int {
	l.mu.Lock()
	e.Seq = len(l.es)
	l.es = append(l.es, e)
	l.mu.Unlock()
	return e.Seq
}

func (l *elog) snapshot() []ent {
	l.mu.Lock()
	out := append([]ent(nil), l.es...)
	l.mu.Unlock()
	return out
}

// ---- unique errors ---------------------------------------------------------------------------

type verr struct {
	id int
}

func (e *verr) Error() string { return fmt.Sprintf("verr#%d", e.id) }

const (
	idCanceled = -1
	idForeign  = -2
)

func errIDs(errs []error) []int {
	out := make([]int, 0, len(errs))
	for _, e := range errs {
		switch v := e.(type) {
		case *verr:
			out = append(out, v.id)
		default:
			if e == context.Canceled {
				out = append(out, idCanceled)
			} else {
				out = append(out, idForeign)
			}
		}
	}
	return out
}

// ---- execution -------------------------------------------------------------------------------

type node struct {
	sc     app.Scope
	closer func() error
}

type opRec struct {
	id      int
	k, n, d int
	late    bool // issued on a scope whose close had already begun (append/kill/stop)
	auto    bool // issued by the final drain phase
	done    chan struct{}
	gid     atomic.Int64
	normal  atomic.Bool // set before done is closed: the call returned without a panic
}

type nstate struct {
	closeIssued int
	firstClose  *opRec
	closeOps    []*opRec
	waitIssued  bool
	tasksAdded  int
	doneIssued  int
	doneOps     []*opRec
	inflight    []*opRec
}

type exec struct {
	plan    *Plan
	nodes   []*node
	group   []int // context group of a node = index of the node that owns the context
	log     elog
	gmap    sync.Map // goroutine id -> op id
	ptr     map[app.Scope]int
	errSeq  atomic.Int64
	lcount  []atomic.Int64
	ops     []*opRec
	st      []nstate
	bc      []chan struct{}
	bcOnce  []sync.Once
	skipped int64
	abort   string // watchdog expiry: reason
}

const (
	wdStep  = 12 * time.Second // one call that should return at once / before-close to be observed
	wdDrain = 30 * time.Second
	wdDone  = 6 * time.Second // Done() of an isolated context after its parent ended
)

var nilIO app.IO

func sharedIO() app.IO {
	if nilIO == nil {
		fs, err := memfs.NewFilespace()
		if err != nil {
			panic(err)
		}
		nilIO = gio.NewIO(gio.IOParams{In: gio.NewNilInput(), Out: gio.NewNilOutput(), Err: gio.NewNilOutput(), CWD: fs})
	}
	return nilIO
}

func newExec(p *Plan) *exec {
	x := &exec{plan: p, ptr: map[app.Scope]int{}}
	n := len(p.Nodes)
	x.nodes = make([]*node, n)
	x.group = make([]int, n)
	x.st = make([]nstate, n)
	x.bc = make([]chan struct{}, n)
	x.bcOnce = make([]sync.Once, n)
	x.lcount = make([]atomic.Int64, len(p.Ls))
	for i := range x.bc {
		x.bc[i] = make(chan struct{})
	}
	root := scope.New(scope.Params{})
	// the recorder: first listener of the root for each of the eleven events
	for ev := range evIDs {
		ev := ev
		root.On(evIDs[ev], func(data interface{}) error {
			x.record(ev, data)
			return nil
		})
	}
	x.nodes[0] = &node{sc: root, closer: root.Close}
	if p.Nodes[0].Gio {
		ioc := gio.NewIOContext(root, sharedIO())
		x.nodes[0].closer = ioc.Close
	}
	x.ptr[root] = 0
	for i := 1; i < n; i++ {
		ns := p.Nodes[i]
		par := x.nodes[ns.P].sc
		params := scope.ChildParams{}
		x.group[i] = x.group[ns.P]
		if ns.Iso {
			params.ContextScope = contextscope.NewIsolated(par.BaseContextScope())
			x.group[i] = i
		}
		if ns.Gio {
			pioc := gio.NewIOContext(par, sharedIO())
			ioc := gio.NewChildIOContext(pioc, gio.ChildIOContextParams{Scope: params})
			x.nodes[i] = &node{sc: ioc.Scope(), closer: ioc.Close}
		} else {
			sc := scope.NewChild(par, params)
			x.nodes[i] = &node{sc: sc, closer: sc.Close}
		}
		x.ptr[x.nodes[i].sc] = i
	}
	for li, l := range p.Ls {
		li, l := li, l
		x.nodes[l.N].sc.On(evIDs[l.Ev], func(data interface{}) error {
			return x.listener(li, l, data)
		})
	}
	return x
}

func (x *exec) curOp() int {
	if v, ok := x.gmap.Load(goid()); ok {
		return v.(int)
	}
	return -1
}

func (x *exec) dataNode(data interface{}) int {
	if data == nil {
		return -1
	}
	if sc, ok := data.(app.Scope); ok {
		if i, ok := x.ptr[sc]; ok {
			return i
		}
		return -2
	}
	return -1
}

func (x *exec) record(ev int, data interface{}) {
	e := ent{T: tEv, Op: x.curOp(), Node: x.dataNode(data), Ev: ev, Lid: -1}
	if errs, ok := data.([]error); ok {
		e.IDs = errIDs(errs)
	}
	if ev >= evBCo && e.Node == -1 {
		e.Node = -2 // a close event must carry the closing scope
	}
	x.log.add(e)
	if ev == evBC && e.Node >= 0 {
		n := e.Node
		x.bcOnce[n].Do(func() { close(x.bc[n]) })
	}
}

func (x *exec) listener(li int, l LSpec, data interface{}) error {
	dn := x.dataNode(data)
	op := x.curOp()
	cnt := x.lcount[li].Add(1)
	fail := false
	switch l.Mode {
	case 1:
		fail = true
	case 2:
		if dn >= 0 {
			fail = l.Mask&(1<<uint(dn)) != 0
		} else {
			fail = cnt%2 == 1
		}
	}
	if !fail {
		x.log.add(ent{T: tLCall, Op: op, Node: dn, Ev: l.Ev, Lid: li})
		return nil
	}
	e := &verr{id: int(x.errSeq.Add(1))}
	x.log.add(ent{T: tLFail, Op: op, Node: dn, Ev: l.Ev, Lid: li, IDs: []int{e.id}})
	return e
}

func trunc(s string, n int) string {
	if len(s) > n {
		return s[:n]
	}
	return s
}

// probe records IsDone / Err / Errors of a scope between two sequence numbers.
func (x *exec) probe(n, op int) {
	sc := x.nodes[n].sc
	start := x.log.add(ent{T: "pstart", Op: op, Node: n, Ev: -1, Lid: -1})
	done := sc.IsDone()
	hasErr := sc.Err() != nil
	ids := errIDs(sc.Errors())
	x.log.add(ent{T: tProbe, Op: op, Node: n, Ev: -1, Lid: -1, Done: done, Err: hasErr, IDs: ids, Start: start})
}

func (x *exec) execOp(op *opRec) {
	defer close(op.done)
	g := goid()
	op.gid.Store(g)
	x.gmap.Store(g, op.id)
	defer x.gmap.Delete(g)
	nd := x.nodes[op.n]
	if op.k == kProbe {
		x.probe(op.n, op.id)
		return
	}
	var errs []error
	var ids []int
	if op.k == kAppend {
		if op.d >= 2 {
			errs = append(errs, nil)
		}
		for i := 0; i < op.d || i < 1; i++ {
			e := &verr{id: int(x.errSeq.Add(1))}
			errs = append(errs, e)
			ids = append(ids, e.id)
		}
	}
	x.log.add(ent{T: tCall, Op: op.id, Node: op.n, Ev: -1, Lid: -1, IDs: ids})
	res := ent{T: tRet, Op: op.id, Node: op.n, Ev: -1, Lid: -1}
	func() {
		defer func() {
			if p := recover(); p != nil {
				res.Panic = trunc(fmt.Sprint(p), 200)
				if res.Panic == "" {
					res.Panic = "panic"
				}
			}
		}()
		switch op.k {
		case kAdd:
			res.Err = nd.sc.AddTasks(op.d) != nil
		case kDone:
			nd.sc.DoneTask()
		case kAppend:
			nd.sc.AppendError(errs...)
		case kKill:
			nd.sc.Kill()
		case kStop:
			nd.sc.Stop()
		case kClose:
			res.Err = nd.closer() != nil
		case kWait:
			res.Err = nd.sc.Wait() != nil
		}
	}()
	x.log.add(res)
	op.normal.Store(res.Panic == "")
	if op.k == kAppend || op.k == kKill || op.k == kStop {
		// what the parent looks like right after an error / kill / stop in the child
		if p := x.plan.Nodes[op.n].P; p >= 0 {
			x.probe(p, op.id)
		}
		x.probe(op.n, op.id)
	}
}

func isDone(ch chan struct{}) bool {
	select {
	case <-ch:
		return true
	default:
		return false
	}
}

// waitCh is a watchdog wait: false = the watchdog expired (never a verdict by itself).
func waitCh(ch <-chan struct{}, d time.Duration) bool {
	select {
	case <-ch:
		return true
	default:
	}
	t := time.NewTimer(d)
	defer t.Stop()
	select {
	case <-ch:
		return true
	case <-t.C:
		return false
	}
}

func (x *exec) start(k, n, d int) *opRec {
	op := &opRec{id: len(x.ops), k: k, n: n, d: d, done: make(chan struct{})}
	x.ops = append(x.ops, op)
	return op
}

func (x *exec) join(op *opRec, what string) bool {
	if waitCh(op.done, wdStep) {
		return true
	}
	x.abort = fmt.Sprintf("%s: %s on scope %d (op %d) did not return", what, kindNames[op.k], op.n, op.id)
	return false
}

// closedNormally: one of the Close calls on n has returned without a panic (with two racing
// Close calls either may be the one that does the work).
func (x *exec) closedNormally(n int) bool {
	for _, op := range x.st[n].closeOps {
		if isDone(op.done) && op.normal.Load() {
			return true
		}
	}
	return false
}

// completable: a close of n issued now can return without any further step.
func (x *exec) completable(n int) bool {
	st := &x.st[n]
	if st.tasksAdded != st.doneIssued {
		return false
	}
	for _, d := range st.doneOps {
		if !isDone(d.done) {
			return false
		}
	}
	for c, ns := range x.plan.Nodes {
		if ns.P == n && !x.closedNormally(c) {
			return false
		}
	}
	return true
}

// step issues one script step; it returns false when a watchdog expired.
func (x *exec) step(o OpSpec, auto bool) bool {
	for i := 0; i < o.Y; i++ {
		runtime.Gosched()
	}
	st := &x.st[o.N]
	switch o.K {
	case kAdd:
		// sync.WaitGroup: a positive Add on a zero counter must happen before Wait
		if (st.closeIssued > 0 || st.waitIssued) && st.tasksAdded-st.doneIssued < 1 {
			x.skipped++
			return true
		}
		d := o.D
		if d < 1 {
			d = 1
		}
		op := x.start(kAdd, o.N, d)
		go x.execOp(op)
		if !x.join(op, "add") {
			return false
		}
		// the result is in the log; read it back
		if !x.retErr(op.id) {
			st.tasksAdded += d
		}
	case kDone:
		if st.tasksAdded-st.doneIssued < 1 {
			x.skipped++
			return true
		}
		st.doneIssued++
		op := x.start(kDone, o.N, 0)
		op.auto = auto
		st.doneOps = append(st.doneOps, op)
		go x.execOp(op)
		if o.M == mSync && !x.join(op, "done") {
			return false
		}
	case kAppend, kKill, kStop:
		op := x.start(o.K, o.N, o.D)
		mode := o.M
		if st.closeIssued > 0 {
			// only once the close has provably begun (before-close seen): the outcome is then
			// the loud refusal; a call racing with the very start of Close is outside the statement
			if !isDone(x.bc[o.N]) {
				x.ops = x.ops[:len(x.ops)-1]
				x.skipped++
				return true
			}
			op.late = true
			mode = mSync
		}
		go x.execOp(op)
		if mode == mSync {
			if !x.join(op, "signal") {
				return false
			}
		} else {
			st.inflight = append(st.inflight, op)
		}
	case kWait:
		op := x.start(kWait, o.N, 0)
		st.waitIssued = true
		go x.execOp(op)
	case kProbe:
		op := x.start(kProbe, o.N, 0)
		go x.execOp(op)
		if o.M == mSync && !x.join(op, "probe") {
			return false
		}
	case kClose:
		if st.closeIssued == 0 {
			for _, f := range st.inflight {
				if !x.join(f, "signal before close") {
					return false
				}
			}
			st.inflight = nil
			mode := o.M
			if mode == mSync && !x.completable(o.N) {
				mode = mWaitBC
			}
			op := x.start(kClose, o.N, 0)
			op.auto = auto
			st.firstClose = op
			st.closeOps = append(st.closeOps, op)
			st.closeIssued++
			go x.execOp(op)
			switch mode {
			case mSync:
				if !x.join(op, "close") {
					return false
				}
			case mWaitBC:
				if !waitCh(x.bc[o.N], wdStep) {
					x.abort = fmt.Sprintf("before-close of scope %d not observed after Close was called (op %d)", o.N, op.id)
					return false
				}
			}
			return true
		}
		if st.closeIssued >= 3 {
			x.skipped++
			return true
		}
		st.closeIssued++
		begun := isDone(x.bc[o.N]) // decided before the call starts: it may itself win a race with the first one
		op := x.start(kClose, o.N, 1)
		st.closeOps = append(st.closeOps, op)
		go x.execOp(op)
		if begun {
			// the first close has begun: the second one must be refused at once
			if !x.join(op, "second close") {
				return false
			}
		}
	}
	return true
}

// retErr reads the Err flag of the ret entry of a finished operation.
func (x *exec) retErr(op int) bool {
	x.log.mu.Lock()
	defer x.log.mu.Unlock()
	for i := len(x.log.es) - 1; i >= 0; i-- {
		e := x.log.es[i]
		if e.T == tRet && e.Op == op {
			return e.Err
		}
	}
	return false
}

// run executes the plan, the drain phase and the final observations, then checks the log.
func runPlan(r *sup.CaseResult, p *Plan) {
	x := newExec(p)
	ok := true
	for _, o := range p.Ops {
		if ok = x.step(o, false); !ok {
			break
		}
	}
	if ok {
		// drain: finish every open task, close every scope not yet closed
		for n := range x.st {
			for x.st[n].tasksAdded-x.st[n].doneIssued > 0 {
				if ok = x.step(OpSpec{K: kDone, N: n, M: mAsync}, true); !ok {
					break
				}
			}
		}
	}
	if ok {
		for _, n := range p.Drain {
			if x.st[n].closeIssued == 0 {
				m := mAsync
				if p.DrainBC {
					m = mWaitBC
				}
				if ok = x.step(OpSpec{K: kClose, N: n, M: m}, true); !ok {
					break
				}
			}
		}
	}
	if ok {
		deadline := time.NewTimer(wdDrain)
		for _, op := range x.ops {
			select {
			case <-op.done:
				continue
			default:
			}
			select {
			case <-op.done:
			case <-deadline.C:
				ok = false
				x.abort = "the scopes did not finish closing although every task was done and every scope's Close had been called"
			}
			if !ok {
				break
			}
		}
		deadline.Stop()
	}
	if !ok {
		x.diagnoseStuck(r)
		r.AddObs("watchdog_expired", 1)
		return
	}
	// final observations: every scope once more
	for n := range x.nodes {
		x.probe(n, -1)
	}
	es := x.log.snapshot()
	ck := newChecker(x, es, r)
	ck.checkAll()
	// isolated contexts below an ended context must end (bounded wait; expiry decided by a dump)
	x.checkIsolatedStops(r, ck, false)
	// cleanup doubles as the last observation of "the parent stops => the isolated child stops":
	// the root context is stopped, every context of the tree must then be done.
	x.nodes[0].sc.BaseContextScope().Stop()
	x.checkIsolatedStops(r, ck, true)
	ck.report()
}

// checkIsolatedStops waits for Done() of isolated contexts whose ancestor context ended.
func (x *exec) checkIsolatedStops(r *sup.CaseResult, ck *checker, all bool) {
	for n, ns := range x.plan.Nodes {
		if !ns.Iso {
			continue
		}
		if !all && !ck.ancestorEnded(n) {
			continue
		}
		ch := x.nodes[n].sc.Done()
		select {
		case <-ch:
			r.AddObs("isolated_stopped_with_parent", 1)
			continue
		default:
		}
		t := time.NewTimer(wdDone)
		select {
		case <-ch:
			t.Stop()
			r.AddObs("isolated_stopped_with_parent", 1)
			continue
		case <-t.C:
		}
		r.AddObs("watchdog_expired", 1)
		// watchdog expired. Only the watcher goroutine started by NewIsolated can end this
		// context; if no such goroutine exists any more the context can never end.
		dump := dumpAll()
		watchers := 0
		for _, g := range dump {
			if hasFrame(g, "contextscope.NewIsolated") {
				watchers++
			}
		}
		select {
		case <-ch:
			r.AddObs("isolated_stopped_with_parent", 1)
			continue
		default:
		}
		atRest := func() bool { // nobody inside the library is doing anything: only parked goroutines
			for _, g := range dumpAll() {
				if !hasFrame(g, "github.com/goatcms/goatcore/") {
					continue
				}
				waiting := parked(g) || strings.HasPrefix(g.state, "select") || strings.HasPrefix(g.state, "chan receive") || strings.HasPrefix(g.state, "chan send")
				if !waiting {
					return false
				}
			}
			return true
		}
		parentDone := x.nodes[ns.P].sc.IsDone()
		if watchers == 0 {
			r.Violate("isolated-not-stopped", fmt.Sprintf("scope %d has an isolated context whose parent context ended, but its Done() is still open and no watcher goroutine is left that could close it", n),
				map[string]any{"plan": x.plan.String(), "log": renderLog(ck.es, 120)})
		} else if parentDone && atRest() && func() bool { time.Sleep(300 * time.Millisecond); return atRest() }() && !isDoneCh(ch) {
			r.Violate("isolated-not-stopped", fmt.Sprintf("scope %d has an isolated context; the context of its parent scope %d is done, every goroutine inside the library is parked (two dumps), and its Done() is still open: the watcher goroutines that are left wait for something else than the parent's end", n, ns.P),
				map[string]any{"plan": x.plan.String(), "log": renderLog(ck.es, 120)})
		} else if r.Inconclusive == "" {
			r.Inconclusive = fmt.Sprintf("Done() of isolated scope %d not closed within the watchdog (%d watcher goroutines alive)", n, watchers)
		}
		return
	}
}

func isDoneCh(ch <-chan struct{}) bool {
	select {
	case <-ch:
		return true
	default:
		return false
	}
}

// diagnoseStuck: a watchdog expired. Two goroutine dumps one second apart decide.
func (x *exec) diagnoseStuck(r *sup.CaseResult) {
	d1 := dumpAll()
	time.Sleep(time.Second)
	d2 := dumpAll()
	var stuckOps []string
	verdict := false
	for _, op := range x.ops {
		if isDone(op.done) || (op.k != kClose && op.k != kWait) {
			continue
		}
		g1, g2 := d1[op.gid.Load()], d2[op.gid.Load()]
		desc := fmt.Sprintf("op %d %s(scope %d)", op.id, kindNames[op.k], op.n)
		if g1 == nil || g2 == nil {
			stuckOps = append(stuckOps, desc+": goroutine not in dump")
			continue
		}
		same := strings.Join(g1.frames, "|") == strings.Join(g2.frames, "|")
		inWG := hasFrame(g1, "sync.(*WaitGroup).Wait") && hasFrame(g1, "app/scope.(*Scope).")
		released := x.completableNow(op.n)
		stuckOps = append(stuckOps, fmt.Sprintf("%s: state=%s parked=%v same-stack=%v in-waitgroup=%v all-tasks-done-and-children-closed=%v", desc, g1.state, parked(g1), same, inWG, released))
		if parked(g1) && parked(g2) && same && inWG && released {
			verdict = true
			stuckOps = append(stuckOps, g1.raw)
		}
		if op.k == kClose && !isDone(x.bc[op.n]) && parked(g1) && parked(g2) && same && inWG {
			// the only goroutine that can fire before-close of this scope sits in the wait already
			r.Violate("before-close-not-fired-before-waiting", fmt.Sprintf("Close of scope %d is parked in the scope's wait group and before-close of that scope was never fired: the wait started without it", op.n),
				map[string]any{"plan": x.plan.String(), "goroutine": g1.raw, "log": renderLog(x.log.snapshot(), 120)})
			return
		}
	}
	sort.Strings(stuckOps)
	if verdict {
		r.Violate("close-never-returns", "a Close/Wait is parked for good in the scope's wait group although every task added to the scope was done and every child scope was closed: "+x.abort,
			map[string]any{"plan": x.plan.String(), "stuck": stuckOps, "log": renderLog(x.log.snapshot(), 120)})
		return
	}
	r.Inconclusive = "watchdog: " + x.abort + " (" + strings.Join(stuckOps, "; ") + ")"
}

// completableNow: like completable but from what has returned (used only for the diagnosis).
func (x *exec) completableNow(n int) bool {
	st := &x.st[n]
	if st.tasksAdded != st.doneIssued {
		return false
	}
	for _, d := range st.doneOps {
		if !isDone(d.done) {
			return false
		}
	}
	for c, ns := range x.plan.Nodes {
		if ns.P == n && !x.closedNormally(c) {
			return false
		}
	}
	return true
}

func renderLog(es []ent, max int) []string {
	var out []string
	for i, e := range es {
		if e.T == "pstart" {
			continue
		}
		if len(out) >= max {
			out = append(out, fmt.Sprintf("… %d more entries", len(es)-i))
			break
		}
		out = append(out, e.String())
	}
	return out
}
