package main

import (
	"fmt"
	"strings"

	"verif/internal/sup"
)

// src is something that put an error into (or stopped) a context, bracketed by two sequence
// numbers: the cause cannot have taken effect before call and has taken effect by ret.
type src struct {
	call, ret int
	certain   bool // false: may never take effect (inheritance through an isolated context, aborted calls)
	kill      bool
	what      string
}

type checker struct {
	x   *exec
	es  []ent
	r   *sup.CaseResult
	inf int

	call, ret []int // per op: sequence numbers (-1 = missing)
	retEnt    []ent
	refused   []bool // per op: panicked with the "is closed" refusal
	errSrc    map[int][]src
	stopSrc   map[int][]src
	owner     map[int]int // error id -> context group it was given to (-1 unknown)
	appendIDs map[int][]int
	obs       map[string]int64
	nviol     int

	waited, commits, rollbacks int
}

func newChecker(x *exec, es []ent, r *sup.CaseResult) *checker {
	c := &checker{x: x, es: es, r: r, inf: len(es) + 1, errSrc: map[int][]src{}, stopSrc: map[int][]src{}, owner: map[int]int{}, appendIDs: map[int][]int{}, obs: map[string]int64{}}
	n := len(x.ops)
	c.call = make([]int, n)
	c.ret = make([]int, n)
	c.retEnt = make([]ent, n)
	c.refused = make([]bool, n)
	for i := range c.call {
		c.call[i], c.ret[i] = -1, -1
	}
	for _, e := range es {
		switch e.T {
		case tCall:
			c.call[e.Op] = e.Seq
			if x.ops[e.Op].k == kAppend {
				c.appendIDs[e.Op] = e.IDs
				for _, id := range e.IDs {
					c.owner[id] = x.group[x.ops[e.Op].n]
				}
			}
		case tRet:
			c.ret[e.Op] = e.Seq
			c.retEnt[e.Op] = e
		}
	}
	return c
}

func (c *checker) viol(class, detail string) {
	c.nviol++
	if c.nviol > 4 {
		return
	}
	c.r.Violate(class, detail+"  [tree/script: "+c.x.plan.String()+"]", map[string]any{"plan": c.x.plan, "log": renderLog(c.es, 160)})
}

func (c *checker) retOr(op int) int {
	if c.ret[op] < 0 {
		return c.inf
	}
	return c.ret[op]
}

// parentGroup returns the context group above an isolated group (-1 for the root group).
func (c *checker) parentGroup(g int) int {
	p := c.x.plan.Nodes[g].P
	if p < 0 {
		return -1
	}
	return c.x.group[p]
}

// firstSight returns the first sequence number at which error id was seen inside a context
// (error event fired after the append, or a probe that read it), inf if never.
func (c *checker) firstSight(id int) int {
	for _, e := range c.es {
		if (e.T == tEv && e.Ev == evError) || e.T == tProbe {
			for _, v := range e.IDs {
				if v == id {
					return e.Seq
				}
			}
		}
	}
	return c.inf
}

func (c *checker) buildSources() {
	x := c.x
	for _, op := range x.ops {
		if op.k != kAppend && op.k != kKill && op.k != kStop {
			continue
		}
		if c.call[op.id] < 0 {
			continue
		}
		g := x.group[op.n]
		msg := c.retEnt[op.id].Panic
		desc := fmt.Sprintf("op %d %s(scope %d)", op.id, kindNames[op.k], op.n)
		switch {
		case strings.Contains(msg, "is closed"):
			c.refused[op.id] = true
			if op.late {
				c.obs["late_signal_refused_loudly"]++
			} else {
				c.viol("unexpected-refusal", desc+" was refused as 'closed' although Close of that scope had not been called")
			}
		case msg != "":
			c.viol("op-panic", desc+" panicked: "+msg)
			s := src{call: c.call[op.id], ret: c.inf, what: desc}
			c.stopSrc[g] = append(c.stopSrc[g], s)
			c.errSrc[g] = append(c.errSrc[g], s)
		default:
			if op.late {
				c.obs["late_signal_accepted"]++
			}
			s := src{call: c.call[op.id], ret: c.retOr(op.id), certain: c.ret[op.id] >= 0, kill: op.k == kKill, what: desc}
			c.stopSrc[g] = append(c.stopSrc[g], s)
			if op.k != kStop {
				c.errSrc[g] = append(c.errSrc[g], s)
			}
		}
	}
	// listeners that returned an error: the error goes to the scope that triggered the event
	for _, e := range c.es {
		if e.T != tLFail {
			continue
		}
		c.obs["listener_errors"]++
		tn := -1
		if e.Op >= 0 {
			tn = x.ops[e.Op].n
		} else if e.Node >= 0 {
			tn = e.Node
		}
		id := e.IDs[0]
		if tn < 0 {
			c.owner[id] = -1
			for g := range x.nodes {
				if x.group[g] == g {
					s := src{call: e.Seq, ret: c.inf, what: fmt.Sprintf("listener L%d error", e.Lid)}
					c.errSrc[g] = append(c.errSrc[g], s)
					c.stopSrc[g] = append(c.stopSrc[g], s)
				}
			}
			continue
		}
		g := x.group[tn]
		c.owner[id] = g
		seen := c.firstSight(id)
		s := src{call: e.Seq, ret: seen, certain: seen < c.inf, what: fmt.Sprintf("listener L%d error on %s of scope %d", e.Lid, evNames[e.Ev], tn)}
		c.errSrc[g] = append(c.errSrc[g], s)
		// the error is visible before the context is marked done (append, then stop): as a cause
		// of IsDone it is only certain once the call that ran the listener has returned
		s.ret, s.certain = c.inf, false
		if seen < c.inf && e.Op >= 0 && c.ret[e.Op] >= 0 {
			s.ret, s.certain = c.ret[e.Op], true
		}
		c.stopSrc[g] = append(c.stopSrc[g], s)
	}
}

func (c *checker) may(m map[int][]src, g, t int) bool {
	for h := g; h >= 0; h = c.parentGroup(h) {
		for _, s := range m[h] {
			if s.call < t {
				return true
			}
		}
	}
	return false
}

func (c *checker) must(m map[int][]src, g, t int) (bool, string) {
	for _, s := range m[g] {
		if s.certain && s.ret < t {
			return true, s.what
		}
	}
	return false, ""
}

// ancestorEnded: a context strictly above the isolated context of n was certainly stopped.
func (c *checker) ancestorEnded(n int) bool {
	for h := c.parentGroup(c.x.group[n]); h >= 0; h = c.parentGroup(h) {
		for _, s := range c.stopSrc[h] {
			if s.certain {
				return true
			}
		}
	}
	return false
}

func (c *checker) checkAll() {
	c.buildSources()
	c.checkCloses()
	c.checkWaitsAndAdds()
	c.checkProbes()
	c.checkListenerCalls()
	c.obs["events_seen_by_recorder"] += int64(c.count(func(e ent) bool { return e.T == tEv }))
	c.obs["extra_listener_calls"] += int64(c.count(func(e ent) bool { return e.T == tLCall || e.T == tLFail }))
	c.obs["calls_logged"] += int64(c.count(func(e ent) bool { return e.T == tCall }))
}

// checkListenerCalls: a close event of scope X (seen by the recorder on the root) reaches the
// listeners of every scope on the path root … X, in that order and in registration order within a
// scope, up to and including the first one that returns an error – whether a listener was
// registered before or after the descendants of its scope were created.
func (c *checker) checkListenerCalls() {
	p := c.x.plan
	if len(p.Ls) == 0 {
		return
	}
	type key struct{ ev, node int }
	fired := map[key]int{}
	calls := map[key]map[int]int{}
	for _, e := range c.es {
		if e.Ev < evBCo || e.Node < 0 {
			continue
		}
		k := key{e.Ev, e.Node}
		switch e.T {
		case tEv:
			fired[k]++
		case tLCall, tLFail:
			if calls[k] == nil {
				calls[k] = map[int]int{}
			}
			calls[k][e.Lid]++
		}
	}
	for k, n := range fired {
		// path root … X
		var path []int
		for v := k.node; ; v = p.Nodes[v].P {
			path = append([]int{v}, path...)
			if v == 0 {
				break
			}
		}
	walk:
		for _, node := range path {
			for li, l := range p.Ls {
				if l.N != node || l.Ev != k.ev {
					continue
				}
				got := calls[k][li]
				if got != n {
					c.viol("listener-not-called", fmt.Sprintf("%s of scope %d fired %d time(s) (seen by the recorder on the root), listener L%d registered on scope %d (an ancestor-or-self of %d) for that event was called %d time(s) for it, and no listener before it on the path had failed", evNames[k.ev], k.node, n, li, l.N, k.node, got))
					break walk
				}
				c.obs["listener_deliveries_checked"]++
				if l.N != k.node {
					c.obs["listener_deliveries_to_an_ancestor_checked"]++
				}
				if l.Mode == 1 || (l.Mode == 2 && l.Mask&(1<<uint(k.node)) != 0) {
					break walk // a failing listener ends the delivery of this trigger
				}
			}
		}
	}
}

func (c *checker) count(f func(ent) bool) int {
	n := 0
	for _, e := range c.es {
		if f(e) {
			n++
		}
	}
	return n
}

func isTriple(evs []int, first int) bool {
	return len(evs) == 3 && evs[0] == first && evs[1] == first+1 && evs[2] == first+2
}

func (c *checker) checkCloses() {
	x := c.x
	// events that carry no known scope
	for _, e := range c.es {
		if e.T == tEv && e.Ev >= evBCo && e.Node < 0 {
			c.viol("close-event-without-scope", fmt.Sprintf("event %s (seq %d) was fired without the closing scope as data", evNames[e.Ev], e.Seq))
		}
	}
	for n := range x.nodes {
		var closeOps []*opRec
		for _, op := range x.ops {
			if op.k == kClose && op.n == n && c.call[op.id] >= 0 {
				closeOps = append(closeOps, op)
			}
		}
		var own []ent
		for _, e := range c.es {
			if e.T == tEv && e.Ev >= evBCo && e.Node == n {
				own = append(own, e)
			}
		}
		if len(closeOps) == 0 {
			if len(own) > 0 {
				c.viol("events-without-close", fmt.Sprintf("scope %d fired %s although Close was never called on it", n, evNames[own[0].Ev]))
			}
			continue
		}
		var normal []*opRec
		for _, op := range closeOps {
			msg := c.retEnt[op.id].Panic
			switch {
			case msg == "":
				normal = append(normal, op)
			case strings.Contains(msg, "is closed"):
				c.obs["second_close_refused_loudly"]++
			default:
				c.viol("close-panic", fmt.Sprintf("Close of scope %d (op %d) panicked: %s", n, op.id, msg))
			}
		}
		seqOf := func(es []ent) string {
			var s []string
			for _, e := range es {
				s = append(s, fmt.Sprintf("%s@%d", evNames[e.Ev], e.Seq))
			}
			return strings.Join(s, " ")
		}
		if len(normal) != 1 {
			if len(normal) == 0 {
				c.viol("close-panic", fmt.Sprintf("no Close of scope %d returned normally (%d calls)", n, len(closeOps)))
			} else {
				c.viol("double-close-not-refused", fmt.Sprintf("%d calls of Close on scope %d returned normally (ops %d and %d); its close events: %s", len(normal), n, normal[0].id, normal[1].id, seqOf(own)))
			}
			continue
		}
		C := normal[0]
		cc, cr := c.call[C.id], c.ret[C.id]
		// 1. exact own-event sequence
		var evs []int
		for _, e := range own {
			evs = append(evs, e.Ev)
		}
		okSeq := len(evs) == 5 && evs[0] == evBC && evs[4] == evAC && (isTriple(evs[1:4], evBCo) || isTriple(evs[1:4], evBRo))
		if !okSeq {
			c.viol("close-event-sequence", fmt.Sprintf("Close of scope %d (%d Close calls) fired [%s]; required: before-close, then the commit triple or the rollback triple, then after-close, each once", n, len(closeOps), seqOf(own)))
			continue
		}
		for _, e := range own {
			if e.Seq < cc || e.Seq > cr {
				c.viol("close-event-outside-close", fmt.Sprintf("event %s of scope %d at seq %d lies outside its Close call [%d,%d]", evNames[e.Ev], n, e.Seq, cc, cr))
			}
		}
		c.obs["closes_checked"]++
		BC, F, AC := own[0].Seq, own[1].Seq, own[4].Seq
		commit := evs[1] == evBCo
		g := x.group[n]
		// 3. waits for tasks and children
		L := BC
		added := 0
		ndone := 0
		for _, op := range x.ops {
			if op.n != n || c.call[op.id] < 0 {
				continue
			}
			switch op.k {
			case kAdd:
				if c.ret[op.id] >= 0 && !c.retEnt[op.id].Err && c.retEnt[op.id].Panic == "" {
					added += op.d
				}
			case kDone:
				ndone++
				if c.call[op.id] > F {
					c.viol("close-did-not-wait-for-task", fmt.Sprintf("scope %d fired %s at seq %d, before DoneTask (op %d) of one of its tasks was even called (seq %d)", n, evNames[evs[1]], F, op.id, c.call[op.id]))
				}
				if c.call[op.id] > L {
					L = c.call[op.id]
				}
			}
		}
		if added != ndone {
			if c.r.Inconclusive == "" {
				c.r.Inconclusive = fmt.Sprintf("harness bookkeeping: scope %d had %d tasks added and %d done", n, added, ndone)
			}
			continue
		}
		for ch, ns := range x.plan.Nodes {
			if ns.P != n {
				continue
			}
			chAC := -1
			for _, e := range c.es {
				if e.T == tEv && e.Ev == evAC && e.Node == ch {
					chAC = e.Seq
					break
				}
			}
			if chAC < 0 || chAC > F {
				c.viol("close-did-not-wait-for-child", fmt.Sprintf("scope %d fired %s at seq %d although its child scope %d had not finished closing (child after-close at %d; -1 = never)", n, evNames[evs[1]], F, ch, chAC))
				continue
			}
			if chAC > L {
				L = chAC
			}
		}
		if L > BC {
			c.waited++
			c.obs["closes_that_had_to_wait"]++
		}
		// 2. commit xor rollback against the error state
		must, why := c.must(c.errSrc, g, L)
		if !must {
			// a listener that failed on this scope's own before-close
			for _, e := range c.es {
				if e.T == tLFail && e.Ev == evBC && e.Node == n && e.Seq > cc && e.Seq < F {
					if fs := c.firstSight(e.IDs[0]); fs < F {
						must, why = true, fmt.Sprintf("listener L%d failed on before-close of this scope", e.Lid)
					}
				}
			}
		}
		may := c.may(c.errSrc, g, F)
		switch {
		case commit && must:
			c.viol("commit-despite-error", fmt.Sprintf("scope %d fired the commit triple (first at seq %d) although its context already held an error (%s) before the wait ended at seq %d", n, F, why, L))
		case !commit && !may:
			c.viol("rollback-without-error", fmt.Sprintf("scope %d fired the rollback triple (first at seq %d) although nothing had put an error into its context (or an ancestor context) before", n, F))
		}
		if commit {
			c.commits++
			c.obs["commit_triples"]++
		} else {
			c.rollbacks++
			c.obs["rollback_triples"]++
		}
		switch {
		case must:
			c.obs["outcome_forced_rollback"]++
		case !may:
			c.obs["outcome_forced_commit"]++
		default:
			c.obs["outcome_either_allowed"]++
		}
		// 4. return value
		retErr := c.retEnt[C.id].Err
		mustE, whyE := c.must(c.errSrc, g, AC)
		if !mustE {
			for _, e := range c.es {
				if e.T == tLFail && e.Op == C.id {
					if fs := c.firstSight(e.IDs[0]); fs < c.inf {
						mustE, whyE = true, fmt.Sprintf("listener L%d failed on %s during this Close", e.Lid, evNames[e.Ev])
					}
				}
			}
		}
		mayE := c.may(c.errSrc, g, cr)
		switch {
		case !retErr && mustE:
			c.viol("close-error-not-reported", fmt.Sprintf("Close of scope %d returned nil although its context holds an error (%s)", n, whyE))
		case retErr && !mayE:
			c.viol("close-error-spurious", fmt.Sprintf("Close of scope %d returned an error although nothing put an error into its context", n))
		}
		if retErr {
			c.obs["close_returned_error"]++
		} else {
			c.obs["close_returned_nil"]++
		}
	}
}

func (c *checker) checkWaitsAndAdds() {
	x := c.x
	for _, op := range x.ops {
		if c.call[op.id] < 0 || c.ret[op.id] < 0 {
			continue
		}
		g := x.group[op.n]
		re := c.retEnt[op.id]
		switch op.k {
		case kWait:
			if re.Panic != "" {
				c.viol("op-panic", fmt.Sprintf("Wait on scope %d panicked: %s", op.n, re.Panic))
				continue
			}
			c.obs["waits_checked"]++
			for _, d := range x.ops {
				if d.k == kDone && d.n == op.n && c.call[d.id] > c.ret[op.id] {
					c.viol("wait-did-not-wait-for-task", fmt.Sprintf("Wait on scope %d returned at seq %d before DoneTask (op %d) was called", op.n, c.ret[op.id], d.id))
				}
			}
			for ch, ns := range x.plan.Nodes {
				if ns.P != op.n {
					continue
				}
				ok := false
				for _, e := range c.es {
					if e.T == tEv && e.Ev == evAC && e.Node == ch && e.Seq < c.ret[op.id] {
						ok = true
					}
				}
				if !ok {
					c.viol("wait-did-not-wait-for-child", fmt.Sprintf("Wait on scope %d returned at seq %d before its child scope %d was closed", op.n, c.ret[op.id], ch))
				}
			}
			if must, why := c.must(c.errSrc, g, c.call[op.id]); must && !re.Err {
				c.viol("wait-error-not-reported", fmt.Sprintf("Wait on scope %d returned nil although its context holds an error (%s)", op.n, why))
			}
			if re.Err && !c.may(c.errSrc, g, c.ret[op.id]) {
				c.viol("wait-error-spurious", fmt.Sprintf("Wait on scope %d returned an error although nothing put one into its context", op.n))
			}
		case kAdd:
			if re.Panic != "" {
				c.viol("op-panic", fmt.Sprintf("AddTasks on scope %d panicked: %s", op.n, re.Panic))
				continue
			}
			if re.Err {
				c.obs["add_refused_on_done_scope"]++
				if !c.may(c.stopSrc, g, c.ret[op.id]) {
					c.viol("add-refused-without-cause", fmt.Sprintf("AddTasks on scope %d was refused although nothing had stopped its context", op.n))
				}
			}
		case kDone:
			if re.Panic != "" {
				c.viol("op-panic", fmt.Sprintf("DoneTask on scope %d panicked: %s", op.n, re.Panic))
			}
		}
	}
}

func (c *checker) checkProbes() {
	x := c.x
	for _, p := range c.es {
		if p.T != tProbe {
			continue
		}
		c.obs["state_probes"]++
		g := x.group[p.Node]
		if must, why := c.must(c.stopSrc, g, p.Start); must && !p.Done {
			c.viol("not-done-after-stop", fmt.Sprintf("scope %d: IsDone()=false at seq %d although its context had been ended before (%s)", p.Node, p.Seq, why))
		}
		if p.Done && !c.may(c.stopSrc, g, p.Seq) {
			c.viol("done-without-cause", fmt.Sprintf("scope %d: IsDone()=true at seq %d although nothing had ended its context or an ancestor context (an isolated child must fail alone)", p.Node, p.Seq))
		}
		if must, why := c.must(c.errSrc, g, p.Start); must && (!p.Err || len(p.IDs) == 0) {
			c.viol("error-not-visible", fmt.Sprintf("scope %d: Err()=nil/Errors() empty at seq %d although its context had received an error before (%s)", p.Node, p.Seq, why))
		}
		if (p.Err || len(p.IDs) > 0) && !c.may(c.errSrc, g, p.Seq) {
			c.viol("error-without-cause", fmt.Sprintf("scope %d holds errors %v at seq %d although nothing was appended to its context or an ancestor context (an isolated child must fail alone)", p.Node, p.IDs, p.Seq))
		}
		cnt := map[int]int{}
		for _, id := range p.IDs {
			cnt[id]++
			switch {
			case id > 0:
				if og, ok := c.owner[id]; ok && og >= 0 && og != g {
					c.viol("foreign-error", fmt.Sprintf("scope %d (context of scope %d) holds error #%d, which was appended to the context of scope %d only", p.Node, g, id, og))
				}
			case id == idForeign:
				c.viol("unknown-error-object", fmt.Sprintf("scope %d holds an error object nobody appended", p.Node))
			}
		}
		if k := cnt[idCanceled]; k > 0 {
			kills := 0
			for _, s := range c.errSrc[g] {
				if s.kill && s.call < p.Seq {
					kills++
				}
			}
			inherited := 0
			if pg := c.parentGroup(g); pg >= 0 && c.may(c.errSrc, pg, p.Seq) {
				inherited = 1
			}
			if k > kills+inherited {
				c.viol("canceled-without-kill", fmt.Sprintf("scope %d holds %d context.Canceled errors; %d Kill calls and %d inherited cancellation explain at most %d", p.Node, k, kills, inherited, kills+inherited))
			}
		}
		// every error appended (call returned) before the probe started is there exactly once
		for _, op := range x.ops {
			if op.k != kAppend || c.call[op.id] < 0 {
				continue
			}
			ids := c.appendIDs[op.id]
			if c.refused[op.id] {
				for _, id := range ids {
					if cnt[id] > 0 {
						c.viol("refused-append-leaked", fmt.Sprintf("AppendError (op %d) was refused with a panic, yet scope %d holds its error #%d", op.id, p.Node, id))
					}
				}
				continue
			}
			if x.group[op.n] != g || c.ret[op.id] < 0 || c.ret[op.id] > p.Start || c.retEnt[op.id].Panic != "" {
				continue
			}
			for _, id := range ids {
				if cnt[id] != 1 {
					c.viol("appended-error-count", fmt.Sprintf("error #%d appended to scope %d (op %d, returned at %d) occurs %d times in Errors() of scope %d at seq %d", id, op.n, op.id, c.ret[op.id], cnt[id], p.Node, p.Seq))
				}
			}
		}
		// what the statement says about children, counted
		if p.Op >= 0 && p.Op < len(x.ops) {
			op := x.ops[p.Op]
			if (op.k == kAppend || op.k == kKill) && !c.refused[op.id] && p.Node == x.plan.Nodes[op.n].P {
				if x.group[op.n] == g {
					c.obs["shared_child_failure_probed_in_parent"]++
				} else {
					c.obs["isolated_child_failure_probed_in_parent"]++
					if !p.Done && !p.Err {
						c.obs["isolated_child_failed_alone"]++
					}
				}
			}
		}
	}
}

func (c *checker) report() {
	for k, v := range c.obs {
		c.r.AddObs(k, v)
	}
	c.r.AddObs("scopes", int64(len(c.x.nodes)))
	c.r.AddObs("steps_skipped_as_illegal", c.x.skipped)
	c.r.AddObs("histories_checked", 1)
	for _, ns := range c.x.plan.Nodes {
		if ns.Gio {
			c.r.AddObs("gio_iocontext_scopes", 1)
		}
		if ns.Iso {
			c.r.AddObs("isolated_scopes", 1)
		}
	}
	c.r.Key = c.x.plan.String()
	c.r.Nontrivial = c.obs["closes_checked"] > 0 && (c.waited > 0 || c.rollbacks > 0 || c.obs["second_close_refused_loudly"] > 0)
}
