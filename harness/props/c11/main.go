// C11 – scope close protocol: ordered events, commit xor rollback, waits for children,
// shared vs isolated child contexts.
//
// Runtime monitor: scope trees (scope.New / scope.NewChild / gio.NewChildIOContext, children
// sharing the parent's context or owning a contextscope.NewIsolated one) are driven by scripts
// of AddTasks / DoneTask / AppendError / Kill / Stop / Close / Wait calls issued from many
// goroutines. The first listener of the root for each of the eleven event ids records every
// event of every scope of the tree; calls are logged at call and at return with sequence
// numbers from the same log. An offline checker decides the statement on that log (oracle.go).
package main

import (
	"fmt"

	"verif/internal/sup"
)

func plan(tier string, seed int64) []sup.Batch {
	nExh := len(exhPlans())
	nRand, nBig := 8000, 400
	if tier == "thorough" {
		nRand, nBig = 400000, 24000
	}
	var bs []sup.Batch
	exhBatches := 16
	per := (nExh + exhBatches - 1) / exhBatches
	for from, i := 0, 0; from < nExh; from, i = from+per, i+1 {
		to := from + per
		if to > nExh {
			to = nExh
		}
		bs = append(bs, sup.Batch{Name: fmt.Sprintf("exh-%d", i), Kind: "exh", From: from, To: to, Procs: 2, TimeoutS: 1500, MemMB: 3000})
	}
	procs := []int{4, 2, 1, 2}
	nb := 16
	if tier == "thorough" {
		nb = 48
	}
	per = (nRand + nb - 1) / nb
	for from, i := 0, 0; from < nRand; from, i = from+per, i+1 {
		to := from + per
		if to > nRand {
			to = nRand
		}
		bs = append(bs, sup.Batch{Name: fmt.Sprintf("rand-%d", i), Kind: "rand", From: from, To: to, Procs: procs[i%len(procs)], TimeoutS: 1500, MemMB: 3000})
	}
	if nBig > 0 {
		per = (nBig + 15) / 16
		for from, i := 0, 0; from < nBig; from, i = from+per, i+1 {
			to := from + per
			if to > nBig {
				to = nBig
			}
			bs = append(bs, sup.Batch{Name: fmt.Sprintf("big-%d", i), Kind: "big", From: from, To: to, Procs: procs[i%len(procs)], TimeoutS: 1500, MemMB: 3000})
		}
	}
	return bs
}

func sampleOf(kind string, p *Plan, r *sup.CaseResult) any {
	return map[string]any{"kind": kind, "tree_and_script": p.String(), "closes_checked": r.Obs["closes_checked"],
		"commit_triples": r.Obs["commit_triples"], "rollback_triples": r.Obs["rollback_triples"], "events": r.Obs["events_seen_by_recorder"]}
}

func run(c *sup.Child, b sup.Batch) {
	stuck := false
	runOne := func(idx int, kind string, p *Plan, sample bool) {
		c.Case(idx, map[string]any{"kind": kind, "plan": p}, func(r *sup.CaseResult) {
			if stuck {
				r.Inconclusive = "skipped: an earlier case of this batch left parked goroutines behind"
				return
			}
			runPlan(r, p)
			if r.Inconclusive != "" || r.Obs["watchdog_expired"] > 0 {
				stuck = true
			}
			if sample && len(r.Violations) == 0 {
				r.Sample = sampleOf(kind, p, r)
			}
		})
	}
	switch b.Kind {
	case "exh":
		all := exhPlans()
		for idx := b.From; idx < b.To && idx < len(all); idx++ {
			if !c.Want(idx) {
				continue
			}
			runOne(idx, "exhaustive", &all[idx], idx%9973 == 0)
		}
	case "rand", "big":
		for idx := b.From; idx < b.To; idx++ {
			if !c.Want(idx) {
				continue
			}
			p := randPlan(c.Rand(idx), b.Kind == "big")
			runOne(idx, "random", &p, idx%800 == 0)
		}
	}
}

func main() {
	sup.Main(sup.Prop{
		ID:    "C11",
		Level: "exploration",
		Race:  true,
		Rule: "event-log monitor: the first listener of the root scope for each of the eleven event ids records (seq, event, closing scope); every AddTasks/DoneTask/AppendError/Kill/Stop/Close/Wait call is logged at call and return; " +
			"offline per closed scope: own events are exactly before-close, commit triple xor rollback triple, after-close (once, in order, inside the one Close call that returns normally); the first triple event comes after the call of every DoneTask of the scope and after after-close of every child; " +
			"rollback is required when an error append to the scope's context had returned before the wait ended, commit when none had been called before the triple (either when they overlap; inheritance into an isolated context is never required); Close returns an error iff the context holds one; further Close calls panic and add no event; " +
			"state probes (IsDone/Err/Errors) after every signal: shared child failure visible in the parent, errors of an isolated child never in the parent, Done() of isolated children closes once an ancestor context ended. " +
			"exh = all trees of ≤3 scopes × one disturbance × one task × every close order × second close, fixed schedule; rand/big = seeded trees (depth ≤3, fan-out ≤3) and scripts with overlapping calls. distinct = distinct tree+listeners+script; non-trivial = a checked Close that had to wait, rolled back, or was called twice",
		Assumptions: []string{
			"scope trees are built before the script starts (a child created from an already ended scope is refused registration by AddTasks' ErrDoned and is outside the quantifier's call alphabet)",
			"AppendError/Kill/Stop on a scope whose own Close has begun are only issued after its before-close was observed; the loud 'is closed' refusal and normal acceptance are both accepted (the statement is silent); calls racing with the very start of Close on the same scope are not generated",
			"AddTasks with a positive delta is only issued while the scope's counter provably cannot be zero under a concurrent Wait/Close (sync.WaitGroup's own usage rule)",
			"an error returned by a listener counts as appended to the triggering scope's context only once it was seen there (error event or Errors())",
			"race reports are recorded as observations and do not decide (DESIGN.md §1)",
		},
		Plan:        plan,
		Run:         run,
		RaceAnchors: []string{"app/scope/scope.go", "app/scope/child.go", "app/scope/eventscope/", "app/scope/contextscope/", "app/gio/iocontext.go"},
		RaceDecides: false,
		Finish: func(t *sup.Totals) string {
			need := []string{"closes_checked", "commit_triples", "rollback_triples", "closes_that_had_to_wait", "second_close_refused_loudly",
				"outcome_forced_rollback", "outcome_forced_commit", "shared_child_failure_probed_in_parent", "isolated_child_failed_alone", "isolated_stopped_with_parent", "listener_errors", "events_seen_by_recorder"}
			for _, k := range need {
				if t.Obs[k] == 0 {
					return "monitor observed nothing for: " + k
				}
			}
			return ""
		},
		Exhaustive: func(tier string) string {
			return "all scope trees of ≤3 scopes (shared/isolated in every combination) × {no disturbance, AppendError/Kill/Stop on any scope before or during the first Close, one always-failing listener on any scope for any of the 11 events} × {no task, one task on any scope finished before or during the first Close} × every close order × {single, double Close}, fixed schedule"
		},
	})
}
