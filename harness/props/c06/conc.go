package main

// conc: independent caches (each with a remote of its own) used at the same time in one process.
// Every cache writes files, copies some of them inside the cache and commits; after each
// successful Commit its remote must hold exactly what was written through it – whatever the
// other caches are streaming at that moment.

import (
	"bytes"
	"fmt"
	"math/rand"
	"sync"

	"verif/internal/sup"

	"github.com/goatcms/goatcore/filesystem/filespace/memfs"
	"github.com/goatcms/goatcore/filesystem/fscache"
)

func runConc(c *sup.Child, b sup.Batch) {
	for idx := b.From; idx < b.To; idx++ {
		rng := c.Rand(idx)
		g := []int{2, 4, 8, 8, 16}[rng.Intn(5)]
		rounds := 480 / g
		seeds := make([]int64, g)
		for i := range seeds {
			seeds[i] = rng.Int63()
		}
		c.Case(idx, map[string]any{"kind": "conc", "caches": g, "rounds": rounds, "gomaxprocs": b.Procs}, func(r *sup.CaseResult) {
			var mu sync.Mutex
			var first []string
			var commits, files, copies int64
			report := func(s string) {
				mu.Lock()
				if len(first) < 4 {
					first = append(first, s)
				}
				mu.Unlock()
			}
			start := make(chan struct{})
			var wg sync.WaitGroup
			for gi := 0; gi < g; gi++ {
				wg.Add(1)
				go func(gi int) {
					defer wg.Done()
					defer func() {
						if x := recover(); x != nil {
							report(fmt.Sprintf("cache %d panicked: %v", gi, x))
						}
					}()
					lr := rand.New(rand.NewSource(seeds[gi]))
					remote, _ := memfs.NewFilespace()
					cache, err := fscache.NewMemCache(remote)
					if err != nil {
						report("NewMemCache: " + err.Error())
						return
					}
					var nc, nf, ncp int64
					<-start
					for k := 0; k < rounds; k++ {
						want := map[string][]byte{}
						for f, n := 0, 1+lr.Intn(3); f < n; f++ {
							body := []byte(fmt.Sprintf("<cache %d round %d file %d %x>", gi, k, f, lr.Uint64()))
							if lr.Intn(3) == 0 {
								body = append(body, bytes.Repeat([]byte{byte('a' + gi)}, lr.Intn(70000))...)
							}
							p := fmt.Sprintf("r%d/f%d", k%5, f)
							if err := cache.WriteFile(p, append([]byte{}, body...), 0644); err != nil {
								report(fmt.Sprintf("cache %d round %d: WriteFile(%q): %v", gi, k, p, err))
								return
							}
							want[p] = body
							if lr.Intn(3) == 0 {
								q := fmt.Sprintf("c%d/copy%d-%d", k%5, k, f)
								if err := cache.CopyFile(p, q); err != nil {
									report(fmt.Sprintf("cache %d round %d: CopyFile(%q,%q): %v", gi, k, p, q, err))
									return
								}
								want[q] = body
								ncp++
							}
						}
						if err := cache.Commit(); err != nil {
							report(fmt.Sprintf("cache %d round %d: Commit failed although nothing can fail: %v", gi, k, err))
							return
						}
						nc++
						for p, body := range want {
							got, err := remote.ReadFile(p)
							nf++
							if err != nil || !bytes.Equal(got, body) {
								head := got
								if len(head) > 60 {
									head = head[:60]
								}
								report(fmt.Sprintf("cache %d round %d: after a successful Commit the remote file %q holds %d bytes starting %q (err %v); written through the cache: %d bytes starting %q – %d other caches with their own remotes were in use at the same time",
									gi, k, p, len(got), head, err, len(body), body[:min(60, len(body))], g-1))
							}
						}
					}
					mu.Lock()
					commits += nc
					files += nf
					copies += ncp
					mu.Unlock()
				}(gi)
			}
			close(start)
			wg.Wait()
			for _, s := range first {
				r.Violate("remote-differs-after-concurrent-commit", s, map[string]any{"caches": g, "rounds": rounds})
			}
			r.AddObs("conc_cases", 1)
			r.AddObs("conc_caches", int64(g))
			r.AddObs("conc_commits", commits)
			r.AddObs("conc_remote_files_compared", files)
			r.AddObs("conc_copies_inside_a_cache", copies)
			r.Key = fmt.Sprintf("conc|%d|%x", g, seeds[0])
			r.Nontrivial = commits > 0
			if idx%8 == 0 {
				r.Sample = map[string]any{"kind": "independent caches committing at the same time", "caches": g, "commits": commits, "remote_files_compared": files}
			}
		})
	}
}
