// C06 – write-back cache: nothing reaches the remote before Commit, everything after.
package main

import (
	"fmt"

	"verif/internal/cachemon"
	"verif/internal/sup"
)

func plan(tier string, seed int64) []sup.Batch {
	nClean, nTrig, nFault, ops := 1600, 1600, 240, 25
	if tier == "thorough" {
		nClean, nTrig, nFault, ops = 30000, 30000, 4000, 60
	}
	var bs []sup.Batch
	bs = append(bs, sup.Chunk("clean", "clean", nClean, (nClean+7)/8, 1, map[string]any{"ops": ops})...)
	bs = append(bs, sup.Chunk("trigger", "trigger", nTrig, (nTrig+7)/8, 1, map[string]any{"ops": ops})...)
	bs = append(bs, sup.Chunk("fault", "fault", nFault, (nFault+7)/8, 1, map[string]any{"ops": 14})...)
	bs = append(bs, sup.Batch{Name: "witness", Kind: "witness", From: 0, To: len(cachemon.Witnesses()), Procs: 1})
	nConc := 24
	if tier == "thorough" {
		nConc = 480
	}
	bs = append(bs, sup.Chunk("conc", "conc", nConc, nConc/4, 16, nil)...)
	return bs
}

func main() {
	sup.Main(sup.Prop{
		ID:    "C06",
		Level: "fault_enumeration",
		Rule:  "generated cache histories (initial remote tree of 0–6 nodes; writes, stream writes, mkdirs, removes, copies, reads, one or several Commits; path spellings; child views) run on fscache.Cache over a memory or disk remote and on the tree model; (a) the whole remote tree is compared with its last committed state after EVERY cache operation; (b) after every successful Commit the remote tree must equal the model tree (the successful operations applied directly); (c) fault: the remote is wrapped in a fault-injecting decorator, a dry run counts the remote calls of the final Commit and EVERY position is failed once – Commit must report the failure, and a later fault-free Commit (at every other position preceded by one more write through the cache) must succeed and leave remote = model. clean stratum (no operation matching a listed finding's trigger): every divergence is a violation; trigger stratum: unrestricted, a divergence must satisfy a listed finding's class predicate; witness: the findings' minimal histories replayed verbatim; conc: 2–16 independent caches (each with its own memory remote) writing, copying inside the cache and committing at the same time – after every successful Commit the remote files equal what was written through that cache. distinct = distinct operation sequences; non-trivial = ≥1 successful mutation",
		Assumptions: []string{
			"the expected tree is defined through the operations the cache reported as successful; a history in which the cache accepts an operation the tree model rejects is ambiguous and excluded",
			"fault enumeration is done on clean-stratum histories",
			"copies whose source and destination are related paths are not generated",
		},
		Plan: plan,
		Run: func(c *sup.Child, b sup.Batch) {
			if b.Kind == "witness" {
				ws := cachemon.Witnesses()
				for idx := b.From; idx < b.To; idx++ {
					wt := ws[idx]
					if wt.Prop != "C06" {
						continue
					}
					c.Case(idx, map[string]any{"witness": wt.ID, "history": cachemon.HistStrings(wt.Steps)}, func(r *sup.CaseResult) {
						cachemon.RunWitness(r, wt, cachemon.Options{CheckRemote: true, RemoteKind: "mem"})
					})
				}
				return
			}
			if b.Kind == "conc" {
				runConc(c, b)
				return
			}
			nops := b.P("ops", 25)
			for idx := b.From; idx < b.To; idx++ {
				rng := c.Rand(idx)
				opt := cachemon.Options{CheckRemote: true, RemoteKind: []string{"mem", "disk", "mem"}[idx%3]}
				init := cachemon.GenInit(rng)
				c.Case(idx, map[string]any{"stratum": b.Kind, "idx": idx, "remote": opt.RemoteKind}, func(r *sup.CaseResult) {
					run, err := cachemon.NewRun(opt, init, nil)
					if err != nil {
						r.Inconclusive = err.Error()
						return
					}
					defer run.Cleanup()
					clean := b.Kind != "trigger"
					d := cachemon.Drive(run, rng, nops, clean, idx%2 == 0)
					if d != nil && d.Prop == "C06" {
						cachemon.Report(r, run, d, b.Kind, b.Kind == "trigger")
					}
					if run.Ambiguous != "" {
						r.AddObs("ambiguous_excluded_"+b.Kind, 1)
					}
					if b.Kind == "fault" && d == nil && run.Ambiguous == "" && len(r.Violations) == 0 {
						// replay the same history (without its trailing commits) with a fault at every position of the final Commit
						h := run.Hist
						for len(h) > 0 && h[len(h)-1].Commit {
							h = h[:len(h)-1]
						}
						cachemon.FaultCommit(r, opt, init, h)
					}
					r.AddObs("histories_"+b.Kind, 1)
					r.AddObs("steps", int64(len(run.Hist)))
					r.AddObs("mutations_through_cache", run.Mutations)
					r.AddObs("remote_isolation_checks", run.IsolationChecks)
					r.AddObs("commits_compared", run.CommitsChecked)
					r.Key = b.Kind + "|" + cachemon.Key(run.Hist)
					r.Nontrivial = run.Mutations > 0
					if idx%400 == 0 {
						hs := cachemon.HistStrings(run.Hist)
						if len(hs) > 10 {
							hs = hs[:10]
						}
						r.Sample = map[string]any{"stratum": b.Kind, "remote": opt.RemoteKind, "initial": fmt.Sprint(init), "first_ops": hs}
					}
				})
			}
		},
		Finish: func(t *sup.Totals) string {
			if t.Obs["histories_clean"] == 0 || t.Obs["histories_trigger"] == 0 || t.Obs["commits_compared"] < 100 || t.Obs["faults_injected"] < 100 {
				return "a stratum observed nothing (clean / trigger / commits / injected faults)"
			}
			return ""
		},
		Exhaustive: func(string) string {
			return "every remote call position of the final Commit of each fault-enumerated history"
		},
	})
}
