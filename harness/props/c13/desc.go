package main

import (
	"fmt"
	"runtime"
	"sync"
	"sync/atomic"

	"verif/internal/sup"

	"github.com/goatcms/goatcore/app"
	"github.com/goatcms/goatcore/app/scope/datascope"
)

// desc: reads that reach a scope THROUGH its descendants are reads on that scope too.
// A chain root → mid → leaf → leaf2 (depth chosen per case); sections on the scope under test
// (root or mid) write a sentinel, yield, and restore the final value before Commit. Readers go
// through plain Value and through LockData on descendants that do not hold the key themselves.
// Nobody outside the section may ever observe the sentinel; the race detector watches the
// same accesses.
type sentinel struct{ owner int }

func runDesc(c *sup.Child, b sup.Batch) {
	const blk = 20
	for from := b.From; from < b.To; from += blk {
		to := from + blk
		if to > b.To {
			to = b.To
		}
		c.Case(from, map[string]any{"kind": "desc", "from": from, "to": to}, func(r *sup.CaseResult) {
			for idx := from; idx < to && len(r.Violations) == 0; idx++ {
				rng := c.Rand(idx)
				depth := 3 + rng.Intn(3) // scopes in the chain
				target := rng.Intn(depth - 1)
				chain := make([]app.DataScope, depth)
				chain[0] = datascope.New(map[interface{}]interface{}{})
				for i := 1; i < depth; i++ {
					chain[i] = datascope.NewChild(chain[i-1], map[interface{}]interface{}{})
				}
				under := chain[target]
				under.SetValue("k", 0)
				writers := 1 + rng.Intn(3)
				readers := 2 + rng.Intn(6)
				sections := 20 + rng.Intn(60)
				var seen, reads, through int64
				var stop int32
				var wg sync.WaitGroup
				var mu sync.Mutex
				for w := 0; w < writers; w++ {
					wg.Add(1)
					go func(w int) {
						defer wg.Done()
						for s := 0; s < sections; s++ {
							l := under.LockData()
							v, _ := l.Value("k").(int)
							l.SetValue("k", &sentinel{owner: w})
							runtime.Gosched()
							l.SetValue("k", v+1)
							l.Commit()
						}
					}(w)
				}
				var rwg sync.WaitGroup
				for q := 0; q < readers; q++ {
					rwg.Add(1)
					via := target + 1 + q%(depth-target-1) // a strict descendant
					locked := q%3 == 2
					go func(via int, locked bool) {
						defer rwg.Done()
						for atomic.LoadInt32(&stop) == 0 {
							var v interface{}
							if locked {
								l := chain[via].LockData()
								v = l.Value("k")
								l.Commit()
							} else {
								v = chain[via].Value("k")
							}
							atomic.AddInt64(&reads, 1)
							if via-target >= 2 {
								atomic.AddInt64(&through, 1)
							}
							if s, ok := v.(*sentinel); ok {
								if atomic.AddInt64(&seen, 1) == 1 {
									mu.Lock()
									r.Violate("read-inside-locked-section", fmt.Sprintf("a reader going through descendant #%d (locked=%v) of the scope at depth %d observed the intermediate value written by holder %d between LockData and Commit", via, locked, target, s.owner), map[string]any{"chain_depth": depth, "scope_under_test": target})
									mu.Unlock()
								}
							}
							runtime.Gosched()
						}
					}(via, locked)
				}
				wg.Wait()
				atomic.StoreInt32(&stop, 1)
				rwg.Wait()
				if got, _ := under.Value("k").(int); got != writers*sections && len(r.Violations) == 0 {
					r.Violate("lost-update", fmt.Sprintf("%d locked increments through the scope at depth %d of a %d-chain ended at %d", writers*sections, target, depth, got), nil)
				}
				r.Evals++
				r.AddKey(fmt.Sprintf("desc|%d|%d|%d|%d|%d", idx, depth, target, writers, readers))
				r.AddObs("desc_rounds", 1)
				r.AddObs("desc_sections", int64(writers*sections))
				r.AddObs("desc_reads_through_descendants", atomic.LoadInt64(&reads))
				r.AddObs("desc_reads_two_or_more_levels_below", atomic.LoadInt64(&through))
			}
		})
	}
}
