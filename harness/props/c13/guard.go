package main

import (
	"fmt"
	"regexp"
	"runtime"
	"runtime/debug"
	"sort"
	"strings"
	"sync/atomic"
	"time"

	"verif/internal/sup"
)

// stuck is set once a case of this process was diagnosed as deadlocked: its goroutines are
// parked for good, the remaining cases of the batch are skipped (they would park too).
var stuck int32

// guard runs body on its own goroutine and result. The wall clock is only a watchdog: when it
// expires the verdict comes from two goroutine dumps taken one second apart (DESIGN.md §1,
// "bounded progress"): every goroutine of the workload parked in a blocking primitive, at least
// one of them inside goatcore, identical stacks in both dumps = logical deadlock (violation);
// anything else = inconclusive.
func guard(r *sup.CaseResult, watch time.Duration, progress func() string, body func(r *sup.CaseResult)) {
	if atomic.LoadInt32(&stuck) != 0 {
		r.Inconclusive = "skipped: an earlier case of this batch deadlocked"
		return
	}
	inner := &sup.CaseResult{}
	done := make(chan struct{})
	go func() {
		defer close(done)
		defer func() {
			if p := recover(); p != nil {
				inner.Violate("panic", fmt.Sprintf("panic: %v", p), string(debug.Stack()))
			}
		}()
		body(inner)
	}()
	timer := time.NewTimer(watch)
	defer timer.Stop()
	select {
	case <-done:
		*r = *inner
		return
	case <-timer.C:
	}
	d1 := workloadStacks()
	time.Sleep(time.Second)
	select {
	case <-done:
		*r = *inner // it was only slow
		return
	default:
	}
	d2 := workloadStacks()
	atomic.StoreInt32(&stuck, 1)
	where := ""
	if progress != nil {
		where = progress()
	}
	if verdict, dump := diagnose(d1, d2); verdict {
		r.Violate("logical-deadlock", "the workload stopped for good: every goroutine is parked, at least one inside goatcore holding/awaiting a data-scope lock, and nothing changed between two dumps. "+where, map[string]any{"goroutines": dump, "progress": where})
	} else {
		r.Inconclusive = "case watchdog expired without a deadlock diagnosis. " + where
	}
}

var hdrRe = regexp.MustCompile(`^goroutine (\d+) \[([^\],]+)`)
var offRe = regexp.MustCompile(`\+0x[0-9a-f]+`)
var argRe = regexp.MustCompile(`\(0x[^)]*\)|\(\.\.\.\)`)

type gstack struct {
	id, state, frames string
}

// workloadStacks returns the stacks of all goroutines that run code of this worker's case
// bodies (files under props/c13), except the goroutine taking the dump.
func workloadStacks() []gstack {
	buf := make([]byte, 1<<20)
	for {
		n := runtime.Stack(buf, true)
		if n < len(buf) {
			buf = buf[:n]
			break
		}
		buf = make([]byte, 2*len(buf))
	}
	var out []gstack
	for _, blk := range strings.Split(string(buf), "\n\n") {
		if !strings.Contains(blk, "/props/c13/") || strings.Contains(blk, "main.workloadStacks") {
			continue
		}
		lines := strings.Split(blk, "\n")
		m := hdrRe.FindStringSubmatch(lines[0])
		if m == nil {
			continue
		}
		fr := strings.Join(lines[1:], "\n")
		fr = argRe.ReplaceAllString(offRe.ReplaceAllString(fr, ""), "()")
		out = append(out, gstack{id: m[1], state: m[2], frames: fr})
	}
	sort.Slice(out, func(i, j int) bool { return out[i].id < out[j].id })
	return out
}

func parked(state string) bool {
	switch {
	case strings.HasPrefix(state, "sync."), state == "semacquire", state == "chan receive", state == "chan send", state == "select":
		return true
	}
	return false
}

func diagnose(a, b []gstack) (bool, []string) {
	var dump []string
	for _, g := range b {
		dump = append(dump, fmt.Sprintf("goroutine %s [%s]\n%s", g.id, g.state, g.frames))
	}
	if len(a) != len(b) || len(a) == 0 {
		return false, dump
	}
	inRepo := false
	for i := range a {
		if a[i].id != b[i].id || a[i].frames != b[i].frames || !parked(a[i].state) || !parked(b[i].state) {
			return false, dump
		}
		if strings.Contains(b[i].frames, "goatcms/goatcore/") && strings.Contains(b[i].frames, "sync.(*") {
			inRepo = true
		}
	}
	return inRepo, dump
}
