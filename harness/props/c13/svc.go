package main

import (
	"fmt"
	"math/rand"
	"runtime"
	"sync"
	"sync/atomic"

	"verif/internal/sup"

	"github.com/goatcms/goatcore/app"
	"github.com/goatcms/goatcore/app/modules/commonm/commservices/envs"
	"github.com/goatcms/goatcore/app/modules/commonm/commservices/waits"
	"github.com/goatcms/goatcore/app/modules/pipelinem/pipservices/tasks"
	"github.com/goatcms/goatcore/app/scope"
)

// The get-or-create services keep their instance in the scope under these keys
// (tasks/const.go, envs/consts.go, waits/const.go).
type service struct {
	name string
	key  string
	get  func(scp app.Scope) (interface{}, error)
}

func services() []service {
	tu := tasks.NewUnit(tasks.UnitDeps{})
	eu := &envs.Unit{}
	wm := waits.NewWaitManager()
	return []service{
		{"tasks.Unit.FromScope", "pipTasks", func(s app.Scope) (interface{}, error) { v, err := tu.FromScope(s); return v, err }},
		{"envs.Unit.Envs", "sandboxes_enviroment", func(s app.Scope) (interface{}, error) { v, err := eu.Envs(s); return v, err }},
		{"waits.WaitManager.ForScope", "scopeWaitManager", func(s app.Scope) (interface{}, error) { v, err := wm.ForScope(s); return v, err }},
	}
}

func runSvc(c *sup.Child, b sup.Batch) {
	svcs := services()
	for idx := b.From; idx < b.To; idx++ {
		rng := c.Rand(idx)
		G := []int{2, 3, 4, 8, 16, 32}[rng.Intn(6)]
		shape := idx % 4 // 0 fresh root, 1 fresh child of fresh root, 2 grandchild, 3 child whose parent already owns the instances
		noise := rng.Intn(3)
		pre := make([]int, G)
		for i := range pre {
			pre[i] = rng.Intn(4)
		}
		noiseRng := make([]*rand.Rand, noise)
		for i := range noiseRng {
			noiseRng[i] = rand.New(rand.NewSource(rng.Int63()))
		}
		desc := map[string]any{"kind": "svc", "idx": idx, "goroutines": G, "shape": []string{"fresh root scope", "fresh child scope", "fresh grandchild scope", "child of a scope that already has the instances"}[shape], "noise_goroutines": noise, "gomaxprocs": b.Procs}
		c.Case(idx, desc, func(r0 *sup.CaseResult) {
			guard(r0, concWatch, nil, func(r *sup.CaseResult) {
				root := scope.New(scope.Params{})
				target := root
				switch shape {
				case 1, 3:
					target = scope.NewChild(root, scope.ChildParams{})
				case 2:
					target = scope.NewChild(scope.NewChild(root, scope.ChildParams{}), scope.ChildParams{})
				}
				expect := make([]interface{}, len(svcs))
				if shape == 3 {
					for i, s := range svcs {
						v, err := s.get(root)
						if err != nil || v == nil {
							r.Violate("service-error", fmt.Sprintf("%s on a fresh root scope returned (%v, %v)", s.name, v, err), desc)
							return
						}
						expect[i] = v
					}
				}
				type slot struct {
					v         interface{}
					err       error
					call, ret int64
				}
				var (
					clock int64
					got   = make([][]slot, len(svcs))
					start = make(chan struct{})
					wg    sync.WaitGroup
				)
				for i := range got {
					got[i] = make([]slot, G)
				}
				for g := 0; g < G; g++ {
					wg.Add(1)
					go func(g int) {
						defer wg.Done()
						<-start
						for n := pre[g]; n > 0; n-- {
							runtime.Gosched()
						}
						// every goroutine asks for the three services, in an order that depends on g
						for j := 0; j < len(svcs); j++ {
							i := (j + g) % len(svcs)
							sl := &got[i][g]
							sl.call = atomic.AddInt64(&clock, 1)
							sl.v, sl.err = svcs[i].get(target)
							sl.ret = atomic.AddInt64(&clock, 1)
						}
					}(g)
				}
				for p := 0; p < noise; p++ {
					wg.Add(1)
					go func(p int, rng *rand.Rand) {
						defer wg.Done()
						<-start
						for i := 0; i < 12; i++ {
							switch rng.Intn(4) {
							case 0:
								target.SetValue(fmt.Sprintf("other%d", p), i)
							case 1:
								target.Value("pipTasks")
							case 2:
								target.Keys()
							default:
								l := target.LockData()
								yield(rng)
								l.Commit()
							}
						}
					}(p, noiseRng[p])
				}
				close(start)
				wg.Wait()

				overlapped := false
				for i, s := range svcs {
					first := got[i][0].v
					if expect[i] != nil {
						first = expect[i]
					}
					distinct := map[interface{}]bool{}
					for g := 0; g < G; g++ {
						sl := got[i][g]
						if sl.err != nil || sl.v == nil {
							r.Violate("service-error", fmt.Sprintf("%s returned (%v, %v)", s.name, sl.v, sl.err), desc)
							return
						}
						distinct[sl.v] = true
						for h := 0; h < g; h++ {
							if got[i][h].call < sl.ret && sl.call < got[i][h].ret {
								overlapped = true
							}
						}
					}
					if len(distinct) != 1 || !distinct[first] {
						what := "on one fresh scope"
						if expect[i] != nil {
							what = "on a child of a scope that already holds the instance (which is not what they all returned)"
						}
						r.Violate("several-instances", fmt.Sprintf("%d concurrent calls of %s %s returned %d distinct instances", G, s.name, what, len(distinct)), desc)
						continue
					}
					if v := target.Value(s.key); v != first {
						r.Violate("instance-not-stored", fmt.Sprintf("after %s the scope holds %v under %q, the callers got %v", s.name, v, s.key, first), desc)
					}
					if again, err := s.get(target); err != nil || again != first {
						r.Violate("several-instances", fmt.Sprintf("a later call of %s returned another instance (err=%v)", s.name, err), desc)
					}
					if shape != 3 && target != root {
						if v := root.Value(s.key); v != nil {
							r.Violate("child-write-reached-parent", fmt.Sprintf("%s on a child scope stored %v in the parent scope", s.name, v), desc)
						}
					}
				}
				r.AddObs("svc_rounds", 1)
				r.AddObs("svc_calls", int64(G*len(svcs)))
				if overlapped {
					r.AddObs("svc_rounds_with_overlap", 1)
				}
				r.Key = fmt.Sprintf("svc|%d|%d|%d|%v", shape, G, noise, pre)
				r.Nontrivial = overlapped
				if idx%600 == 0 {
					r.Sample = map[string]any{"kind": "service round", "desc": desc, "distinct_instances_per_service": 1}
				}
			})
		})
	}
}
