package main

import (
	"crypto/sha256"
	"encoding/hex"
	"fmt"
	"math/rand"
	"runtime"
	"sort"
	"sync"
	"sync/atomic"
	"time"

	"verif/internal/sup"

	"github.com/anishathalye/porcupine"
	"github.com/goatcms/goatcore/app"
	"github.com/goatcms/goatcore/app/scope"
	"github.com/goatcms/goatcore/app/scope/datascope"
)

func hashKey(s string) string {
	h := sha256.Sum256([]byte(s))
	return hex.EncodeToString(h[:16])
}

// ---- scope under test ------------------------------------------------------------------------

var targetFlavours = []string{
	"datascope.New",
	"datascope.NewChild depth 2",
	"datascope.NewChild depth 4",
	"scope.New",
	"scope.NewChild",
	"scope.NewChild of scope.NewChild",
}

// buildTarget returns the scope the goroutines will share. Ancestors are static for the whole
// case; parentInit are the values they hold (visible through the child until it has its own).
func buildTarget(flavour int, parentInit map[interface{}]interface{}) (target app.DataScope, initial map[interface{}]interface{}) {
	empty := func() map[interface{}]interface{} { return map[interface{}]interface{}{} }
	switch flavour {
	case 0:
		return datascope.New(copyMap(parentInit)), parentInit
	case 1:
		return datascope.NewChild(datascope.New(copyMap(parentInit)), empty()), parentInit
	case 2:
		root := datascope.New(copyMap(parentInit))
		return datascope.NewChild(datascope.NewChild(datascope.NewChild(root, empty()), empty()), empty()), parentInit
	case 3:
		return scope.New(scope.Params{DataScope: datascope.New(copyMap(parentInit))}), parentInit
	case 4:
		root := scope.New(scope.Params{DataScope: datascope.New(copyMap(parentInit))})
		return scope.NewChild(root, scope.ChildParams{}), parentInit
	default:
		root := scope.New(scope.Params{DataScope: datascope.New(copyMap(parentInit))})
		return scope.NewChild(scope.NewChild(root, scope.ChildParams{}), scope.ChildParams{}), parentInit
	}
}

// asInt maps a stored value to an int (nil = absent = 0).
func asInt(v interface{}) (int, bool) {
	if v == nil {
		return 0, true
	}
	n, ok := v.(int)
	return n, ok
}

func yield(rng *rand.Rand) {
	switch rng.Intn(8) {
	case 0, 1:
	case 2, 3, 4:
		runtime.Gosched()
	case 5:
		for i := rng.Intn(4); i >= 0; i-- {
			runtime.Gosched()
		}
	case 6:
		var x int32
		for i := 50 + rng.Intn(400); i > 0; i-- {
			atomic.AddInt32(&x, 1)
		}
	default:
		time.Sleep(time.Duration(1+rng.Intn(30)) * time.Microsecond) // perturbation only, no oracle looks at time
	}
}

// flags collects refuting observations made inside worker goroutines.
type flags struct {
	mu   sync.Mutex
	list []sup.Violation
}

func (f *flags) add(class, detail string) {
	f.mu.Lock()
	if len(f.list) < 8 {
		f.list = append(f.list, sup.Violation{Class: class, Detail: detail})
	}
	f.mu.Unlock()
}

// concWatch: a concurrent case takes a few milliseconds; see guard.
const concWatch = 90 * time.Second

// ---- conservation ---------------------------------------------------------------------------

func runCons(c *sup.Child, b sup.Batch) {
	total := b.P("sections", 240)
	for idx := b.From; idx < b.To; idx++ {
		rng := c.Rand(idx)
		G := []int{2, 3, 4, 8, 16, 32}[rng.Intn(6)]
		per := total / G
		if per < 2 {
			per = 2
		}
		flavour := idx % len(targetFlavours)
		base := 0
		parentInit := map[interface{}]interface{}{"x": 1000, "y": 0}
		if rng.Intn(2) == 0 {
			base = 1 + rng.Intn(50)
			parentInit["ctr"] = base
		}
		plain := 1 + rng.Intn(6)
		plainOps := 20 + rng.Intn(120)
		desc := map[string]any{"kind": "cons", "idx": idx, "scope": targetFlavours[flavour], "goroutines": G, "sections_each": per, "plain_goroutines": plain, "plain_ops": plainOps, "gomaxprocs": b.Procs}
		// per-goroutine generators are drawn before anything runs
		secRng := make([]*rand.Rand, G)
		for i := range secRng {
			secRng[i] = rand.New(rand.NewSource(rng.Int63()))
		}
		plainRng := make([]*rand.Rand, plain)
		for i := range plainRng {
			plainRng[i] = rand.New(rand.NewSource(rng.Int63()))
		}
		c.Case(idx, desc, func(r0 *sup.CaseResult) {
			guard(r0, concWatch, nil, func(r *sup.CaseResult) {
				target, _ := buildTarget(flavour, parentInit)
				var (
					fl            flags
					inside        int32 // holders between LockData return and Commit call
					waiting       int32 // goroutines inside a LockData call
					withWaiters   int64
					incSections   int64
					xferSections  int64
					auditSections int64
					emptySections int64
					plainDone     int64
					start         = make(chan struct{})
					wg            sync.WaitGroup
					readsBy       = make([][]int, G)
					order         = make([][]int32, G) // global entry ticket of each section, per goroutine
					ticket        int32
				)
				enter := func() app.DataScopeLocker {
					atomic.AddInt32(&waiting, 1)
					l := target.LockData()
					atomic.AddInt32(&waiting, -1)
					if n := atomic.AddInt32(&inside, 1); n != 1 {
						fl.add("two-holders", fmt.Sprintf("LockData returned while %d other holder(s) had not committed", n-1))
					}
					if atomic.LoadInt32(&waiting) > 0 {
						atomic.AddInt64(&withWaiters, 1)
					}
					return l
				}
				leave := func(l app.DataScopeLocker) {
					atomic.AddInt32(&inside, -1)
					if err := l.Commit(); err != nil {
						fl.add("commit-error", fmt.Sprintf("Commit returned %v", err))
					}
				}
				for g := 0; g < G; g++ {
					wg.Add(1)
					go func(g int, rng *rand.Rand) {
						defer wg.Done()
						<-start
						for i := 0; i < per; i++ {
							// the counted increment
							l := enter()
							order[g] = append(order[g], atomic.AddInt32(&ticket, 1))
							v, ok := asInt(l.Value("ctr"))
							if !ok {
								fl.add("foreign-value", fmt.Sprintf("counter holds %v", l.Value("ctr")))
							}
							mark := g*1000000 + i + 1
							l.SetValue("tmp", mark)
							yield(rng)
							if v2, _ := asInt(l.Value("ctr")); v2 != v {
								fl.add("changed-under-lock", fmt.Sprintf("counter read %d and then %d inside one locked section", v, v2))
							}
							if t, _ := asInt(l.Value("tmp")); t != mark {
								fl.add("changed-under-lock", fmt.Sprintf("key tmp written %d inside the section reads back %d before Commit", mark, t))
							}
							l.SetValue("ctr", v+1)
							if v3, _ := asInt(l.Value("ctr")); v3 != v+1 {
								fl.add("changed-under-lock", fmt.Sprintf("counter written %d inside the section reads back %d before Commit", v+1, v3))
							}
							readsBy[g] = append(readsBy[g], v)
							leave(l)
							atomic.AddInt64(&incSections, 1)
							// now and then a transfer or an audit of x+y
							switch rng.Intn(4) {
							case 0:
								l := enter()
								x, _ := asInt(l.Value("x"))
								y, _ := asInt(l.Value("y"))
								if x+y != 1000 {
									fl.add("sum-not-conserved", fmt.Sprintf("transfer section sees x=%d y=%d (sum must be 1000)", x, y))
								}
								a := rng.Intn(7) - 3
								l.SetValue("x", x-a)
								yield(rng)
								l.SetValue("y", y+a)
								leave(l)
								atomic.AddInt64(&xferSections, 1)
							case 1:
								l := enter()
								x, _ := asInt(l.Value("x"))
								yield(rng)
								y, _ := asInt(l.Value("y"))
								if x+y != 1000 {
									fl.add("sum-not-conserved", fmt.Sprintf("audit section sees x=%d y=%d (sum must be 1000)", x, y))
								}
								leave(l)
								atomic.AddInt64(&auditSections, 1)
							}
							if rng.Intn(3) == 0 {
								runtime.Gosched()
							}
						}
					}(g, secRng[g])
				}
				for p := 0; p < plain; p++ {
					wg.Add(1)
					go func(p int, rng *rand.Rand) {
						defer wg.Done()
						<-start
						last := -1
						mine := fmt.Sprintf("noise%d", p)
						var wrote interface{}
						for i := 0; i < plainOps; i++ {
							switch rng.Intn(6) {
							case 0, 1: // plain read of the counter: never goes backwards
								v, ok := asInt(target.Value("ctr"))
								if !ok {
									fl.add("foreign-value", "counter holds a foreign value")
								} else if v < last {
									fl.add("counter-went-back", fmt.Sprintf("plain reads of the counter returned %d and later %d", last, v))
								} else {
									last = v
								}
							case 2: // plain write to the key the sections use as scratch
								target.SetValue("tmp", -(p + 1))
							case 3: // a private key: read-your-write
								if got := target.Value(mine); got != wrote {
									fl.add("plain-write-lost", fmt.Sprintf("%s was set to %v by its only writer and reads %v", mine, wrote, got))
								}
								wrote = i
								target.SetValue(mine, i)
							case 4:
								target.Keys()
							default: // an empty locked section
								l := enter()
								yield(rng)
								leave(l)
								atomic.AddInt64(&emptySections, 1)
							}
							atomic.AddInt64(&plainDone, 1)
							if rng.Intn(2) == 0 {
								runtime.Gosched()
							}
						}
					}(p, plainRng[p])
				}
				close(start)
				wg.Wait()

				n := G * per
				final, ok := asInt(target.Value("ctr"))
				if !ok || final != base+n {
					r.Violate("lost-update", fmt.Sprintf("%d locked increments from %d goroutines on %s starting at %d ended at %v", n, G, targetFlavours[flavour], base, target.Value("ctr")), desc)
				}
				var all []int
				for _, rs := range readsBy {
					all = append(all, rs...)
				}
				sort.Ints(all)
				for i, v := range all {
					if v != base+i {
						r.Violate("reads-not-a-permutation", fmt.Sprintf("values read inside the %d sections are not {%d…%d}: position %d holds %d", n, base, base+n-1, i, v), desc)
						break
					}
				}
				x, _ := asInt(target.Value("x"))
				y, _ := asInt(target.Value("y"))
				if x+y != 1000 {
					r.Violate("sum-not-conserved", fmt.Sprintf("after join x=%d y=%d (sum must be 1000)", x, y), desc)
				}
				for _, v := range fl.list {
					r.Violate(v.Class, v.Detail, desc)
				}
				r.AddObs("cons_sections", int64(n)+xferSections+auditSections+emptySections)
				r.AddObs("cons_increment_sections", incSections)
				r.AddObs("cons_transfer_sections", xferSections)
				r.AddObs("cons_audit_sections", auditSections)
				r.AddObs("cons_sections_with_waiters", withWaiters)
				r.AddObs("cons_plain_ops", plainDone)
				r.AddObs(fmt.Sprintf("cons_cases_gomaxprocs_%d", b.Procs), 1)
				// interleaving signature: which goroutine entered its sections in which global order
				sig := make([]byte, 0, n)
				pos := map[int32]int{}
				for g := range order {
					for _, t := range order[g] {
						pos[t] = g
					}
				}
				switches := 0
				prev := -1
				for t := int32(1); t <= ticket; t++ {
					g, ok := pos[t]
					if !ok {
						continue
					}
					sig = append(sig, byte(g))
					if g != prev {
						switches++
						prev = g
					}
				}
				r.AddObs("cons_holder_switches", int64(switches))
				r.Key = fmt.Sprintf("cons|%d|%d|%s", flavour, G, hashKey(string(sig)))
				r.Nontrivial = withWaiters > 0 && switches > 1
				if idx%160 == 0 {
					r.Sample = map[string]any{"kind": "conservation run", "desc": desc, "final_counter": final, "sections_entered_while_others_waited": withWaiters, "holder_switches": switches}
				}
			})
		})
	}
}

// ---- porcupine ---------------------------------------------------------------------------------

type linIn struct {
	Kind string // get | set | rmw | lget
	Key  string
	Arg  int
}

type linRec struct {
	client    int
	in        linIn
	out       int
	call, ret int64
}

var linModel = porcupine.Model{
	Partition: func(history []porcupine.Operation) [][]porcupine.Operation {
		by := map[string][]porcupine.Operation{}
		var keys []string
		for _, op := range history {
			k := op.Input.(linIn).Key
			if _, ok := by[k]; !ok {
				keys = append(keys, k)
			}
			by[k] = append(by[k], op)
		}
		sort.Strings(keys)
		out := make([][]porcupine.Operation, 0, len(keys))
		for _, k := range keys {
			out = append(out, by[k])
		}
		return out
	},
	Init: func() interface{} { return linInitMarker },
	Step: func(state, input, output interface{}) (bool, interface{}) {
		in := input.(linIn)
		st := state.(int)
		if st == linInitMarker {
			st = in.initial()
		}
		out := output.(int)
		switch in.Kind {
		case "get", "lget":
			return out == st, st
		case "set":
			return true, in.Arg
		default: // rmw
			return out == st, in.Arg
		}
	},
	DescribeOperation: func(input, output interface{}) string {
		in := input.(linIn)
		return fmt.Sprintf("%s(%s,%d)->%d", in.Kind, in.Key, in.Arg, output.(int))
	},
}

// The initial value of a key is encoded in its name ("k<i>@<initial>") so that the model stays
// a pure function of the operations.
const linInitMarker = -1 << 40

func (in linIn) initial() int {
	var i, v int
	fmt.Sscanf(in.Key, "k%d@%d", &i, &v)
	return v
}

func runLin(c *sup.Child, b sup.Batch) {
	for idx := b.From; idx < b.To; idx++ {
		rng := c.Rand(idx)
		G := 2 + rng.Intn(5)
		m := 4 + rng.Intn(7)
		nk := 1 + rng.Intn(3)
		flavour := idx % len(targetFlavours)
		parentInit := map[interface{}]interface{}{}
		keys := make([]string, nk)
		for i := range keys {
			init := 0
			if rng.Intn(2) == 0 {
				init = 1 + rng.Intn(9)
			}
			keys[i] = fmt.Sprintf("k%d@%d", i, init)
			if init != 0 {
				parentInit[keys[i]] = init
			}
		}
		rngs := make([]*rand.Rand, G)
		for i := range rngs {
			rngs[i] = rand.New(rand.NewSource(rng.Int63()))
		}
		desc := map[string]any{"kind": "lin", "idx": idx, "scope": targetFlavours[flavour], "goroutines": G, "ops_each": m, "keys": keys, "gomaxprocs": b.Procs}
		c.Case(idx, desc, func(r0 *sup.CaseResult) {
			guard(r0, concWatch, nil, func(r *sup.CaseResult) {
				target, _ := buildTarget(flavour, parentInit)
				var (
					clock int64
					fl    flags
					recs  = make([][]linRec, G)
					start = make(chan struct{})
					wg    sync.WaitGroup
				)
				for g := 0; g < G; g++ {
					wg.Add(1)
					go func(g int, rng *rand.Rand) {
						defer wg.Done()
						<-start
						for i := 0; i < m; i++ {
							k := keys[rng.Intn(len(keys))]
							u := (g+1)*100000 + i + 1 // unique written value
							rec := linRec{client: g, in: linIn{Key: k}}
							switch x := rng.Intn(10); {
							case x < 2:
								rec.in.Kind = "get"
								rec.call = atomic.AddInt64(&clock, 1)
								v, ok := asInt(target.Value(k))
								rec.ret = atomic.AddInt64(&clock, 1)
								if !ok {
									fl.add("foreign-value", "a key holds a value nobody wrote")
								}
								rec.out = v
							case x < 4:
								rec.in.Kind, rec.in.Arg = "set", u
								rec.call = atomic.AddInt64(&clock, 1)
								target.SetValue(k, u)
								rec.ret = atomic.AddInt64(&clock, 1)
							case x < 9:
								rec.in.Kind, rec.in.Arg = "rmw", u
								rec.call = atomic.AddInt64(&clock, 1)
								l := target.LockData()
								v, ok := asInt(l.Value(k))
								yield(rng)
								l.SetValue(k, u)
								yield(rng)
								back, _ := asInt(l.Value(k))
								l.Commit()
								rec.ret = atomic.AddInt64(&clock, 1)
								if !ok {
									fl.add("foreign-value", "a key holds a value nobody wrote")
								}
								if back != u {
									fl.add("changed-under-lock", fmt.Sprintf("%s written %d inside the section reads back %d before Commit", k, u, back))
								}
								rec.out = v
							default:
								rec.in.Kind = "lget"
								rec.call = atomic.AddInt64(&clock, 1)
								l := target.LockData()
								v1, _ := asInt(l.Value(k))
								yield(rng)
								v2, _ := asInt(l.Value(k))
								l.Commit()
								rec.ret = atomic.AddInt64(&clock, 1)
								if v1 != v2 {
									fl.add("changed-under-lock", fmt.Sprintf("%s read %d and then %d inside one locked section", k, v1, v2))
								}
								rec.out = v1
							}
							recs[g] = append(recs[g], rec)
							if rng.Intn(3) == 0 {
								runtime.Gosched()
							}
						}
					}(g, rngs[g])
				}
				close(start)
				wg.Wait()

				var all []linRec
				for _, rs := range recs {
					all = append(all, rs...)
				}
				sort.Slice(all, func(i, j int) bool { return all[i].call < all[j].call })
				ops := make([]porcupine.Operation, len(all))
				var hs []string
				sections, overlaps := 0, 0
				for i, rc := range all {
					ops[i] = porcupine.Operation{ClientId: rc.client, Input: rc.in, Call: rc.call, Output: rc.out, Return: rc.ret}
					hs = append(hs, fmt.Sprintf("g%d %s(%s,%d)->%d [%d,%d]", rc.client, rc.in.Kind, rc.in.Key, rc.in.Arg, rc.out, rc.call, rc.ret))
					if rc.in.Kind == "rmw" || rc.in.Kind == "lget" {
						sections++
						for _, o := range all {
							if o.client != rc.client && o.call < rc.ret && rc.call < o.ret {
								overlaps++
								break
							}
						}
					}
				}
				res := porcupine.CheckOperationsTimeout(linModel, ops, 60*time.Second) // watchdog; Unknown = inconclusive
				r.AddObs("lin_histories_checked", 1)
				r.AddObs("lin_history_ops", int64(len(ops)))
				r.AddObs("lin_sections", int64(sections))
				r.AddObs("lin_sections_overlapping_another_op", int64(overlaps))
				if overlaps > 0 {
					r.AddObs("lin_histories_with_overlap", 1)
				}
				switch res {
				case porcupine.Ok:
					r.AddObs("porcupine_ok", 1)
				case porcupine.Illegal:
					r.AddObs("porcupine_illegal", 1)
					r.Violate("not-linearizable", fmt.Sprintf("no order of the %d recorded operations on %s (a locked section counted as one operation from LockData to Commit) explains the values returned", len(ops), targetFlavours[flavour]), map[string]any{"history": hs})
				default:
					r.AddObs("porcupine_unknown", 1)
					r.Inconclusive = "porcupine gave up on a history"
				}
				for _, v := range fl.list {
					r.Violate(v.Class, v.Detail, map[string]any{"history": hs})
				}
				// signature: the order of calls by client and kind
				sig := ""
				for _, rc := range all {
					sig += fmt.Sprintf("%d%s%s;", rc.client, rc.in.Kind[:1], rc.in.Key)
				}
				r.Key = "lin|" + fmt.Sprint(flavour) + "|" + hashKey(sig)
				r.Nontrivial = overlaps > 0
				if idx%1500 == 0 {
					h := hs
					if len(h) > 16 {
						h = h[:16]
					}
					r.Sample = map[string]any{"kind": "recorded mixed history (first 16 ops)", "scope": targetFlavours[flavour], "ops": h, "porcupine": string(res)}
				}
			})
		})
	}
}
