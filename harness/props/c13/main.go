// C13 – data scope: child overlays parent, locked sections are atomic.
//
// Monitors (DESIGN.md "### C13"):
//
//	exh   all histories of length ≤ L over a fixed operation alphabet on a 3-scope chain,
//	      lock step against a chain-of-maps model (overlay.go)
//	ovl   seeded random histories of SetValue/Value/Keys/LockData…Commit on scope trees of
//	      depth ≤ 4 (6 thorough), same model (overlay.go)
//	cons  conservation under contention: locked read-modify-write sections against plain
//	      readers/writers/lockers on the same scope (atom.go)
//	lin   porcupine on mixed get/set/rmw histories, rmw = one operation spanning
//	      LockData→Commit (atom.go)
//	svc   tasks.Unit.FromScope, envs.Unit.Envs, waits.WaitManager.ForScope from 2…32
//	      goroutines on one fresh scope return one instance (svc.go)
//
// The binary is built with -race; race reports in the anchor files decide.
package main

import (
	"verif/internal/sup"
)

func procsCycle(i int) int { return []int{1, 2, 4, 8, 1, 2, 4, 16}[i%8] }

// chunkProcs is sup.Chunk with the GOMAXPROCS of each batch taken from a cycle.
func chunkProcs(name, kind string, n, nb int, procs func(i int) int, params map[string]any) []sup.Batch {
	if n <= 0 {
		return nil
	}
	sz := (n + nb - 1) / nb
	bs := sup.Chunk(name, kind, n, sz, 1, params)
	for i := range bs {
		bs[i].Procs = procs(i)
		bs[i].TimeoutS = 1800
		bs[i].MemMB = 3072
	}
	return bs
}

func plan(tier string, seed int64) []sup.Batch {
	exhLen, nOvl, ovlOps, ovlDepth := 3, 6000, 50, 4
	nCons, consSections := 480, 240
	nLin := 6000
	nSvc := 2400
	nDesc := 960
	if tier == "thorough" {
		nDesc = 16000
		exhLen, nOvl, ovlOps, ovlDepth = 4, 60000, 80, 6
		nCons, consSections = 6000, 400
		nLin = 90000
		nSvc = 36000
	}
	one := func(int) int { return 1 }
	var bs []sup.Batch
	// contention batches first: they carry the weight
	bs = append(bs, chunkProcs("cons", "cons", nCons, 16, procsCycle, map[string]any{"sections": consSections})...)
	bs = append(bs, chunkProcs("lin", "lin", nLin, 16, procsCycle, nil)...)
	bs = append(bs, chunkProcs("svc", "svc", nSvc, 8, func(i int) int { return []int{4, 8, 2, 16, 4, 8, 2, 8}[i%8] }, nil)...)
	bs = append(bs, chunkProcs("desc", "desc", nDesc, 8, func(i int) int { return []int{4, 2, 16, 8, 4, 2, 16, 8}[i%8] }, nil)...)
	nexh := exhCount(exhLen) * exhFlavours
	bs = append(bs, chunkProcs("exh", "exh", nexh, 8, one, map[string]any{"len": exhLen})...)
	bs = append(bs, chunkProcs("ovl", "ovl", nOvl, 16, one, map[string]any{"ops": ovlOps, "depth": ovlDepth})...)
	return bs
}

func main() {
	sup.Main(sup.Prop{
		ID:    "C13",
		Level: "exploration",
		Race:  true,
		Rule: "exh: every history of length ≤ L (3 quick / 4 thorough) over {SetValue fresh, SetValue nil, locked read-modify-write} × 3 scopes × 2 keys on a parent→child→grandchild chain (bare datascope and app.Scope flavour), whole visible state compared with a chain-of-maps model after every step; " +
			"ovl: seeded random histories of SetValue/Value/Keys/LockData…(nested LockData)…Commit on scope trees (≤ 6 scopes, depth ≤ 4 quick / 6 thorough, mixed key types, nil values, pre-filled maps), same model; " +
			"cons: G=2…32 goroutines run locked increment / transfer / audit sections against plain readers, writers, empty lockers and Keys callers on one scope – final counter = sections, values read = {0…n-1}, one holder at a time, nothing foreign becomes visible inside a section; " +
			"lin: porcupine over recorded mixed histories (get, set, rmw spanning LockData→Commit, locked double read) per key; " +
			"desc: locked sections (sentinel written and restored before Commit) on a scope while readers go through plain Value and LockData on descendants 1…4 levels below that do not hold the key – nobody may observe the sentinel; " +
			"svc: get-or-create services from 2…32 goroutines on a fresh scope return one instance. distinct = distinct histories / recorded interleavings; non-trivial = at least one write (exh/ovl), at least two sections that overlapped in time (cons/lin), at least two overlapping calls (svc)",
		Assumptions: []string{
			"a nil value stored with SetValue counts as the scope's own value (it hides the parent's value), as tasks.Unit.Clear relies on",
			"Keys is not mentioned by the statement: only 'lists every key the scope itself holds, nothing that is absent from the whole chain, no duplicates' is checked",
			"atomicity of one read across two scopes (a miss in the child followed by a read of the parent) is not judged; a read that reaches a locked scope through its descendants must still wait for the Commit (desc batches)",
			"use of a locker after Commit, a second Commit, and touching the locked scope directly from the goroutine that holds its lock are misuse and not exercised",
			"interleavings are the ones the Go scheduler produced under GOMAXPROCS 1/2/4/16 with yields inside the sections; a clean race-detector run is not race freedom",
		},
		Plan: plan,
		Run: func(c *sup.Child, b sup.Batch) {
			switch b.Kind {
			case "exh":
				runExh(c, b)
			case "ovl":
				runOvl(c, b)
			case "cons":
				runCons(c, b)
			case "lin":
				runLin(c, b)
			case "svc":
				runSvc(c, b)
			case "desc":
				runDesc(c, b)
			}
		},
		Finish: func(t *sup.Totals) string {
			need := []string{
				"exh_histories", "ovl_steps", "ovl_locked_steps", "ovl_parent_fallthrough_reads",
				"cons_sections", "cons_sections_with_waiters", "cons_plain_ops",
				"lin_histories_checked", "lin_histories_with_overlap", "porcupine_ok",
				"svc_rounds", "svc_rounds_with_overlap", "desc_sections", "desc_reads_two_or_more_levels_below",
			}
			for _, k := range need {
				if t.Obs[k] == 0 {
					return "monitor observed nothing for " + k
				}
			}
			return ""
		},
		RaceAnchors: []string{
			"app/scope/datascope/",
			"pipservices/tasks/unit.go",
			"commservices/envs/unit.go",
			"commservices/waits/wait_manager.go",
		},
		RaceDecides: true,
		Exhaustive: func(tier string) string {
			if tier == "thorough" {
				return "all histories of length ≤ 4 over the 18-operation alphabet on a 3-scope chain, two scope flavours"
			}
			return "all histories of length ≤ 3 over the 18-operation alphabet on a 3-scope chain, two scope flavours"
		},
	})
}
