package main

import (
	"fmt"
	"math/rand"
	"sort"
	"strings"
	"sync"
	"sync/atomic"
	"time"

	"verif/internal/sup"

	"github.com/goatcms/goatcore/app"
	"github.com/goatcms/goatcore/app/scope"
	"github.com/goatcms/goatcore/app/scope/datascope"
)

// ---- chain-of-maps model -------------------------------------------------------------------
//
// Written from the statement: a scope has its own key→value map and (except the root) a
// parent. Value(k) = own value if the scope has one, else the parent's current Value(k), nil
// at the top. SetValue touches the own map only.

type keyT struct{ N string }

var keyUniverse = []interface{}{"a", "b", "c", 1, int64(1), keyT{"a"}, true}

func keyStr(k interface{}) string { return fmt.Sprintf("%T(%v)", k, k) }
func valStr(v interface{}) string {
	if v == nil {
		return "nil"
	}
	return fmt.Sprintf("%T(%v)", v, v)
}

type ovModel struct {
	parent []int
	own    []map[interface{}]interface{}
}

func (m *ovModel) add(parent int, init map[interface{}]interface{}) int {
	own := map[interface{}]interface{}{}
	for k, v := range init {
		own[k] = v
	}
	m.parent = append(m.parent, parent)
	m.own = append(m.own, own)
	return len(m.parent) - 1
}

func (m *ovModel) visible(s int, k interface{}) (v interface{}, fromAncestor bool) {
	for d := 0; s >= 0; s, d = m.parent[s], d+1 {
		if v, ok := m.own[s][k]; ok {
			return v, d > 0
		}
	}
	return nil, false
}

// inChain reports whether some scope from s upwards holds k.
func (m *ovModel) inChain(s int, k interface{}) bool {
	for ; s >= 0; s = m.parent[s] {
		if _, ok := m.own[s][k]; ok {
			return true
		}
	}
	return false
}

func (m *ovModel) isSelfOrDescendant(s, of int) bool {
	for ; s >= 0; s = m.parent[s] {
		if s == of {
			return true
		}
	}
	return false
}

func (m *ovModel) depth(s int) int {
	d := 0
	for ; s >= 0; s = m.parent[s] {
		d++
	}
	return d
}

// checkKeys: the Keys() oracle (see Assumptions).
func (m *ovModel) checkKeys(s int, got []interface{}) string {
	seen := map[interface{}]bool{}
	for _, k := range got {
		if seen[k] {
			return fmt.Sprintf("Keys() lists %s twice", keyStr(k))
		}
		seen[k] = true
		if !m.inChain(s, k) {
			return fmt.Sprintf("Keys() lists %s which no scope of the chain holds", keyStr(k))
		}
	}
	for k := range m.own[s] {
		if !seen[k] {
			return fmt.Sprintf("Keys() misses own key %s", keyStr(k))
		}
	}
	return ""
}

func (m *ovModel) dump() []string {
	var out []string
	for s := range m.own {
		var kv []string
		for k, v := range m.own[s] {
			kv = append(kv, keyStr(k)+"="+valStr(v))
		}
		sort.Strings(kv)
		out = append(out, fmt.Sprintf("s%d(parent %d){%s}", s, m.parent[s], strings.Join(kv, " ")))
	}
	return out
}

// ---- subject -------------------------------------------------------------------------------

type ovSubject struct {
	scopes  []app.DataScope
	lockers []app.DataScopeLocker // stack, innermost last
	locked  int                   // scope index the stack belongs to, -1 = none
}

func copyMap(m map[interface{}]interface{}) map[interface{}]interface{} {
	out := make(map[interface{}]interface{}, len(m))
	for k, v := range m {
		out[k] = v
	}
	return out
}

// newNode builds one scope of the subject. wrap: 0 bare datascope, 1 app.Scope around a
// datascope, 2 scope.NewChild with default params when possible.
func newNode(parent app.DataScope, init map[interface{}]interface{}, wrap int) app.DataScope {
	if wrap == 2 {
		if ps, ok := parent.(app.Scope); ok && len(init) == 0 {
			return scope.NewChild(ps, scope.ChildParams{})
		}
		wrap = 1
	}
	var ds app.DataScope
	if parent == nil {
		ds = datascope.New(copyMap(init))
	} else {
		ds = datascope.NewChild(parent, copyMap(init))
	}
	if wrap == 1 {
		return scope.New(scope.Params{DataScope: ds})
	}
	return ds
}

type ovRun struct {
	m     *ovModel
	s     *ovSubject
	mu    sync.Mutex // guards hist and doing (read by the watchdog of guard)
	hist  []string
	doing string
	r     *sup.CaseResult
	bad   bool

	steps, lockedSteps, reads, fromParent, writes, keysCalls, nested, wraps int64
}

func (o *ovRun) fail(class, detail string) {
	if o.bad {
		return
	}
	o.bad = true
	o.r.Violate(class, detail, map[string]any{"history": o.hist, "model": o.m.dump()})
}

func (o *ovRun) log(op string) {
	o.mu.Lock()
	o.hist = append(o.hist, op)
	o.mu.Unlock()
}

func (o *ovRun) now(what string) {
	o.mu.Lock()
	o.doing = what
	o.mu.Unlock()
}

// progress is what the watchdog reports: the history so far and the call that did not return.
func (o *ovRun) progress() string {
	o.mu.Lock()
	defer o.mu.Unlock()
	return fmt.Sprintf("single-goroutine history %v; the call that never returned: %s", o.hist, o.doing)
}

var curOv atomic.Pointer[ovRun]

func ovProgress() string {
	if o := curOv.Load(); o != nil {
		return o.progress()
	}
	return ""
}

func (o *ovRun) innermost() app.DataScopeLocker { return o.s.lockers[len(o.s.lockers)-1] }

// observe compares everything that may be looked at without touching a locked mutex from the
// goroutine that holds it: every scope that is not the locked one nor below it, and the
// locked scope through the innermost locker.
func (o *ovRun) observe(after string) {
	if o.s.locked >= 0 {
		o.observeVia(after, fmt.Sprintf("locker(s%d,level %d)", o.s.locked, len(o.s.lockers)), o.s.locked, o.innermost())
		if o.bad {
			return
		}
	}
	for s := range o.s.scopes {
		if o.s.locked >= 0 && o.m.isSelfOrDescendant(s, o.s.locked) {
			continue
		}
		o.observeVia(after, fmt.Sprintf("s%d", s), s, o.s.scopes[s])
		if o.bad {
			return
		}
	}
}

func (o *ovRun) observeVia(after, name string, s int, ds app.DataScope) {
	o.now(name + ".Value/Keys while " + after)
	for _, k := range keyUniverse {
		want, anc := o.m.visible(s, k)
		got := ds.Value(k)
		o.reads++
		if anc {
			o.fromParent++
		}
		if got != want {
			o.fail("overlay-value", fmt.Sprintf("after %s: %s.Value(%s) = %s, model says %s", after, name, keyStr(k), valStr(got), valStr(want)))
			return
		}
	}
	if msg := o.m.checkKeys(s, ds.Keys()); msg != "" {
		o.fail("overlay-keys", fmt.Sprintf("after %s: %s.%s", after, name, msg))
	}
	o.keysCalls++
}

func (o *ovRun) set(s int, k, v interface{}) {
	o.log(fmt.Sprintf("s%d.SetValue(%s,%s)", s, keyStr(k), valStr(v)))
	o.now(o.hist[len(o.hist)-1])
	o.s.scopes[s].SetValue(k, v)
	o.m.own[s][k] = v
	o.writes++
}

// wrapAndClose opens a second, short-lived scope on the data scope of node s and closes it again
// (what the terminal does for every command): the data scope and its chain belong to the scopes
// that are still open – nothing they see may change.
func (o *ovRun) wrapAndClose(s int) {
	o.log(fmt.Sprintf("scope.New(DataScope: s%d).Close()", s))
	o.now(o.hist[len(o.hist)-1])
	var ds app.DataScope = o.s.scopes[s]
	if sc, ok := ds.(app.Scope); ok {
		ds = sc.BaseDataScope()
	}
	tmp := scope.New(scope.Params{DataScope: ds})
	tmp.Close()
	o.wraps++
}

func (o *ovRun) lset(k, v interface{}) {
	o.log(fmt.Sprintf("locker(s%d).SetValue(%s,%s)", o.s.locked, keyStr(k), valStr(v)))
	o.now(o.hist[len(o.hist)-1])
	o.innermost().SetValue(k, v)
	o.m.own[o.s.locked][k] = v
	o.writes++
	o.lockedSteps++
}

func (o *ovRun) lock(s int) {
	o.log(fmt.Sprintf("s%d.LockData()", s))
	o.now(o.hist[len(o.hist)-1])
	o.s.lockers = append(o.s.lockers, o.s.scopes[s].LockData())
	o.s.locked = s
	o.lockedSteps++
}

func (o *ovRun) nest() {
	o.log(fmt.Sprintf("locker(s%d).LockData()", o.s.locked))
	o.now(o.hist[len(o.hist)-1])
	o.s.lockers = append(o.s.lockers, o.innermost().LockData())
	o.nested++
	o.lockedSteps++
}

func (o *ovRun) commit() {
	o.log(fmt.Sprintf("locker(s%d,level %d).Commit()", o.s.locked, len(o.s.lockers)))
	l := o.innermost()
	o.s.lockers = o.s.lockers[:len(o.s.lockers)-1]
	if len(o.s.lockers) == 0 {
		o.s.locked = -1
	}
	o.now(o.hist[len(o.hist)-1])
	if err := l.Commit(); err != nil {
		o.fail("commit-error", fmt.Sprintf("Commit returned %v", err))
	}
	o.lockedSteps++
}

func (o *ovRun) finish() {
	for len(o.s.lockers) > 0 && !o.bad {
		o.commit()
		o.observe("closing Commit")
	}
	r := o.r
	r.AddObs("ovl_steps", o.steps)
	r.AddObs("ovl_locked_steps", o.lockedSteps)
	r.AddObs("ovl_nested_lockers", o.nested)
	r.AddObs("ovl_value_reads_compared", o.reads)
	r.AddObs("ovl_parent_fallthrough_reads", o.fromParent)
	r.AddObs("ovl_writes", o.writes)
	r.AddObs("ovl_keys_calls_checked", o.keysCalls)
	r.AddObs("ovl_short_lived_scopes_on_a_shared_data_scope", o.wraps)
}

// ---- bounded-exhaustive histories -------------------------------------------------------------

const exhFlavours = 2

// seqWatch: a block of sequential histories takes milliseconds; see guard.
const seqWatch = 20 * time.Second

type exhOp struct {
	kind int // 0 set fresh, 1 set nil, 2 locked read-modify-write, 3 set to the value visible there right now (own or inherited)
	s    int
	k    interface{}
}

func exhOps() []exhOp {
	var ops []exhOp
	for kind := 0; kind < 4; kind++ {
		for s := 0; s < 3; s++ {
			for _, k := range []interface{}{"a", "b"} {
				ops = append(ops, exhOp{kind, s, k})
			}
		}
	}
	// kind 4: a short-lived second scope on the data scope of s1 / s2 is opened and closed
	ops = append(ops, exhOp{4, 1, "a"}, exhOp{4, 2, "a"})
	return ops
}

func exhCount(n int) int {
	t := 1
	for i := 0; i < n; i++ {
		t *= len(exhOps())
	}
	return t
}

func runExhHistory(r *sup.CaseResult, idx, n, flavour int) *ovRun {
	all := exhOps()
	ops := make([]exhOp, n)
	for i := n - 1; i >= 0; i-- {
		ops[i] = all[idx%len(all)]
		idx /= len(all)
	}
	o := &ovRun{m: &ovModel{}, s: &ovSubject{locked: -1}, r: r}
	curOv.Store(o)
	inits := []map[interface{}]interface{}{{"a": "r0"}, {}, {"b": "l0"}}
	var prev app.DataScope
	for i, in := range inits {
		o.m.add(i-1, in)
		node := newNode(prev, in, flavour)
		o.s.scopes = append(o.s.scopes, node)
		prev = node
	}
	o.observe("construction")
	fresh := 0
	for _, op := range ops {
		if o.bad {
			break
		}
		o.steps++
		fresh++
		switch op.kind {
		case 0:
			o.set(op.s, op.k, fmt.Sprintf("v%d", fresh))
		case 1:
			o.set(op.s, op.k, nil)
		case 4:
			o.wrapAndClose(op.s)
		case 3:
			// the scope is given, as its own, the value it sees at the moment (e.g. a task scope that
			// re-binds the manager it inherits): it must keep it when an ancestor changes later
			if v, _ := o.m.visible(op.s, op.k); v != nil {
				o.set(op.s, op.k, v)
			} else {
				o.set(op.s, op.k, fmt.Sprintf("v%d", fresh))
			}
		case 2:
			o.lock(op.s)
			o.observe("LockData")
			if o.bad {
				break
			}
			o.lset(op.k, fmt.Sprintf("w%d", fresh))
			o.observe("locked SetValue")
			if o.bad {
				break
			}
			o.commit()
		}
		if !o.bad {
			o.observe(o.hist[len(o.hist)-1])
		}
	}
	o.finish()
	return o
}

func runExh(c *sup.Child, b sup.Batch) {
	n := b.P("len", 3)
	per := exhCount(n)
	const blk = 64
	for from := b.From; from < b.To; from += blk {
		to := from + blk
		if to > b.To {
			to = b.To
		}
		c.Case(from, map[string]any{"kind": "exh", "from": from, "to": to, "len": n}, func(r0 *sup.CaseResult) {
			guard(r0, seqWatch, ovProgress, func(r *sup.CaseResult) {
				var writes int64
				for idx := from; idx < to && len(r.Violations) == 0; idx++ {
					o := runExhHistory(r, idx%per, n, idx/per)
					writes += o.writes
					if idx == from && from%(blk*40) == 0 {
						r.Sample = map[string]any{"kind": "exhaustive overlay history", "flavour": idx / per, "ops": o.hist}
					}
				}
				r.AddObs("exh_histories", int64(to-from))
				r.Key = fmt.Sprintf("exh-%d-%d", n, from)
				r.Nontrivial = writes > 0
			})
		})
	}
}

// ---- random histories -------------------------------------------------------------------------

func genValue(rng *rand.Rand, fresh *int) interface{} {
	*fresh++
	switch rng.Intn(10) {
	case 0:
		return nil
	case 1, 2, 3:
		return *fresh
	case 4:
		return keyT{fmt.Sprint(*fresh)}
	default:
		return fmt.Sprintf("v%d", *fresh)
	}
}

func runOvl(c *sup.Child, b sup.Batch) {
	nops := b.P("ops", 50)
	maxDepth := b.P("depth", 4)
	for idx := b.From; idx < b.To; idx++ {
		rng := c.Rand(idx)
		c.Case(idx, map[string]any{"kind": "ovl", "idx": idx, "ops": nops, "depth": maxDepth}, func(r0 *sup.CaseResult) {
			guard(r0, seqWatch, ovProgress, func(r *sup.CaseResult) {
				o := &ovRun{m: &ovModel{}, s: &ovSubject{locked: -1}, r: r}
				curOv.Store(o)
				fresh := 0
				// tree shape: a spine of random depth plus side branches
				nScopes := 2 + rng.Intn(5)
				flavour := idx % 3 // 0 bare, 1 all app.Scope, 2 mixed
				for s := 0; s < nScopes; s++ {
					parent := -1
					if s > 0 {
						for {
							parent = rng.Intn(s)
							if rng.Intn(3) > 0 {
								parent = s - 1 // prefer long chains
							}
							if o.m.depth(parent) < maxDepth {
								break
							}
						}
					}
					init := map[interface{}]interface{}{}
					for n := rng.Intn(3); n > 0; n-- {
						init[keyUniverse[rng.Intn(len(keyUniverse))]] = genValue(rng, &fresh)
					}
					o.m.add(parent, init)
					var p app.DataScope
					if parent >= 0 {
						p = o.s.scopes[parent]
					}
					wrap := 0
					switch flavour {
					case 1:
						wrap = 1 + rng.Intn(2)
					case 2:
						wrap = rng.Intn(3)
					}
					o.s.scopes = append(o.s.scopes, newNode(p, init, wrap))
				}
				o.observe("construction")
				for i := 0; i < nops && !o.bad; i++ {
					o.steps++
					k := keyUniverse[rng.Intn(len(keyUniverse))]
					if o.s.locked < 0 {
						s := rng.Intn(nScopes)
						switch x := rng.Intn(10); {
						case x < 6:
							if v, _ := o.m.visible(s, k); v != nil && rng.Intn(6) == 0 {
								o.set(s, k, v) // its own copy of what it sees right now
							} else {
								o.set(s, k, genValue(rng, &fresh))
							}
						case x < 9:
							o.lock(s)
						default:
							if rng.Intn(2) == 0 {
								o.wrapAndClose(s)
							} else {
								o.log("observe")
							}
						}
					} else {
						switch x := rng.Intn(12); {
						case x < 5:
							o.lset(k, genValue(rng, &fresh))
						case x < 8:
							// an ancestor (or any scope outside the locked subtree) changes while the lock is held
							var cand []int
							for s := range o.s.scopes {
								if !o.m.isSelfOrDescendant(s, o.s.locked) {
									cand = append(cand, s)
								}
							}
							if len(cand) == 0 {
								o.lset(k, genValue(rng, &fresh))
							} else {
								o.set(cand[rng.Intn(len(cand))], k, genValue(rng, &fresh))
							}
						case x < 9 && len(o.s.lockers) < 3:
							o.nest()
						default:
							o.commit()
						}
					}
					if !o.bad {
						o.observe(o.hist[len(o.hist)-1])
					}
				}
				o.finish()
				r.Key = hashKey(fmt.Sprintf("f%d|%v|%s", flavour, o.m.parent, strings.Join(o.hist, ";")))
				r.Nontrivial = o.writes > 0
				if idx%1500 == 0 {
					h := o.hist
					if len(h) > 14 {
						h = h[:14]
					}
					r.Sample = map[string]any{"kind": "random overlay history (first 14 ops)", "parents": o.m.parent, "flavour": flavour, "ops": h}
				}
			})
		})
	}
}
