// C05 – encrypted filespace: round trip, secrecy, integrity, no crash on bad data.
package main

import (
	"bytes"
	"fmt"
	"math/rand"
	"os"
	"sort"
	"strings"
	"sync"

	"verif/internal/mfs"
	"verif/internal/sup"

	"github.com/goatcms/goatcore/filesystem"
	"github.com/goatcms/goatcore/filesystem/filespace/diskfs"
	"github.com/goatcms/goatcore/filesystem/filespace/encryptfs"
	"github.com/goatcms/goatcore/filesystem/filespace/encryptfs/cipherfs"
	"github.com/goatcms/goatcore/filesystem/filespace/encryptfs/cipherfs/aesgcm256cfs"
	"github.com/goatcms/goatcore/filesystem/filespace/encryptfs/cipherfs/extcfs"
	"github.com/goatcms/goatcore/filesystem/filespace/memfs"
)

type conf struct {
	Cipher   string `json:"cipher"` // "aesgcm" | "ext"
	Base     string `json:"base"`   // "mem" | "disk"
	Secret   []byte `json:"secret"`
	Salt     []byte `json:"salt"`
	HostOnly bool   `json:"host_only"`
	WriteVia string `json:"write_via"` // "file" | "stream"
}

func (c conf) cipher() cipherfs.Cipher {
	if c.Cipher == "aesgcm" {
		return aesgcm256cfs.NewCipher()
	}
	return extcfs.NewDefaultCipher()
}

func (c conf) nonceOffset() int {
	if c.Cipher == "aesgcm" {
		return 0
	}
	return 4
}

func (c conf) settings() encryptfs.Settings {
	return encryptfs.Settings{Secret: c.Secret, Salt: c.Salt, HostOnly: c.HostOnly, Cipher: c.cipher()}
}

func genConf(rng *rand.Rand, idx int) conf {
	c := conf{Cipher: []string{"aesgcm", "ext"}[idx%2], Base: []string{"mem", "disk"}[(idx/2)%2], HostOnly: (idx/4)%2 == 1,
		WriteVia: []string{"file", "stream"}[(idx/8)%2]}
	rb := func() []byte {
		switch rng.Intn(5) {
		case 0:
			return nil
		case 1:
			return []byte{}
		}
		b := make([]byte, 1+rng.Intn(40))
		rng.Read(b)
		return b
	}
	c.Secret, c.Salt = rb(), rb()
	return c
}

func genPlain(rng *rand.Rand, big bool) []byte {
	var n int
	switch rng.Intn(8) {
	case 0:
		n = 0
	case 1:
		n = 1
	case 2:
		n = 15 + rng.Intn(3)
	case 3:
		n = 2 + rng.Intn(65536)
	default:
		n = rng.Intn(300)
	}
	if big {
		n = (1 + rng.Intn(4)) << 20
	}
	b := make([]byte, n)
	switch rng.Intn(4) {
	case 0: // all zero
	case 1: // highly repetitive
		for i := range b {
			b[i] = "goatcore"[i%8]
		}
	default:
		rng.Read(b)
	}
	return b
}

func newBase(kind, tmp string) (filesystem.Filespace, error) {
	if kind == "disk" {
		return diskfs.NewFilespace(tmp)
	}
	return memfs.NewFilespace()
}

func writeVia(fs filesystem.Filespace, via, path string, data []byte, rng *rand.Rand) error {
	if via == "file" {
		return fs.WriteFile(path, append([]byte{}, data...), 0644)
	}
	w, err := fs.Writer(path)
	if err != nil {
		return err
	}
	rest := data
	scratch := make([]byte, 0, 4096) // one caller-owned buffer reused for every Write, as io.Copy does
	for len(rest) > 0 {
		n := 1 + rng.Intn(len(rest))
		if rng.Intn(3) == 0 {
			n = 1
		}
		if n > cap(scratch) {
			n = cap(scratch)
		}
		chunk := append(scratch[:0], rest[:n]...)
		if _, err := w.Write(chunk); err != nil {
			w.Close()
			return err
		}
		for i := range chunk {
			chunk[i] = 0xAA // the writer must not depend on the caller's buffer after Write returned
		}
		rest = rest[n:]
		if rng.Intn(5) == 0 {
			w.Write(nil)
		}
	}
	return w.Close()
}

// readBoth reads path through ReadFile and through Reader (buffer size buf); panics are captured.
type readOut struct {
	data  []byte
	err   error
	pan   string
	anom  string
	given int // bytes delivered to the caller before the error (Reader path)
}

func readFile(fs filesystem.Filespace, path string) (o readOut) {
	defer func() {
		if p := recover(); p != nil {
			o.pan = fmt.Sprint(p)
		}
	}()
	o.data, o.err = fs.ReadFile(path)
	o.given = len(o.data)
	return
}

func readStream(fs filesystem.Filespace, path string, buf int) (o readOut) {
	defer func() {
		if p := recover(); p != nil {
			o.pan = fmt.Sprint(p)
		}
	}()
	r, err := fs.Reader(path)
	if err != nil {
		o.err = err
		return
	}
	if r == nil {
		o.anom = "nil reader, nil error"
		return
	}
	data, anom := mfs.ReadAllVia(r, buf, 1<<23)
	o.given = len(data)
	if strings.HasPrefix(anom, "Read error") {
		o.err = fmt.Errorf("%s", anom)
	} else {
		o.anom = anom
	}
	if cerr := r.Close(); cerr != nil && o.err == nil {
		o.err = cerr
	}
	o.data = data
	return
}

var nonceMu sync.Mutex
var nonces = map[string]bool{}

// containsWindow reports whether raw contains any 16-byte window of plain (sampled for big inputs).
func containsWindow(raw, plain []byte, rng *rand.Rand) int {
	if len(plain) < 16 {
		return -1
	}
	if len(plain) <= 4096 {
		set := map[string]bool{}
		for i := 0; i+16 <= len(raw); i++ {
			set[string(raw[i:i+16])] = true
		}
		for i := 0; i+16 <= len(plain); i++ {
			if set[string(plain[i:i+16])] {
				return i
			}
		}
		return -1
	}
	for k := 0; k < 400; k++ {
		i := rng.Intn(len(plain) - 15)
		if bytes.Contains(raw, plain[i:i+16]) {
			return i
		}
	}
	return -1
}

func bufSizes(n int) []int { return []int{1, 2, 7, 4096, n + 1} }

func runRound(c *sup.Child, b sup.Batch) {
	big := b.P("big", 0) == 1
	for idx := b.From; idx < b.To; idx++ {
		rng := c.Rand(idx)
		cf := genConf(rng, idx)
		plain := genPlain(rng, big)
		desc := map[string]any{"conf": cf, "plain_len": len(plain)}
		c.Case(idx, desc, func(r *sup.CaseResult) {
			tmp, err := os.MkdirTemp("", "c05-")
			if err != nil {
				r.Inconclusive = err.Error()
				return
			}
			defer os.RemoveAll(tmp)
			base, err := newBase(cf.Base, tmp)
			if err != nil {
				r.Inconclusive = err.Error()
				return
			}
			wit := map[string]any{"conf": cf, "plain_len": len(plain)}
			// the writing instance is built from caller-owned buffers with spare capacity; a second
			// filespace is then built from the SAME secret buffer with another salt and the caller
			// overwrites its buffers – settings are values: none of this may change the first key
			var enc filesystem.Filespace
			if idx%2 == 0 {
				secretBuf := make([]byte, len(cf.Secret), len(cf.Secret)+64)
				copy(secretBuf, cf.Secret)
				saltBuf := make([]byte, len(cf.Salt), len(cf.Salt)+64)
				copy(saltBuf, cf.Salt)
				st := cf.settings()
				st.Secret, st.Salt = secretBuf, saltBuf
				enc, _ = encryptfs.NewEncryptFS(base, st)
				decoyBase, _ := memfs.NewFilespace()
				st2 := st
				st2.Salt = []byte("another-salt-for-the-decoy-filespace")
				decoy, _ := encryptfs.NewEncryptFS(decoyBase, st2)
				decoy.WriteFile("x", []byte("decoy"), 0644)
				for i := range secretBuf {
					secretBuf[i] = 0
				}
				for i := range saltBuf {
					saltBuf[i] ^= 0xFF
				}
				r.AddObs("settings_buffers_reused_and_wiped", 1)
			} else {
				enc, _ = encryptfs.NewEncryptFS(base, cf.settings())
			}
			enc.MkdirAll("d", 0777)
			if err := writeVia(enc, cf.WriteVia, "d/file", plain, rng); err != nil {
				r.Violate("write-failed", fmt.Sprintf("writing %d bytes via %s failed: %v", len(plain), cf.WriteVia, err), wit)
				return
			}
			raw, err := base.ReadFile("d/file")
			if err != nil {
				r.Violate("raw-missing", "stored bytes missing in the base filespace: "+err.Error(), wit)
				return
			}
			// 1. round trip through a second instance, both read paths
			enc2, _ := encryptfs.NewEncryptFS(base, cf.settings())
			o := readFile(enc2, "d/file")
			if o.pan != "" || o.err != nil || !bytes.Equal(o.data, plain) {
				r.Violate("roundtrip-readfile", fmt.Sprintf("ReadFile after %s write: panic=%q err=%v got %d bytes want %d", cf.WriteVia, o.pan, o.err, len(o.data), len(plain)), wit)
			}
			bs := bufSizes(len(plain))
			if big {
				bs = []int{4096, 4099, len(plain) + 1} // 4099: one Read, the rest through io.Copy
			}
			for _, bsz := range bs {
				if len(plain) > 20000 && bsz < 7 {
					continue
				}
				o := readStream(enc2, "d/file", bsz)
				if o.pan != "" || o.err != nil || o.anom != "" || !bytes.Equal(o.data, plain) {
					r.Violate("roundtrip-reader", fmt.Sprintf("Reader(buf=%d) after %s write: panic=%q err=%v anomaly=%q got %d bytes want %d", bsz, cf.WriteVia, o.pan, o.err, o.anom, len(o.data), len(plain)), wit)
				}
				r.AddObs("reader_roundtrips", 1)
			}
			// 2. secrecy
			if len(raw) <= len(plain) {
				r.Violate("raw-not-longer", fmt.Sprintf("stored %d bytes for %d plaintext bytes", len(raw), len(plain)), wit)
			}
			if at := containsWindow(raw, plain, rng); at >= 0 {
				r.Violate("plaintext-in-base", fmt.Sprintf("stored bytes contain the 16-byte plaintext window at offset %d", at), wit)
			}
			// 3. freshness
			enc.WriteFile("d/again", append([]byte{}, plain...), 0644)
			raw2, _ := base.ReadFile("d/again")
			if bytes.Equal(raw, raw2) {
				r.Violate("not-fresh", "two writes of the same data gave identical stored bytes", wit)
			}
			for _, rw := range [][]byte{raw, raw2} {
				off := cf.nonceOffset()
				if len(rw) >= off+12 {
					k := string(rw[off : off+12])
					nonceMu.Lock()
					if nonces[k] {
						r.Violate("nonce-reuse", fmt.Sprintf("nonce %x seen twice in this run", k), wit)
					}
					nonces[k] = true
					nonceMu.Unlock()
					r.AddObs("nonces_seen", 1)
				}
			}
			// 4. wrong key
			variants := []string{"secret+x", "salt+x", "secret+newline", "space+secret", "secret+space", "salt+newline", "secret-bitflip", "secret-lastbyte", "tab+salt"}
			for _, w := range []string{variants[0], variants[1], variants[2+rng.Intn(len(variants)-2)], variants[2+rng.Intn(len(variants)-2)]} {
				o2 := cf
				mut := func(b []byte, how string) []byte {
					c := append([]byte{}, b...)
					switch how {
					case "+x":
						return append(c, 'x')
					case "+newline":
						return append(c, '\n')
					case "+space":
						return append(c, ' ')
					case "space+":
						return append([]byte{' '}, c...)
					case "tab+":
						return append([]byte{'\t'}, c...)
					case "-bitflip":
						if len(c) == 0 {
							return []byte{1}
						}
						c[len(c)/2] ^= 0x20
						return c
					default: // -lastbyte
						if len(c) == 0 {
							return []byte{0}
						}
						return c[:len(c)-1]
					}
				}
				switch w {
				case "secret+x":
					o2.Secret = mut(cf.Secret, "+x")
				case "salt+x":
					o2.Salt = mut(cf.Salt, "+x")
				case "secret+newline":
					o2.Secret = mut(cf.Secret, "+newline")
				case "space+secret":
					o2.Secret = mut(cf.Secret, "space+")
				case "secret+space":
					o2.Secret = mut(cf.Secret, "+space")
				case "salt+newline":
					o2.Salt = mut(cf.Salt, "+newline")
				case "secret-bitflip":
					o2.Secret = mut(cf.Secret, "-bitflip")
				case "secret-lastbyte":
					o2.Secret = mut(cf.Secret, "-lastbyte")
				case "tab+salt":
					o2.Salt = mut(cf.Salt, "tab+")
				}
				// the key material is secret||salt: a byte moved across that border gives the same key
				// by construction (documented derivation), so only variants that change the
				// concatenation are "another secret or salt" in an observable sense
				if string(o2.Secret)+string(o2.Salt) == string(cf.Secret)+string(cf.Salt) {
					continue
				}
				other, _ := encryptfs.NewEncryptFS(base, o2.settings())
				a := readFile(other, "d/file")
				bq := readStream(other, "d/file", 64)
				for _, q := range []struct {
					n string
					o readOut
				}{{"ReadFile", a}, {"Reader", bq}} {
					if q.o.pan != "" {
						r.Violate("wrongkey-panic", fmt.Sprintf("%s with another %s panicked: %s", q.n, w, q.o.pan), wit)
					} else if q.o.err == nil || q.o.given > 0 {
						r.Violate("wrongkey-data", fmt.Sprintf("%s with another %s: err=%v, %d bytes delivered", q.n, w, q.o.err, q.o.given), wit)
					}
				}
				r.AddObs("wrong_key_reads", 2)
			}
			// still usable afterwards
			if o := readFile(enc, "d/file"); o.err != nil || !bytes.Equal(o.data, plain) {
				r.Violate("unusable-after-failed-read", fmt.Sprintf("ReadFile with the right key after failed reads: err=%v", o.err), wit)
			}
			r.AddObs("roundtrips", 1)
			r.AddObs("conf_"+cf.Cipher+"_"+cf.Base+"_"+cf.WriteVia, 1)
			r.Key = fmt.Sprintf("%v|%x", cf, plain[:min(len(plain), 64)])
			r.Nontrivial = true
			if idx%200 == 0 {
				r.Sample = map[string]any{"kind": "round trip", "conf": cf, "plain_len": len(plain), "raw_len": len(raw)}
			}
		})
	}
}

func runTamper(c *sup.Child, b sup.Batch) {
	for idx := b.From; idx < b.To; idx++ {
		rng := c.Rand(idx)
		cf := genConf(rng, idx)
		n := []int{0, 1, 5, 16, 33, 64, 100, 200}[idx%8]
		if b.P("large", 0) == 1 {
			n = 3000 + rng.Intn(5000)
		}
		plain := make([]byte, n)
		rng.Read(plain)
		c.Case(idx, map[string]any{"tamper": idx, "conf": cf, "plain_len": n}, func(r *sup.CaseResult) {
			tmp, err := os.MkdirTemp("", "c05-")
			if err != nil {
				r.Inconclusive = err.Error()
				return
			}
			defer os.RemoveAll(tmp)
			base, err := newBase(cf.Base, tmp)
			if err != nil {
				r.Inconclusive = err.Error()
				return
			}
			enc, _ := encryptfs.NewEncryptFS(base, cf.settings())
			if err := writeVia(enc, cf.WriteVia, "f", plain, rng); err != nil {
				r.Violate("write-failed", err.Error(), nil)
				return
			}
			raw, _ := base.ReadFile("f")
			type variant struct {
				name string
				data []byte
			}
			var vs []variant
			addTrunc := func(l int) {
				vs = append(vs, variant{fmt.Sprintf("truncated to %d of %d bytes", l, len(raw)), append([]byte{}, raw[:l]...)})
			}
			addFlip := func(pos int, x byte) {
				d := append([]byte{}, raw...)
				d[pos] ^= x
				vs = append(vs, variant{fmt.Sprintf("byte %d of %d xor %#x", pos, len(raw), x), d})
			}
			if len(raw) <= 256 {
				for l := 0; l < len(raw); l++ {
					addTrunc(l)
				}
				for pos := 0; pos < len(raw); pos++ {
					for _, x := range []byte{0x01, 0x80, 0xFF} {
						addFlip(pos, x)
					}
				}
			} else {
				for k := 0; k < 40; k++ {
					addTrunc(k)
				}
				for k := 0; k < 300; k++ {
					addTrunc(rng.Intn(len(raw)))
				}
				for k := 0; k < 700; k++ {
					addFlip(rng.Intn(len(raw)), []byte{0x01, 0x80, 0xFF}[rng.Intn(3)])
				}
			}
			vs = append(vs, variant{"extended by one byte", append(append([]byte{}, raw...), 0)})
			var tampered int64
			for i, v := range vs {
				name := fmt.Sprintf("t%d", i%4) // reuse a few paths so that a leaked lock shows up
				if err := base.WriteFile(name, v.data, 0644); err != nil {
					r.Inconclusive = "cannot plant tampered bytes: " + err.Error()
					return
				}
				wit := map[string]any{"conf": cf, "plain_len": n, "variant": v.name}
				for _, q := range []struct {
					n string
					o readOut
				}{{"ReadFile", readFile(enc, name)}, {"Reader", readStream(enc, name, []int{1, 64, 4096}[i%3])}} {
					tampered++
					if q.o.pan != "" {
						r.Violate("tamper-panic", fmt.Sprintf("%s of stored bytes %s panicked: %s", q.n, v.name, q.o.pan), wit)
					} else if q.o.err == nil || q.o.given > 0 {
						r.Violate("tamper-data", fmt.Sprintf("%s of stored bytes %s: err=%v, %d bytes delivered", q.n, v.name, q.o.err, q.o.given), wit)
					}
				}
				if len(r.Violations) > 6 {
					return
				}
			}
			// the intact file is still readable afterwards
			if o := readFile(enc, "f"); o.err != nil || !bytes.Equal(o.data, plain) {
				r.Violate("unusable-after-tamper", fmt.Sprintf("intact file unreadable afterwards: %v", o.err), nil)
			}
			r.AddObs("tampered_reads", tampered)
			r.AddObs("tamper_files", 1)
			r.Key = fmt.Sprintf("tamper|%v|%d", cf, n)
			r.Nontrivial = true
			if idx%16 == 0 {
				r.Sample = map[string]any{"kind": "tamper enumeration", "conf": cf, "raw_len": len(raw), "variants": len(vs), "exhaustive_positions": len(raw) <= 256}
			}
		})
	}
}

// runNames: the C01 history generator on EncryptFS(base) against the tree model.
func runNames(c *sup.Child, b sup.Batch) {
	nops := b.P("ops", 40)
	for idx := b.From; idx < b.To; idx++ {
		rng := c.Rand(idx)
		cf := genConf(rng, idx)
		c.Case(idx, map[string]any{"names": idx, "conf": cf}, func(r *sup.CaseResult) {
			tmp, err := os.MkdirTemp("", "c05-")
			if err != nil {
				r.Inconclusive = err.Error()
				return
			}
			defer os.RemoveAll(tmp)
			base, err := newBase(cf.Base, tmp)
			if err != nil {
				r.Inconclusive = err.Error()
				return
			}
			enc, _ := encryptfs.NewEncryptFS(base, cf.settings())
			subj := mfs.NewSubject(enc)
			// the twin: a plain filespace of the same kind that receives the same history – "all
			// name-space operations behave exactly as on the underlying filespace"
			tmp2, err := os.MkdirTemp("", "c05t-")
			if err != nil {
				r.Inconclusive = err.Error()
				return
			}
			defer os.RemoveAll(tmp2)
			plain, err := newBase(cf.Base, tmp2)
			if err != nil {
				r.Inconclusive = err.Error()
				return
			}
			twin := mfs.NewSubject(plain)
			model := mfs.NewModel()
			gen := &mfs.Gen{Cfg: mfs.GenCfg{Names: []string{"a", "b", "c"}, MaxDepth: 3, Spell: true, Views: true, ViewOnlyOnDirs: cf.Base == "disk",
				PrecondBias: 0.9, Weights: mfs.DefaultWeights(), NoDestInsideSrc: true}, R: rng, M: model}
			var hist []mfs.Op
			var steps, muts, twinSteps int64
			defer func() { r.AddObs("namespace_steps_compared_with_a_plain_twin", twinSteps) }()
			for i := 0; i < nops; i++ {
				op := gen.Next()
				if cf.Base == "disk" && op.View > 0 && op.View < len(model.Views) {
					if n := model.Get(model.Views[op.View]); n == nil || !n.Dir {
						return // a disk view whose root directory is gone is outside C02's preconditions
					}
				}
				hist = append(hist, op)
				got := subj.Exec(i, op)
				plainGot := twin.Exec(i, op)
				if d := twinDiff(op, got, plainGot); d != "" {
					r.Violate("namespace-differs-from-base", fmt.Sprintf("step %d %s: the encrypted filespace over a %s base and a plain %s filespace given the same history answer differently: %s", i, op, cf.Base, cf.Base, d), map[string]any{"conf": cf, "history": mfs.HistString(hist)})
					return
				}
				twinSteps++
				v := model.Step(op, got)
				steps++
				if v.Ambiguous {
					return
				}
				strict := cf.Base == "mem" || v.PrecondOK
				if v.Mismatch != "" && strict {
					r.Violate("namespace-mismatch", fmt.Sprintf("step %d %s on the encrypted filespace: %s", i, op, v.Mismatch), map[string]any{"conf": cf, "history": mfs.HistString(hist)})
					return
				}
				if v.Mismatch != "" || (!strict && !v.Lenient) {
					return // disk base outside the stated preconditions: C02's business
				}
				if !strict && op.Kind.Mutating() && got.Err {
					// a refused operation outside the stated preconditions may leave partial effects on
					// a disk base (a directory copy onto an existing directory merges until it fails);
					// the tree model does not describe them. What C05 promises is "as on the underlying
					// filespace": the plain twin got the same call, so the two trees must still agree.
					// The history ends here either way.
					eo, _ := mfs.ObserveLimit(enc, model.Root.Depth()+6, 100000)
					po, _ := mfs.ObserveLimit(plain, model.Root.Depth()+6, 100000)
					if d := mfs.Diff(po, eo, ""); d != "" {
						r.Violate("namespace-differs-from-base", fmt.Sprintf("after the refused step %d %s the tree of the encrypted filespace differs from the tree of the plain twin: %s", i, op, d), map[string]any{"conf": cf, "history": mfs.HistString(hist)})
					}
					r.AddObs("refused_steps_outside_the_preconditions_compared_with_the_twin_tree", 1)
					return
				}
				if op.Kind == mfs.OpFilespace && got.Err {
					return
				}
				if v.Mutated {
					muts++
				}
				obs, anom := mfs.ObserveLimit(enc, model.Root.Depth()+2, 100000)
				if len(anom) > 0 {
					r.Violate("namespace-anomaly", fmt.Sprintf("after step %d %s: %s", i, op, strings.Join(anom, "; ")), map[string]any{"conf": cf, "history": mfs.HistString(hist)})
					return
				}
				if d := mfs.Diff(model.Root, obs, ""); d != "" {
					r.Violate("namespace-tree-mismatch", fmt.Sprintf("after step %d %s: %s", i, op, d), map[string]any{"conf": cf, "history": mfs.HistString(hist)})
					return
				}
			}
			r.AddObs("namespace_steps", steps)
			r.AddObs("namespace_mutations", muts)
			r.Key = "names|" + strings.Join(mfs.HistString(hist), ";")
			r.Nontrivial = muts > 0
		})
	}
}

// twinDiff compares the outcome of one step on the encrypted filespace with the outcome of the same
// step on a plain filespace of the same kind: success or failure of every operation, the answers
// of the queries and the names of a listing (sizes and content belong to the cipher).
func twinDiff(op mfs.Op, enc, plain mfs.Res) string {
	if enc.Panic != "" || plain.Panic != "" {
		if enc.Panic != plain.Panic {
			return fmt.Sprintf("panic %q vs %q", enc.Panic, plain.Panic)
		}
		return ""
	}
	if enc.Err != plain.Err {
		return fmt.Sprintf("encrypted: err=%v (%s), plain: err=%v (%s)", enc.Err, enc.Text, plain.Err, plain.Text)
	}
	if enc.Err {
		return ""
	}
	switch op.Kind {
	case mfs.OpIsExist, mfs.OpIsFile, mfs.OpIsDir:
		if enc.B != plain.B {
			return fmt.Sprintf("encrypted answers %v, plain %v", enc.B, plain.B)
		}
	case mfs.OpReadDir:
		names := func(l []mfs.Ent) string {
			var out []string
			for _, e := range l {
				out = append(out, fmt.Sprintf("%s:%v", e.Name, e.Dir))
			}
			sort.Strings(out)
			return strings.Join(out, ",")
		}
		if a, b := names(enc.List), names(plain.List); a != b {
			return fmt.Sprintf("encrypted lists [%s], plain [%s]", a, b)
		}
	case mfs.OpReadFile, mfs.OpReader:
		if !bytes.Equal(enc.Data, plain.Data) {
			return fmt.Sprintf("encrypted delivers %d bytes, plain %d bytes of the same written content", len(enc.Data), len(plain.Data))
		}
	}
	return ""
}

func plan(tier string, seed int64) []sup.Batch {
	nRound, nTamper, nNames, nBig, nLarge := 3200, 256, 800, 3, 16
	if tier == "thorough" {
		nRound, nTamper, nNames, nBig, nLarge = 80000, 4000, 20000, 96, 400
	}
	var bs []sup.Batch
	bs = append(bs, sup.Chunk("round", "round", nRound, (nRound+15)/16, 1, nil)...)
	bs = append(bs, sup.Chunk("tamper", "tamper", nTamper, (nTamper+15)/16, 1, nil)...)
	bs = append(bs, sup.Chunk("tamperL", "tamper", nLarge, (nLarge+7)/8, 1, map[string]any{"large": 1})...)
	bs = append(bs, sup.Chunk("names", "names", nNames, (nNames+15)/16, 1, map[string]any{"ops": 40})...)
	if nBig > 0 {
		bs = append(bs, sup.Chunk("big", "round", nBig, 3, 1, map[string]any{"big": 1})...)
	}
	nConc := 32
	if tier == "thorough" {
		nConc = 640
	}
	bs = append(bs, sup.Chunk("conc", "conc", nConc, nConc/8, 16, nil)...)
	return bs
}

func main() {
	mfs.CheckSizes = false // listings show the size of the stored (encrypted) bytes
	sup.Main(sup.Prop{
		ID:    "C05",
		Level: "fault_enumeration",
		Rule: "round: random plaintext × configuration (cipher aesgcm|ext, base mem|disk, secret/salt incl. empty, host binding, write path WriteFile|Writer+chunks) – read back by a second instance through ReadFile and Reader (buffer sizes 1,2,7,4096,len+1), stored bytes searched for 16-byte plaintext windows, freshness and run-wide nonce uniqueness, wrong secret / wrong salt must error with zero bytes; " +
			"tamper: for stored files ≤ 256 bytes EVERY truncation length and EVERY single-byte corruption position (xor 01,80,FF), sampled for larger files, each through both read paths – error, zero bytes, no panic, filespace still usable; names: generated name-space histories on EncryptFS vs the tree model and vs a plain filespace of the same kind that receives the same history (every step: same success/failure, same query answers, same listing names, same content). distinct = distinct (configuration, plaintext prefix) / tamper files / histories",
		Assumptions: []string{
			"secrecy is checked as absence of 16-byte plaintext windows in stored bytes, not as a cryptographic claim",
			"host binding is not required to change the key (the statement does not say so)",
			"on a disk base, name-space steps outside C02's preconditions are not compared",
		},
		Plan: plan,
		Run: func(c *sup.Child, b sup.Batch) {
			switch b.Kind {
			case "round":
				runRound(c, b)
			case "tamper":
				runTamper(c, b)
			case "names":
				runNames(c, b)
			case "conc":
				runConc(c, b)
			}
		},
		Finish: func(t *sup.Totals) string {
			if t.Obs["roundtrips"] == 0 || t.Obs["tampered_reads"] < 1000 || t.Obs["namespace_steps"] == 0 || t.Obs["namespace_steps_compared_with_a_plain_twin"] == 0 || t.Obs["conc_foreign_files_refused"] == 0 {
				return "a monitor observed nothing"
			}
			return ""
		},
		Exhaustive: func(string) string {
			return "every truncation length and every single-byte corruption position (3 masks) of each stored file ≤ 256 bytes in the tamper batches"
		},
	})
}
