package main

// conc: several encrypted filespaces with their own settings used at the same time in one
// process. Whatever a filespace writes it reads back unchanged, and bytes stored by a filespace
// with other settings are refused (read back unchanged by one with the same settings) – also
// while the other filespaces are encrypting and decrypting with their keys.

import (
	"bytes"
	"fmt"
	"math/rand"
	"sync"

	"verif/internal/sup"

	"github.com/goatcms/goatcore/filesystem"
	"github.com/goatcms/goatcore/filesystem/filespace/encryptfs"
	"github.com/goatcms/goatcore/filesystem/filespace/memfs"
)

type storedFile struct {
	owner int
	raw   []byte
	plain []byte
}

type concFinding struct {
	class, detail string
	wit           map[string]any
}

func sameSettings(a, b conf) bool {
	return a.Cipher == b.Cipher && a.HostOnly == b.HostOnly && bytes.Equal(a.Secret, b.Secret) && bytes.Equal(a.Salt, b.Salt)
}

func runConc(c *sup.Child, b sup.Batch) {
	for idx := b.From; idx < b.To; idx++ {
		rng := c.Rand(idx)
		g := []int{2, 3, 4, 8, 8, 16}[rng.Intn(6)]
		rounds := 2400 / g
		cipher := []string{"aesgcm", "ext"}[idx%2]
		confs := make([]conf, g)
		for i := range confs {
			cf := genConf(rng, idx)
			cf.Cipher, cf.Base = cipher, "mem"
			if idx%4 >= 2 && i%2 == 1 {
				cf.Cipher = []string{"ext", "aesgcm"}[idx%2] // both ciphers at once
			}
			switch {
			case i > 0 && rng.Intn(4) == 0: // same secret as a neighbour, another salt
				cf.Secret = append([]byte{}, confs[i-1].Secret...)
				cf.Salt = append(append([]byte{}, confs[i-1].Salt...), byte('a'+i))
			case i > 0 && rng.Intn(5) == 0: // exactly the neighbour's settings
				cf.Secret, cf.Salt, cf.HostOnly, cf.Cipher = confs[i-1].Secret, confs[i-1].Salt, confs[i-1].HostOnly, confs[i-1].Cipher
			}
			confs[i] = cf
		}
		seeds := make([]int64, g)
		for i := range seeds {
			seeds[i] = rng.Int63()
		}
		desc := map[string]any{"kind": "conc", "filespaces": confs, "rounds": rounds, "gomaxprocs": b.Procs}
		c.Case(idx, desc, func(r *sup.CaseResult) {
			var mu sync.Mutex
			var shared []storedFile
			var findings []concFinding
			var own, crossRefused, crossRead int64
			report := func(class, detail string, wit map[string]any) {
				mu.Lock()
				if len(findings) < 5 {
					findings = append(findings, concFinding{class, detail, wit})
				}
				mu.Unlock()
			}
			start := make(chan struct{})
			var wg sync.WaitGroup
			for gi := 0; gi < g; gi++ {
				wg.Add(1)
				go func(gi int) {
					defer wg.Done()
					lr := rand.New(rand.NewSource(seeds[gi]))
					cf := confs[gi]
					base, _ := memfs.NewFilespace()
					var enc filesystem.Filespace
					enc, err := encryptfs.NewEncryptFS(base, cf.settings())
					if err != nil {
						report("write-failed", "NewEncryptFS: "+err.Error(), nil)
						return
					}
					var nOwn, nRef, nRead int64
					<-start
					for k := 0; k < rounds; k++ {
						plain := []byte(fmt.Sprintf("filespace %d of case %d, round %d: %x", gi, idx, k, lr.Uint64()))
						if lr.Intn(4) == 0 {
							plain = append(plain, bytes.Repeat([]byte{byte(gi)}, lr.Intn(3000))...)
						}
						path := fmt.Sprintf("f%d", k%7)
						via := []string{"file", "stream"}[lr.Intn(2)]
						wit := map[string]any{"filespace": gi, "conf": cf, "round": k, "write_via": via, "all": confs}
						if err := writeVia(enc, via, path, plain, lr); err != nil {
							report("write-failed", fmt.Sprintf("filespace %d round %d: writing %d bytes via %s failed while %d other filespaces were in use: %v", gi, k, len(plain), via, g-1, err), wit)
							continue
						}
						var o readOut
						if lr.Intn(2) == 0 {
							o = readFile(enc, path)
						} else {
							o = readStream(enc, path, []int{7, 64, 4096}[lr.Intn(3)])
						}
						nOwn++
						if o.pan != "" || o.err != nil || o.anom != "" || !bytes.Equal(o.data, plain) {
							report("roundtrip-concurrent", fmt.Sprintf("filespace %d round %d: its own file (written via %s) read back while %d other filespaces with their own settings were in use: panic=%q err=%v anomaly=%q got %d bytes want %d",
								gi, k, via, g-1, o.pan, o.err, o.anom, len(o.data), len(plain)), wit)
						}
						if k%3 != 0 {
							continue
						}
						raw, err := base.ReadFile(path)
						if err != nil {
							continue
						}
						mu.Lock()
						shared = append(shared, storedFile{gi, raw, plain})
						var other storedFile
						have := false
						if len(shared) > 1 {
							other = shared[lr.Intn(len(shared))]
							have = other.owner != gi
						}
						mu.Unlock()
						if !have {
							continue
						}
						// bytes stored by another filespace, placed into this one's base
						base.WriteFile("foreign", append([]byte{}, other.raw...), 0644)
						var fo readOut
						if lr.Intn(2) == 0 {
							fo = readFile(enc, "foreign")
						} else {
							fo = readStream(enc, "foreign", 4096)
						}
						wit["stored_by"] = other.owner
						if sameSettings(cf, confs[other.owner]) {
							nRead++
							if fo.pan != "" || fo.err != nil || !bytes.Equal(fo.data, other.plain) {
								report("roundtrip-concurrent", fmt.Sprintf("filespace %d round %d: bytes stored by filespace %d, which has the same settings, are not read back: panic=%q err=%v got %d bytes want %d",
									gi, k, other.owner, fo.pan, fo.err, len(fo.data), len(other.plain)), wit)
							}
						} else {
							nRef++
							if fo.pan != "" {
								report("wrongkey-panic", fmt.Sprintf("filespace %d round %d: reading bytes stored by filespace %d (other settings) panicked: %s", gi, k, other.owner, fo.pan), wit)
							} else if fo.err == nil || fo.given > 0 {
								report("wrongkey-data", fmt.Sprintf("filespace %d round %d: bytes stored by filespace %d, which has other settings, were read: err=%v, %d bytes delivered (equal to the other's plaintext: %v)",
									gi, k, other.owner, fo.err, fo.given, bytes.Equal(fo.data, other.plain)), wit)
							}
						}
					}
					mu.Lock()
					own += nOwn
					crossRefused += nRef
					crossRead += nRead
					mu.Unlock()
				}(gi)
			}
			close(start)
			wg.Wait()
			for _, f := range findings {
				r.Violate(f.class, f.detail, f.wit)
			}
			r.AddObs("conc_cases", 1)
			r.AddObs("conc_filespaces", int64(g))
			r.AddObs("conc_own_files_read_back", own)
			r.AddObs("conc_foreign_files_refused", crossRefused)
			r.AddObs("conc_same_settings_files_read", crossRead)
			r.AddObs("roundtrips", own)
			r.Key = fmt.Sprintf("conc|%d|%d|%s|%x", g, rounds, cipher, seeds[0])
			r.Nontrivial = crossRefused > 0
			if idx%8 == 0 {
				r.Sample = map[string]any{"kind": "concurrent filespaces", "filespaces": g, "rounds_each": rounds, "own_reads": own, "foreign_refused": crossRefused, "same_settings_read": crossRead}
			}
		})
	}
}
