package main

// Programs (definition calls + requests), the two "worlds" they are executed in (the real
// container and ModelDI), generated factories and the event trace both worlds produce.

import (
	"errors"
	"fmt"
	"math"
	"reflect"
	"strings"

	"github.com/goatcms/goatcore/app"
)

// ---- program representation ------------------------------------------------------------------

type edge struct {
	Name string `json:"n"`
	Opt  bool   `json:"o,omitempty"`
}

// facSpec describes one generated factory.
type facSpec struct {
	ID     int    `json:"id"`
	Edges  []edge `json:"e,omitempty"`
	Inject bool   `json:"inj,omitempty"`  // edges are resolved by InjectTo on a tagged struct, else by Get
	Fail   int    `json:"fail,omitempty"` // 0 never, 1 always, 2 first invocation only, 3 returns (nil,nil)
	Late   int    `json:"late,omitempty"` // 1..4: tries Set/SetDefault/AddFactory/AddDefaultFactory from inside
}

const (
	failNever = iota
	failAlways
	failFirst
	failNil
)

type field struct {
	Tag   string `json:"t"` // tag name ("" = untagged field)
	Key   string `json:"k"`
	Opt   bool   `json:"o,omitempty"`
	Typed bool   `json:"ty,omitempty"` // *prod field instead of interface{}
}

const (
	opSet        = "Set"
	opSetDefault = "SetDefault"
	opAddFactory = "AddFactory"
	opAddDefFac  = "AddDefaultFactory"
	opGet        = "Get"
	opInject     = "InjectTo"
	opKeys       = "Keys"
)

type step struct {
	Op     string   `json:"op"`
	Name   string   `json:"n,omitempty"`
	Fac    *facSpec `json:"f,omitempty"`
	Fields []field  `json:"fields,omitempty"`
}

const (
	pathProvider  = "provider"  // dependency.NewProvider
	pathInjectors = "injectors" // + map / multi / datascope injectors
	pathStatic    = "static"    // dependency.NewStaticProvider (leading definitions become its maps)
	pathApp       = "app"       // goatapp mock application: app.InjectTo / app.DependencyProvider()
)

type program struct {
	Path  string `json:"path"`
	Steps []step `json:"steps"`
}

func isDef(op string) bool {
	return op == opSet || op == opSetDefault || op == opAddFactory || op == opAddDefFac
}

// prelude returns the number of leading definition steps (the static provider's maps).
func (p *program) prelude() int {
	if p.Path != pathStatic {
		return 0
	}
	n := 0
	for n < len(p.Steps) && isDef(p.Steps[n].Op) {
		n++
	}
	return n
}

func (f *facSpec) String() string {
	var sb strings.Builder
	fmt.Fprintf(&sb, "f%d{", f.ID)
	if f.Inject {
		sb.WriteString("inject")
	} else {
		sb.WriteString("get")
	}
	for _, e := range f.Edges {
		sb.WriteString(" ")
		if e.Opt {
			sb.WriteString("?")
		}
		sb.WriteString(e.Name)
	}
	switch f.Fail {
	case failAlways:
		sb.WriteString("; fails")
	case failFirst:
		sb.WriteString("; fails on first invocation only")
	case failNil:
		sb.WriteString("; returns nil,nil")
	}
	if f.Late != 0 {
		fmt.Fprintf(&sb, "; tries %s(zlate) inside", []string{"", opSet, opSetDefault, opAddFactory, opAddDefFac}[f.Late])
	}
	sb.WriteString("}")
	return sb.String()
}

func (s step) String() string {
	switch s.Op {
	case opSet, opSetDefault:
		return fmt.Sprintf("%s(%s, inst)", s.Op, s.Name)
	case opAddFactory, opAddDefFac:
		return fmt.Sprintf("%s(%s, %s)", s.Op, s.Name, s.Fac)
	case opGet:
		return fmt.Sprintf("Get(%s)", s.Name)
	case opKeys:
		return "Keys()"
	case opInject:
		var fs []string
		for _, f := range s.Fields {
			if f.Tag == "" {
				fs = append(fs, "untagged")
				continue
			}
			o := ""
			if f.Opt {
				o = "?"
			}
			fs = append(fs, fmt.Sprintf("%s:%q", f.Tag, o+f.Key))
		}
		return "InjectTo(&struct{" + strings.Join(fs, "; ") + "})"
	}
	return s.Op
}

func (p *program) String() string {
	var sb strings.Builder
	sb.WriteString("[" + p.Path + "]")
	for i, s := range p.Steps {
		fmt.Fprintf(&sb, " %d:%s", i, s)
	}
	return sb.String()
}

// ---- values and labels -----------------------------------------------------------------------

// prod is what generated factories produce and what Set/SetDefault register. Every pointer is
// created once per world, so "same label" and "same pointer" coincide inside one world.
type prod struct {
	Label int32
	_     [8]byte
}

const (
	lblNone     int32 = 0
	lblUnknown  int32 = math.MinInt32
	lblApp      int32 = -3000
	lblFSRoot   int32 = -3001
	lblArg      int32 = -3002
	lblInjBase  int32 = -2000 // injector data values: lblInjBase-k
	lblLateInst int32 = -1999
)

func instLabel(stepIdx int) int32          { return -int32(stepIdx + 1) }
func prodLabel(facID int, inv int32) int32 { return int32(facID+1)*1000 + inv }

func labelString(l int32) string {
	switch {
	case l == lblNone:
		return "-"
	case l == lblUnknown:
		return "<foreign value>"
	case l == lblApp:
		return "<the app>"
	case l == lblFSRoot:
		return "<root filespace>"
	case l == lblArg:
		return "<argument value>"
	case l <= lblInjBase:
		return fmt.Sprintf("<injector value %d>", lblInjBase-l)
	case l < 0:
		return fmt.Sprintf("<instance registered by step %d>", -l-1)
	default:
		return fmt.Sprintf("<product of f%d, invocation %d>", l/1000-1, l%1000)
	}
}

func same(a, b interface{}) (eq bool) {
	defer func() {
		if recover() != nil {
			eq = false
		}
	}()
	return a == b
}

// ---- events ----------------------------------------------------------------------------------

const (
	evDef   uint8 = iota + 1 // A=step B=accepted
	evGet                    // A=step B=ok C=label
	evInj                    // A=step B=ok
	evField                  // A=field index C=label (0 = left unset)
	evEnter                  // A=factory B=invocation number
	evSee                    // A=factory B=edge index C=label (0 = not obtained)
	evExit                   // A=factory B=ok C=label
	evLate                   // A=factory B=accepted
)

type ev struct {
	K       uint8
	A, B, C int32
}

func (e ev) String() string {
	okS := func(b int32) string {
		if b != 0 {
			return "ok"
		}
		return "error"
	}
	switch e.K {
	case evDef:
		if e.B != 0 {
			return fmt.Sprintf("step %d definition accepted", e.A)
		}
		return fmt.Sprintf("step %d definition refused", e.A)
	case evGet:
		return fmt.Sprintf("step %d Get -> %s %s", e.A, okS(e.B), labelString(e.C))
	case evInj:
		return fmt.Sprintf("step %d InjectTo -> %s", e.A, okS(e.B))
	case evField:
		return fmt.Sprintf("  field %d = %s", e.A, labelString(e.C))
	case evEnter:
		return fmt.Sprintf("  factory f%d invoked (invocation %d)", e.A, e.B)
	case evSee:
		return fmt.Sprintf("  f%d edge %d got %s", e.A, e.B, labelString(e.C))
	case evExit:
		return fmt.Sprintf("  f%d returns %s %s", e.A, okS(e.B), labelString(e.C))
	case evLate:
		if e.B != 0 {
			return fmt.Sprintf("  f%d: definition from inside a factory ACCEPTED", e.A)
		}
		return fmt.Sprintf("  f%d: definition from inside a factory refused", e.A)
	}
	return "?"
}

// ---- world -----------------------------------------------------------------------------------

type directViolation struct {
	class, detail string
}

type foreign struct {
	v interface{}
	l int32
}

// world is one execution context: the implementation or the model.
type world struct {
	impl     bool
	tr       []ev
	inv      map[int]int32
	produced map[int]bool
	insts    map[int32]*prod
	foreign  []foreign
	first    map[string]interface{} // name -> first successfully obtained value (implementation world)
	direct   []directViolation
	inDef    bool
	resolved bool // a resolution was requested (definitions must be refused from now on)
	answers  []int8
	nFacInv  int64
	// bookkeeping for the model-independent precedence check
	explAccepted map[string]bool // names with an accepted explicit definition
	dfltLabels   map[int32]bool  // instances registered as defaults
	dfltFacs     map[int]bool    // factories registered as defaults
}

func newWorld(impl bool) *world {
	return &world{impl: impl, inv: map[int]int32{}, produced: map[int]bool{}, insts: map[int32]*prod{}, first: map[string]interface{}{},
		explAccepted: map[string]bool{}, dfltLabels: map[int32]bool{lblApp: true}, dfltFacs: map[int]bool{}}
}

func (w *world) emit(k uint8, a, b, c int32) { w.tr = append(w.tr, ev{k, a, b, c}) }

func (w *world) viol(class, format string, a ...interface{}) {
	if len(w.direct) < 8 {
		w.direct = append(w.direct, directViolation{class, fmt.Sprintf(format, a...)})
	}
}

// value returns the world's unique pointer carrying label l.
func (w *world) value(l int32) *prod {
	if p, ok := w.insts[l]; ok {
		return p
	}
	p := &prod{Label: l}
	w.insts[l] = p
	return p
}

func (w *world) label(v interface{}) int32 {
	if v == nil {
		return lblNone
	}
	if p, ok := v.(*prod); ok {
		if p == nil {
			return lblUnknown
		}
		if w.insts[p.Label] != p {
			return lblUnknown // a copy or a pointer from somewhere else
		}
		return p.Label
	}
	for _, f := range w.foreign {
		if same(f.v, v) {
			return f.l
		}
	}
	return lblUnknown
}

// seen performs the model-independent identity check (implementation world only).
func (w *world) seen(name string, v interface{}) {
	if !w.impl {
		return
	}
	if w.explAccepted[name] {
		if l := w.label(v); w.dfltLabels[l] || (l > 0 && w.dfltFacs[int(l/1000-1)]) {
			w.viol("default-beats-explicit", "dependency %q has an accepted explicit definition but resolved to %s, which comes from a default definition", name, labelString(l))
		}
	}
	if prev, ok := w.first[name]; ok {
		if !same(prev, v) {
			w.viol("identity-changed", "dependency %q was first obtained as %s and later as %s", name, labelString(w.label(prev)), labelString(w.label(v)))
		}
		return
	}
	w.first[name] = v
}

func b2i(b bool) int32 {
	if b {
		return 1
	}
	return 0
}

var errFactoryFails = errors.New("generated factory fails")

// factory builds the closure for spec fs in this world.
func (w *world) factory(fs *facSpec) app.Factory {
	return func(dp app.DependencyProvider) (interface{}, error) {
		id := int32(fs.ID)
		if w.inDef && w.impl {
			w.viol("factory-invoked-by-definition", "factory f%d was invoked while it was being registered", fs.ID)
		}
		if w.produced[fs.ID] && w.impl {
			w.viol("factory-rerun-after-instance", "factory f%d was invoked again after it had produced an instance", fs.ID)
		}
		w.inv[fs.ID]++
		w.nFacInv++
		n := w.inv[fs.ID]
		w.emit(evEnter, id, n, 0)
		if n > 900 {
			panic(fmt.Sprintf("factory f%d invoked more than 900 times", fs.ID))
		}
		if fs.Late != 0 {
			var err error
			switch fs.Late {
			case 1:
				err = dp.Set("zlate", w.value(lblLateInst))
			case 2:
				err = dp.SetDefault("zlate", w.value(lblLateInst))
			case 3:
				err = dp.AddFactory("zlate", func(app.DependencyProvider) (interface{}, error) { return w.value(lblLateInst), nil })
			case 4:
				err = dp.AddDefaultFactory("zlate", func(app.DependencyProvider) (interface{}, error) { return w.value(lblLateInst), nil })
			}
			w.emit(evLate, id, b2i(err == nil), 0)
			if err == nil && w.impl {
				w.viol("late-definition-accepted", "a definition made from inside factory f%d (during a resolution) was accepted", fs.ID)
			}
		}
		if fs.Inject {
			if len(fs.Edges) > 0 {
				fields := make([]field, len(fs.Edges))
				for i, e := range fs.Edges {
					fields[i] = field{Tag: app.DependencyTagName, Key: e.Name, Opt: e.Opt, Typed: e.Name != app.AppService && (fs.ID+i)%2 == 0}
				}
				obj := newStruct(fields)
				if err := dp.InjectTo(obj.Interface()); err != nil {
					w.emit(evExit, id, 0, 0)
					return nil, fmt.Errorf("f%d: InjectTo: %w", fs.ID, err)
				}
				for i, e := range fs.Edges {
					fv := obj.Elem().Field(i).Interface()
					if isNilValue(fv) {
						w.emit(evSee, id, int32(i), lblNone)
						continue
					}
					w.emit(evSee, id, int32(i), w.label(fv))
					w.seen(e.Name, fv)
				}
			}
		} else {
			for i, e := range fs.Edges {
				v, err := dp.Get(e.Name)
				if err != nil {
					w.emit(evSee, id, int32(i), lblNone)
					if !e.Opt {
						w.emit(evExit, id, 0, 0)
						return nil, fmt.Errorf("f%d: required %s: %w", fs.ID, e.Name, err)
					}
					continue
				}
				w.emit(evSee, id, int32(i), w.label(v))
				w.seen(e.Name, v)
			}
		}
		switch {
		case fs.Fail == failAlways, fs.Fail == failFirst && n == 1:
			w.emit(evExit, id, 0, 0)
			return nil, errFactoryFails
		case fs.Fail == failNil:
			w.emit(evExit, id, 0, lblNone)
			return nil, nil
		}
		p := w.value(prodLabel(fs.ID, n))
		w.produced[fs.ID] = true
		w.emit(evExit, id, 1, p.Label)
		return p, nil
	}
}

func isNilValue(v interface{}) bool {
	if v == nil {
		return true
	}
	rv := reflect.ValueOf(v)
	return rv.Kind() == reflect.Ptr && rv.IsNil()
}

// ---- struct types for InjectTo ---------------------------------------------------------------

var (
	structCache = map[string]reflect.Type{}
	typProd     = reflect.TypeOf((*prod)(nil))
	typAny      = reflect.TypeOf((*interface{})(nil)).Elem()
	typInt      = reflect.TypeOf(int(0))
)

func newStruct(fields []field) reflect.Value {
	var kb strings.Builder
	for _, f := range fields {
		fmt.Fprintf(&kb, "%s|%s|%v|%v;", f.Tag, f.Key, f.Opt, f.Typed)
	}
	k := kb.String()
	t, ok := structCache[k]
	if !ok {
		sf := make([]reflect.StructField, len(fields))
		for i, f := range fields {
			sf[i].Name = fmt.Sprintf("F%d", i)
			switch {
			case f.Tag == "":
				sf[i].Type = typInt
				sf[i].Tag = `unrelated:"x"`
			default:
				sf[i].Type = typAny
				if f.Typed {
					sf[i].Type = typProd
				}
				o := ""
				if f.Opt {
					o = "?"
				}
				sf[i].Tag = reflect.StructTag(fmt.Sprintf(`%s:"%s%s"`, f.Tag, o, f.Key))
			}
		}
		t = reflect.StructOf(sf)
		structCache[k] = t
	}
	return reflect.New(t)
}

// stale is what pre-populated fields hold before an injection.
var stale = &prod{Label: -777}

func isStale(v interface{}) bool {
	p, ok := v.(*prod)
	return ok && p == stale
}

// ---- driver ----------------------------------------------------------------------------------

type side struct {
	w      *world
	dp     app.DependencyProvider
	inject func(obj interface{}) error
	model  *modelDI
}

type runStats struct {
	gets, injects, defs, keys, failed, fieldsSet, fieldsSkipped int64
}

// execute runs the program's steps (from the first non-prelude step) in side s.
func execute(p *program, s *side, st *runStats) {
	w := s.w
	from := p.prelude()
	if w.impl {
		w.answers = make([]int8, len(p.Steps))
	}
	for i := from; i < len(p.Steps); i++ {
		sp := &p.Steps[i]
		switch sp.Op {
		case opSet, opSetDefault, opAddFactory, opAddDefFac:
			if s.model != nil {
				s.model.answer = w.answers[i]
			}
			var err error
			w.inDef = true
			switch sp.Op {
			case opSet:
				err = s.dp.Set(sp.Name, w.value(instLabel(i)))
			case opSetDefault:
				err = s.dp.SetDefault(sp.Name, w.value(instLabel(i)))
			case opAddFactory:
				err = s.dp.AddFactory(sp.Name, w.factory(sp.Fac))
			case opAddDefFac:
				err = s.dp.AddDefaultFactory(sp.Name, w.factory(sp.Fac))
			}
			w.inDef = false
			if s.model != nil {
				s.model.answer = -1
			}
			if w.impl {
				w.answers[i] = int8(b2i(err == nil))
				if err == nil && !w.resolved {
					switch sp.Op {
					case opSet, opAddFactory:
						w.explAccepted[sp.Name] = true
					case opSetDefault:
						w.dfltLabels[instLabel(i)] = true
					case opAddDefFac:
						w.dfltFacs[sp.Fac.ID] = true
					}
				}
				if err == nil && w.resolved {
					w.viol("late-definition-accepted", "step %d %s was accepted although a resolution had already been requested", i, sp)
				}
				if st != nil {
					st.defs++
				}
			}
			w.emit(evDef, int32(i), b2i(err == nil), 0)
		case opKeys:
			if w.impl {
				s.dp.Keys()
				if st != nil {
					st.keys++
				}
			}
		case opGet:
			w.resolved = true
			v, err := s.dp.Get(sp.Name)
			if err != nil {
				w.emit(evGet, int32(i), 0, 0)
				if prev, ok := w.first[sp.Name]; ok && w.impl {
					w.viol("instance-lost-after-earlier-success", "step %d Get(%s) failed (%.120s) although the same name had been resolved to %s before", i, sp.Name, err.Error(), labelString(w.label(prev)))
				}
				if st != nil {
					st.failed++
				}
			} else {
				w.emit(evGet, int32(i), 1, w.label(v))
				if isNilValue(v) && w.impl {
					w.viol("nil-instance", "step %d Get(%s) succeeded with a nil instance", i, sp.Name)
				}
				w.seen(sp.Name, v)
			}
			if st != nil {
				st.gets++
			}
		case opInject:
			for _, f := range sp.Fields {
				if f.Tag == app.DependencyTagName {
					w.resolved = true
				}
			}
			obj := newStruct(sp.Fields)
			// every third injection goes into an object whose required dependency fields already
			// hold something (an object that was injected by another container before, or is
			// reused): injection yields the container's own instance all the same
			pre := i%3 == 1
			if pre {
				for fi, f := range sp.Fields {
					if f.Tag == app.DependencyTagName && !f.Opt {
						obj.Elem().Field(fi).Set(reflect.ValueOf(stale))
					}
				}
			}
			err := s.inject(obj.Interface())
			w.emit(evInj, int32(i), b2i(err == nil), 0)
			if st != nil {
				st.injects++
				if err != nil {
					st.failed++
				}
			}
			for fi, f := range sp.Fields {
				fv := obj.Elem().Field(fi).Interface()
				if f.Tag == "" {
					if fv.(int) != 0 && w.impl {
						w.viol("untagged-field-written", "step %d InjectTo wrote to a field without an injection tag", i)
					}
					continue
				}
				set := !isNilValue(fv)
				if set && f.Tag == app.DependencyTagName && !isStale(fv) {
					w.seen(f.Key, fv)
				}
				if err == nil && pre && isStale(fv) && w.impl {
					w.viol("stale-field-kept", "step %d InjectTo succeeded but the required field %q still holds what the object held before the call instead of the container's instance", i, f.Key)
				}
				if err == nil {
					// the statement does not say what a failed injection leaves behind; fields of
					// a failed call are only subject to the identity check above
					l := lblNone
					if set {
						l = w.label(fv)
					}
					w.emit(evField, int32(fi), 0, l)
					if st != nil {
						if set {
							st.fieldsSet++
						} else {
							st.fieldsSkipped++
						}
					}
				}
			}
		}
	}
}

// firstDiff returns the index of the first differing event (-1 = equal traces).
func firstDiff(a, b []ev) int {
	n := len(a)
	if len(b) < n {
		n = len(b)
	}
	for i := 0; i < n; i++ {
		if a[i] != b[i] {
			return i
		}
	}
	if len(a) != len(b) {
		return n
	}
	return -1
}

func fmtTrace(tr []ev, around int) []string {
	from := around - 12
	if from < 0 {
		from = 0
	}
	to := around + 4
	if to > len(tr) {
		to = len(tr)
	}
	out := []string{}
	for i := from; i < to; i++ {
		m := "  "
		if i == around {
			m = "> "
		}
		out = append(out, fmt.Sprintf("%s%d: %s", m, i, tr[i]))
	}
	return out
}
