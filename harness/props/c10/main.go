// C10 – dependency container: lazy singletons, fixed precedence, safe failure.
//
// Every generated program (definition calls, generated factories, requests) is executed twice:
// against the real container and against ModelDI (model.go). Both executions produce an event
// trace (definition answers, results and instance identities of Get/InjectTo, what every
// factory invocation saw and returned); the traces must be equal. Model-independent checks
// (instance identity per name, factory re-run after success, definitions accepted after a
// resolution, factories invoked by a definition call) run on the implementation side.
package main

import (
	"fmt"
	"math/rand"
	"runtime/debug"
	"strings"

	"verif/internal/sup"

	"github.com/goatcms/goatcore/app"
	"github.com/goatcms/goatcore/app/dependency"
	"github.com/goatcms/goatcore/app/goatapp"
	"github.com/goatcms/goatcore/app/injector"
	"github.com/goatcms/goatcore/app/scope/datascope"
)

// ---- building the two sides ------------------------------------------------------------------

func buildImpl(p *program, w *world) (*side, error) {
	s := &side{w: w}
	switch p.Path {
	case pathProvider:
		s.dp = dependency.NewProvider(app.DependencyTagName)
		s.inject = s.dp.InjectTo
	case pathInjectors:
		s.dp = dependency.NewProvider(app.DependencyTagName)
		s.inject = s.dp.InjectTo
		ds := datascope.New(map[interface{}]interface{}{"k0": w.value(lblInjBase - 2), "k1": w.value(lblInjBase - 3)})
		err := s.dp.AddInjectors([]app.Injector{
			injector.NewMapInjector("m", map[string]interface{}{"k0": w.value(lblInjBase), "k1": w.value(lblInjBase - 1)}),
			injector.NewMultiInjector([]app.Injector{injector.NewNilInjector(), datascope.NewInjector("d", ds)}),
		})
		if err != nil {
			return nil, err
		}
	case pathStatic:
		facs := map[string]app.Factory{}
		insts := map[string]interface{}{}
		for i := 0; i < p.prelude(); i++ {
			st := p.Steps[i]
			if st.Op == opSet {
				insts[st.Name] = w.value(instLabel(i))
			} else {
				facs[st.Name] = w.factory(st.Fac)
			}
		}
		s.dp = dependency.NewStaticProvider(app.DependencyTagName, facs, insts, []app.Injector{})
		s.inject = s.dp.InjectTo
	case pathApp:
		mock, err := goatapp.NewMockupApp(goatapp.Params{Arguments: []string{"k=v"}})
		if err != nil {
			return nil, err
		}
		s.dp = mock.DependencyProvider()
		s.inject = mock.InjectTo
		w.foreign = []foreign{{mock.App, lblApp}, {mock.Filespaces().Root(), lblFSRoot}, {"v", lblArg}}
	default:
		return nil, fmt.Errorf("unknown path %q", p.Path)
	}
	return s, nil
}

func buildModel(p *program, w *world, choice map[string]int) *side {
	m := newModel(w, app.DependencyTagName)
	if choice != nil {
		m.choice = choice
	}
	switch p.Path {
	case pathInjectors:
		m.inj = []mInjector{
			{"m", map[string]interface{}{"k0": w.value(lblInjBase), "k1": w.value(lblInjBase - 1)}},
			{"d", map[string]interface{}{"k0": w.value(lblInjBase - 2), "k1": w.value(lblInjBase - 3)}},
		}
	case pathStatic:
		m.static = true
		for i := 0; i < p.prelude(); i++ {
			st := p.Steps[i]
			if st.Op == opSet {
				m.expl[st.Name] = append(m.expl[st.Name], &mdef{inst: w.value(instLabel(i))})
			} else {
				m.expl[st.Name] = append(m.expl[st.Name], &mdef{fac: w.factory(st.Fac)})
			}
		}
	case pathApp:
		// the application registers itself as the default instance of app.AppService
		m.dflt[app.AppService] = []*mdef{{inst: w.value(lblApp)}}
		m.inj = []mInjector{
			{app.AppTagName, map[string]interface{}{}},
			{app.ArgsTagName, map[string]interface{}{"k": w.value(lblArg)}},
			{app.ConfigTagName, map[string]interface{}{}},
			{app.FilespaceTagName, map[string]interface{}{app.RootFilespace: w.value(lblFSRoot)}},
		}
	}
	return &side{w: w, dp: m, inject: m.InjectTo, model: m}
}

// ---- running one program ---------------------------------------------------------------------

type agg struct {
	programs, steps, events, facInv, tracesCompared           int64
	ambiguous, altRuns, altAccepted                           int64
	cycles, missing, facFail, memoHits, optSkips, lateRefused int64
	rs                                                        runStats
	paths                                                     map[string]int64
}

type found struct {
	class, detail string
	witness       any
}

func runModel(p *program, answers []int8, choice map[string]int) (*world, *modelDI) {
	wm := newWorld(false)
	wm.answers = answers
	sm := buildModel(p, wm, choice)
	execute(p, sm, nil)
	return wm, sm.model
}

func classify(a, b []ev, d int) string {
	if d >= len(a) || d >= len(b) {
		return "trace-length"
	}
	x, y := a[d], b[d]
	switch {
	case x.K == evDef && y.K == evDef:
		return "definition-after-resolution-accepted"
	case x.K == evLate && y.K == evLate:
		return "definition-inside-factory-accepted"
	case x.K != y.K && (x.K == evEnter || y.K == evEnter):
		return "factory-invocation-mismatch"
	case x.K == y.K && x.A == y.A && (x.K == evGet || x.K == evInj || x.K == evExit) && x.B != y.B:
		return "result-mismatch"
	case x.K == y.K && x.A == y.A && x.B == y.B && x.C != y.C:
		if (x.C == lblNone) != (y.C == lblNone) {
			return "result-mismatch"
		}
		return "wrong-instance"
	case x.K == evEnter && y.K == evEnter:
		return "factory-invocation-mismatch"
	}
	return "trace-divergence"
}

// runProgram executes p in both worlds and returns what refutes the property.
func runProgram(p *program, a *agg) (out []found) {
	wi := newWorld(true)
	a.programs++
	a.steps += int64(len(p.Steps))
	if a.paths == nil {
		a.paths = map[string]int64{}
	}
	a.paths[p.Path]++
	panicked := false
	func() {
		defer func() {
			if r := recover(); r != nil {
				panicked = true
				out = append(out, found{"panic", fmt.Sprintf("program %s: panic in the container: %v", p, r),
					map[string]any{"program": p, "stack": string(debug.Stack()), "trace_tail": fmtTrace(wi.tr, len(wi.tr)-1)}})
			}
		}()
		si, err := buildImpl(p, wi)
		if err != nil {
			panic(fmt.Sprintf("cannot build the container: %v", err))
		}
		execute(p, si, &a.rs)
	}()
	a.facInv += wi.nFacInv
	for _, dv := range wi.direct {
		out = append(out, found{dv.class, fmt.Sprintf("program %s: %s", p, dv.detail), map[string]any{"program": p}})
	}
	if panicked {
		return out
	}
	wm, m := runModel(p, wi.answers, nil)
	d := firstDiff(wi.tr, wm.tr)
	a.tracesCompared++
	a.events += int64(len(wi.tr))
	if len(m.ambig) > 0 {
		a.ambiguous++
	}
	if d >= 0 && len(m.ambig) > 0 {
		// statement is silent on which of several accepted same-class definitions is used:
		// any fixed choice is admissible
		names := []string{}
		total := 1
		for n, k := range m.ambig {
			names = append(names, n)
			total *= k
		}
		if total > 64 {
			total = 64
		}
		for c := 0; c < total && d >= 0; c++ {
			choice := map[string]int{}
			x := c
			for _, n := range names {
				choice[n] = x % m.ambig[n]
				x /= m.ambig[n]
			}
			wa, ma := runModel(p, wi.answers, choice)
			a.altRuns++
			if firstDiff(wi.tr, wa.tr) < 0 {
				d = -1
				wm, m = wa, ma
				a.altAccepted++
			}
		}
	}
	for _, dv := range wm.direct {
		out = append(out, found{dv.class, fmt.Sprintf("program %s: %s", p, dv.detail), map[string]any{"program": p}})
	}
	a.cycles += m.st.cycles
	a.missing += m.st.missing
	a.facFail += m.st.facFail
	a.memoHits += m.st.memoHits
	a.optSkips += m.st.optSkips
	a.lateRefused += m.st.lateRefused
	if d >= 0 {
		iev, mev := "<nothing more>", "<nothing more>"
		if d < len(wi.tr) {
			iev = wi.tr[d].String()
		}
		if d < len(wm.tr) {
			mev = wm.tr[d].String()
		}
		out = append(out, found{classify(wi.tr, wm.tr, d),
			fmt.Sprintf("program %s: first divergence at event %d: container: %q; reference model: %q", p, d, iev, mev),
			map[string]any{"program": p, "container_trace": fmtTrace(wi.tr, d), "model_trace": fmtTrace(wm.tr, d)}})
	}
	return out
}

func (a *agg) flush(r *sup.CaseResult, prefix string) {
	r.AddObs(prefix+"_programs", a.programs)
	r.AddObs("steps", a.steps)
	r.AddObs("events_compared", a.events)
	r.AddObs("traces_compared", a.tracesCompared)
	r.AddObs("factory_invocations", a.facInv)
	r.AddObs("get_calls", a.rs.gets)
	r.AddObs("inject_calls", a.rs.injects)
	r.AddObs("definition_calls", a.rs.defs)
	r.AddObs("keys_calls", a.rs.keys)
	r.AddObs("failed_requests", a.rs.failed)
	r.AddObs("fields_injected", a.rs.fieldsSet)
	r.AddObs("fields_left_unset", a.rs.fieldsSkipped)
	r.AddObs("model_cycle_errors", a.cycles)
	r.AddObs("model_missing_errors", a.missing)
	r.AddObs("model_factory_failures", a.facFail)
	r.AddObs("model_memo_hits", a.memoHits)
	r.AddObs("model_optional_skips", a.optSkips)
	r.AddObs("late_definitions_refused", a.lateRefused)
	r.AddObs("ambiguous_programs", a.ambiguous)
	r.AddObs("alt_choice_model_runs", a.altRuns)
	r.AddObs("accepted_by_alt_choice", a.altAccepted)
	for k, v := range a.paths {
		r.AddObs("path_"+k, v)
	}
}

// ---- bounded-exhaustive programs -------------------------------------------------------------

type exhSym struct {
	op    string
	name  string
	shape int // -1: instance
	fail  int
}

// alphabets of definition calls over the names a, b
func buildAlphabet(shapes []int, fails []int) []exhSym {
	var out []exhSym
	for _, n := range []string{"a", "b"} {
		out = append(out, exhSym{opSet, n, -1, 0}, exhSym{opSetDefault, n, -1, 0})
		for _, op := range []string{opAddFactory, opAddDefFac} {
			for _, shape := range shapes {
				for _, fail := range fails {
					out = append(out, exhSym{op, n, shape, fail})
				}
			}
		}
	}
	return out
}

var alphabets = map[string][]exhSym{
	// 76 symbols: 6 shapes × {never fails, always fails, fails on the first invocation only}
	"full": buildAlphabet([]int{0, 1, 2, 3, 4, 5}, []int{failNever, failAlways, failFirst}),
	// 52 symbols: without the flaky factories
	"noflaky": buildAlphabet([]int{0, 1, 2, 3, 4, 5}, []int{failNever, failAlways}),
	// 28 symbols: no edge / optional edge via Get / required edge via InjectTo
	"small": buildAlphabet([]int{0, 2, 3}, []int{failNever, failAlways}),
}

func exhTotal(alpha string, minLen, maxLen int) int {
	k := len(alphabets[alpha])
	t, pw := 0, 1
	for l := 0; l <= maxLen; l++ {
		if l >= minLen {
			t += pw
		}
		pw *= k
	}
	return t
}

func exhDefs(alpha string, idx, minLen, maxLen int) []step {
	ab := alphabets[alpha]
	k := len(ab)
	pw := 1
	l := 0
	for ; l <= maxLen; l++ {
		if l >= minLen {
			if idx < pw {
				break
			}
			idx -= pw
		}
		pw *= k
	}
	steps := make([]step, l)
	for i := l - 1; i >= 0; i-- {
		s := ab[idx%k]
		idx /= k
		st := step{Op: s.op, Name: s.name}
		if s.shape >= 0 {
			other := "b"
			if s.name == "b" {
				other = "a"
			}
			f := &facSpec{ID: i, Fail: s.fail}
			switch s.shape {
			case 1:
				f.Edges = []edge{{other, false}}
			case 2:
				f.Edges, f.Inject = []edge{{other, false}}, true
			case 3:
				f.Edges = []edge{{other, true}}
			case 4:
				f.Edges, f.Inject = []edge{{other, true}}, true
			case 5:
				f.Edges = []edge{{s.name, false}}
			}
			st.Fac = f
		}
		steps[i] = st
	}
	return steps
}

func depField(name string, opt, typed bool) field {
	return field{Tag: app.DependencyTagName, Key: name, Opt: opt || strings.HasPrefix(name, "?"), Typed: typed}
}

var exhSuites = func() [][]step {
	g := func(n string) step { return step{Op: opGet, Name: n} }
	inj := func(fs ...field) step { return step{Op: opInject, Fields: fs} }
	plain := func(id int) *facSpec { return &facSpec{ID: id} }
	return [][]step{
		{g("a"), g("b"), g("a"), g("b"), inj(depField("a", false, true), depField("b", true, false)),
			{Op: opSet, Name: "a"}, {Op: opAddFactory, Name: "c", Fac: plain(90)}, {Op: opSetDefault, Name: "b"}, {Op: opAddDefFac, Name: "c", Fac: plain(91)},
			g("c"), g("a"), g("b")},
		{g("b"), g("a"), inj(depField("u", true, true), depField("b", false, false)), g("b"), g("a")},
		{inj(depField("b", true, true), depField("a", false, false)), inj(depField("a", false, true), depField("b", false, true)), g("a"), g("b"), g("a")},
		{inj(depField("b", false, false), depField("a", false, true)), g("u"), g("a"), g("b"), inj(depField("a", true, false), field{}, depField("b", true, true)), g("a"), g("b")},
	}
}()

func runExh(c *sup.Child, b sup.Batch) {
	minLen, maxLen, alpha := b.P("min", 0), b.P("len", 3), b.PS("alpha", "full")
	const blk = 2000
	for from := b.From; from < b.To; from += blk {
		to := from + blk
		if to > b.To {
			to = b.To
		}
		c.Case(from, map[string]any{"kind": "exh", "alphabet": alpha, "from": from, "to": to, "min": minLen, "len": maxLen}, func(r *sup.CaseResult) {
			var a agg
			for idx := from; idx < to; idx++ {
				defs := exhDefs(alpha, idx, minLen, maxLen)
				for _, suite := range exhSuites {
					p := &program{Path: pathProvider, Steps: append(append([]step{}, defs...), suite...)}
					for _, f := range runProgram(p, &a) {
						r.Violate(f.class, f.detail, f.witness)
					}
					if len(r.Violations) > 12 {
						a.flush(r, "exh")
						return
					}
				}
			}
			a.flush(r, "exh")
			r.Key = fmt.Sprintf("exh-%s-%d-%d-%d", alpha, minLen, maxLen, from)
			r.Nontrivial = a.facInv > 0
			if from == 0 {
				last := &program{Path: pathProvider, Steps: append(exhDefs(alpha, to-1, minLen, maxLen), exhSuites[0]...)}
				r.Sample = map[string]any{"kind": "exhaustive block", "programs": (to - from) * len(exhSuites), "last_program": last.String()}
			}
		})
	}
}

// ---- random programs -------------------------------------------------------------------------

func genFactory(rng *rand.Rand, id int, name func() string) *facSpec {
	f := &facSpec{ID: id}
	ne := []int{0, 0, 0, 1, 1, 1, 1, 2, 2, 2, 3, 3}[rng.Intn(12)]
	for i := 0; i < ne; i++ {
		e := edge{Name: name(), Opt: rng.Intn(100) < 35}
		f.Edges = append(f.Edges, e)
	}
	f.Inject = rng.Intn(2) == 0
	if f.Inject {
		// an injection tag strips one optional marker: a name that starts with "?" can only be
		// asked for as an optional dependency ("??n0")
		for i := range f.Edges {
			f.Edges[i].Opt = f.Edges[i].Opt || strings.HasPrefix(f.Edges[i].Name, "?")
		}
	}
	switch x := rng.Intn(100); {
	case x < 68:
	case x < 83:
		f.Fail = failAlways
	case x < 95:
		f.Fail = failFirst
	default:
		f.Fail = failNil
	}
	if rng.Intn(100) < 8 {
		f.Late = 1 + rng.Intn(4)
	}
	return f
}

func genFields(rng *rand.Rand, path string, name func() string) []field {
	n := 1 + rng.Intn(4)
	var out []field
	for i := 0; i < n; i++ {
		x := rng.Intn(100)
		switch {
		case x < 8:
			out = append(out, field{})
		case x < 30 && path == pathInjectors:
			out = append(out, field{Tag: []string{"m", "d"}[rng.Intn(2)], Key: []string{"k0", "k1", "k2"}[rng.Intn(3)], Opt: rng.Intn(3) > 0, Typed: rng.Intn(2) == 0})
		case x < 30 && path == pathApp:
			out = append(out, []field{
				{Tag: app.FilespaceTagName, Key: app.RootFilespace},
				{Tag: app.FilespaceTagName, Key: "nope", Opt: true},
				{Tag: app.ArgsTagName, Key: "k", Opt: true},
				{Tag: app.ArgsTagName, Key: "k"},
				{Tag: app.ConfigTagName, Key: "zz", Opt: true},
				{Tag: app.FilespaceTagName, Key: "nope"},
			}[rng.Intn(6)])
		default:
			k := name()
			out = append(out, depField(k, rng.Intn(100) < 40, k != app.AppService && rng.Intn(2) == 0))
		}
	}
	return out
}

func genRandom(rng *rand.Rand) *program {
	p := &program{}
	switch x := rng.Intn(100); {
	case x < 45:
		p.Path = pathProvider
	case x < 65:
		p.Path = pathInjectors
	case x < 80:
		p.Path = pathStatic
	default:
		p.Path = pathApp
	}
	pool := []string{"n0", "n1", "n2", "n3", "n4"}
	if p.Path == pathApp {
		pool = []string{app.AppService, "n0", "n1", "n2", "n3"}
	}
	if rng.Intn(6) == 0 {
		// a legal name that starts with the optional marker, next to the name without it: an
		// injection tag strips exactly one marker ("??n0" is the optional dependency "?n0")
		pool[1] = "?" + pool[0]
	}
	k := 2 + rng.Intn(len(pool)-1) // names actually used by this program (small => overlaps)
	name := func() string {
		if rng.Intn(100) < 10 {
			return "u0" // never defined
		}
		return pool[rng.Intn(k)]
	}
	defName := func() string { return pool[rng.Intn(k)] }
	facID := 0
	genDef := func(static bool) step {
		ops := []string{opSet, opSetDefault, opAddFactory, opAddDefFac}
		if static {
			ops = []string{opSet, opAddFactory}
		}
		st := step{Op: ops[rng.Intn(len(ops))], Name: defName()}
		if st.Op == opAddFactory || st.Op == opAddDefFac {
			st.Fac = genFactory(rng, facID, name)
			facID++
		}
		return st
	}
	nd := rng.Intn(13)
	used := map[string]bool{}
	for i := 0; i < nd; i++ {
		st := genDef(p.Path == pathStatic)
		if p.Path == pathStatic {
			if used[st.Op+st.Name] {
				continue
			}
			used[st.Op+st.Name] = true
		}
		p.Steps = append(p.Steps, st)
		if p.Path != pathStatic && rng.Intn(100) < 3 {
			p.Steps = append(p.Steps, step{Op: opKeys})
		}
	}
	nr := 3 + rng.Intn(12)
	for i := 0; i < nr; i++ {
		switch x := rng.Intn(100); {
		case x < 45 || (i == 0 && p.Path == pathStatic):
			p.Steps = append(p.Steps, step{Op: opGet, Name: name()})
		case x < 80:
			p.Steps = append(p.Steps, step{Op: opInject, Fields: genFields(rng, p.Path, name)})
		case x < 95:
			p.Steps = append(p.Steps, genDef(false))
		default:
			p.Steps = append(p.Steps, step{Op: opKeys})
		}
	}
	return p
}

func runRand(c *sup.Child, b sup.Batch) {
	for idx := b.From; idx < b.To; idx++ {
		p := genRandom(c.Rand(idx))
		c.Case(idx, map[string]any{"kind": "rand", "idx": idx, "path": p.Path}, func(r *sup.CaseResult) {
			var a agg
			for _, f := range runProgram(p, &a) {
				r.Violate(f.class, f.detail, f.witness)
			}
			a.flush(r, "rand")
			r.Key = p.String()
			r.Nontrivial = a.facInv > 0 && a.rs.gets+a.rs.injects > 1
			if idx%1000 == 0 {
				r.Sample = map[string]any{"kind": "random program", "program": p.String(), "events": a.events}
			}
		})
	}
}

// ---- plan / main -----------------------------------------------------------------------------

func exhBatches(name, alpha string, minLen, maxLen, nb int) []sup.Batch {
	n := exhTotal(alpha, minLen, maxLen)
	return sup.Chunk(name, "exh", n, (n+nb-1)/nb, 1, map[string]any{"alpha": alpha, "min": minLen, "len": maxLen})
}

func plan(tier string, seed int64) []sup.Batch {
	var bs []sup.Batch
	if tier == "thorough" {
		bs = append(bs, exhBatches("exh3", "full", 0, 3, 128)...)
		bs = append(bs, exhBatches("exh4", "small", 4, 4, 128)...)
		bs = append(bs, sup.Chunk("rand", "rand", 400000, 400000/64, 1, nil)...)
		return bs
	}
	bs = append(bs, exhBatches("exh2", "full", 0, 2, 8)...)
	bs = append(bs, exhBatches("exh3", "small", 3, 3, 24)...)
	bs = append(bs, sup.Chunk("rand", "rand", 10000, (10000+15)/16, 1, nil)...)
	return bs
}

func main() {
	sup.Main(sup.Prop{
		ID:    "C10",
		Level: "exploration",
		Rule: "exh: every definition sequence over names {a,b} and the alphabet {Set, SetDefault, AddFactory×shape, AddDefaultFactory×shape} " +
			"(shape: no edge / required or optional edge to the other name via Get or InjectTo / required self edge; never failing, always failing, failing on the first invocation only = 76 symbols; " +
			"the 28-symbol sub-alphabet keeps no edge / required edge via InjectTo / optional edge via Get and never/always failing): quick = all sequences of ≤ 2 calls over 76 symbols and all of exactly 3 calls over 28 symbols; " +
			"thorough = all of ≤ 3 calls over 76 symbols and all of exactly 4 calls over 28 symbols; each sequence is followed by 4 fixed request suites (Get/InjectTo in different orders, repeated Gets after failures, late definitions); " +
			"rand: seeded programs over a 5-name pool (one program in six: a name that starts with the optional marker next to the name without it; ≤ 12 definitions, factories with ≤ 3 required/optional edges to defined and undefined names, failing / flaky / nil-returning factories, " +
			"definitions attempted from inside factories, 3–14 requests) on four construction paths (NewProvider, NewProvider+map/multi/datascope injectors, NewStaticProvider, goatapp mock application); " +
			"every program is run against the container and against ModelDI and the event traces are compared; distinct = distinct programs (random) or blocks (exhaustive); non-trivial = at least one factory invocation",
		Assumptions: []string{
			"where the statement is silent (duplicate definitions of one class for one name) the model follows the implementation's accept/refuse answer and accepts any fixed choice among the accepted same-class definitions",
			"the first definition of its class for a name, made before any resolution, must be accepted (otherwise 'for any set of definitions' is empty)",
			"a factory that returns (nil, nil) counts as a failed factory",
			"what a failed InjectTo leaves in the struct is not specified; only the identity of the fields it did set is checked",
			"Keys() and AddInjectors are exercised but carry no oracle of their own (the statement does not mention them)",
			"field order of InjectTo is the order of need: dependencies of one struct are resolved in field order and resolution stops at the first required failure",
		},
		Plan: plan,
		Run: func(c *sup.Child, b sup.Batch) {
			switch b.Kind {
			case "exh":
				runExh(c, b)
			case "rand":
				runRand(c, b)
			}
		},
		Finish: func(t *sup.Totals) string {
			for _, k := range []string{"exh_programs", "rand_programs", "factory_invocations", "failed_requests", "get_calls", "inject_calls",
				"model_cycle_errors", "model_memo_hits", "model_optional_skips", "model_factory_failures", "late_definitions_refused",
				"path_provider", "path_injectors", "path_static", "path_app", "fields_injected"} {
				if t.Obs[k] == 0 {
					return "monitor observed nothing for " + k
				}
			}
			return ""
		},
		Exhaustive: func(tier string) string {
			if tier == "thorough" {
				return "all definition sequences of length ≤ 3 over 2 names × 76 call symbols and all of length 4 over 28 call symbols, each under 4 fixed request suites"
			}
			return "all definition sequences of length ≤ 2 over 2 names × 76 call symbols and all of length 3 over 28 call symbols, each under 4 fixed request suites"
		},
	})
}
