package main

// ModelDI – an operational reference container written from the property statement:
//
//   - lazy: a factory runs only when its name is requested and no instance is known yet;
//   - successes are memoised, failures are not;
//   - an explicit definition (Set / AddFactory) beats a default one (SetDefault /
//     AddDefaultFactory) regardless of the registration order;
//   - the first resolution request (Get, or InjectTo with a dependency-tagged field) freezes
//     the definitions: every later definition call is refused;
//   - a request for a name that is currently being constructed is an error (cycle);
//   - the resolution stack is popped on every exit, so a failed or optional-and-missing
//     resolution leaves nothing behind.
//
// Where the statement is silent – two accepted definitions of the same class for one name
// (e.g. Set followed by AddFactory) and whether a duplicate is accepted at all – the model
// follows the implementation: it takes the implementation's accept/refuse answer for
// definition calls made before the freeze, and for a name with several accepted definitions
// of the winning class every fixed choice among them is an admissible container.

import (
	"errors"
	"reflect"
	"sort"
	"strings"

	"github.com/goatcms/goatcore/app"
)

var (
	errCycle   = errors.New("model: cyclic dependency")
	errMissing = errors.New("model: dependency is not defined")
	errNilProd = errors.New("model: factory produced nil")
	errRefused = errors.New("model: definition refused")
	errNoValue = errors.New("model: injector has no value")
)

type mdef struct {
	inst interface{}
	fac  app.Factory
}

type mInjector struct {
	tag  string
	data map[string]interface{}
}

type modelStats struct {
	cycles, missing, facFail, memoHits, optSkips, lateRefused int64
}

type modelDI struct {
	w      *world
	tag    string
	static bool
	frozen bool
	expl   map[string][]*mdef
	dflt   map[string][]*mdef
	memo   map[string]interface{}
	stack  []string
	inj    []mInjector
	answer int8 // the implementation's answer to the current top-level definition call (-1: none)
	choice map[string]int
	ambig  map[string]int
	st     modelStats
}

func newModel(w *world, tag string) *modelDI {
	return &modelDI{w: w, tag: tag, expl: map[string][]*mdef{}, dflt: map[string][]*mdef{}, memo: map[string]interface{}{},
		answer: -1, choice: map[string]int{}, ambig: map[string]int{}}
}

func (m *modelDI) define(explicit bool, name string, d *mdef) error {
	tab, class := m.dflt, "default"
	if explicit {
		tab, class = m.expl, "explicit"
	}
	if m.frozen || m.static {
		m.st.lateRefused++
		return errRefused
	}
	switch m.answer {
	case 1:
		tab[name] = append(tab[name], d)
		return nil
	case 0:
		if len(tab[name]) == 0 {
			// the first definition of its class for a name, before any resolution: nothing
			// in the statement allows refusing it
			m.w.viol("first-definition-refused", "the first %s definition of %q, made before any resolution, was refused", class, name)
		}
		return errRefused
	}
	// a definition call the model cannot classify (made outside a top-level step before the freeze)
	tab[name] = append(tab[name], d)
	return nil
}

func (m *modelDI) Set(name string, v interface{}) error { return m.define(true, name, &mdef{inst: v}) }
func (m *modelDI) SetDefault(name string, v interface{}) error {
	return m.define(false, name, &mdef{inst: v})
}
func (m *modelDI) AddFactory(name string, f app.Factory) error {
	return m.define(true, name, &mdef{fac: f})
}
func (m *modelDI) AddDefaultFactory(name string, f app.Factory) error {
	return m.define(false, name, &mdef{fac: f})
}
func (m *modelDI) AddInjectors([]app.Injector) error { return nil }

func (m *modelDI) Keys() ([]string, error) {
	set := map[string]bool{}
	for k := range m.expl {
		set[k] = true
	}
	for k := range m.dflt {
		set[k] = true
	}
	out := []string{}
	for k := range set {
		out = append(out, k)
	}
	sort.Strings(out)
	return out, nil
}

func (m *modelDI) pick(name string) *mdef {
	c := m.expl[name]
	if len(c) == 0 {
		c = m.dflt[name]
	}
	switch len(c) {
	case 0:
		return nil
	case 1:
		return c[0]
	}
	m.ambig[name] = len(c)
	if i, ok := m.choice[name]; ok && i < len(c) {
		return c[i]
	}
	for _, d := range c {
		if d.fac == nil {
			return d
		}
	}
	return c[0]
}

// Get resolves name.
func (m *modelDI) Get(name string) (interface{}, error) {
	m.frozen = true
	for _, s := range m.stack {
		if s == name {
			m.st.cycles++
			return nil, errCycle
		}
	}
	if v, ok := m.memo[name]; ok {
		m.st.memoHits++
		return v, nil
	}
	d := m.pick(name)
	if d == nil {
		m.st.missing++
		return nil, errMissing
	}
	if d.fac == nil {
		m.memo[name] = d.inst
		return d.inst, nil
	}
	m.stack = append(m.stack, name)
	v, err := d.fac(m)
	m.stack = m.stack[:len(m.stack)-1]
	if err != nil {
		m.st.facFail++
		return nil, err
	}
	if isNilValue(v) {
		m.st.facFail++
		return nil, errNilProd
	}
	m.memo[name] = v
	return v, nil
}

// InjectTo fills the tagged fields of *obj: dependency tags first (in field order; "?" marks
// an optional field that is skipped when its resolution fails), then the extra injectors.
func (m *modelDI) InjectTo(obj interface{}) error {
	sv := reflect.ValueOf(obj).Elem()
	st := sv.Type()
	for i := 0; i < sv.NumField(); i++ {
		tag := st.Field(i).Tag.Get(m.tag)
		if tag == "" {
			continue
		}
		opt := strings.HasPrefix(tag, "?")
		if opt {
			tag = tag[1:]
		}
		v, err := m.Get(tag)
		if err != nil {
			if opt {
				m.st.optSkips++
				continue
			}
			return err
		}
		sv.Field(i).Set(reflect.ValueOf(v))
	}
	for _, in := range m.inj {
		for i := 0; i < sv.NumField(); i++ {
			tag := st.Field(i).Tag.Get(in.tag)
			if tag == "" {
				continue
			}
			opt := strings.HasPrefix(tag, "?")
			if opt {
				tag = tag[1:]
			}
			v, ok := in.data[tag]
			if !ok {
				if opt {
					continue
				}
				return errNoValue
			}
			sv.Field(i).Set(reflect.ValueOf(v))
		}
	}
	return nil
}
