// C08 – the concurrent tree walk visits every selected node exactly once and then stops.
package main

import (
	"errors"
	"fmt"
	"github.com/goatcms/goatcore/app"
	"github.com/goatcms/goatcore/app/scope/eventscope"
	"hash/fnv"
	"math/rand"
	"os"
	"path/filepath"
	"runtime"
	"sort"
	"strings"
	"sync"
	"sync/atomic"
	"syscall"
	"time"

	"verif/internal/mfs"
	"verif/internal/sup"

	"github.com/goatcms/goatcore/filesystem"
	"github.com/goatcms/goatcore/filesystem/filespace/diskfs"
	"github.com/goatcms/goatcore/filesystem/filespace/memfs"
	"github.com/goatcms/goatcore/filesystem/fshelper"
	"github.com/goatcms/goatcore/filesystem/fsloop"
	"github.com/goatcms/goatcore/workers"
	"github.com/goatcms/goatcore/workers/verifhook"
)

// ---- source decorator: gates, noise and faults in ReadDir ------------------------------------

type srcFS struct {
	mfs.Wrap
	gatePath string        // ReadDir of this path blocks until gate is closed (channel closed)
	gate     chan struct{} // nil = no gate
	gateHit  chan struct{} // closed when the gated ReadDir was entered
	gateOnce sync.Once
	noise    func()
	failPath string // ReadDir of this path fails with failErr
	failErr  error
	reads    int64
	// failAfter, when set, delays the failing listing until it reports true
	failAfter func() bool
	lateFails int64
}

func (s *srcFS) ReadDir(p string) ([]os.FileInfo, error) {
	atomic.AddInt64(&s.reads, 1)
	if s.noise != nil {
		s.noise()
	}
	p0 := p
	p = strings.TrimSuffix(p, "/") // the loop lists "./d/" from a new producer and "./d" when it recurses in place
	if s.gate != nil && p == s.gatePath {
		s.gateOnce.Do(func() { close(s.gateHit) })
		<-s.gate
	}
	if s.failErr != nil && p == s.failPath {
		if s.failAfter != nil {
			// the listing fails only once the loop has been killed by something else (bounded wait:
			// if that never happens the listing simply fails)
			for k := 0; k < 40000 && !s.failAfter(); k++ {
				time.Sleep(50 * time.Microsecond)
			}
			atomic.AddInt64(&s.lateFails, 1)
		}
		return nil, s.failErr
	}
	return s.Inner.ReadDir(p0)
}

// ---- trees -------------------------------------------------------------------------------------

type tree struct {
	files []string // canonical paths "a/b/c"
	dirs  []string
}

func (t *tree) build() (filesystem.Filespace, error) {
	fs, err := memfs.NewFilespace()
	if err != nil {
		return nil, err
	}
	for _, d := range t.dirs {
		if err := fs.MkdirAll(d, 0777); err != nil {
			return nil, err
		}
	}
	for _, f := range t.files {
		if err := fs.WriteFile(f, []byte("content of "+f), 0644); err != nil {
			return nil, err
		}
	}
	return fs, nil
}

func genTree(rng *rand.Rand, shape string) *tree {
	t := &tree{}
	switch shape {
	case "empty":
	case "single":
		t.files = []string{"only.txt"}
	case "chain":
		p := ""
		for i := 0; i < 30; i++ {
			p += fmt.Sprintf("d%d", i)
			t.dirs = append(t.dirs, p)
			t.files = append(t.files, p+"/f")
			p += "/"
		}
	case "wide1100", "wide2300":
		n := 1100
		if shape == "wide2300" {
			n = 2300
		}
		for i := 0; i < n; i++ {
			if i%5 == 0 {
				d := fmt.Sprintf("w/d%04d", i)
				t.dirs = append(t.dirs, d)
				t.files = append(t.files, d+"/in")
			} else {
				t.files = append(t.files, fmt.Sprintf("w/f%04d", i))
			}
		}
		t.dirs = append(t.dirs, "w")
	default: // random
		var rec func(prefix string, depth int)
		rec = func(prefix string, depth int) {
			// one entry in twelve has an unusual but legal name (dots only – not "." or ".." –, hidden,
			// with blanks); at most one use of each per directory
			odd := []string{"...", "....", ".hidden", "..x", "a b", ".. ", "x..", ". .", ".....", "~"}
			used := map[string]bool{}
			oddName := func(def string) string {
				if rng.Intn(12) != 0 {
					return def
				}
				n := odd[rng.Intn(len(odd))]
				if used[n] {
					return def
				}
				used[n] = true
				return n
			}
			nf := rng.Intn(5)
			for i := 0; i < nf; i++ {
				name := fmt.Sprintf("f%d", i)
				if rng.Intn(3) == 0 {
					name += ".json"
				}
				t.files = append(t.files, prefix+oddName(name))
			}
			if depth >= 4 {
				return
			}
			nd := rng.Intn(4)
			for i := 0; i < nd; i++ {
				d := prefix + oddName(fmt.Sprintf("d%d", i))
				t.dirs = append(t.dirs, d)
				rec(d+"/", depth+1)
			}
		}
		rec("", 0)
	}
	return t
}

func hashOf(s string, salt uint32) uint32 {
	h := fnv.New32a()
	h.Write([]byte(s))
	return h.Sum32() ^ salt
}

type filters struct {
	dirSalt, fileSalt uint32
	useDir, useFile   bool
	dirMod, fileMod   uint32
}

func (f filters) dirOK(p string) bool  { return !f.useDir || hashOf(p, f.dirSalt)%f.dirMod != 0 }
func (f filters) fileOK(p string) bool { return !f.useFile || hashOf(p, f.fileSalt)%f.fileMod != 0 }

// expected computes the callback paths the loop must deliver (loop spelling: "./a/b").
func expected(t *tree, f filters, onDir, onFile bool) (files, dirs map[string]bool) {
	files, dirs = map[string]bool{}, map[string]bool{}
	isDir := map[string]bool{}
	for _, d := range t.dirs {
		isDir[d] = true
	}
	accepted := func(p string) bool { // all ancestors and p itself accepted
		parts := strings.Split(p, "/")
		for i := 1; i <= len(parts); i++ {
			if !f.dirOK("./" + strings.Join(parts[:i], "/")) {
				return false
			}
		}
		return true
	}
	for _, d := range t.dirs {
		if accepted(d) && onDir {
			dirs["./"+d] = true
		}
	}
	for _, fl := range t.files {
		parent := ""
		if i := strings.LastIndex(fl, "/"); i >= 0 {
			parent = fl[:i]
		}
		if parent != "" && !accepted(parent) {
			continue
		}
		if onFile && f.fileOK("./"+fl) {
			files["./"+fl] = true
		}
	}
	return
}

// ---- event log ---------------------------------------------------------------------------------

type event struct {
	seq  int64
	kind string // enter-file exit-file enter-dir exit-dir waited
	path string
}

type recorder struct {
	mu       sync.Mutex
	seq      int64
	events   []event
	inflight int64
	maxIn    int64
}

func (r *recorder) add(kind, path string) int64 {
	r.mu.Lock()
	r.seq++
	s := r.seq
	r.events = append(r.events, event{s, kind, path})
	r.mu.Unlock()
	return s
}

func (r *recorder) enter(kind, path string) {
	n := atomic.AddInt64(&r.inflight, 1)
	for {
		m := atomic.LoadInt64(&r.maxIn)
		if n <= m || atomic.CompareAndSwapInt64(&r.maxIn, m, n) {
			break
		}
	}
	r.add("enter-"+kind, path)
}

func (r *recorder) exit(kind, path string) {
	r.add("exit-"+kind, path)
	atomic.AddInt64(&r.inflight, -1)
}

// ---- one run -----------------------------------------------------------------------------------

type runCfg struct {
	Shape    string `json:"shape"`
	P        int    `json:"producents"`
	C        int    `json:"consumers"`
	OnDir    bool   `json:"on_dir"`
	OnFile   bool   `json:"on_file"`
	UseDirF  bool   `json:"dir_filter"`
	UseFileF bool   `json:"file_filter"`
	Fault    string `json:"fault"`  // "", "file-cb", "dir-cb", "readdir"
	Noise    int    `json:"noise"`  // 0 none, 1 gosched, 2 gosched+sleep
	Hold     int    `json:"hold"`   // callback hold (gosched rounds)
	Script   string `json:"script"` // "", "gap", "between"
	ViaCopy  bool   `json:"via_copy"`
	// Disk: the tree lives on a disk filespace and one file in four (where a regular file precedes
	// it in its directory) is a symbolic link to that file – a file like any other for the loop
	Disk bool `json:"disk,omitempty"`
}

func effConsumers(c int) int {
	if c == 0 || c > workers.MaxJob {
		return workers.MaxJob
	}
	return c
}

var noiseCtr uint64

func mkNoise(seed uint64, level int) func() {
	if level == 0 {
		return nil
	}
	return func() {
		x := atomic.AddUint64(&noiseCtr, 0x9E3779B97F4A7C15) ^ seed
		x ^= x >> 29
		x *= 0xBF58476D1CE4E5B9
		x ^= x >> 32
		switch x % 8 {
		case 0, 1:
			runtime.Gosched()
		case 2:
			for i := 0; i < int(x>>8%5)+1; i++ {
				runtime.Gosched()
			}
		case 3:
			if level >= 2 {
				time.Sleep(time.Duration(x>>16%50) * time.Microsecond)
			}
		}
	}
}

// buildDisk writes the tree below dir; returns the filespace and the number of symbolic links.
func (t *tree) buildDisk(dir string) (filesystem.Filespace, int, error) {
	for _, d := range t.dirs {
		if err := os.MkdirAll(filepath.Join(dir, filepath.FromSlash(d)), 0755); err != nil {
			return nil, 0, err
		}
	}
	files := append([]string{}, t.files...)
	sort.Strings(files)
	lastRegular := map[string]string{} // directory -> name of a regular file in it
	links := 0
	for i, f := range files {
		full := filepath.Join(dir, filepath.FromSlash(f))
		d, name := filepath.Split(full)
		if err := os.MkdirAll(d, 0755); err != nil {
			return nil, 0, err
		}
		if target, ok := lastRegular[d]; ok && i%4 == 1 {
			if err := os.Symlink(target, full); err != nil {
				return nil, 0, err
			}
			links++
			continue
		}
		if err := os.WriteFile(full, []byte("content of "+f), 0644); err != nil {
			return nil, 0, err
		}
		lastRegular[d] = name
	}
	fs, err := diskfs.NewFilespace(dir)
	return fs, links, err
}

func runLoop(r *sup.CaseResult, rng *rand.Rand, cfg runCfg) {
	t := genTree(rng, cfg.Shape)
	var base filesystem.Filespace
	var err error
	if cfg.Disk {
		tmp, e := os.MkdirTemp("", "c08d-")
		if e != nil {
			r.Inconclusive = e.Error()
			return
		}
		defer os.RemoveAll(tmp)
		var links int
		base, links, err = t.buildDisk(tmp)
		r.AddObs("trees_on_a_disk_filespace", 1)
		r.AddObs("symbolic_links_to_files_in_disk_trees", int64(links))
	} else {
		base, err = t.build()
	}
	if err != nil {
		r.Inconclusive = "tree build: " + err.Error()
		return
	}
	flt := filters{dirSalt: rng.Uint32(), fileSalt: rng.Uint32(), useDir: cfg.UseDirF, useFile: cfg.UseFileF, dirMod: uint32(2 + rng.Intn(4)), fileMod: uint32(2 + rng.Intn(4))}
	wantF, wantD := expected(t, flt, cfg.OnDir, cfg.OnFile)
	noise := mkNoise(rng.Uint64(), cfg.Noise)
	src := &srcFS{Wrap: mfs.Wrap{Inner: base}, noise: noise}
	rec := &recorder{}
	hits := map[string]*int64{"fsloop.consumer.between": new(int64), "fsloop.consumer.gap": new(int64), "fsloop.closed": new(int64)}
	var sigMu sync.Mutex
	var sig []byte // interleaving signature: order of hook hits by role (capped)
	verifhook.Set(func(pt string) {
		if p, ok := hits[pt]; ok {
			atomic.AddInt64(p, 1)
		}
		sigMu.Lock()
		if len(sig) < 64 {
			sig = append(sig, pt[len(pt)-1])
		}
		sigMu.Unlock()
		if noise != nil {
			noise()
		}
	})
	defer verifhook.Set(nil)
	// fault selection
	var failErr error
	failPath := ""
	pick := func(m map[string]bool) string {
		keys := make([]string, 0, len(m))
		for k := range m {
			keys = append(keys, k)
		}
		sort.Strings(keys)
		if len(keys) == 0 {
			return ""
		}
		return keys[rng.Intn(len(keys))]
	}
	switch cfg.Fault {
	case "file-cb":
		failPath = pick(wantF)
	case "dir-cb":
		failPath = pick(wantD)
	case "cb-then-readdir":
		cands := map[string]bool{}
		_, allD := expected(t, flt, true, true)
		for d := range allD {
			cands[d] = true
		}
		failPath = pick(cands)
		if failPath != "" {
			src.failPath = failPath
		}
	case "readdir":
		// a directory that is descended into
		cands := map[string]bool{}
		_, allD := expected(t, flt, true, true)
		for d := range allD {
			cands[d] = true
		}
		failPath = pick(cands)
		if failPath != "" {
			src.failPath = failPath
		}
	}
	scopeFault := strings.HasPrefix(cfg.Fault, "scope-")
	if cfg.Fault != "" && cfg.Fault != "file-cb-first" && !scopeFault && failPath == "" {
		cfg.Fault = ""
	}
	var evScope app.EventScope
	var cbCount, scopeFired int64
	fireAt := int64(1 + rng.Intn(4))
	if scopeFault {
		evScope = eventscope.New()
	}
	var firstMu sync.Mutex
	firstTaken := false
	cbOrder := 0
	var bStarted, bVerdict, bFailed int64
	var cbSecondErr error
	secondFails := false
	if cfg.Fault == "cb-then-readdir" {
		cbSecondErr = fmt.Errorf("injected-second-callback-%08x", rng.Uint32())
		secondFails = rng.Intn(2) == 0
	}
	cbFirstErr := fmt.Errorf("injected-first-callback-%08x", rng.Uint32())
	var loopRef atomic.Value // *fsloop.Loop, set once the loop runs
	lateRecorded := func() bool {
		l, _ := loopRef.Load().(*fsloop.Loop)
		if l == nil || failErr == nil {
			return false
		}
		for _, e := range l.Errors() {
			if e != nil && (errors.Is(e, failErr) || strings.Contains(e.Error(), failErr.Error())) {
				return true
			}
		}
		return false
	}
	if cfg.Fault != "" && !scopeFault {
		failErr = fmt.Errorf("injected-%s-%08x", cfg.Fault, rng.Uint32())
		if cfg.Fault == "readdir" || cfg.Fault == "cb-then-readdir" {
			if rng.Intn(2) == 0 {
				// what a disk filespace answers for a directory that vanished after its parent was listed:
				// a listing error like any other
				failErr = &os.PathError{Op: "open", Path: failErr.Error(), Err: syscall.ENOENT}
			}
			src.failErr = failErr
		}
	}
	hold := func() {
		for i := 0; i < cfg.Hold; i++ {
			runtime.Gosched()
		}
		if noise != nil {
			noise()
		}
	}
	data := &fsloop.LoopData{Filespace: src, Consumers: cfg.C, Producents: cfg.P}
	if cfg.UseDirF {
		data.DirFilter = func(fs filesystem.Filespace, p string) bool { return flt.dirOK(p) }
	}
	if cfg.UseFileF {
		data.FileFilter = func(fs filesystem.Filespace, p string) bool { return flt.fileOK(p) }
	}
	if cfg.OnFile {
		data.OnFile = func(fs filesystem.Filespace, p string) error {
			rec.enter("file", p)
			hold()
			defer rec.exit("file", p)
			if cfg.Fault == "file-cb" && p == failPath {
				return failErr
			}
			if scopeFault && atomic.AddInt64(&cbCount, 1) == fireAt {
				if cfg.Fault == "scope-kill" {
					evScope.Trigger(app.KillEvent, nil)
				} else {
					evScope.Trigger(app.ErrorEvent, fmt.Errorf("somebody else on the scope failed"))
				}
				atomic.StoreInt64(&scopeFired, 1)
			}
			if cfg.Fault == "cb-then-readdir" {
				firstMu.Lock()
				nth := cbOrder
				cbOrder++
				firstMu.Unlock()
				switch nth {
				case 0: // A: fails once B is under way (bounded wait), which kills the loop
					for k := 0; k < 20000 && atomic.LoadInt64(&bStarted) == 0; k++ {
						time.Sleep(50 * time.Microsecond)
					}
					firstMu.Lock()
					firstTaken = true
					firstMu.Unlock()
					return cbFirstErr
				case 1: // B: keeps Wait() from returning until the late listing error has been recorded,
					// or no producer goroutine is left that could still record it (bounded)
					atomic.StoreInt64(&bStarted, 1)
					for k := 0; k < 400; k++ {
						if lateRecorded() {
							atomic.StoreInt64(&bVerdict, 1)
							break
						}
						if atomic.LoadInt64(&src.lateFails) > 0 && producersGone() {
							if lateRecorded() {
								atomic.StoreInt64(&bVerdict, 1)
							} else {
								atomic.StoreInt64(&bVerdict, 2)
							}
							break
						}
						time.Sleep(5 * time.Millisecond)
					}
					if secondFails {
						// B fails too, after the loop was killed: a callback error all the same
						atomic.StoreInt64(&bFailed, 1)
						return cbSecondErr
					}
					return nil
				}
			}
			if cfg.Fault == "file-cb-first" {
				firstMu.Lock()
				mine := !firstTaken
				if mine {
					firstTaken, failPath = true, p
				}
				firstMu.Unlock()
				if mine {
					time.Sleep(30 * time.Millisecond) // workload shaping only: the producer fills the queue meanwhile
					return failErr
				}
			}
			return nil
		}
	}
	if cfg.OnDir {
		data.OnDir = func(fs filesystem.Filespace, p string) error {
			rec.enter("dir", p)
			hold()
			defer rec.exit("dir", p)
			if cfg.Fault == "dir-cb" && p == failPath {
				return failErr
			}
			return nil
		}
	}
	var loop *fsloop.Loop
	if evScope != nil {
		loop = fsloop.NewLoop(data, evScope)
	} else {
		loop = fsloop.NewLoop(data, nil)
	}
	if cfg.Fault == "cb-then-readdir" {
		src.failAfter = func() bool {
			l, _ := loopRef.Load().(*fsloop.Loop)
			return l != nil && len(l.Errors()) > 0
		}
	}
	done := make(chan struct{})
	var errs []error
	// in faulty runs other goroutines ask for the error list all the while (they share the
	// lifecycle's mutex with whoever reports the error); the list they see only ever grows
	var polls, shrunk int64
	var pollWG sync.WaitGroup
	started := make(chan struct{})
	abandon := make(chan struct{}) // closed when the run is given up (the loop's Wait never returned)
	if cfg.Fault != "" {
		for k := 0; k < 1+rng.Intn(3); k++ {
			pollWG.Add(1)
			go func() {
				defer pollWG.Done()
				<-started // the loop has no lifecycle before Run
				last := 0
				for n := 0; ; n++ {
					select {
					case <-done:
						return
					case <-abandon:
						return
					default:
					}
					l := len(loop.Errors())
					if l < last {
						atomic.AddInt64(&shrunk, 1)
					}
					last = l
					atomic.AddInt64(&polls, 1)
					if n%64 == 63 || runtime.GOMAXPROCS(0) == 1 {
						runtime.Gosched()
					}
				}
			}()
		}
	}
	go func() {
		loop.Run("")
		loopRef.Store(loop)
		close(started)
		loop.Wait()
		errs = loop.Errors() // what a caller that waited for the loop gets to see
		rec.add("waited", "")
		close(done)
	}()
	// the timer only decides when to look; a Wait() that does not return is a violation iff, in two
	// goroutine dumps, no callback is running and every goroutine of the loop is parked on a channel
	// or a lock (nobody is left who could let it return); otherwise the run is inconclusive
	finished := false
	for look := 0; look < 9 && !finished; look++ {
		select {
		case <-done:
			finished = true
		case <-time.After(10 * time.Second):
			if look == 0 {
				close(abandon) // the Errors() pollers are inside the loop's packages too: they leave first
				pollWG.Wait()
			}
			if why := loopIsStuck(rec); why != "" {
				firstMu.Lock()
				fp := failPath
				firstMu.Unlock()
				r.Violate("wait-never-returns", fmt.Sprintf("Loop.Wait() does not return (fault %q at %q): %s", cfg.Fault, fp, why), map[string]any{"cfg": cfg})
				return
			}
		}
	}
	if !finished {
		r.Inconclusive = "loop did not finish within the 90 s watchdog"
		return
	}
	pollWG.Wait()
	firstMu.Lock()
	failPath = failPath + ""
	firstMu.Unlock()
	r.AddObs("error_list_polls_during_faulty_runs", atomic.LoadInt64(&polls))
	if shrunk > 0 {
		r.Violate("error-list-shrank", fmt.Sprintf("a goroutine polling Errors() saw the list get shorter %d times", shrunk), map[string]any{"cfg": cfg})
	}
	// give straggling callbacks (there must be none) a chance to show up
	for i := 0; i < 3; i++ {
		runtime.Gosched()
	}
	if cfg.Fault == "cb-then-readdir" {
		firstMu.Lock()
		cbFailed := firstTaken
		firstMu.Unlock()
		judgeScopeFault(r, rec, cfg, wantF, wantD, errs, cbFailed)
		has := func(want error) bool {
			for _, e := range errs {
				if e != nil && (errors.Is(e, want) || strings.Contains(e.Error(), want.Error())) {
					return true
				}
			}
			return false
		}
		wit := map[string]any{"cfg": cfg, "late_listing": failPath}
		if cbFailed && !has(cbFirstErr) {
			r.Violate("error-lost", fmt.Sprintf("the first file callback returned %v, which is not in Errors() = %v", cbFirstErr, errs), wit)
		}
		if atomic.LoadInt64(&bFailed) == 1 {
			r.AddObs("callbacks_that_failed_after_the_loop_was_killed", 1)
			if !has(cbSecondErr) {
				r.Violate("error-lost", fmt.Sprintf("a second file callback returned %v after the loop had been killed by the first failing callback; it is not in Errors() = %v", cbSecondErr, errs), wit)
			}
		}
		switch atomic.LoadInt64(&bVerdict) {
		case 1:
			r.AddObs("listing_failures_after_the_kill_found_in_the_error_list", 1)
			if !has(failErr) {
				r.Violate("error-lost", fmt.Sprintf("the listing error %v was in the error list while a callback was still running and is missing from Errors() = %v after Wait()", failErr, errs), wit)
			}
		case 2:
			r.Violate("error-lost", fmt.Sprintf("the listing of %q failed with %v after the loop had been killed by a failing callback, while another callback was still running (Wait() had not returned); every producer goroutine has gone and Errors() = %v lacks the listing error", failPath, failErr, errs), wit)
		default:
			r.AddObs("late_listing_runs_without_verdict", 1)
		}
	} else if scopeFault {
		judgeScopeFault(r, rec, cfg, wantF, wantD, errs, atomic.LoadInt64(&scopeFired) == 1)
	} else {
		judge(r, rec, cfg, wantF, wantD, errs, failErr, failPath)
	}
	sigMu.Lock()
	r.Key = fmt.Sprintf("%+v|%s|%d|%d", cfg, string(sig), len(wantF), len(wantD))
	sigMu.Unlock()
	for k, v := range hits {
		r.AddObs("hook_hits_"+k, atomic.LoadInt64(v))
	}
	r.AddObs("readdir_calls", atomic.LoadInt64(&src.reads))
}

// loopIsStuck: "" unless no callback is running and, in two dumps half a second apart, there are
// goroutines inside fsloop / jobsync and every one of them is parked on a channel or a lock.
func loopIsStuck(rec *recorder) string {
	look := func() (int, bool) {
		if atomic.LoadInt64(&rec.inflight) != 0 {
			return 0, false
		}
		buf := make([]byte, 16<<20)
		n, parked := 0, true
		for _, blk := range strings.Split(string(buf[:runtime.Stack(buf, true)]), "\n\n") {
			if !strings.Contains(blk, "goatcore/filesystem/fsloop") && !strings.Contains(blk, "goatcore/workers/jobsync") {
				continue
			}
			n++
			head := blk
			if i := strings.IndexByte(blk, '\n'); i >= 0 {
				head = blk[:i]
			}
			if !(strings.Contains(head, "[chan send") || strings.Contains(head, "[chan receive") || strings.Contains(head, "[select") || strings.Contains(head, "[sync.") || strings.Contains(head, "[semacquire")) {
				parked = false
			}
		}
		return n, parked
	}
	n1, p1 := look()
	if n1 == 0 || !p1 {
		return ""
	}
	time.Sleep(500 * time.Millisecond)
	n2, p2 := look()
	if n2 == 0 || !p2 {
		return ""
	}
	return fmt.Sprintf("no callback is running and all %d goroutines inside the loop are parked on channels or locks in two dumps", n2)
}

// judgeScopeFault: a kill / error event on the loop's scope may end the walk early, but never
// silently – "with no error nothing is skipped": an empty error list means every selected node
// got its callback; in any case nothing runs twice, nothing unexpected, nothing after Wait.
func judgeScopeFault(r *sup.CaseResult, rec *recorder, cfg runCfg, wantF, wantD map[string]bool, errs []error, fired bool) {
	rec.mu.Lock()
	evs := append([]event{}, rec.events...)
	rec.mu.Unlock()
	wit := map[string]any{"cfg": cfg, "expected_files": len(wantF), "expected_dirs": len(wantD), "event_fired": fired}
	gotF, gotD := map[string]int{}, map[string]int{}
	var waitedSeq int64 = -1
	for _, e := range evs {
		switch e.kind {
		case "enter-file":
			gotF[e.path]++
		case "enter-dir":
			gotD[e.path]++
		case "waited":
			waitedSeq = e.seq
		}
	}
	for _, e := range evs {
		if waitedSeq >= 0 && e.seq > waitedSeq {
			r.Violate("callback-after-wait", fmt.Sprintf("%s %q logged after Wait() returned", e.kind, e.path), wit)
			break
		}
	}
	for p, n := range gotF {
		if n > 1 {
			r.Violate("file-repeated", fmt.Sprintf("file callback ran %d times for %q", n, p), wit)
		}
		if !wantF[p] {
			r.Violate("file-unexpected", fmt.Sprintf("file callback for %q, which is filtered out / under a rejected directory / not in the tree", p), wit)
		}
	}
	for p, n := range gotD {
		if n > 1 {
			r.Violate("dir-repeated", fmt.Sprintf("directory callback ran %d times for %q", n, p), wit)
		}
		if !wantD[p] {
			r.Violate("dir-unexpected", fmt.Sprintf("directory callback for %q, which is filtered out or not in the tree", p), wit)
		}
	}
	skipped := len(wantF) + len(wantD) - len(gotF) - len(gotD)
	if len(errs) == 0 && skipped > 0 {
		r.Violate("node-skipped", fmt.Sprintf("Errors() is empty, but %d of %d selected nodes never got their callback (a %s fired on the loop's scope during the walk: %v)", skipped, len(wantF)+len(wantD), cfg.Fault, fired), wit)
	}
	if fired {
		r.AddObs("loops_ended_by_an_event_on_their_scope", 1)
		if skipped > 0 {
			r.AddObs("loops_ended_by_an_event_that_skipped_nodes_and_said_so", 1)
		}
	}
	r.AddObs("events", int64(len(evs)))
	r.AddObs("callbacks", int64(len(gotF)+len(gotD)))
	r.AddObs("runs", 1)
	r.Nontrivial = len(wantF)+len(wantD) > 0
}

// producersGone: no goroutine of a fsloop producer exists in the process (a stop-the-world fact).
func producersGone() bool {
	buf := make([]byte, 8<<20)
	for _, blk := range strings.Split(string(buf[:runtime.Stack(buf, true)]), "\n\n") {
		if strings.Contains(blk, "fsloop.(*Producer)") {
			return false
		}
	}
	return true
}

func judge(r *sup.CaseResult, rec *recorder, cfg runCfg, wantF, wantD map[string]bool, errs []error, failErr error, failPath string) {
	rec.mu.Lock()
	evs := append([]event{}, rec.events...)
	rec.mu.Unlock()
	wit := map[string]any{"cfg": cfg, "expected_files": len(wantF), "expected_dirs": len(wantD)}
	gotF, gotD := map[string]int{}, map[string]int{}
	var waitedSeq int64 = -1
	for _, e := range evs {
		switch e.kind {
		case "enter-file":
			gotF[e.path]++
		case "enter-dir":
			gotD[e.path]++
		case "waited":
			waitedSeq = e.seq
		}
	}
	for _, e := range evs {
		if waitedSeq >= 0 && e.seq > waitedSeq {
			r.Violate("callback-after-wait", fmt.Sprintf("%s %q logged after Wait() returned", e.kind, e.path), wit)
			break
		}
	}
	for p, n := range gotF {
		if n > 1 {
			r.Violate("file-repeated", fmt.Sprintf("file callback ran %d times for %q", n, p), wit)
		}
		if !wantF[p] {
			r.Violate("file-unexpected", fmt.Sprintf("file callback for %q, which is filtered out / under a rejected directory / not in the tree", p), wit)
		}
	}
	for p, n := range gotD {
		if n > 1 {
			r.Violate("dir-repeated", fmt.Sprintf("directory callback ran %d times for %q", n, p), wit)
		}
		if !wantD[p] {
			r.Violate("dir-unexpected", fmt.Sprintf("directory callback for %q, which is filtered out or not in the tree", p), wit)
		}
	}
	if max := atomic.LoadInt64(&rec.maxIn); max > int64(effConsumers(cfg.C)) {
		r.Violate("too-many-concurrent-callbacks", fmt.Sprintf("%d callbacks ran at once, consumer limit is %d", max, effConsumers(cfg.C)), wit)
	}
	if n := atomic.LoadInt64(&rec.inflight); n != 0 {
		r.Violate("callback-running-after-wait", fmt.Sprintf("%d callbacks still running after Wait() returned", n), wit)
	}
	if failErr == nil {
		if len(errs) != 0 {
			r.Violate("spurious-error", fmt.Sprintf("no fault injected but Errors() = %v", errs), wit)
		}
		var missing []string
		for p := range wantF {
			if gotF[p] == 0 {
				missing = append(missing, p)
			}
		}
		for p := range wantD {
			if gotD[p] == 0 {
				missing = append(missing, p+"/")
			}
		}
		if len(missing) > 0 {
			sort.Strings(missing)
			if len(missing) > 8 {
				missing = append(missing[:8], fmt.Sprintf("… %d more", len(missing)-8))
			}
			r.Violate("node-skipped", fmt.Sprintf("no error, but %d of %d selected nodes never got their callback: %v", len(wantF)+len(wantD)-len(gotF)-len(gotD), len(wantF)+len(wantD), missing), wit)
		}
	} else {
		found := false
		for _, e := range errs {
			if e != nil && (errors.Is(e, failErr) || strings.Contains(e.Error(), failErr.Error())) {
				found = true
			}
		}
		// the fault only fires if the failing node was reached
		reached := cfg.Fault == "readdir" || gotF[failPath] > 0 || gotD[failPath] > 0
		if cfg.Fault == "file-cb-first" && reached {
			r.AddObs("loops_killed_by_the_first_callback_of_a_tree_wider_than_the_queue", 1)
		}
		if reached && !found {
			r.Violate("error-lost", fmt.Sprintf("injected %v at %q is not in Errors() = %v", failErr, failPath, errs), wit)
		}
		if reached {
			r.AddObs("faults_injected", 1)
		}
	}
	r.AddObs("events", int64(len(evs)))
	r.AddObs("callbacks", int64(len(gotF)+len(gotD)))
	r.AddObs("runs", 1)
	r.AddObs(fmt.Sprintf("max_inflight_%02d", atomic.LoadInt64(&rec.maxIn)), 1)
	r.Nontrivial = len(wantF)+len(wantD) > 0
}

// ---- controlled schedule: the lost-item window ---------------------------------------------------

func runScript(r *sup.CaseResult, rng *rand.Rand, cfg runCfg) {
	// tree: a few root files, one directory "late" with files whose listing is gated
	t := &tree{dirs: []string{"late"}}
	nroot := rng.Intn(3)
	for i := 0; i < nroot; i++ {
		t.files = append(t.files, fmt.Sprintf("r%d", i))
	}
	nlate := 1 + rng.Intn(3)
	for i := 0; i < nlate; i++ {
		t.files = append(t.files, fmt.Sprintf("late/l%d", i))
	}
	// root files are created before the directory so that the root listing (creation order)
	// reaches them before the gated directory even when the single producer recurses in place
	base, err := memfs.NewFilespace()
	if err == nil {
		for _, f := range t.files {
			if err == nil {
				err = base.WriteFile(f, []byte("content of "+f), 0644)
			}
		}
	}
	if err != nil {
		r.Inconclusive = err.Error()
		return
	}
	src := &srcFS{Wrap: mfs.Wrap{Inner: base}, gatePath: "./late", gate: make(chan struct{}), gateHit: make(chan struct{})}
	c := effConsumers(cfg.C)
	var preDone int64 // callbacks completed before the gate opens
	preWant := int64(nroot)
	var armed, released int32
	var parked int64
	release := make(chan struct{})
	closedHit := make(chan struct{})
	var closedOnce sync.Once
	parkAt := "fsloop.consumer." + cfg.Script
	var hitsPark, hitsClosed int64
	verifhook.Set(func(pt string) {
		switch pt {
		case "fsloop.closed":
			atomic.AddInt64(&hitsClosed, 1)
			closedOnce.Do(func() { close(closedHit) })
		case parkAt:
			if atomic.LoadInt32(&armed) == 1 && atomic.LoadInt32(&released) == 0 {
				atomic.AddInt64(&hitsPark, 1)
				atomic.AddInt64(&parked, 1)
				<-release
			}
		}
	})
	defer verifhook.Set(nil)
	rec := &recorder{}
	var dst filesystem.Filespace
	var copyErr error
	done := make(chan struct{})
	var loop *fsloop.Loop
	if cfg.ViaCopy {
		dst, _ = memfs.NewFilespace()
		c = 1
		preWant = int64(nroot) // Copy's OnFile for root files; OnDir("late") comes before the gate too
		go func() {
			copyErr = fshelper.Copy(&countFS{Wrap: mfs.Wrap{Inner: src}, done: &preDone}, dst, nil)
			close(done)
		}()
	} else {
		data := &fsloop.LoopData{Filespace: src, Consumers: cfg.C, Producents: cfg.P,
			OnFile: func(fs filesystem.Filespace, p string) error {
				rec.enter("file", p)
				rec.exit("file", p)
				if !strings.HasPrefix(p, "./late/") {
					atomic.AddInt64(&preDone, 1)
				}
				return nil
			}}
		loop = fsloop.NewLoop(data, nil)
		go func() {
			loop.Run("")
			loop.Wait()
			rec.add("waited", "")
			close(done)
		}()
	}
	waitFor := func(what string, cond func() bool) bool {
		deadline := time.Now().Add(30 * time.Second)
		for !cond() {
			if time.Now().After(deadline) {
				r.Inconclusive = "scripted schedule: " + what + " not reached within the watchdog"
				return false
			}
			time.Sleep(200 * time.Microsecond)
		}
		return true
	}
	finish := func() {
		atomic.StoreInt32(&released, 1)
		select {
		case <-release:
		default:
			close(release)
		}
		select {
		case <-src.gate:
		default:
			close(src.gate)
		}
		<-done
	}
	// 1. the producer is blocked in the gated listing and all earlier callbacks are done
	select {
	case <-src.gateHit:
	case <-time.After(30 * time.Second):
		r.Inconclusive = "scripted schedule: gated ReadDir never reached"
		finish()
		return
	}
	if !waitFor("pre-gate callbacks", func() bool { return atomic.LoadInt64(&preDone) >= preWant }) {
		finish()
		return
	}
	// 2. park every consumer at the hook point (each has seen / is about to see empty queues)
	atomic.StoreInt32(&armed, 1)
	if !waitFor(fmt.Sprintf("all %d consumers parked at %s", c, parkAt), func() bool { return atomic.LoadInt64(&parked) >= int64(c) }) {
		finish()
		return
	}
	// 3. let the producer list the late directory, enqueue, finish; wait for the close announcement
	close(src.gate)
	select {
	case <-closedHit:
	case <-time.After(30 * time.Second):
		r.Inconclusive = "scripted schedule: close announcement never reached"
		finish()
		return
	}
	// 4. release the consumers
	atomic.StoreInt32(&released, 1)
	close(release)
	select {
	case <-done:
	case <-time.After(60 * time.Second):
		r.Inconclusive = "scripted schedule: loop did not finish after release"
		return
	}
	wit := map[string]any{"cfg": cfg, "late_files": nlate, "root_files": nroot, "consumers": c}
	if cfg.ViaCopy {
		var missing []string
		for _, f := range t.files {
			if !dst.IsFile(f) {
				missing = append(missing, f)
			}
		}
		if len(missing) > 0 && copyErr == nil {
			r.Violate("copy-incomplete-without-error", fmt.Sprintf("fshelper.Copy returned nil but %v are missing in the destination (consumer parked at %s while the last directory was listed)", missing, parkAt), wit)
		}
	} else {
		wantF, wantD := expected(t, filters{}, false, true)
		judge(r, rec, cfg, wantF, wantD, loop.Errors(), nil, "")
	}
	r.AddObs("scripted_runs", 1)
	r.AddObs("script_parked_hits", atomic.LoadInt64(&hitsPark))
	r.AddObs("script_closed_hits", atomic.LoadInt64(&hitsClosed))
	r.Key = fmt.Sprintf("script|%+v|%d|%d", cfg, nroot, nlate)
	r.Nontrivial = true
}

// countFS counts completed Reader opens of non-late files (fshelper.Copy's pre-gate callbacks).
type countFS struct {
	mfs.Wrap
	done *int64
}

func (c *countFS) Reader(p string) (filesystem.Reader, error) {
	r, err := c.Inner.Reader(p)
	if err == nil && !strings.Contains(p, "late/") {
		return &countReader{Reader: r, done: c.done}, nil
	}
	return r, err
}

type countReader struct {
	filesystem.Reader
	done *int64
}

func (c *countReader) Close() error {
	err := c.Reader.Close()
	atomic.AddInt64(c.done, 1)
	return err
}

// ---- plan ----------------------------------------------------------------------------------------

func genCfg(rng *rand.Rand, idx int) runCfg {
	shapes := []string{"random", "random", "random", "random", "empty", "single", "chain", "random", "random", "random"}
	cfg := runCfg{Shape: shapes[idx%len(shapes)], P: rng.Intn(17), C: rng.Intn(17), OnDir: rng.Intn(4) > 0, OnFile: rng.Intn(6) > 0,
		UseDirF: rng.Intn(2) == 0, UseFileF: rng.Intn(2) == 0, Noise: rng.Intn(3), Hold: rng.Intn(4)}
	if idx%97 == 13 {
		cfg.Shape = "wide1100"
	}
	if idx%397 == 31 {
		cfg.Shape = "wide2300"
	}
	if idx%29 == 11 && cfg.Shape == "random" {
		// two failures in a fixed order: a callback fails first (the loop is killed), then a listing
		// that was under way fails, while another callback is still running (so Wait cannot have
		// returned): both errors belong to the loop's error list
		cfg.Fault, cfg.OnFile, cfg.OnDir, cfg.UseFileF, cfg.UseDirF, cfg.C = "cb-then-readdir", true, false, false, false, 2+rng.Intn(3)
		return cfg
	}
	if idx%10 == 3 && cfg.Shape == "random" {
		cfg.Disk = true
	}
	if idx%23 == 7 && !strings.HasPrefix(cfg.Shape, "wide") {
		// the loop is bound to an event scope and a kill / error event fires on that scope from
		// inside the k-th callback: nodes may be skipped then, but never silently
		cfg.Fault, cfg.OnFile = []string{"scope-kill", "scope-error"}[rng.Intn(2)], true
		return cfg
	}
	if strings.HasPrefix(cfg.Shape, "wide") && idx%2 == 1 {
		// more files than the queue holds, one or two slow consumers, and the very first file
		// callback fails after the producer has had time to fill the queue and park on it: the
		// loop is killed while a producer is blocked – Wait must still return, with the error
		cfg.Fault, cfg.OnFile, cfg.UseFileF, cfg.UseDirF, cfg.C, cfg.Hold = "file-cb-first", true, false, false, 1+rng.Intn(2), 3
		return cfg
	}
	switch rng.Intn(8) {
	case 0:
		cfg.Fault = "file-cb"
	case 1:
		cfg.Fault = "dir-cb"
	case 2:
		cfg.Fault = "readdir"
	}
	return cfg
}

func plan(tier string, seed int64) []sup.Batch {
	nScript, nRand := 96, 3000
	if tier == "thorough" {
		nScript, nRand = 600, 40000
	}
	var bs []sup.Batch
	bs = append(bs, sup.Chunk("script", "script", nScript, (nScript+3)/4, 4, nil)...)
	procs := []int{1, 2, 4, 16}
	per := nRand / 24
	i := 0
	for from := 0; from < nRand; from += per {
		to := from + per
		if to > nRand {
			to = nRand
		}
		bs = append(bs, sup.Batch{Name: fmt.Sprintf("rand-%d", i), Kind: "rand", From: from, To: to, Procs: procs[i%4], TimeoutS: 1500})
		i++
	}
	return bs
}

func main() {
	sup.Main(sup.Prop{
		ID:    "C08",
		Level: "exploration",
		Race:  true,
		Rule: "script: controlled schedule through the verif hooks – every consumer is parked at fsloop.consumer.gap / .between after it has seen empty queues, a gated source then lets the last directory be listed, the close announcement (fsloop.closed) is awaited, the consumers are released; directly on fsloop.Loop (1…16 consumers) and through fshelper.Copy. " +
			"rand: trees (empty, single, chain of 30, fan-out 1100/2300 > channel capacity, random) × hash-keyed dir/file filters × producers/consumers 0…16 × GOMAXPROCS {1,2,4,16} × scheduling noise from the hook callback and the source's ReadDir × one injected callback/listing fault in 3/8 of the runs (1–3 goroutines poll Errors() meanwhile); half of the fan-out trees: one or two consumers and the very first file callback fails once the producer is parked on the full queue – Wait must return and report it (a Wait that does not return is judged from goroutine dumps: no callback running, every goroutine of the loop parked); cb-then-readdir: a first callback fails (killing the loop), a listing held back until the kill is visible fails next, and a second callback – which keeps Wait from returning and in half of the runs fails too – waits until the listing error is listed or a goroutine dump shows no producer goroutine left: both later errors must be in the error list; random trees carry unusual legal names (dots only, hidden, blanks) in one entry in twelve, one in ten lives on a disk filespace with symbolic links to files; half of the injected listing errors are *os.PathError{ENOENT}; event log (enter/exit/waited with one sequence counter) checked offline: exactly-once, nothing unexpected, max in-flight ≤ consumer limit, nothing after Wait, error present iff injected. distinct = distinct (configuration, hook-order signature, tree size)",
		Assumptions: []string{
			"strict mode: after an error skipping is allowed, repetition is not",
			"effective consumer limit = min(Consumers or MaxJob, MaxJob), MaxJob = NumCPU",
			"the loop's lifecycle has a fixed 2-minute deadline (workers.DefaultTimeout); every run is far shorter",
		},
		Plan: plan,
		Run: func(c *sup.Child, b sup.Batch) {
			for idx := b.From; idx < b.To; idx++ {
				rng := c.Rand(idx)
				var cfg runCfg
				if b.Kind == "script" {
					cfg = runCfg{Script: []string{"gap", "between"}[idx%2], C: []int{1, 2, 4, 1, 3, 16}[(idx/2)%6], P: []int{1, 2, 0}[(idx/12)%3], OnFile: true, ViaCopy: idx%5 == 4}
				} else {
					cfg = genCfg(rng, idx)
				}
				c.Case(idx, map[string]any{"cfg": cfg}, func(r *sup.CaseResult) {
					if cfg.Script != "" {
						runScript(r, rng, cfg)
					} else {
						runLoop(r, rng, cfg)
					}
					if idx%300 == 0 {
						r.Sample = map[string]any{"cfg": cfg, "observed": r.Obs}
					}
				})
			}
		},
		Finish: func(t *sup.Totals) string {
			if t.Obs["scripted_runs"] == 0 || t.Obs["script_parked_hits"] == 0 || t.Obs["script_closed_hits"] == 0 {
				return "the scripted schedule never reached its hook points"
			}
			if t.Obs["runs"] < 100 || t.Obs["callbacks"] < 1000 {
				return "too few observed runs/callbacks"
			}
			if t.Obs["loops_killed_by_the_first_callback_of_a_tree_wider_than_the_queue"] == 0 || t.Obs["error_list_polls_during_faulty_runs"] == 0 {
				return "the kill-while-the-producer-is-parked scenario / the error-list pollers observed nothing"
			}
			return ""
		},
		RaceAnchors: []string{"filesystem/fsloop/", "workers/jobsync/"},
		RaceDecides: true,
	})
}
