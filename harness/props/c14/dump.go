package main

import (
	"runtime"
	"strconv"
	"strings"
)

// gInfo is one goroutine of a full goroutine dump.
type gInfo struct {
	id     int64
	state  string   // wait reason / status without the duration suffix
	frames []string // function lines, innermost first
	raw    string
}

// goid returns the id of the calling goroutine (parsed from its own stack header).
func goid() int64 {
	var buf [64]byte
	n := runtime.Stack(buf[:], false)
	s := strings.TrimPrefix(string(buf[:n]), "goroutine ")
	if k := strings.IndexByte(s, ' '); k > 0 {
		if v, err := strconv.ParseInt(s[:k], 10, 64); err == nil {
			return v
		}
	}
	return -1
}

// dumpAll takes a stop-the-world snapshot of every goroutine.
func dumpAll() map[int64]*gInfo {
	buf := make([]byte, 1<<16)
	for {
		n := runtime.Stack(buf, true)
		if n < len(buf) {
			buf = buf[:n]
			break
		}
		buf = make([]byte, 2*len(buf))
	}
	out := map[int64]*gInfo{}
	for _, blk := range strings.Split(string(buf), "\n\n") {
		blk = strings.TrimSpace(blk)
		if !strings.HasPrefix(blk, "goroutine ") {
			continue
		}
		lines := strings.Split(blk, "\n")
		hd := lines[0]
		rest := strings.TrimPrefix(hd, "goroutine ")
		sp := strings.IndexByte(rest, ' ')
		if sp < 0 {
			continue
		}
		id, err := strconv.ParseInt(rest[:sp], 10, 64)
		if err != nil {
			continue
		}
		st := rest[sp+1:]
		if i := strings.IndexByte(st, '['); i >= 0 {
			st = st[i+1:]
		}
		if i := strings.IndexByte(st, ']'); i >= 0 {
			st = st[:i]
		}
		if i := strings.IndexByte(st, ','); i >= 0 {
			st = st[:i]
		}
		g := &gInfo{id: id, state: strings.TrimSpace(st), raw: blk}
		for _, ln := range lines[1:] {
			if strings.HasPrefix(ln, "\t") || strings.HasPrefix(ln, "created by ") {
				continue
			}
			g.frames = append(g.frames, ln)
		}
		out[id] = g
	}
	return out
}

// syncWait lists the scheduler wait reasons of a goroutine parked in a sync primitive.
var syncWait = map[string]bool{
	"sync.RWMutex.Lock":  true,
	"sync.RWMutex.RLock": true,
	"sync.Mutex.Lock":    true,
	"semacquire":         true,
	"sync.Cond.Wait":     true,
}

// parkedIn reports whether g is parked in a sync primitive below a frame whose function
// name contains frag (a stop-the-world fact: such a goroutine runs again only after some
// other goroutine releases the primitive).
func parkedIn(g *gInfo, frag string) bool {
	if g == nil || !syncWait[g.state] {
		return false
	}
	for _, f := range g.frames {
		if strings.Contains(f, frag) {
			return true
		}
	}
	return false
}

const mutexPkgFrag = "commonm/commservices/mutex."
