package main

import (
	"fmt"
	"math/rand"
	"strings"
)

// A program is a task graph: top-level tasks t0…t(n-1) (wait list = names of other top-level
// tasks), bodies of 1–3 commands, a command being a probe or a nested "pip:run" whose wait
// list names earlier nested siblings of the same body (pip:run prefixes them with the parent's
// task namespace: n1 inside t3 is the task "t3:n1").

type probeSpec struct {
	ID   int    `json:"id"`
	Fail string `json:"fail,omitempty"` // "", "ret" (callback returns an error), "append" (appends to its scope, returns nil), "syntax" (the line cannot be split into arguments: the command never starts)
	Hold int    `json:"hold,omitempty"` // 0 none, 1 K scheduler yields, 2 sleep K µs, 3 gate: until every direct dependant is submitted, then ≤ K rounds
	K    int    `json:"k,omitempty"`
	Take int    `json:"take,omitempty"` // the command reads this many lines from its input; they follow its own line in the body
	task *taskSpec
	pos  int
}

type command struct {
	Probe  *probeSpec
	Nested *taskSpec
}

type taskSpec struct {
	idx     int // index in program.all
	Name    string
	Full    string // name inside the task manager
	Waits   []string
	waitIdx []int  // index in program.all for every wait name, -1 = names nothing in the program
	Bogus   string // "", "unknown", "self", "later": why the wait list cannot be satisfied at submission time
	Body    []command
	parent  *taskSpec
	top     int   // position among the top-level tasks, -1 for nested
	rootTop int   // position of the top-level task whose body (transitively) holds this task
	after   []int // top-level positions whose submission must have returned before this one is submitted
	deps    []int // top-level positions of the direct dependants
}

type program struct {
	Mode       string // separated | shared | script
	Strict     bool   // script: appname terminal --strict=true
	FinalWait  bool   // script: ends with a pip:wait line
	Submitters int
	tops       []*taskSpec
	all        []*taskSpec
	probes     []*probeSpec
	assign     []int // submitter goroutine of every top-level task
	failing    int
	syntax     int // failing commands that leave no log entry of their own: malformed lines, refused nested submissions
	bogus      int
	nested     int
}

func (p *program) newTask(name string, parent *taskSpec, top int) *taskSpec {
	t := &taskSpec{idx: len(p.all), Name: name, parent: parent, top: top, rootTop: top}
	if parent != nil {
		t.Full = parent.Full + ":" + name
		t.rootTop = parent.rootTop
	} else {
		t.Full = name
	}
	p.all = append(p.all, t)
	return t
}

func (p *program) newProbe(t *taskSpec, pos int) *probeSpec {
	pr := &probeSpec{ID: len(p.probes), task: t, pos: pos}
	p.probes = append(p.probes, pr)
	return pr
}

func randHold(rng *rand.Rand, pr *probeSpec) {
	switch rng.Intn(5) {
	case 0, 1:
	case 2, 3:
		pr.Hold, pr.K = 1, 1+rng.Intn(8)
	default:
		pr.Hold, pr.K = 2, 1+rng.Intn(200)
	}
}

// genProgram draws one program. kind: "direct" (drivers on PipRunner.Run) or "script".
func genProgram(rng *rand.Rand, kind string) *program {
	p := &program{}
	if kind == "script" {
		p.Mode = "script"
		p.Strict = rng.Intn(2) == 0
		p.FinalWait = rng.Intn(3) != 0
	} else if rng.Intn(10) < 7 {
		p.Mode = "separated"
	} else {
		p.Mode = "shared"
	}
	n := 2 + rng.Intn(7)
	if kind == "script" {
		n = 2 + rng.Intn(4)
	}
	pWait := []float64{0.25, 0.45, 0.7}[rng.Intn(3)]
	pFail := []float64{0, 0, 0.15, 0.35}[rng.Intn(4)]
	pNested := []float64{0, 0.12, 0.3}[rng.Intn(3)]
	failKinds := []string{"ret", "append", "ret", "append", "syntax"}
	if rng.Intn(7) == 0 { // now and then a program whose failures are all malformed lines
		failKinds, pFail = []string{"syntax"}, 0.6
	}
	bogusAt := -1
	if rng.Intn(6) == 0 {
		bogusAt = rng.Intn(n)
	}
	for i := 0; i < n; i++ {
		t := p.newTask(fmt.Sprintf("t%d", i), nil, i)
		p.tops = append(p.tops, t)
		for j := 0; j < i; j++ {
			if len(t.Waits) < 3 && rng.Float64() < pWait {
				t.Waits = append(t.Waits, p.tops[j].Name)
				t.waitIdx = append(t.waitIdx, p.tops[j].idx)
				t.after = append(t.after, j)
				p.tops[j].deps = append(p.tops[j].deps, i)
			}
		}
		if i == bogusAt {
			p.bogus++
			k := rng.Intn(3)
			if k == 2 && i == n-1 {
				k = 0
			}
			switch k {
			case 0:
				t.Bogus = "unknown"
				t.Waits = append(t.Waits, "ghost")
				t.waitIdx = append(t.waitIdx, -1)
			case 1:
				t.Bogus = "self"
				t.Waits = append(t.Waits, t.Name)
				t.waitIdx = append(t.waitIdx, t.idx)
			default:
				t.Bogus = "later" // resolved below, once the later task exists
			}
			rng.Shuffle(len(t.Waits), func(a, b int) {
				t.Waits[a], t.Waits[b] = t.Waits[b], t.Waits[a]
				t.waitIdx[a], t.waitIdx[b] = t.waitIdx[b], t.waitIdx[a]
			})
		}
		nc := 1 + rng.Intn(3)
		for c := 0; c < nc; c++ {
			if c > 0 && rng.Float64() < pNested {
				p.nested++
				nt := p.newTask(fmt.Sprintf("n%d", c), t, -1)
				// wait list: earlier nested siblings of this body
				for _, prev := range t.Body {
					if prev.Nested != nil && rng.Intn(2) == 0 {
						nt.Waits = append(nt.Waits, prev.Nested.Name)
						nt.waitIdx = append(nt.waitIdx, prev.Nested.idx)
					}
				}
				if rng.Intn(12) == 0 {
					p.bogus++
					p.syntax++
					nt.Bogus = "unknown"
					nt.Waits = append(nt.Waits, "ghost")
					nt.waitIdx = append(nt.waitIdx, -1)
				}
				nn := 1 + rng.Intn(2)
				for k := 0; k < nn; k++ {
					pr := p.newProbe(nt, k)
					randHold(rng, pr)
					nt.Body = append(nt.Body, command{Probe: pr})
				}
				if rng.Float64() < pFail {
					fp := nt.Body[rng.Intn(len(nt.Body))].Probe
					fp.Fail = failKinds[rng.Intn(len(failKinds))]
					if fp.Fail == "syntax" {
						p.syntax++
					}
					p.failing++
				}
				t.Body = append(t.Body, command{Nested: nt})
				continue
			}
			pr := p.newProbe(t, c)
			randHold(rng, pr)
			t.Body = append(t.Body, command{Probe: pr})
		}
		if rng.Float64() < pFail {
			var own []*probeSpec
			for _, c := range t.Body {
				if c.Probe != nil {
					own = append(own, c.Probe)
				}
			}
			fp := own[rng.Intn(len(own))]
			fp.Fail = failKinds[rng.Intn(len(failKinds))]
			if fp.Fail == "syntax" {
				p.syntax++
			}
			p.failing++
		}
	}
	for _, t := range p.tops {
		if t.Bogus == "later" {
			j := t.top + 1 + rng.Intn(n-t.top-1)
			t.Waits = append(t.Waits, p.tops[j].Name)
			t.waitIdx = append(t.waitIdx, p.tops[j].idx)
			p.tops[j].after = append(p.tops[j].after, t.top) // the later task is submitted only after this refusal
		}
	}
	// gates: a prerequisite with dependants holds one of its own probes until every direct
	// dependant has been submitted, so that a dependant that does not wait is caught beginning.
	if p.Mode != "script" {
		for _, t := range p.tops {
			if len(t.deps) == 0 || rng.Intn(10) >= 7 {
				continue
			}
			var own []*probeSpec
			for _, c := range t.Body {
				if c.Probe != nil && c.Probe.Fail != "syntax" {
					own = append(own, c.Probe)
				}
			}
			if len(own) == 0 {
				continue
			}
			g := own[rng.Intn(len(own))]
			g.Hold, g.K = 3, 20+rng.Intn(100)
		}
		p.Submitters = 1 + rng.Intn(4)
		for range p.tops {
			p.assign = append(p.assign, rng.Intn(p.Submitters))
		}
	}
	// now and then a command consumes input itself: the lines that follow its own line in the body
	// are its data, not commands (the loop reads the next command only after this one returned)
	for _, pr := range p.probes {
		if pr.Fail == "" && rng.Intn(7) == 0 {
			pr.Take = 1 + rng.Intn(2)
		}
	}
	return p
}

func letters(n int) string {
	s := ""
	for {
		s = string(rune('A'+n%26)) + s
		n = n/26 - 1
		if n < 0 {
			return s
		}
	}
}

// dataLines are the input lines a taking probe must receive (it reads them the way the command loop
// reads commands: varutil.ReadArguments on the shared input, one call per line).
func dataLines(pr *probeSpec) []string {
	var out []string
	for k := 0; k < pr.Take; k++ {
		out = append(out, fmt.Sprintf("datum-%d-%d \"two  blanks\" tab\tseparated", pr.ID, k))
	}
	return out
}

func probeLine(pr *probeSpec) string {
	s := fmt.Sprintf("probe --id=%d", pr.ID)
	if pr.Take > 0 {
		return s + fmt.Sprintf(" --take=%d\n", pr.Take) + strings.Join(dataLines(pr), "\n")
	}
	switch pr.Fail {
	case "":
	case "syntax":
		// an opening quote pairs with the next quote anywhere in the rest of the body, so the
		// unterminated form is used only where nothing follows: the last command of a top-level body
		// (nested bodies are part of their parent's text)
		if t := pr.task; pr.ID%2 == 1 && t != nil && t.parent == nil && pr.pos == len(t.Body)-1 && !strings.Contains(bodyPrefix(t, pr.pos), "\"") {
			s += " --fail=\"never closed" // the input ends inside the quote: ReadArguments reports io.EOF as an error
		} else {
			s += " --fail=<<7" // a multi-line marker may hold letters and '_' only: ReadArguments reports an error
		}
	default:
		s += " --fail=" + pr.Fail
	}
	return s
}

// bodyPrefix renders the commands of a body before position pos.
func bodyPrefix(t *taskSpec, pos int) string {
	var lines []string
	for i, c := range t.Body {
		if i >= pos {
			break
		}
		if c.Probe != nil {
			lines = append(lines, probeLine(c.Probe))
		} else {
			lines = append(lines, runLine(c.Nested))
		}
	}
	return strings.Join(lines, "\n")
}

// bodyText renders the body of a task as the script its sandbox reads.
func bodyText(t *taskSpec) string {
	var lines []string
	for _, c := range t.Body {
		if c.Probe != nil {
			lines = append(lines, probeLine(c.Probe))
			continue
		}
		lines = append(lines, runLine(c.Nested))
	}
	return strings.Join(lines, "\n")
}

// runLine renders a task as a pip:run line (nested submissions and script lines).
func runLine(t *taskSpec) string {
	var sb strings.Builder
	fmt.Fprintf(&sb, "pip:run --name=%s", t.Name)
	if len(t.Waits) > 0 {
		fmt.Fprintf(&sb, " --wait=%s", strings.Join(t.Waits, ","))
	}
	tag := "BODY" + letters(t.idx) // the terminal accepts letters and '_' only in a multi-line marker
	fmt.Fprintf(&sb, " --silent=true --body=<<%s\n%s\n%s", tag, bodyText(t), tag)
	return sb.String()
}

func (p *program) scriptText() string {
	var sb strings.Builder
	sb.WriteString("\n")
	for _, t := range p.tops {
		sb.WriteString(runLine(t))
		sb.WriteString("\n")
	}
	if p.FinalWait {
		sb.WriteString("pip:wait\n")
	}
	return sb.String()
}

// describe is the JSON-able form written to the event log before the case runs.
func (p *program) describe() map[string]any {
	var ts []map[string]any
	for _, t := range p.tops {
		m := map[string]any{"name": t.Name, "wait": t.Waits, "body": bodyText(t)}
		if t.Bogus != "" {
			m["bogus"] = t.Bogus
		}
		if p.Mode != "script" {
			m["submitter"] = p.assign[t.top]
		}
		ts = append(ts, m)
	}
	holds := map[string]string{}
	for _, pr := range p.probes {
		if pr.Hold != 0 {
			holds[fmt.Sprint(pr.ID)] = fmt.Sprintf("%s:%d", []string{"", "yield", "sleep_us", "gate_rounds"}[pr.Hold], pr.K)
		}
	}
	d := map[string]any{"mode": p.Mode, "tasks": ts, "holds": holds}
	if p.Mode == "script" {
		d["strict"] = p.Strict
		d["script"] = p.scriptText()
	} else {
		d["submitters"] = p.Submitters
	}
	return d
}

func (p *program) key() string {
	var sb strings.Builder
	sb.WriteString(p.Mode)
	if p.Strict {
		sb.WriteString("|strict")
	}
	for _, t := range p.tops {
		fmt.Fprintf(&sb, "|%s<%s>{%s}", t.Name, strings.Join(t.Waits, ","), bodyText(t))
	}
	return sb.String()
}

// dataArgs is what ReadArguments must return for the k-th data line of pr.
func dataArgs(pr *probeSpec, k int) string {
	return fmt.Sprintf("datum-%d-%d|two  blanks|tab|separated", pr.ID, k)
}
