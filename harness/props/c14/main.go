// C14 – pipeline tasks honour wait lists and never run after a failed prerequisite.
//
// Runtime monitor (DESIGN.md "### C14"). Subject: the application stack as the repository's
// story tests build it (goatapp.NewMockupApp + bootstrap with terminalm, commonm, ocm,
// pipelinem) with a "probe" command registered in the application's terminal. Programs are
// random task graphs (2…8 tasks, wait list = any subset of earlier tasks, bodies of 1–3
// commands, any subset failing at any command position by returning an error or by appending one
// to the command's scope, nested pip:run lines inside bodies, submissions whose wait list cannot
// be satisfied).
//
//	direct   PipRunner.Run called from 1…4 goroutines; "separated": every submission in a scope
//	         with a context of its own sharing one task manager (what pip:try does), "shared":
//	         all submissions in one scope
//	script   the same programs as terminal scripts read by "appname terminal" (strict / not),
//	         optionally ending with pip:wait
//
// Oracles (offline, over the probe log and the task objects): wait order; no body after a failed
// prerequisite and the skipped task ends failed; script order inside a body and nothing after a
// failing command; a wait list naming a task that does not exist is refused; every accepted
// submission finishes and TasksManager.Wait returns (progress monitor with logical-deadlock
// diagnosis from goroutine snapshots) with an error iff a task failed; non-vacuity.
package main

import (
	"fmt"

	"verif/internal/sup"

	"github.com/goatcms/goatcore/app/goatapp"
)

var procCycle = []int{4, 1, 2, 8, 2, 4, 1, 2}

func chunkVar(name, kind string, n, nb int) []sup.Batch {
	var out []sup.Batch
	if n <= 0 {
		return nil
	}
	per := (n + nb - 1) / nb
	for i, from := 0, 0; from < n; i, from = i+1, from+per {
		to := from + per
		if to > n {
			to = n
		}
		out = append(out, sup.Batch{Name: fmt.Sprintf("%s-%d", name, i), Kind: kind, From: from, To: to,
			Procs: procCycle[i%len(procCycle)], TimeoutS: 1500, MemMB: 3072})
	}
	return out
}

func plan(tier string, seed int64) []sup.Batch {
	nDirect, nScript, nb := 800, 160, 12
	if tier == "thorough" {
		nDirect, nScript, nb = 16000, 2400, 24
	}
	var bs []sup.Batch
	bs = append(bs, chunkVar("direct", "direct", nDirect, nb)...)
	bs = append(bs, chunkVar("script", "script", nScript, 4)...)
	bs = append(bs, chunkVar("late", "late", nDirect/4, 4)...)
	return bs
}

func runBatch(c *sup.Child, b sup.Batch) {
	if b.Kind == "late" {
		runLate(c, b)
		return
	}
	viol := 0
	for idx := b.From; idx < b.To; idx++ {
		if viol >= 6 {
			return // enough witnesses; goroutines of deadlocked cases stay parked in this process
		}
		rng := c.Rand(idx)
		p := genProgram(rng, b.Kind)
		c.Case(idx, p.describe(), func(r *sup.CaseResult) {
			defer func() { viol += len(r.Violations) }()
			x := newRun(p)
			var res *directResult
			var inc string
			if b.Kind == "script" {
				res, inc = x.runScript()
			} else {
				s, err := newStack(x, goatapp.Params{})
				if err == nil {
					err = s.warmUp()
				}
				if err != nil {
					r.Inconclusive = "application stack could not be built: " + err.Error()
					return
				}
				res, inc = x.runDirect(s)
			}
			if inc != "" {
				r.Inconclusive = inc
			}
			check(r, x, res)
			if idx%97 == 3 || (len(r.Violations) == 0 && p.failing > 0 && p.nested > 0 && idx%41 == 0) {
				x.mu.Lock()
				v := newLogView(p, append([]event{}, x.events...))
				x.mu.Unlock()
				r.Sample = map[string]any{"kind": "program + probe log", "program": p.describe(), "events": v.render(), "manager_wait_error": x.waitErr != nil}
			}
		})
	}
}

func main() {
	sup.Main(sup.Prop{
		ID:    "C14",
		Level: "exploration",
		Race:  true,
		Rule: "seeded random task graphs: 2…8 top-level tasks (2…5 in scripts), wait list = subset (≤3) of earlier tasks, bodies of 1–3 commands (probe or nested pip:run with waits on earlier nested siblings), failing commands (return an error / append an error to the scope) at any position, now and then a submission whose wait list names no task, itself, a not yet submitted task or a refused task; late: a task submitted through the Runner service from inside a running body while TasksManager.Wait() is already in progress (own context, works a while, may fail) – Wait must return after its last event and report its failure; sandbox-fail: a prerequisite run in a sandbox registered through the sandboxes manager whose failure is only the value returned by Sandbox.Run – it must end with errors, its dependant must not run and must end failed, Wait must report an error; firsts: 30…60 rounds in which 3…8 goroutines make the very first submissions of a fresh scope at the same moment (nobody asked for its task manager before; also in every other shared-mode program with several submitters) – every accepted submission is a task of the scope's one manager and Wait covers it; refused: a submission with a sandbox name that cannot be resolved (directly or from a running body) is refused and leaves no task behind, a wait list naming it is refused, Wait returns; reader: 2…6 commands in one plain reader (no ReadByte) are run one by one with Terminal.RunCommandFromReader – each call runs the next command and takes exactly its bytes; " +
			"driven through PipRunner.Run from 1…4 goroutines (each submission in its own context, or all in one scope) and as terminal scripts (strict / non-strict, with pip:wait); prerequisites hold a probe until their dependants have been submitted; " +
			"distinct = distinct programs (mode, wait lists, bodies); non-trivial = the program has a wait edge and at least one probe event was logged",
		Assumptions: []string{
			"'eventually finishes' / 'Wait returns' is restated as bounded progress: the program completes, or two stop-the-world goroutine snapshots show the same goroutines all parked in sync primitives inside goatcore with no probe running and no event in between (violation); a watchdog expiry without that diagnosis is inconclusive",
			"'ended failed' is decided from logged facts: the task's own failing command was logged, or a prerequisite failed; in separated mode additionally from Errors() of the finished prerequisite (each top-level task has a context of its own there). Errors() of tasks sharing one context (shared mode, nested tasks) is not used to call a prerequisite failed",
			"a nested pip:run whose task failed (or whose submission was refused) counts as a failing command of the enclosing body",
			"whether a valid submission made after a failure in the same shared scope is accepted is not specified; such refusals are counted, not judged",
			"in a directly driven program in which nothing failed (no failing command, no malformed line, no refused nested submission; refused top-level submissions create no task) no task may end with errors",
			"'all interleavings' = the interleavings produced under GOMAXPROCS 1/2/4/8 with PRNG-chosen holds; the race detector's reports are observations only (DESIGN.md §1)",
		},
		Plan:        plan,
		Run:         runBatch,
		RaceAnchors: []string{"pipservices/runner/runner.go", "pipservices/tasks/manager.go", "pipservices/tasks/task.go", "pipcommands/pipc/run.go", "terminal/termexec/run.go", "sandboxes/selfsb/sandbox.go"},
		RaceDecides: false,
		Finish: func(t *sup.Totals) string {
			need := []string{
				"programs_separated", "programs_shared", "programs_script", "late_programs", "sandbox_fail_programs", "rounds_of_simultaneous_first_submissions", "refused_submissions_that_left_nothing_behind", "commands_run_one_by_one_from_a_plain_reader", "programs_whose_first_submissions_created_the_manager",
				"probe_events",
				"wait_edges_checked_on_a_dependant_that_ran",
				"tasks_with_a_failed_prerequisite_checked",
				"failing_commands_observed",
				"body_commands_checked",
				"submissions_refused_as_required",
				"gated_prerequisites_held_until_dependants_were_submitted",
				"probe_begins_while_another_task_was_inside_a_probe",
				"nested_probe_runs",
				"manager_waits_returned",
				"manager_wait_returned_an_error",
				"failure_free_programs_every_body_ran_once",
			}
			for _, k := range need {
				if t.Obs[k] == 0 {
					return "monitor observed nothing for " + k
				}
			}
			return ""
		},
		Exhaustive: func(tier string) string { return "" },
	})
}
