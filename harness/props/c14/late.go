package main

import (
	"fmt"
	"runtime"
	"strings"
	"sync"
	"sync/atomic"
	"time"

	"verif/internal/sup"

	"github.com/goatcms/goatcore/app"
	"github.com/goatcms/goatcore/app/bootstrap"
	"github.com/goatcms/goatcore/app/gio"
	"github.com/goatcms/goatcore/app/goatapp"
	"github.com/goatcms/goatcore/app/injector"
	"github.com/goatcms/goatcore/app/modules/commonm"
	"github.com/goatcms/goatcore/app/modules/commonm/commservices"
	"github.com/goatcms/goatcore/app/modules/ocm"
	"github.com/goatcms/goatcore/app/modules/pipelinem"
	"github.com/goatcms/goatcore/app/modules/pipelinem/pipservices"
	"github.com/goatcms/goatcore/app/modules/terminalm"
	"github.com/goatcms/goatcore/app/scope"
	"github.com/goatcms/goatcore/app/terminal"
	"github.com/goatcms/goatcore/varutil/goaterr"
)

// late: a task is submitted through the Runner service from inside a running body while
// TasksManager.Wait() is already in progress (the statement's "nested submissions from inside
// bodies" through the service API, not through a pip:run line, which blocks its body until the
// nested task is over). The late task has a context of its own, works for a while and possibly
// fails. Wait() must return only after its last event and report its failure.
type lateRun struct {
	seq       atomic.Int64
	mu        sync.Mutex
	events    []string
	gate      chan struct{}
	runner    pipservices.Runner
	root      app.Scope
	mapp      *goatapp.MockupApp
	lateFails bool
	work      int
	lateEnd   atomic.Int64
	spawnErr  error
}

func (l *lateRun) log(s string) int64 {
	n := l.seq.Add(1)
	l.mu.Lock()
	l.events = append(l.events, fmt.Sprintf("%d:%s", n, s))
	l.mu.Unlock()
	return n
}

func (l *lateRun) pip(scp app.Scope, name, body string) pipservices.Pip {
	return pipservices.Pip{
		Context: pipservices.PipContext{
			In:    gio.NewInput(strings.NewReader(body)),
			Out:   gio.NewNilOutput(),
			Err:   gio.NewNilOutput(),
			CWD:   l.mapp.Filespaces().CWD(),
			Scope: scp,
		},
		Name:       name,
		Namespaces: topNamespaces,
		Sandbox:    "self",
		Lock:       commservices.LockMap{},
	}
}

func (l *lateRun) separated(name string) app.Scope {
	return scope.New(scope.Params{
		DataScope:  l.root,
		EventScope: l.root,
		Injector:   injector.NewMultiInjector([]app.Injector{l.root}),
		Name:       name,
	})
}

// failSandbox is a sandbox added through the sandboxes manager whose Run reports its failure
// only through the returned error (as the ssh and container sandboxes do).
type failSandbox struct{ l *lateRun }

func (f failSandbox) Run(ctx app.IOContext) error {
	f.l.log("failsb-run")
	return fmt.Errorf("exit status 1")
}

type failSandboxBuilder struct{ l *lateRun }

func (f failSandboxBuilder) Is(name string) bool { return name == "c14fail" }
func (f failSandboxBuilder) Build(name string) (pipservices.Sandbox, error) {
	return failSandbox{f.l}, nil
}

func runLate(c *sup.Child, b sup.Batch) {
	for idx := b.From; idx < b.To; idx++ {
		if idx%3 == 2 {
			runSandboxFail(c, idx)
			continue
		}
		if idx%6 == 1 {
			runFirsts(c, idx)
			continue
		}
		if idx%6 == 4 {
			runRefused(c, idx)
			continue
		}
		if idx%6 == 3 {
			runReader(c, idx)
			continue
		}
		rng := c.Rand(idx)
		l := &lateRun{gate: make(chan struct{}), lateFails: rng.Intn(2) == 0, work: 1 + rng.Intn(40)}
		desc := map[string]any{"kind": "late", "late_task_fails": l.lateFails, "work_rounds": l.work}
		c.Case(idx, desc, func(r *sup.CaseResult) {
			var err error
			if l.mapp, err = goatapp.NewMockupApp(goatapp.Params{}); err != nil {
				r.Inconclusive = err.Error()
				return
			}
			bs := bootstrap.NewBootstrap(l.mapp)
			if err = goaterr.ToError(goaterr.AppendError(nil, bs.Register(terminalm.NewModule()), bs.Register(commonm.NewModule()),
				bs.Register(ocm.NewModule()), bs.Register(pipelinem.NewModule()))); err == nil {
				err = bs.Init()
			}
			if err != nil {
				r.Inconclusive = "application stack: " + err.Error()
				return
			}
			cmd := func(name string, fn func(app.App, app.IOContext) error) {
				l.mapp.Terminal().SetCommand(terminal.NewCommand(terminal.CommandParams{Name: name, Callback: fn}))
			}
			cmd("lgate", func(app.App, app.IOContext) error { l.log("parent-at-gate"); <-l.gate; return nil })
			cmd("lspawn", func(app.App, app.IOContext) error {
				l.spawnErr = l.runner.Run(l.pip(l.separated("late-scope"), "late", "lwork\n"))
				l.log("late-submitted")
				return nil
			})
			cmd("lwork", func(app.App, app.IOContext) error {
				l.log("late-begin")
				for k := 0; k < l.work; k++ {
					runtime.Gosched()
					if k%8 == 7 {
						time.Sleep(100 * time.Microsecond)
					}
				}
				l.lateEnd.Store(l.log("late-end"))
				if l.lateFails {
					return fmt.Errorf("late task fails")
				}
				return nil
			})
			var deps struct {
				Runner pipservices.Runner    `dependency:"PipRunner"`
				Tasks  pipservices.TasksUnit `dependency:"PipTasksUnit"`
			}
			if err = l.mapp.DependencyProvider().InjectTo(&deps); err != nil {
				r.Inconclusive = err.Error()
				return
			}
			l.runner = deps.Runner
			l.root = scope.New(scope.Params{Name: "c14late"})
			mgr, err := deps.Tasks.FromScope(l.root)
			if err != nil {
				r.Inconclusive = err.Error()
				return
			}
			if err = l.runner.Run(l.pip(l.separated("parent-scope"), "parent", "lgate\nlspawn\n")); err != nil {
				r.Inconclusive = "parent submission refused: " + err.Error()
				return
			}
			var waitErr error
			var waitSeq int64
			started := make(chan struct{})
			done := make(chan struct{})
			go func() {
				close(started)
				waitErr = mgr.Wait()
				waitSeq = l.log("manager-wait-returned")
				close(done)
			}()
			<-started
			for k := 0; k < 20; k++ { // let Wait() get going; the order is checked from the log, not assumed
				runtime.Gosched()
			}
			time.Sleep(200 * time.Microsecond)
			l.log("gate-opened")
			close(l.gate)
			select {
			case <-done:
			case <-time.After(30 * time.Second):
				r.Inconclusive = "late: TasksManager.Wait() did not return within the watchdog"
				return
			}
			// the late task may still be running if Wait() left early: give it its bounded time to log
			for k := 0; k < 2000 && l.lateEnd.Load() == 0; k++ {
				time.Sleep(100 * time.Microsecond)
			}
			l.mu.Lock()
			evs := append([]string{}, l.events...)
			l.mu.Unlock()
			wit := map[string]any{"events": evs, "late_task_fails": l.lateFails}
			if l.spawnErr != nil {
				r.Inconclusive = "late submission refused: " + l.spawnErr.Error()
				return
			}
			if end := l.lateEnd.Load(); end == 0 || waitSeq < end {
				r.Violate("wait-returned-before-accepted-task-finished", fmt.Sprintf("TasksManager.Wait() returned (seq %d) before the task submitted from a running body had finished (its last event: seq %d)", waitSeq, end), wit)
			}
			if (waitErr != nil) != l.lateFails {
				r.Violate("manager-wait-error-mismatch", fmt.Sprintf("TasksManager.Wait() = %v although the late task failed = %v (the parent did not fail)", waitErr, l.lateFails), wit)
			}
			r.AddObs("late_programs", 1)
			r.AddObs("events", int64(len(evs)))
			r.Key = fmt.Sprintf("late|%v|%d|%d", l.lateFails, l.work, idx)
			r.Nontrivial = true
			if idx%200 == 0 {
				r.Sample = map[string]any{"kind": "late submission during Wait", "events": evs}
			}
		})
	}
}

// runSandboxFail: a prerequisite that runs in a sandbox whose failure is only the return value of
// Sandbox.Run. It finished with an error: its dependant must never run and must end failed, and
// TasksManager.Wait must report an error.
func runSandboxFail(c *sup.Child, idx int) {
	rng := c.Rand(idx)
	separated := rng.Intn(2) == 0
	l := &lateRun{gate: make(chan struct{})}
	c.Case(idx, map[string]any{"kind": "sandbox-fail", "separated_contexts": separated}, func(r *sup.CaseResult) {
		var err error
		if l.mapp, err = goatapp.NewMockupApp(goatapp.Params{}); err != nil {
			r.Inconclusive = err.Error()
			return
		}
		bs := bootstrap.NewBootstrap(l.mapp)
		if err = goaterr.ToError(goaterr.AppendError(nil, bs.Register(terminalm.NewModule()), bs.Register(commonm.NewModule()),
			bs.Register(ocm.NewModule()), bs.Register(pipelinem.NewModule()))); err == nil {
			err = bs.Init()
		}
		if err != nil {
			r.Inconclusive = "application stack: " + err.Error()
			return
		}
		var ranDependant atomic.Int64
		l.mapp.Terminal().SetCommand(terminal.NewCommand(terminal.CommandParams{Name: "ldep", Callback: func(app.App, app.IOContext) error {
			ranDependant.Add(1)
			l.log("dependant-body-ran")
			return nil
		}}))
		var deps struct {
			Runner    pipservices.Runner           `dependency:"PipRunner"`
			Tasks     pipservices.TasksUnit        `dependency:"PipTasksUnit"`
			Sandboxes pipservices.SandboxesManager `dependency:"PipSandboxesManager"`
		}
		if err = l.mapp.DependencyProvider().InjectTo(&deps); err != nil {
			r.Inconclusive = err.Error()
			return
		}
		deps.Sandboxes.Add(failSandboxBuilder{l})
		l.runner = deps.Runner
		l.root = scope.New(scope.Params{Name: "c14sbfail"})
		mgr, err := deps.Tasks.FromScope(l.root)
		if err != nil {
			r.Inconclusive = err.Error()
			return
		}
		scp := func(name string) app.Scope {
			if separated {
				return l.separated(name)
			}
			return l.root
		}
		p1 := l.pip(scp("s1"), "t1", "ignored\n")
		p1.Sandbox = "c14fail"
		if err = l.runner.Run(p1); err != nil {
			r.Inconclusive = "submission of t1 refused: " + err.Error()
			return
		}
		p2 := l.pip(scp("s2"), "t2", "ldep\n")
		p2.Wait = []string{"t1"}
		err2 := l.runner.Run(p2)
		done := make(chan error, 1)
		go func() { done <- mgr.Wait() }()
		var waitErr error
		select {
		case waitErr = <-done:
		case <-time.After(30 * time.Second):
			r.Inconclusive = "sandbox-fail: TasksManager.Wait() did not return within the watchdog"
			return
		}
		l.mu.Lock()
		evs := append([]string{}, l.events...)
		l.mu.Unlock()
		wit := map[string]any{"events": evs, "separated_contexts": separated}
		t1, _ := mgr.Get("t1")
		if t1 != nil && len(t1.Errors()) == 0 {
			r.Violate("failed-task-has-no-error", "task t1 ran in a sandbox whose Run returned 'exit status 1', yet it finished with Errors() empty", wit)
		}
		if err2 == nil {
			if ranDependant.Load() > 0 {
				r.Violate("ran-after-failed-prerequisite", "the body of t2 (wait list [t1]) was executed although t1 failed in its sandbox", wit)
			}
			if t2, ok := mgr.Get("t2"); ok && len(t2.Errors()) == 0 {
				r.Violate("skipped-task-not-failed", "t2 waits for the failed t1 and ended with Errors() empty", wit)
			}
		} else {
			r.AddObs("dependant_refused_in_shared_scope", 1)
		}
		if waitErr == nil {
			r.Violate("manager-wait-error-mismatch", "TasksManager.Wait() = nil although task t1 failed in its sandbox", wit)
		}
		r.AddObs("sandbox_fail_programs", 1)
		r.AddObs("events", int64(len(evs)))
		r.Key = fmt.Sprintf("sbfail|%v|%d", separated, idx)
		r.Nontrivial = true
	})
}
