package main

import (
	"fmt"
	"github.com/goatcms/goatcore/varutil"
	"runtime"
	"sort"
	"strconv"
	"strings"
	"sync"
	"sync/atomic"
	"time"

	"github.com/goatcms/goatcore/app"
	"github.com/goatcms/goatcore/app/bootstrap"
	"github.com/goatcms/goatcore/app/gio"
	"github.com/goatcms/goatcore/app/goatapp"
	"github.com/goatcms/goatcore/app/injector"
	"github.com/goatcms/goatcore/app/modules/commonm"
	"github.com/goatcms/goatcore/app/modules/commonm/commservices"
	"github.com/goatcms/goatcore/app/modules/ocm"
	"github.com/goatcms/goatcore/app/modules/pipelinem"
	"github.com/goatcms/goatcore/app/modules/pipelinem/pipservices"
	"github.com/goatcms/goatcore/app/modules/pipelinem/pipservices/namespaces"
	"github.com/goatcms/goatcore/app/modules/terminalm"
	"github.com/goatcms/goatcore/app/scope"
	"github.com/goatcms/goatcore/app/terminal"
	"github.com/goatcms/goatcore/varutil/goaterr"
)

const watchdogS = 120

// event kinds of the probe log
const (
	evBegin   = iota
	evFailing // logged by a failing probe right before it fails (so the failure is in the log before it can be acted upon)
	evEnd
)

type event struct {
	Seq  int64 `json:"seq"`
	Kind int   `json:"kind"`
	ID   int   `json:"probe"`
}

// run is the state of one executed program.
type run struct {
	p      *program
	seq    atomic.Int64
	mu     sync.Mutex
	events []event
	inside atomic.Int32
	// per top-level task
	submitted []chan struct{}
	begun     []atomic.Bool // some probe of the task's own body has logged begin
	abort     chan struct{} // closed when the case gives up (releases gated probes)
	gateHits  atomic.Int64
	gateBroke atomic.Int64 // a gated hold ended because a dependant's begin was logged
	// filled by the drivers
	runErr    []error // result of Runner.Run per top-level task
	runSeq    []int64 // seq counter right after Run returned
	accepted  []bool
	waitErr   error // TasksManager.Wait()
	waitDone  bool
	appRunErr error // script: bootstrap Run + app scope Wait
	stuck     string
	// script driver: the task manager is picked up from inside the first probe that runs
	unit    pipservices.TasksUnit
	grab    sync.Once
	grabbed pipservices.TasksManager
	// direct driver, lazy manager: accepted submissions the scope's manager does not know
	lazyManager     bool
	unknownAccepted []string
	taken           map[int][]string // lines a taking probe read from its input
}

func newRun(p *program) *run {
	x := &run{p: p, abort: make(chan struct{})}
	n := len(p.tops)
	x.submitted = make([]chan struct{}, n)
	for i := range x.submitted {
		x.submitted[i] = make(chan struct{})
	}
	x.begun = make([]atomic.Bool, n)
	x.runErr = make([]error, n)
	x.runSeq = make([]int64, n)
	x.accepted = make([]bool, n)
	return x
}

func (x *run) log(kind, id int) {
	x.mu.Lock()
	x.events = append(x.events, event{x.seq.Add(1), kind, id})
	x.mu.Unlock()
}

// probe is the callback of the "probe" terminal command.
func (x *run) probe(a app.App, ctx app.IOContext) (err error) {
	var deps struct {
		ID   string `command:"?id"`
		Fail string `command:"?fail"`
		Take string `command:"?take"`
	}
	if err = ctx.Scope().InjectTo(&deps); err != nil {
		return err
	}
	id, err := strconv.Atoi(deps.ID)
	if err != nil {
		return err
	}
	if id < 0 {
		return nil // warm-up task
	}
	if id >= len(x.p.probes) {
		return fmt.Errorf("probe: unknown id %d", id)
	}
	pr := x.p.probes[id]
	if x.unit != nil {
		// the probe runs inside a task, so the manager exists: FromScope finds it, it does not create one
		x.grab.Do(func() { x.grabbed, _ = x.unit.FromScope(ctx.Scope()) })
	}
	x.inside.Add(1)
	defer x.inside.Add(-1)
	x.log(evBegin, id)
	x.begun[pr.task.rootTop].Store(true)
	if n, _ := strconv.Atoi(deps.Take); n > 0 {
		var got []string
		for k := 0; k < n; k++ {
			words, _, rerr := varutil.ReadArguments(ctx.IO().In())
			if rerr != nil {
				got = append(got, "<"+rerr.Error()+">")
				break
			}
			got = append(got, strings.Join(words, "|"))
		}
		x.mu.Lock()
		if x.taken == nil {
			x.taken = map[int][]string{}
		}
		x.taken[id] = got
		x.mu.Unlock()
	}
	switch pr.Hold {
	case 1:
		for k := 0; k < pr.K; k++ {
			runtime.Gosched()
		}
	case 2:
		time.Sleep(time.Duration(pr.K) * time.Microsecond)
	case 3:
		x.gateHits.Add(1)
		for _, d := range pr.task.deps {
			select {
			case <-x.submitted[d]:
			case <-x.abort:
				return fmt.Errorf("probe %d: case aborted", id)
			}
		}
	rounds:
		for k := 0; k < pr.K; k++ {
			for _, d := range pr.task.deps {
				if x.begun[d].Load() {
					x.gateBroke.Add(1)
					break rounds
				}
			}
			runtime.Gosched()
			if k%2 == 1 {
				time.Sleep(50 * time.Microsecond)
			}
		}
	}
	switch deps.Fail {
	case "ret":
		x.log(evFailing, id)
		x.log(evEnd, id)
		return fmt.Errorf("probe %d fails", id)
	case "append":
		x.log(evFailing, id)
		ctx.Scope().AppendError(fmt.Errorf("probe %d appends an error to its scope", id))
	}
	x.log(evEnd, id)
	return nil
}

type stack struct {
	mapp   *goatapp.MockupApp
	bs     app.Bootstrap
	runner pipservices.Runner
	tasks  pipservices.TasksUnit
}

func newStack(x *run, params goatapp.Params) (s *stack, err error) {
	s = &stack{}
	if s.mapp, err = goatapp.NewMockupApp(params); err != nil {
		return nil, err
	}
	s.bs = bootstrap.NewBootstrap(s.mapp)
	if err = goaterr.ToError(goaterr.AppendError(nil,
		s.bs.Register(terminalm.NewModule()),
		s.bs.Register(commonm.NewModule()),
		s.bs.Register(ocm.NewModule()),
		s.bs.Register(pipelinem.NewModule()),
	)); err != nil {
		return nil, err
	}
	if err = s.bs.Init(); err != nil {
		return nil, err
	}
	s.mapp.Terminal().SetCommand(terminal.NewCommand(terminal.CommandParams{Name: "probe", Callback: x.probe}))
	var deps struct {
		Runner pipservices.Runner    `dependency:"PipRunner"`
		Tasks  pipservices.TasksUnit `dependency:"PipTasksUnit"`
	}
	if err = s.mapp.DependencyProvider().InjectTo(&deps); err != nil {
		return nil, err
	}
	s.runner, s.tasks = deps.Runner, deps.Tasks
	return s, nil
}

// warmUp runs one task in a scope of its own so that every lazily built service the runner
// needs exists before the concurrent part starts (first-use construction is C10's subject).
func (s *stack) warmUp() error {
	scp := scope.New(scope.Params{Name: "warmup"})
	if err := s.runner.Run(s.pip(scp, "warmup", nil, "probe --id=-1")); err != nil {
		return err
	}
	if err := scp.Wait(); err != nil {
		return err
	}
	return scp.Close()
}

var topNamespaces = namespaces.NewNamespaces(pipservices.NamasepacesParams{Task: "", Lock: ""})

// lockMapFor gives every top-level task a small lock map over a three-name pool, derived from
// its name: wait lists and resource locks are used together (the runner must wait first and
// lock afterwards, or a dependant that holds a resource its prerequisite needs never ends).
func lockMapFor(name string) commservices.LockMap {
	h := uint32(2166136261)
	for i := 0; i < len(name); i++ {
		h = (h ^ uint32(name[i])) * 16777619
	}
	m := commservices.LockMap{}
	pool := []string{"res-x", "res-a", "res-b"}
	for i, r := range pool {
		switch (h >> (uint(i) * 3)) % 4 {
		case 0:
			m[r] = commservices.LockRW
		case 1:
			m[r] = commservices.LockR
		}
	}
	return m
}

func (s *stack) pip(scp app.Scope, name string, wait []string, body string) pipservices.Pip {
	return pipservices.Pip{
		Context: pipservices.PipContext{
			In:    gio.NewInput(strings.NewReader(body)),
			Out:   gio.NewNilOutput(),
			Err:   gio.NewNilOutput(),
			CWD:   s.mapp.Filespaces().CWD(),
			Scope: scp,
		},
		Name:       name,
		Namespaces: topNamespaces,
		Sandbox:    "self",
		Lock:       lockMapFor(name),
		Wait:       wait,
	}
}

// ---- progress monitor -----------------------------------------------------------------------

const goatFrag = "github.com/goatcms/goatcore/"

// passive helper goroutines: they only move when somebody else moves first.
var passiveFrags = []string{
	"termexec.RunLoop.func1",         // argument reader waiting for "next"
	"contextscope.NewIsolated.func1", // watches the parent context
}

// quiescent inspects a stop-the-world snapshot: every goroutine that was started after `base`
// and has a goatcore frame must be parked in a sync primitive (or be a passive helper parked in
// its select). Returns a canonical description of those goroutines, "" if some goroutine can
// still move.
func quiescent(base map[int64]bool) (sig string, raw string) {
	gs := dumpAll()
	me := goid()
	var parts, raws []string
	for id, g := range gs {
		if base[id] || id == me {
			continue
		}
		inGoat := false
		for _, f := range g.frames {
			if strings.Contains(f, goatFrag) {
				inGoat = true
				break
			}
		}
		if !inGoat {
			// a harness goroutine: harmless only while it is parked waiting for the workload
			if syncWait[g.state] || g.state == "chan receive" || g.state == "select" {
				continue
			}
			return "", ""
		}
		if syncWait[g.state] {
			parts = append(parts, fmt.Sprintf("%d:%s:%s", id, g.state, firstGoat(g)))
			raws = append(raws, g.raw)
			continue
		}
		if (g.state == "select" || g.state == "chan receive") && len(g.frames) > 0 {
			// a passive helper parked in its own select (not somewhere below it)
			if strings.Contains(g.frames[0], passiveFrags[0]) || strings.Contains(g.frames[0], passiveFrags[1]) {
				continue
			}
		}
		return "", ""
	}
	if len(parts) == 0 {
		return "", ""
	}
	sort.Strings(parts)
	sort.Strings(raws)
	return strings.Join(parts, "|"), strings.Join(raws, "\n\n")
}

func firstGoat(g *gInfo) string {
	for _, f := range g.frames {
		if strings.Contains(f, goatFrag) {
			if k := strings.LastIndex(f, "("); k > 0 {
				f = f[:k]
			}
			return strings.TrimPrefix(f, goatFrag)
		}
	}
	return ""
}

func baseGoroutines() map[int64]bool {
	b := map[int64]bool{}
	for id := range dumpAll() {
		b[id] = true
	}
	return b
}

// await waits for done. It never decides from elapsed time: a logical deadlock is diagnosed
// when two consecutive snapshots show the same set of goroutines, all parked in sync primitives
// inside goatcore, no probe running and no event logged in between; the watchdog alone gives
// "timeout" (inconclusive).
func (x *run) await(done <-chan struct{}, base map[int64]bool) (verdict string, dump string) {
	tick := time.NewTicker(30 * time.Millisecond)
	defer tick.Stop()
	deadline := time.After(watchdogS * time.Second)
	lastSeq, lastSig := int64(-1), ""
	for {
		select {
		case <-done:
			return "done", ""
		case <-deadline:
			return "timeout", ""
		case <-tick.C:
			s := x.seq.Load()
			if s != lastSeq || x.inside.Load() != 0 {
				lastSeq, lastSig = s, ""
				continue
			}
			sig, raw := quiescent(base)
			if sig == "" || x.seq.Load() != s {
				lastSig = ""
				continue
			}
			select {
			case <-done:
				return "done", ""
			default:
			}
			if sig == lastSig {
				return "deadlock", raw
			}
			lastSig = sig
		}
	}
}

// drain gives goroutines of the finished program (argument readers, isolated-context watchers)
// the chance to end before the next case starts, so that a late crash is attributed to the
// case that caused it. Bounded number of rounds; nothing is decided here.
func drain(base map[int64]bool) {
	for i := 0; i < 200; i++ {
		left := false
		for id, g := range dumpAll() {
			if base[id] {
				continue
			}
			for _, f := range g.frames {
				if strings.Contains(f, goatFrag) {
					left = true
				}
			}
		}
		if !left {
			return
		}
		time.Sleep(100 * time.Microsecond)
	}
}

// ---- driver (a): PipRunner.Run called directly from several goroutines ------------------------

type directResult struct {
	mgr   pipservices.TasksManager
	tasks map[string]pipservices.Task // by full name, every task found in the manager at the end
}

func (x *run) runDirect(s *stack) (res *directResult, inconclusive string) {
	p := x.p
	res = &directResult{tasks: map[string]pipservices.Task{}}
	root := scope.New(scope.Params{Name: "c14root"})
	// shared mode with several submitters, every other program: nobody asks for the scope's task
	// manager beforehand – the first submissions, made at the same moment, create it themselves
	// and must all end up in the one manager of the scope
	lazy := p.Mode == "shared" && p.Submitters > 1 && len(p.tops)%2 == 0
	x.lazyManager = lazy
	var mgr pipservices.TasksManager
	var err error
	if !lazy {
		if mgr, err = s.tasks.FromScope(root); err != nil { // bound to the root scope, as pip:try does before it separates scopes
			return res, "TasksUnit.FromScope: " + err.Error()
		}
		res.mgr = mgr
	}
	scopes := make([]app.Scope, len(p.tops))
	for i := range p.tops {
		if p.Mode == "separated" {
			// an independent scope per submission (own context = own failure domain), sharing the
			// root's data so that all submissions meet in one task manager – the construction
			// pip:try uses for its body
			scopes[i] = scope.New(scope.Params{
				DataScope:  root,
				EventScope: root,
				Injector:   injector.NewMultiInjector([]app.Injector{root}),
				Name:       "c14sep-" + p.tops[i].Name,
			})
		} else {
			scopes[i] = root
		}
	}
	base := baseGoroutines()
	var watchers sync.WaitGroup
	var subs sync.WaitGroup
	var tmu sync.Mutex
	start := make(chan struct{})
	for g := 0; g < p.Submitters; g++ {
		subs.Add(1)
		go func(g int) {
			defer subs.Done()
			<-start
			for i, t := range p.tops {
				if p.assign[i] != g {
					continue
				}
				for _, j := range t.after {
					<-x.submitted[j]
				}
				err := s.runner.Run(s.pip(scopes[i], t.Name, t.Waits, bodyText(t)))
				x.runErr[i] = err
				x.runSeq[i] = x.seq.Load()
				x.accepted[i] = err == nil
				if err == nil {
					m := mgr
					if lazy {
						m, _ = s.tasks.FromScope(root) // exists by now: a submission was accepted
					}
					if tk, ok := m.Get(t.Full); ok {
						tmu.Lock()
						res.tasks[t.Full] = tk
						tmu.Unlock()
						watchers.Add(1)
						go func() { defer watchers.Done(); tk.Wait() }()
					}
				}
				close(x.submitted[i])
			}
		}(g)
	}
	close(start)
	subsDone := make(chan struct{})
	go func() { subs.Wait(); close(subsDone) }()
	if v, _ := x.await(subsDone, base); v != "done" {
		close(x.abort)
		return res, "submitter goroutines did not finish (" + v + ")"
	}
	if lazy {
		if mgr, err = s.tasks.FromScope(root); err != nil {
			return res, "TasksUnit.FromScope: " + err.Error()
		}
		res.mgr = mgr
		// every accepted submission must be a task of the scope's manager
		for i, t := range p.tops {
			if x.accepted[i] {
				if _, ok := mgr.Get(t.Full); !ok {
					x.unknownAccepted = append(x.unknownAccepted, t.Full)
				}
			}
		}
	}
	// TasksManager.Wait under the progress monitor
	waitDone := make(chan struct{})
	go func() {
		x.waitErr = mgr.Wait()
		watchers.Wait() // every accepted task's own Wait() returned
		close(waitDone)
	}()
	switch v, dump := x.await(waitDone, base); v {
	case "deadlock":
		x.stuck = dump
		close(x.abort)
		return res, ""
	case "timeout":
		close(x.abort)
		return res, fmt.Sprintf("TasksManager.Wait did not return within the %d s watchdog and no logical deadlock was diagnosed", watchdogS)
	}
	x.waitDone = true
	// let the tasks' own scopes close (Task.Close signals completion before it closes its scope)
	settled := make(chan struct{})
	go func() {
		if p.Mode == "separated" {
			for i := range scopes {
				if x.accepted[i] {
					scopes[i].Wait()
				}
			}
		}
		root.Wait()
		close(settled)
	}()
	if v, _ := x.await(settled, base); v != "done" {
		return res, "scopes of finished tasks did not settle (" + v + ")"
	}
	for _, name := range mgr.Names() {
		if tk, ok := mgr.Get(name); ok {
			res.tasks[name] = tk
		}
	}
	drain(base)
	return res, ""
}

// ---- driver (b): the application reads a terminal script -----------------------------------

func (x *run) runScript() (res *directResult, inconclusive string) {
	p := x.p
	res = &directResult{tasks: map[string]pipservices.Task{}}
	args := []string{"appname", "terminal"}
	if p.Strict {
		args = append(args, "--strict=true")
	}
	s, err := newStack(x, goatapp.Params{
		IO:        goatapp.IO{In: gio.NewAppInput(strings.NewReader(p.scriptText()))},
		Arguments: args,
	})
	if err != nil {
		return res, "application stack could not be built: " + err.Error()
	}
	x.unit = s.tasks
	base := baseGoroutines()
	done := make(chan struct{})
	go func() {
		e := s.bs.Run()
		x.appRunErr = goaterr.ToError(goaterr.AppendError(nil, e, s.mapp.Scopes().App().Wait()))
		close(done)
	}()
	switch v, dump := x.await(done, base); v {
	case "deadlock":
		x.stuck = dump
		return res, ""
	case "timeout":
		return res, fmt.Sprintf("the terminal script did not finish within the %d s watchdog and no logical deadlock was diagnosed", watchdogS)
	}
	mgr := x.grabbed // the task manager the script's pip:run lines used
	if mgr == nil {
		return res, "" // no probe ran: nothing was submitted successfully
	}
	res.mgr = mgr
	waitDone := make(chan struct{})
	go func() { x.waitErr = mgr.Wait(); close(waitDone) }()
	switch v, dump := x.await(waitDone, base); v {
	case "deadlock":
		x.stuck = dump
		return res, ""
	case "timeout":
		return res, fmt.Sprintf("TasksManager.Wait did not return within the %d s watchdog and no logical deadlock was diagnosed", watchdogS)
	}
	x.waitDone = true
	for _, name := range mgr.Names() {
		if tk, ok := mgr.Get(name); ok {
			res.tasks[name] = tk
		}
	}
	drain(base)
	return res, ""
}
