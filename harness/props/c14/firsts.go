package main

// firsts: the very first submissions a scope ever sees are made at the same moment by 3…8
// goroutines, and nobody has asked for the scope's task manager before (the manager is created
// by whoever comes first). Every accepted submission must be a task of the one manager of the
// scope: TasksManager.Wait() waits for it and a wait list can name it.

import (
	"fmt"
	"github.com/goatcms/goatcore/app/gio"
	"github.com/goatcms/goatcore/app/modules/terminalm/termservices"
	"io"
	"strconv"
	"strings"
	"sync"
	"sync/atomic"
	"time"

	"verif/internal/sup"

	"github.com/goatcms/goatcore/app"
	"github.com/goatcms/goatcore/app/bootstrap"
	"github.com/goatcms/goatcore/app/goatapp"
	"github.com/goatcms/goatcore/app/modules/commonm"
	"github.com/goatcms/goatcore/app/modules/ocm"
	"github.com/goatcms/goatcore/app/modules/pipelinem"
	"github.com/goatcms/goatcore/app/modules/pipelinem/pipservices"
	"github.com/goatcms/goatcore/app/modules/terminalm"
	"github.com/goatcms/goatcore/app/scope"
	"github.com/goatcms/goatcore/app/terminal"
	"github.com/goatcms/goatcore/varutil/goaterr"
)

func runFirsts(c *sup.Child, idx int) {
	rng := c.Rand(idx)
	rounds := 30 + rng.Intn(30)
	g := 3 + rng.Intn(6)
	l := &lateRun{}
	c.Case(idx, map[string]any{"kind": "firsts", "rounds": rounds, "submitters": g}, func(r *sup.CaseResult) {
		var err error
		if l.mapp, err = goatapp.NewMockupApp(goatapp.Params{}); err != nil {
			r.Inconclusive = err.Error()
			return
		}
		bs := bootstrap.NewBootstrap(l.mapp)
		if err = goaterr.ToError(goaterr.AppendError(nil, bs.Register(terminalm.NewModule()), bs.Register(commonm.NewModule()),
			bs.Register(ocm.NewModule()), bs.Register(pipelinem.NewModule()))); err == nil {
			err = bs.Init()
		}
		if err != nil {
			r.Inconclusive = "application stack: " + err.Error()
			return
		}
		var gate atomic.Value // chan struct{} of the current round
		var running, finished atomic.Int64
		l.mapp.Terminal().SetCommand(terminal.NewCommand(terminal.CommandParams{Name: "fwork", Callback: func(app.App, app.IOContext) error {
			running.Add(1)
			<-gate.Load().(chan struct{})
			running.Add(-1)
			finished.Add(1)
			return nil
		}}))
		var deps struct {
			Runner pipservices.Runner    `dependency:"PipRunner"`
			Tasks  pipservices.TasksUnit `dependency:"PipTasksUnit"`
		}
		if err = l.mapp.DependencyProvider().InjectTo(&deps); err != nil {
			r.Inconclusive = err.Error()
			return
		}
		l.runner = deps.Runner
		for round := 0; round < rounds; round++ {
			gch := make(chan struct{})
			gate.Store(gch)
			finished.Store(0)
			root := scope.New(scope.Params{Name: fmt.Sprintf("c14firsts-%d", round)})
			l.root = root
			accepted := make([]bool, g)
			start := make(chan struct{})
			var wg sync.WaitGroup
			for i := 0; i < g; i++ {
				wg.Add(1)
				go func(i int) {
					defer wg.Done()
					<-start
					accepted[i] = l.runner.Run(l.pip(root, fmt.Sprintf("f%d", i), "fwork\n")) == nil
				}(i)
			}
			close(start)
			wg.Wait()
			mgr, err := deps.Tasks.FromScope(root)
			if err != nil {
				close(gch)
				r.Inconclusive = "TasksUnit.FromScope: " + err.Error()
				return
			}
			var unknown []string
			nAcc := int64(0)
			for i := 0; i < g; i++ {
				if !accepted[i] {
					continue
				}
				nAcc++
				if _, ok := mgr.Get(fmt.Sprintf("f%d", i)); !ok {
					unknown = append(unknown, fmt.Sprintf("f%d", i))
				}
			}
			wit := map[string]any{"round": round, "submitters": g, "manager_lists": mgr.Names()}
			close(gch)
			done := make(chan error, 1)
			go func() { done <- mgr.Wait() }()
			select {
			case <-done:
			case <-time.After(30 * time.Second):
				r.Inconclusive = "firsts: TasksManager.Wait() did not return within the watchdog"
				return
			}
			// Wait() returned: the bodies of all accepted tasks must be over (the gate is open, so a
			// body the manager does not know may still be on its way out – read the counter once)
			fin := finished.Load()
			if len(unknown) > 0 {
				r.Violate("accepted-task-unknown-to-the-manager", fmt.Sprintf("%d goroutines made the first submissions of a fresh scope at the same moment; accepted but not tasks of the scope's manager: %v", g, unknown), wit)
				return
			}
			if fin != nAcc {
				r.Violate("wait-returned-before-accepted-task-finished", fmt.Sprintf("TasksManager.Wait() returned after %d of %d accepted first submissions had finished their bodies", fin, nAcc), wit)
				return
			}
			r.AddObs("rounds_of_simultaneous_first_submissions", 1)
			r.AddObs("first_submissions_accepted", nAcc)
			// the same name submitted by all goroutines at the same moment: one task of that name
			// exists, so exactly one submission is accepted
			{
				gch2 := make(chan struct{})
				gate.Store(gch2)
				finished.Store(0)
				var accDup atomic.Int64
				start2 := make(chan struct{})
				var wg2 sync.WaitGroup
				for i := 0; i < g; i++ {
					wg2.Add(1)
					go func() {
						defer wg2.Done()
						<-start2
						if l.runner.Run(l.pip(root, "dup", "fwork\n")) == nil {
							accDup.Add(1)
						}
					}()
				}
				close(start2)
				wg2.Wait()
				close(gch2)
				done2 := make(chan error, 1)
				go func() { done2 <- mgr.Wait() }()
				select {
				case <-done2:
				case <-time.After(30 * time.Second):
					r.Inconclusive = "firsts: TasksManager.Wait() did not return within the watchdog (same-name round)"
					return
				}
				if n := accDup.Load(); n != 1 {
					r.Violate("duplicate-name-accepted", fmt.Sprintf("%d goroutines submitted a task named \"dup\" at the same moment: %d submissions were accepted (bodies finished when Wait returned: %d)", g, n, finished.Load()), wit)
					return
				}
				if fin := finished.Load(); fin != 1 {
					r.Violate("wait-returned-before-accepted-task-finished", fmt.Sprintf("TasksManager.Wait() returned after %d of 1 accepted same-name submissions had finished", fin), wit)
					return
				}
				r.AddObs("rounds_of_simultaneous_same_name_submissions", 1)
			}
			func() {
				defer func() { recover() }()
				root.Close()
			}()
		}
		r.Key = fmt.Sprintf("firsts|%d|%d|%d", idx, rounds, g)
		r.Nontrivial = true
	})
}

// refused: a submission the runner refuses for a reason other than its wait list (a sandbox name
// that cannot be resolved) must leave nothing behind – no task of that name in the manager, a wait
// list naming it is refused, and TasksManager.Wait() still returns once the accepted tasks are over.
func runRefused(c *sup.Child, idx int) {
	rng := c.Rand(idx)
	badSandbox := []string{"nosuch-sandbox", "ssh:hostonly", "container:"}[rng.Intn(3)]
	nested := rng.Intn(2) == 0
	l := &lateRun{}
	c.Case(idx, map[string]any{"kind": "refused", "sandbox": badSandbox, "submitted_from_a_running_body": nested}, func(r *sup.CaseResult) {
		var err error
		if l.mapp, err = goatapp.NewMockupApp(goatapp.Params{}); err != nil {
			r.Inconclusive = err.Error()
			return
		}
		bs := bootstrap.NewBootstrap(l.mapp)
		if err = goaterr.ToError(goaterr.AppendError(nil, bs.Register(terminalm.NewModule()), bs.Register(commonm.NewModule()),
			bs.Register(ocm.NewModule()), bs.Register(pipelinem.NewModule()))); err == nil {
			err = bs.Init()
		}
		if err != nil {
			r.Inconclusive = "application stack: " + err.Error()
			return
		}
		var deps struct {
			Runner pipservices.Runner    `dependency:"PipRunner"`
			Tasks  pipservices.TasksUnit `dependency:"PipTasksUnit"`
		}
		if err = l.mapp.DependencyProvider().InjectTo(&deps); err != nil {
			r.Inconclusive = err.Error()
			return
		}
		l.runner = deps.Runner
		l.root = scope.New(scope.Params{Name: "c14refused"})
		mgr, err := deps.Tasks.FromScope(l.root)
		if err != nil {
			r.Inconclusive = err.Error()
			return
		}
		gate := make(chan struct{})
		var ghostMu sync.Mutex
		var ghostErr error
		ghostDone := false
		var finished atomic.Int64
		submitGhost := func(scp app.Scope) {
			p := l.pip(scp, "ghost", "fwork\n")
			p.Sandbox = badSandbox
			e := l.runner.Run(p)
			ghostMu.Lock()
			ghostErr, ghostDone = e, true
			ghostMu.Unlock()
		}
		l.mapp.Terminal().SetCommand(terminal.NewCommand(terminal.CommandParams{Name: "fwork", Callback: func(app.App, app.IOContext) error {
			<-gate
			finished.Add(1)
			return nil
		}}))
		l.mapp.Terminal().SetCommand(terminal.NewCommand(terminal.CommandParams{Name: "fspawn", Callback: func(a app.App, ctx app.IOContext) error {
			submitGhost(l.separated("ghost-scope"))
			return nil
		}}))
		wit := map[string]any{"sandbox": badSandbox, "nested": nested}
		if nested {
			if err = l.runner.Run(l.pip(l.separated("outer-scope"), "outer", "fspawn\nfwork\n")); err != nil {
				r.Inconclusive = "outer submission refused: " + err.Error()
				return
			}
			// the body runs asynchronously: wait (bounded, logical) until the spawn command has returned
			for k := 0; k < 20000; k++ {
				ghostMu.Lock()
				d := ghostDone
				ghostMu.Unlock()
				if d {
					break
				}
				time.Sleep(100 * time.Microsecond)
			}
		} else {
			submitGhost(l.separated("ghost-scope"))
			if err = l.runner.Run(l.pip(l.separated("outer-scope"), "outer", "fwork\n")); err != nil {
				r.Inconclusive = "outer submission refused: " + err.Error()
				return
			}
		}
		ghostMu.Lock()
		gErr, gDone := ghostErr, ghostDone
		ghostMu.Unlock()
		if !gDone {
			close(gate)
			r.Inconclusive = "the submission from the running body never returned"
			return
		}
		if gErr == nil {
			r.Violate("invalid-submission-accepted", fmt.Sprintf("a submission with the sandbox %q was accepted", badSandbox), wit)
		}
		if _, ok := mgr.Get("ghost"); ok {
			close(gate)
			r.Violate("refused-task-registered", fmt.Sprintf("the submission with the unresolvable sandbox %q was refused, yet a task named \"ghost\" is registered in the scope's manager (names: %v): nothing will ever finish it", badSandbox, mgr.Names()), wit)
			return
		}
		dep := l.pip(l.separated("dep-scope"), "dependant", "fwork\n")
		dep.Wait = []string{"ghost"}
		if err := l.runner.Run(dep); err == nil {
			close(gate)
			r.Violate("wait-list-names-refused-task", "a submission whose wait list names the refused task \"ghost\" was accepted", wit)
			return
		}
		close(gate)
		done := make(chan error, 1)
		go func() { done <- mgr.Wait() }()
		select {
		case <-done:
		case <-time.After(30 * time.Second):
			r.Inconclusive = "refused: TasksManager.Wait() did not return within the watchdog"
			return
		}
		if finished.Load() != 1 {
			r.Violate("wait-returned-before-accepted-task-finished", fmt.Sprintf("TasksManager.Wait() returned, %d of 1 accepted bodies finished", finished.Load()), wit)
			return
		}
		r.AddObs("refused_submissions_that_left_nothing_behind", 1)
		r.Key = fmt.Sprintf("refused|%s|%v", badSandbox, nested)
		r.Nontrivial = true
	})
}

// countingReader is a plain io.Reader (no ReadByte) that counts what was taken from it.
type countingReader struct {
	r io.Reader
	n int
}

func (c *countingReader) Read(p []byte) (int, error) {
	n, err := c.r.Read(p)
	c.n += n
	return n, err
}

// runReader: several commands in one plain reader are run one by one with the terminal service's
// RunCommandFromReader: every call runs exactly the next command and leaves the reader at the
// start of the one after it ("reading stops exactly at the command's newline so the next call
// returns the next command").
func runReader(c *sup.Child, idx int) {
	rng := c.Rand(idx)
	k := 2 + rng.Intn(5)
	var script strings.Builder
	var ends []int
	for i := 0; i < k; i++ {
		script.WriteString([]string{"", " ", "\t"}[rng.Intn(3)])
		fmt.Fprintf(&script, "rprobe --id=%d", i)
		if rng.Intn(2) == 0 {
			fmt.Fprintf(&script, " \"quoted arg %d\" tail", i)
		}
		if rng.Intn(3) == 0 {
			script.WriteString(" \\\n continued")
		}
		script.WriteString("\n")
		ends = append(ends, script.Len())
	}
	text := script.String()
	l := &lateRun{}
	c.Case(idx, map[string]any{"kind": "reader", "script": text}, func(r *sup.CaseResult) {
		var err error
		if l.mapp, err = goatapp.NewMockupApp(goatapp.Params{}); err != nil {
			r.Inconclusive = err.Error()
			return
		}
		bs := bootstrap.NewBootstrap(l.mapp)
		if err = goaterr.ToError(goaterr.AppendError(nil, bs.Register(terminalm.NewModule()), bs.Register(commonm.NewModule()),
			bs.Register(ocm.NewModule()), bs.Register(pipelinem.NewModule()))); err == nil {
			err = bs.Init()
		}
		if err != nil {
			r.Inconclusive = "application stack: " + err.Error()
			return
		}
		var ran []int
		l.mapp.Terminal().SetCommand(terminal.NewCommand(terminal.CommandParams{Name: "rprobe", Callback: func(a app.App, ctx app.IOContext) error {
			var deps struct {
				ID string `command:"?id"`
			}
			if err := ctx.Scope().InjectTo(&deps); err != nil {
				return err
			}
			id, _ := strconv.Atoi(deps.ID)
			ran = append(ran, id)
			return nil
		}}))
		var tdeps struct {
			Terminal termservices.Terminal `dependency:"TerminalService"`
		}
		if err = l.mapp.DependencyProvider().InjectTo(&tdeps); err != nil {
			r.Inconclusive = err.Error()
			return
		}
		rd := &countingReader{r: strings.NewReader(text)}
		wit := map[string]any{"script": text}
		for i := 0; i < k; i++ {
			ctx := gio.NewChildIOContext(l.mapp.IOContext(), gio.ChildIOContextParams{})
			_, rerr := tdeps.Terminal.RunCommandFromReader(ctx, rd)
			ctx.Scope().Wait()
			func() {
				defer func() { recover() }()
				ctx.Close()
			}()
			if rerr != nil {
				r.Violate("reader-command-error", fmt.Sprintf("call %d of RunCommandFromReader on a reader that holds %d commands returned %v (commands run so far: %v)", i+1, k, rerr, ran), wit)
				return
			}
			if len(ran) != i+1 || ran[i] != i {
				r.Violate("reader-wrong-command", fmt.Sprintf("call %d of RunCommandFromReader: commands run so far %v, want 0…%d in order", i+1, ran, i), wit)
				return
			}
			if rd.n != ends[i] {
				r.Violate("reader-stop-position", fmt.Sprintf("call %d of RunCommandFromReader took %d bytes from the reader; command %d ends (with its newline) at byte %d of %d: reading must stop exactly there so that the next call finds the next command", i+1, rd.n, i, ends[i], len(text)), wit)
				return
			}
		}
		r.AddObs("commands_run_one_by_one_from_a_plain_reader", int64(k))
		r.Key = "reader|" + text
		r.Nontrivial = true
	})
}
