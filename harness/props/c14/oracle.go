package main

import (
	"fmt"
	"sort"
	"strings"

	"verif/internal/sup"

	"github.com/goatcms/goatcore/app/modules/pipelinem/pipservices"
)

// Offline oracle over the probe log and the task objects (DESIGN.md "### C14").
// Every verdict is an order of logged events or a value read from a task object after
// completion; nothing here looks at durations.

type span struct {
	begins  []int64
	failing int64
	end     int64
}

type logView struct {
	p      *program
	evs    []event
	probe  []span
	first  []int64 // per task (program.all): first begin in its subtree, 0 = none
	firstE []int64 // per task: first event of its subtree
	last   []int64 // per task: last event (any kind) in its subtree
	lastID []int   // probe of that last event
}

func subtreeProbes(t *taskSpec, out []*probeSpec) []*probeSpec {
	for _, c := range t.Body {
		if c.Probe != nil {
			out = append(out, c.Probe)
		} else {
			out = subtreeProbes(c.Nested, out)
		}
	}
	return out
}

func newLogView(p *program, evs []event) *logView {
	v := &logView{p: p, evs: evs, probe: make([]span, len(p.probes))}
	sort.Slice(v.evs, func(i, j int) bool { return v.evs[i].Seq < v.evs[j].Seq })
	for _, e := range v.evs {
		s := &v.probe[e.ID]
		switch e.Kind {
		case evBegin:
			s.begins = append(s.begins, e.Seq)
		case evFailing:
			s.failing = e.Seq
		case evEnd:
			s.end = e.Seq
		}
	}
	n := len(p.all)
	v.first, v.firstE, v.last, v.lastID = make([]int64, n), make([]int64, n), make([]int64, n), make([]int, n)
	for _, t := range p.all {
		for _, pr := range subtreeProbes(t, nil) {
			s := v.probe[pr.ID]
			for _, b := range s.begins {
				if v.first[t.idx] == 0 || b < v.first[t.idx] {
					v.first[t.idx] = b
				}
				if v.firstE[t.idx] == 0 || b < v.firstE[t.idx] {
					v.firstE[t.idx] = b
				}
				if b > v.last[t.idx] {
					v.last[t.idx], v.lastID[t.idx] = b, pr.ID
				}
			}
			for _, q := range []int64{s.failing, s.end} {
				if q > v.last[t.idx] {
					v.last[t.idx], v.lastID[t.idx] = q, pr.ID
				}
			}
		}
	}
	return v
}

func (v *logView) render() []string {
	var out []string
	for _, e := range v.evs {
		pr := v.p.probes[e.ID]
		out = append(out, fmt.Sprintf("%d %s probe %d (%s cmd %d)", e.Seq, []string{"begin", "failing", "end"}[e.Kind], e.ID, pr.task.Full, pr.pos))
	}
	return out
}

func errStrings(errs []error) []string {
	var out []string
	for _, e := range errs {
		s := e.Error()
		if len(s) > 160 {
			s = s[:160] + "…"
		}
		out = append(out, s)
	}
	return out
}

// check applies the oracles and fills the observation counters.
func check(r *sup.CaseResult, x *run, res *directResult) {
	p := x.p
	x.mu.Lock()
	evs := append([]event{}, x.events...)
	x.mu.Unlock()
	v := newLogView(p, evs)
	direct := p.Mode != "script"
	witness := func() map[string]any {
		w := map[string]any{"program": p.describe(), "events": v.render()}
		if direct {
			var subs []string
			for i, t := range p.tops {
				if x.runErr[i] != nil {
					subs = append(subs, fmt.Sprintf("%s: refused: %.140s", t.Name, x.runErr[i].Error()))
				} else {
					subs = append(subs, t.Name+": accepted")
				}
			}
			w["submissions"] = subs
		}
		return w
	}
	// commands that consume input: they got exactly the lines that follow them in the body
	x.mu.Lock()
	for id, got := range x.taken {
		var want []string
		for k := 0; k < p.probes[id].Take; k++ {
			want = append(want, dataArgs(p.probes[id], k))
		}
		r.AddObs("commands_that_read_their_own_input_lines", 1)
		if strings.Join(got, "\n") != strings.Join(want, "\n") {
			r.Violate("command-input-mismatch", fmt.Sprintf("%s mode: probe %d reads %d line(s) from its input with ReadArguments; it got %q, the body holds %q right after its line (the command loop had read ahead, or did not stop at the command's newline)", p.Mode, id, len(want), got, want), witness())
			break
		}
	}
	x.mu.Unlock()
	if x.lazyManager {
		r.AddObs("programs_whose_first_submissions_created_the_manager", 1)
	}
	if len(x.unknownAccepted) > 0 {
		r.Violate("accepted-task-unknown-to-the-manager", fmt.Sprintf("%s mode, %d submitters, no manager asked for beforehand: the accepted submissions %v are not tasks of the scope's task manager (TasksManager.Wait cannot wait for them, wait lists cannot name them)", p.Mode, p.Submitters, x.unknownAccepted), witness())
	}
	taskOf := func(t *taskSpec) pipservices.Task {
		if res == nil {
			return nil
		}
		return res.tasks[t.Full]
	}
	exists := func(t *taskSpec) bool { // the task was accepted by the manager (as far as the harness can know)
		if t.top >= 0 && direct {
			return x.accepted[t.top]
		}
		return t.Bogus == ""
	}

	// --- submissions: a wait list may only name tasks that exist at submission time -----------
	if direct {
		for i, t := range p.tops {
			must := ""
			for k, wi := range t.waitIdx {
				switch {
				case wi < 0:
					must = fmt.Sprintf("%q names no task at all", t.Waits[k])
				case wi == t.idx:
					must = "it names the task itself"
				case p.all[wi].top > i:
					must = fmt.Sprintf("%s had not been submitted yet", p.all[wi].Name)
				case !x.accepted[p.all[wi].top]:
					must = fmt.Sprintf("the submission of %s had been refused, so no such task exists", p.all[wi].Name)
				}
				if must != "" {
					break
				}
			}
			r.AddObs("submissions", 1)
			switch {
			case must != "" && x.accepted[i]:
				r.Violate("accepted-nonexistent-wait", fmt.Sprintf("%s mode: Runner.Run accepted task %s with wait list %q although %s", p.Mode, t.Name, t.Waits, must), witness())
			case must != "":
				r.AddObs("submissions_refused_as_required", 1)
			case !x.accepted[i]:
				r.AddObs("valid_submissions_refused", 1)
				failedBefore := false
				for _, e := range v.evs {
					if e.Kind == evFailing && e.Seq <= x.runSeq[i] {
						failedBefore = true
					}
				}
				if p.Mode == "shared" && (failedBefore || p.syntax > 0) { // malformed lines and refused nested submissions fail without a log entry
					r.AddObs("valid_submissions_refused_after_a_failure_in_the_shared_scope", 1)
				} else if r.Inconclusive == "" {
					r.Inconclusive = fmt.Sprintf("submission of %s (wait %q, all existing) was refused: %v", t.Name, t.Waits, x.runErr[i])
				}
			default:
				r.AddObs("submissions_accepted", 1)
			}
		}
	}

	// --- definite failures, from logged events only ------------------------------------------
	ownFail := make([]bool, len(p.all))
	failedDef := make([]bool, len(p.all))
	skipped := make([]string, len(p.all)) // name of the failed prerequisite
	cmdRanOK := func(c command) bool {
		probes := []*probeSpec{c.Probe}
		if c.Nested != nil {
			probes = subtreeProbes(c.Nested, nil)
		}
		for _, pr := range probes {
			if s := v.probe[pr.ID]; len(s.begins) != 1 || s.end == 0 || s.failing != 0 {
				return false
			}
		}
		return true
	}
	for _, t := range p.all { // prerequisites precede their dependants in program.all, except bogus "later"/"self" waits
		for ci, c := range t.Body {
			if c.Probe != nil && v.probe[c.Probe.ID].failing != 0 {
				ownFail[t.idx] = true
			}
			// a line that cannot be split leaves no event of its own: it counts as reached when every
			// command before it ran to its end without failing and no foreign failure can have cut
			// the body short in between (tasks of one shared scope share their context)
			if c.Probe != nil && c.Probe.Fail == "syntax" && ci > 0 && p.Mode != "shared" {
				reached := true
				for _, e := range t.Body[:ci] {
					reached = reached && cmdRanOK(e)
				}
				if reached {
					ownFail[t.idx] = true
					r.AddObs("malformed_lines_reached", 1)
				}
			}
		}
		if exists(t) {
			for _, wi := range t.waitIdx {
				if wi >= 0 && wi < t.idx && exists(p.all[wi]) && failedDef[wi] {
					skipped[t.idx] = p.all[wi].Full
				}
			}
		}
		failedDef[t.idx] = ownFail[t.idx] || skipped[t.idx] != ""
	}

	// --- 1. wait order ---------------------------------------------------------------------
	for _, t := range p.all {
		fb := v.first[t.idx]
		for _, wi := range t.waitIdx {
			if wi < 0 || wi == t.idx {
				continue
			}
			w := p.all[wi]
			if fb == 0 {
				continue
			}
			r.AddObs("wait_edges_checked_on_a_dependant_that_ran", 1)
			if v.last[wi] > fb {
				r.Violate("wait-order", fmt.Sprintf("%s mode: task %s (wait list %q) began its body at seq %d while prerequisite %s had not finished: probe %d of %s logged an event at seq %d",
					p.Mode, t.Full, t.Waits, fb, w.Full, v.lastID[wi], w.Full, v.last[wi]), witness())
			}
			if v.first[wi] == 0 && exists(w) && !failedDef[wi] && x.waitDone {
				// the prerequisite never ran although nothing failed before it: the dependant ran ahead of it
				r.AddObs("dependant_ran_prerequisite_did_not", 1)
			}
		}
	}

	// --- 2. failed prerequisite: never runs, ends failed ------------------------------------
	type reason struct{ w, how string }
	failedPre := map[int]reason{}
	for _, t := range p.all {
		if skipped[t.idx] != "" {
			failedPre[t.idx] = reason{skipped[t.idx], "its failing command was logged (or it was itself skipped)"}
		}
	}
	if p.Mode == "separated" && x.waitDone {
		// every top-level task has a context of its own: Errors() read after completion is the task's own outcome
		for _, t := range p.tops {
			if !x.accepted[t.top] {
				continue
			}
			for _, wi := range t.waitIdx {
				if wi < 0 || wi == t.idx || p.all[wi].top > t.top || !x.accepted[p.all[wi].top] {
					continue
				}
				if tk := taskOf(p.all[wi]); tk != nil && len(tk.Errors()) != 0 {
					if _, ok := failedPre[t.idx]; !ok {
						failedPre[t.idx] = reason{p.all[wi].Full, fmt.Sprintf("its Errors() after completion: %q", errStrings(tk.Errors()))}
					}
				}
			}
		}
	}
	for ti, why := range failedPre {
		t := p.all[ti]
		r.AddObs("tasks_with_a_failed_prerequisite_checked", 1)
		if fb := v.first[ti]; fb != 0 {
			r.Violate("ran-after-failed-prerequisite", fmt.Sprintf("%s mode: task %s (wait list %q) executed its body (first begin at seq %d) although prerequisite %s ended failed – %s",
				p.Mode, t.Full, t.Waits, fb, why.w, why.how), witness())
		}
		if tk := taskOf(t); tk != nil && x.waitDone && len(tk.Errors()) == 0 {
			r.Violate("skipped-task-not-failed", fmt.Sprintf("%s mode: task %s (wait list %q) has a failed prerequisite (%s – %s) but ended without an error: Errors()=nil, status %q",
				p.Mode, t.Full, t.Waits, why.w, why.how, tk.Status()), witness())
		}
	}
	// a task whose own command failed must end failed as well
	for _, t := range p.all {
		if ownFail[t.idx] && x.waitDone {
			if tk := taskOf(t); tk != nil {
				r.AddObs("failing_tasks_checked", 1)
				if len(tk.Errors()) == 0 {
					r.Violate("failing-task-not-failed", fmt.Sprintf("%s mode: a command of task %s failed (logged) but the task ended without an error", p.Mode, t.Full), witness())
				}
			}
		}
	}

	// --- 3. one body: script order, one at a time, stop at the first failing command ---------
	for _, t := range p.all {
		var prevLast int64
		prevDesc := ""
		failedCmd := ""
		for ci, c := range t.Body {
			var probes []*probeSpec
			desc := ""
			if c.Probe != nil {
				probes = []*probeSpec{c.Probe}
				desc = fmt.Sprintf("command %d (probe %d)", ci, c.Probe.ID)
			} else {
				probes = subtreeProbes(c.Nested, nil)
				desc = fmt.Sprintf("command %d (pip:run %s)", ci, c.Nested.Name)
			}
			var lo, hi int64
			for _, pr := range probes {
				s := v.probe[pr.ID]
				if len(s.begins) > 1 {
					r.Violate("probe-ran-twice", fmt.Sprintf("%s mode: probe %d of task %s began %d times", p.Mode, pr.ID, pr.task.Full, len(s.begins)), witness())
				}
				if len(s.begins) == 1 && s.end == 0 && x.waitDone {
					r.Violate("probe-without-end", fmt.Sprintf("%s mode: probe %d of task %s began but never ended although every task finished", p.Mode, pr.ID, pr.task.Full), witness())
				}
				for _, q := range append(append([]int64{}, s.begins...), s.failing, s.end) {
					if q == 0 {
						continue
					}
					if lo == 0 || q < lo {
						lo = q
					}
					if q > hi {
						hi = q
					}
				}
			}
			if lo != 0 {
				r.AddObs("body_commands_checked", 1)
				if lo < prevLast {
					r.Violate("body-order", fmt.Sprintf("%s mode: body of task %s: %s logged an event at seq %d before %s was over (its last event: seq %d)", p.Mode, t.Full, desc, lo, prevDesc, prevLast), witness())
				}
				if failedCmd != "" {
					r.Violate("ran-after-failing-command", fmt.Sprintf("%s mode: body of task %s: %s ran (seq %d) although %s had failed", p.Mode, t.Full, desc, lo, failedCmd), witness())
				}
			}
			if hi > prevLast {
				prevLast, prevDesc = hi, desc
			}
			switch {
			case c.Probe != nil && c.Probe.Fail == "syntax":
				failedCmd = desc + " [the line cannot be split into arguments]"
			case c.Probe != nil && v.probe[c.Probe.ID].failing != 0:
				failedCmd = desc + " [--fail=" + c.Probe.Fail + "]"
				r.AddObs("failing_commands_observed", 1)
			case c.Nested != nil && failedDef[c.Nested.idx]:
				failedCmd = desc + " [its task failed]"
			case c.Nested != nil && c.Nested.Bogus != "":
				failedCmd = desc + fmt.Sprintf(" [wait list %q names no task: must be refused]", c.Nested.Waits)
				if lo != 0 {
					r.Violate("accepted-nonexistent-wait", fmt.Sprintf("%s mode: nested task %s with wait list %q ran", p.Mode, c.Nested.Full, c.Nested.Waits), witness())
				}
			}
		}
	}

	// --- 4. every accepted submission finishes; TasksManager.Wait returns; error iff a task failed
	if x.stuck != "" {
		var reg []string
		if direct {
			for i, t := range p.tops {
				if !x.accepted[i] {
					reg = append(reg, fmt.Sprintf("%s refused (%.100s)", t.Name, x.runErr[i]))
				}
			}
		}
		w := witness()
		w["parked_goroutines"] = x.stuck
		what := "TasksManager.Wait()"
		if !direct && res.mgr == nil {
			what = "the terminal session (bootstrap Run)"
		}
		r.Violate("tasks-never-finish", fmt.Sprintf("%s mode: %s never returns: two stop-the-world snapshots show the same goroutines, all parked in sync primitives inside goatcore, no probe running, no event logged in between. %s",
			p.Mode, what, strings.Join(reg, "; ")), w)
	}
	if x.waitDone {
		r.AddObs("manager_waits_returned", 1)
		var failedObs []string
		for name, tk := range res.tasks {
			if len(tk.Errors()) != 0 {
				failedObs = append(failedObs, name)
			}
		}
		sort.Strings(failedObs)
		var failedModel []string
		for _, t := range p.all {
			if failedDef[t.idx] && taskOf(t) != nil {
				failedModel = append(failedModel, t.Full)
			}
		}
		if x.waitErr != nil {
			r.AddObs("manager_wait_returned_an_error", 1)
		}
		switch {
		case x.waitErr == nil && len(failedObs) > 0:
			r.Violate("manager-wait-error-mismatch", fmt.Sprintf("%s mode: TasksManager.Wait() returned nil although tasks %q ended with errors", p.Mode, failedObs), witness())
		case x.waitErr == nil && len(failedModel) > 0:
			r.Violate("manager-wait-error-mismatch", fmt.Sprintf("%s mode: TasksManager.Wait() returned nil although tasks %q failed (failing command logged / failed prerequisite)", p.Mode, failedModel), witness())
		case x.waitErr != nil && len(failedObs) == 0:
			r.Violate("manager-wait-error-mismatch", fmt.Sprintf("%s mode: TasksManager.Wait() returned an error (%.200s) although no task has an error", p.Mode, x.waitErr), witness())
		}
		// nothing failed anywhere (no failing command in any body, no malformed line, no refused nested
		// submission; refused top-level submissions of the direct driver are not tasks): no task has
		// a failed prerequisite or a failing command, so none may end failed
		anyFailing := false
		for _, e := range v.evs {
			if e.Kind == evFailing {
				anyFailing = true
			}
		}
		if direct && p.failing == 0 && p.syntax == 0 && !anyFailing {
			r.AddObs("programs_without_any_failure_whose_tasks_were_inspected", 1)
			if len(failedObs) > 0 {
				tk := res.tasks[failedObs[0]]
				r.Violate("task-failed-without-cause", fmt.Sprintf("%s mode: tasks %q ended with errors (%s: %.200v) although no command of any body failed and no prerequisite failed (%d top-level submissions were refused for their wait lists, which creates no task)",
					p.Mode, failedObs, failedObs[0], tk.Errors(), p.bogus), witness())
			}
		}
		r.AddObs("task_objects_inspected", int64(len(res.tasks)))
	}

	// --- 5. non-vacuity ----------------------------------------------------------------------
	if x.waitDone && r.Inconclusive == "" {
		if p.failing == 0 && p.bogus == 0 {
			for _, pr := range p.probes {
				if s := v.probe[pr.ID]; len(s.begins) != 1 || s.end == 0 {
					r.Inconclusive = fmt.Sprintf("failure-free program: probe %d of task %s ran %d times (every body must run exactly once for the run to count)", pr.ID, pr.task.Full, len(s.begins))
					break
				}
			}
			r.AddObs("failure_free_programs_every_body_ran_once", 1)
		}
		if p.Mode == "separated" && r.Inconclusive == "" {
			for _, t := range p.tops {
				if !x.accepted[t.top] || v.first[t.idx] != 0 || t.Body[0].Probe.Fail == "syntax" {
					continue
				}
				if _, bad := failedPre[t.idx]; !bad {
					r.Inconclusive = fmt.Sprintf("separated mode: task %s was accepted, none of its prerequisites failed, yet its body never ran", t.Full)
				}
			}
		}
	}

	// --- observations --------------------------------------------------------------------------
	r.AddObs("probe_events", int64(len(v.evs)))
	r.AddObs("histories_checked", 1)
	r.AddObs("programs_"+p.Mode, 1)
	r.AddObs("gated_prerequisites_held_until_dependants_were_submitted", x.gateHits.Load())
	r.AddObs("gated_holds_cut_short_by_a_dependant_begin", x.gateBroke.Load())
	// concurrency actually seen: a probe began while a probe of another top-level task was open
	open := map[int]int{}
	var overlaps, nestedRan int64
	for _, e := range v.evs {
		pr := p.probes[e.ID]
		root := pr.task
		for root.parent != nil {
			root = root.parent
		}
		switch e.Kind {
		case evBegin:
			for o, n := range open {
				if o != root.top && n > 0 {
					overlaps++
					break
				}
			}
			open[root.top]++
			if pr.task.parent != nil {
				nestedRan++
			}
		case evEnd:
			open[root.top]--
		}
	}
	r.AddObs("probe_begins_while_another_task_was_inside_a_probe", overlaps)
	r.AddObs("nested_probe_runs", nestedRan)
	edges := 0
	for _, t := range p.all {
		edges += len(t.waitIdx)
	}
	r.Key = p.key()
	r.Nontrivial = edges > 0 && len(v.evs) > 0
}
