package main

import (
	"fmt"
	"strings"
	"testing"
	"time"

	"github.com/goatcms/goatcore/app"
	"github.com/goatcms/goatcore/app/bootstrap"
	"github.com/goatcms/goatcore/app/gio"
	"github.com/goatcms/goatcore/app/goatapp"
	"github.com/goatcms/goatcore/app/injector"
	"github.com/goatcms/goatcore/app/modules/commonm"
	"github.com/goatcms/goatcore/app/modules/commonm/commservices"
	"github.com/goatcms/goatcore/app/modules/ocm"
	"github.com/goatcms/goatcore/app/modules/pipelinem"
	"github.com/goatcms/goatcore/app/modules/pipelinem/pipservices"
	"github.com/goatcms/goatcore/app/modules/pipelinem/pipservices/namespaces"
	"github.com/goatcms/goatcore/app/modules/terminalm"
	"github.com/goatcms/goatcore/app/scope"
	"github.com/goatcms/goatcore/app/terminal"
	"github.com/goatcms/goatcore/filesystem/filespace/memfs"
	"github.com/goatcms/goatcore/varutil/goaterr"
)

func TestProbe(t *testing.T) {
	mapp, err := goatapp.NewMockupApp(goatapp.Params{})
	if err != nil {
		t.Fatal(err)
	}
	bs := bootstrap.NewBootstrap(mapp)
	if err = goaterr.ToError(goaterr.AppendError(nil,
		bs.Register(terminalm.NewModule()), bs.Register(commonm.NewModule()), bs.Register(ocm.NewModule()), bs.Register(pipelinem.NewModule()))); err != nil {
		t.Fatal(err)
	}
	if err = bs.Init(); err != nil {
		t.Fatal(err)
	}
	mapp.Terminal().SetCommand(terminal.NewCommand(terminal.CommandParams{Name: "probe", Callback: func(a app.App, ctx app.IOContext) error {
		var deps struct {
			ID   string `command:"?id"`
			Fail string `command:"?fail"`
		}
		if err := ctx.Scope().InjectTo(&deps); err != nil {
			return err
		}
		fmt.Println("probe begin", deps.ID, deps.Fail)
		if deps.Fail == "ret" {
			return fmt.Errorf("probe %s fails", deps.ID)
		}
		if deps.Fail == "append" {
			ctx.Scope().AppendError(fmt.Errorf("probe %s appends", deps.ID))
		}
		fmt.Println("probe end", deps.ID)
		return nil
	}}))
	var deps struct {
		Runner    pipservices.Runner    `dependency:"PipRunner"`
		TasksUnit pipservices.TasksUnit `dependency:"PipTasksUnit"`
	}
	if err = mapp.DependencyProvider().InjectTo(&deps); err != nil {
		t.Fatal(err)
	}
	root := scope.New(scope.Params{Name: "root"})
	mgr, err := deps.TasksUnit.FromScope(root)
	if err != nil {
		t.Fatal(err)
	}
	cwd, _ := memfs.NewFilespace()
	ns := namespaces.NewNamespaces(pipservices.NamasepacesParams{})
	submit := func(name string, waits []string, body string) error {
		sep := scope.New(scope.Params{DataScope: root, EventScope: root, Injector: injector.NewMultiInjector([]app.Injector{root}), Name: "sep-" + name})
		return deps.Runner.Run(pipservices.Pip{
			Context: pipservices.PipContext{In: gio.NewInput(strings.NewReader(body)), Out: gio.NewNilOutput(), Err: gio.NewNilOutput(), CWD: cwd, Scope: sep},
			Name:    name, Namespaces: ns, Sandbox: "self", Lock: commservices.LockMap{}, Wait: waits,
		})
	}
	fmt.Println("a:", submit("a", nil, "probe --id=a0\nprobe --id=a1 --fail=ret\nprobe --id=a2"))
	fmt.Println("b:", submit("b", []string{"a"}, "probe --id=b0"))
	fmt.Println("c:", submit("c", nil, "probe --id=c0\npip:run --name=n1 --body=\"probe --id=c.n1\" --silent=true\npip:run --name=n2 --wait=n1 --body=<<EOF\nprobe --id=c.n2.0\nprobe --id=c.n2.1 --fail=append\nprobe --id=c.n2.2\nEOF\nprobe --id=c3"))
	fmt.Println("d:", submit("d", []string{"c"}, "probe --id=d0"))
	fmt.Println("e:", submit("e", nil, "probe --id=e0"))
	fmt.Println("z:", submit("z", []string{"nope"}, "probe --id=z0"))
	done := make(chan error, 1)
	go func() { done <- mgr.Wait() }()
	select {
	case e := <-done:
		fmt.Println("manager.Wait:", e != nil)
	case <-time.After(3 * time.Second):
		fmt.Println("manager.Wait HANGS")
	}
	for _, n := range []string{"a","b","c","c:n1","c:n2","d","e","z"} {
		tk, ok := mgr.Get(n); if !ok { fmt.Println("task", n, "absent"); continue }
		fmt.Println("task", n, "status", tk.Status(), "errors", len(tk.Errors()))
	}
	fmt.Println("root err:", root.Err())
}
