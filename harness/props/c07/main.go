// C07 – the cache view reflects its own pending operations (read-your-writes).
package main

import (
	"fmt"

	"verif/internal/cachemon"
	"verif/internal/mfs"
	"verif/internal/sup"

	"github.com/goatcms/goatcore/filesystem"
)

func plan(tier string, seed int64) []sup.Batch {
	nClean, nTrig, ops := 1600, 1600, 25
	if tier == "thorough" {
		nClean, nTrig, ops = 30000, 30000, 60
	}
	var bs []sup.Batch
	bs = append(bs, sup.Chunk("clean", "clean", nClean, (nClean+7)/8, 1, map[string]any{"ops": ops})...)
	bs = append(bs, sup.Chunk("trigger", "trigger", nTrig, (nTrig+7)/8, 1, map[string]any{"ops": ops})...)
	bs = append(bs, sup.Chunk("faultycommit", "faultycommit", nClean/2, (nClean/2+3)/4, 1, map[string]any{"ops": ops})...)
	bs = append(bs, sup.Batch{Name: "witness", Kind: "witness", From: 0, To: len(cachemon.Witnesses()), Procs: 1})
	return bs
}

func main() {
	sup.Main(sup.Prop{
		ID:    "C07",
		Level: "exploration",
		Rule:  "generated cache histories (initial remote tree of 0–6 nodes; writes, stream writes, mkdirs, removes, copies, reads, Commits; path spellings; child views of the cache) are executed on fscache.Cache over a memory or disk remote and on the tree model initialised with the remote's tree; after every operation the read-type result and the whole tree observable through the cache (ReadDir+Lstat+IsExist/IsFile/IsDir+ReadFile on every node) are compared with the model. clean stratum: the generator never issues an operation that matches a listed finding's trigger (removes only of never-committed buffered files, copies only of files onto absent destinations, no operation the model rejects) – every divergence is a violation; trigger stratum: unrestricted histories, a divergence must satisfy a listed finding's class predicate (evaluated on the model's bookkeeping) or it is a violation; faultycommit: clean histories over a fault-injecting remote – half of the Commits meet one remote failure; after a failed Commit the view must still show every pending operation; a third of the file copies meets a remote that refuses to open the source – the copy fails and, like every unsuccessful operation, must leave the view as it was; witness: the listed findings' minimal histories replayed verbatim. distinct = distinct operation sequences; non-trivial = ≥1 successful mutation through the cache",
		Assumptions: []string{
			"a cache operation that reports an error is not applied to the model (it must then have no visible effect)",
			"histories in which the cache accepts an operation the tree model rejects are ambiguous and stop without verdict",
			"copies whose source and destination are related paths are not generated (outside the statement; the copy helper hangs on them)",
		},
		Plan: plan,
		Run: func(c *sup.Child, b sup.Batch) {
			if b.Kind == "witness" {
				ws := cachemon.Witnesses()
				for idx := b.From; idx < b.To; idx++ {
					wt := ws[idx]
					if wt.Prop != "C07" {
						continue
					}
					c.Case(idx, map[string]any{"witness": wt.ID, "history": cachemon.HistStrings(wt.Steps)}, func(r *sup.CaseResult) {
						cachemon.RunWitness(r, wt, cachemon.Options{CheckReads: true, RemoteKind: "mem"})
					})
				}
				return
			}
			nops := b.P("ops", 25)
			for idx := b.From; idx < b.To; idx++ {
				rng := c.Rand(idx)
				opt := cachemon.Options{CheckReads: true, RemoteKind: []string{"mem", "mem", "disk"}[idx%3]}
				init := cachemon.GenInit(rng)
				c.Case(idx, map[string]any{"stratum": b.Kind, "idx": idx, "remote": opt.RemoteKind}, func(r *sup.CaseResult) {
					var faults *mfs.Faults
					var wrap func(filesystem.Filespace) filesystem.Filespace
					if b.Kind == "faultycommit" {
						faults = &mfs.Faults{}
						wrap = func(in filesystem.Filespace) filesystem.Filespace { return mfs.NewFaultFS(in, faults, "remote") }
					}
					run, err := cachemon.NewRun(opt, init, wrap)
					if err != nil {
						r.Inconclusive = err.Error()
						return
					}
					run.Faults = faults
					defer run.Cleanup()
					d := cachemon.Drive(run, rng, nops, b.Kind != "trigger", idx%2 == 0)
					r.AddObs("failed_commits_followed_by_view_check", run.FailedCommits)
					r.AddObs("file_copies_whose_remote_source_refused_to_open", int64(run.SourceOpenFaults))
					if d != nil && d.Prop == "C07" {
						cachemon.Report(r, run, d, b.Kind, b.Kind == "trigger")
					}
					if run.Ambiguous != "" {
						r.AddObs("ambiguous_excluded_"+b.Kind, 1)
					}
					r.AddObs("histories_"+b.Kind, 1)
					r.AddObs("steps", int64(len(run.Hist)))
					r.AddObs("mutations_through_cache", run.Mutations)
					r.AddObs("read_results_checked", run.ReadsChecked)
					r.AddObs("whole_view_comparisons", run.TreeChecks)
					r.Key = b.Kind + "|" + cachemon.Key(run.Hist)
					r.Nontrivial = run.Mutations > 0
					if idx%400 == 0 {
						hs := cachemon.HistStrings(run.Hist)
						if len(hs) > 10 {
							hs = hs[:10]
						}
						r.Sample = map[string]any{"stratum": b.Kind, "remote": opt.RemoteKind, "initial": fmt.Sprint(init), "first_ops": hs}
					}
				})
			}
		},
		Finish: func(t *sup.Totals) string {
			if t.Obs["histories_clean"] == 0 || t.Obs["histories_trigger"] == 0 || t.Obs["whole_view_comparisons"] < 1000 || t.Obs["failed_commits_followed_by_view_check"] == 0 || t.Obs["file_copies_whose_remote_source_refused_to_open"] == 0 {
				return "a stratum observed nothing"
			}
			return ""
		},
	})
}
