// C18 – environment values reach sandbox shells verbatim, with no shell interpretation.
//
// Subject: the start-up scripts built by dcmd.InitSequence (container sandboxes) and by the
// SSH sandbox's private initSequence (through the verif export sshsb.VerifInitSequence).
// Every generated script is fed to the real /bin/sh on stdin, in an empty scratch directory
// with a scrubbed environment, followed by harness lines that dump every configured variable.
// Oracles: dump == configured value minus trailing newlines; the variable is exported with the
// same value; no file appears in the scratch directory; no foreign variable appears or changes;
// exit status 0; changing one variable changes only that variable. Name validation is checked
// on an exhaustive set of short names and on random longer ones.
package main

import (
	"fmt"
	"io"
	"math/rand"
	"sort"
	"strings"

	"verif/internal/sup"

	"github.com/goatcms/goatcore/app/modules/commonm/commservices"
	"github.com/goatcms/goatcore/app/modules/commonm/commservices/envs"
	"github.com/goatcms/goatcore/app/modules/ocm/ocservices/dcmd"
	"github.com/goatcms/goatcore/app/modules/pipelinem/pipservices/sandboxes/sshsb"
)

const (
	vContainer = "container"
	vSSH       = "ssh"
	perShell   = 200 // variables per shell run in the exhaustive batches
	maxViol    = 4   // violations written out per case (all are counted)
)

var variants = []string{vContainer, vSSH}

// exhaustive value alphabet of DESIGN.md "### C18"
var valAlphabet = []string{"$", "`", "\"", "'", "\\", "\n", " ", "(", ")", "a", "E"}

func pow(b, e int) int {
	t := 1
	for i := 0; i < e; i++ {
		t *= b
	}
	return t
}

// exhTotal = number of strings of length 0..L over the value alphabet.
func exhTotal(L int) int {
	t := 0
	for l := 0; l <= L; l++ {
		t += pow(len(valAlphabet), l)
	}
	return t
}

// strAt returns the idx-th string (shortlex order) over alphabet a.
func strAt(a []string, idx int) string {
	l := 0
	for {
		n := pow(len(a), l)
		if idx < n {
			break
		}
		idx -= n
		l++
	}
	out := make([]string, l)
	for i := l - 1; i >= 0; i-- {
		out[i] = a[idx%len(a)]
		idx /= len(a)
	}
	return strings.Join(out, "")
}

func plan(tier string, seed int64) []sup.Batch {
	exhLen, nRand, nAdapt, nameLen, nNameRand := 4, 500, 120, 3, 4000
	exhBatches, randBatches := 8, 8
	to := 900
	if tier == "thorough" {
		exhLen, nRand, nAdapt, nameLen, nNameRand = 5, 16000, 4000, 4, 200000
		exhBatches, randBatches = 16, 24
		to = 5400
	}
	var bs []sup.Batch
	add := func(b []sup.Batch) {
		for i := range b {
			b[i].TimeoutS = to
		}
		bs = append(bs, b...)
	}
	for _, v := range variants {
		ncase := (exhTotal(exhLen) + perShell - 1) / perShell
		add(sup.Chunk("exh-"+v, "exh-"+v, ncase, (ncase+exhBatches-1)/exhBatches, 1, map[string]any{"variant": v, "len": exhLen}))
	}
	for _, v := range variants {
		add(sup.Chunk("rand-"+v, "rand-"+v, nRand, (nRand+randBatches-1)/randBatches, 1, map[string]any{"variant": v}))
		add(sup.Chunk("adapt-"+v, "adapt-"+v, nAdapt, (nAdapt+3)/4, 1, map[string]any{"variant": v}))
		add(sup.Chunk("special-"+v, "special-"+v, nRand/4, (nRand/4+1)/2, 1, map[string]any{"variant": v}))
		add(sup.Chunk("reuse-"+v, "reuse-"+v, nRand/4, (nRand/4+1)/2, 1, map[string]any{"variant": v}))
		add(sup.Chunk("two-"+v, "two-"+v, nRand/8, nRand/8, 1, map[string]any{"variant": v}))
	}
	nn := nameTotal(nameLen)
	const nameBlk = 4000
	nblk := (nn + nameBlk - 1) / nameBlk
	add(sup.Chunk("names-exh", "names-exh", nblk, (nblk+7)/8, 1, map[string]any{"len": nameLen, "blk": nameBlk}))
	nrb := (nNameRand + nameBlk - 1) / nameBlk
	add(sup.Chunk("names-rand", "names-rand", nrb, (nrb+3)/4, 1, map[string]any{"blk": nameBlk, "n": nNameRand}))
	add([]sup.Batch{{Name: "names-list", Kind: "names-list", From: 0, To: 1, Procs: 1}})
	return bs
}

// ---- building the script -------------------------------------------------------------------

// newEnvs fills a fresh Environments with m; useSetAll selects the entry point.
func newEnvs(m map[string]string, useSetAll bool) (commservices.Environments, error) {
	e := envs.NewEnvironments()
	if useSetAll {
		cp := make(map[string]string, len(m))
		for k, v := range m {
			cp[k] = v
		}
		if err := e.SetAll(cp); err != nil {
			return nil, err
		}
		return e, nil
	}
	for _, k := range sortedKeys(m) {
		if err := e.Set(k, m[k]); err != nil {
			return nil, err
		}
	}
	return e, nil
}

var sshEntrypoint = catPath + " /proc/self/environ > ../env" // absolute: a configured PATH is the user's business

// buildScript returns the start-up script of the variant for e.
func buildScript(variant string, e commservices.Environments) ([]byte, error) {
	rd, err := scriptReader(variant, e)
	if err != nil {
		return nil, err
	}
	return io.ReadAll(rd)
}

// scriptReader returns the reader the library hands to the sandbox (not yet read).
func scriptReader(variant string, e commservices.Environments) (io.Reader, error) {
	var (
		rd  io.Reader
		err error
	)
	switch variant {
	case vContainer:
		rd, err = dcmd.InitSequence(e)
	case vSSH:
		// the entrypoint is the process the SSH sandbox starts after the variables are set;
		// here it is a child process that records the environment it was given
		rd, err = sshsb.VerifInitSequence(sshEntrypoint, e)
	default:
		return nil, fmt.Errorf("unknown variant %q", variant)
	}
	if err != nil {
		return nil, err
	}
	return rd, nil
}

// tail returns the harness lines that follow the script on the shell's stdin.
func tail(variant string, names []string) []byte {
	var sb strings.Builder
	sb.WriteString("\n")
	for _, k := range names {
		sb.WriteString("printf '%s' \"$" + k + "\" > ../out/" + k + "\n")
	}
	if variant == vContainer {
		sb.WriteString(catPath + " /proc/self/environ > ../env\n")
	}
	sb.WriteString(": > ../done\n")
	return []byte(sb.String())
}

func sortedKeys(m map[string]string) []string {
	ks := make([]string, 0, len(m))
	for k := range m {
		ks = append(ks, k)
	}
	sort.Strings(ks)
	return ks
}

// isPlainName is the documented shape of a sandbox environment name (letters and
// underscores, first character a letter) – names the generator may rely on being accepted.
func isPlainName(s string) bool {
	if s == "" {
		return false
	}
	for i := 0; i < len(s); i++ {
		c := s[i]
		letter := (c >= 'a' && c <= 'z') || (c >= 'A' && c <= 'Z')
		if !(letter || (c == '_' && i > 0)) {
			return false
		}
	}
	return true
}

// ---- the oracle over one shell run -----------------------------------------------------------

type problem struct {
	class  string
	name   string // variable involved ("" = whole run)
	detail string
}

func expectOf(v string) string { return strings.TrimRight(v, "\n") }

func q(s string) string {
	if len(s) > 300 {
		return fmt.Sprintf("%q…(%d bytes)", s[:300], len(s))
	}
	return fmt.Sprintf("%q", s)
}

// judge compares what the shell reported with the configured map.
func judge(m map[string]string, o *shellOut, wantOf func(k string) string) []problem {
	var ps []problem
	if wantOf == nil {
		wantOf = func(k string) string { return expectOf(m[k]) }
	}
	if o.exit != 0 {
		ps = append(ps, problem{"shell-exit", "", fmt.Sprintf("/bin/sh ended with status %d; stderr %s", o.exit, q(o.stderr))})
	} else if !o.done {
		ps = append(ps, problem{"shell-stopped-early", "", "/bin/sh ended with status 0 before the last harness line"})
	}
	for _, s := range o.stray {
		ps = append(ps, problem{"side-effect", "", "the script created " + q(s) + " (a value was executed)"})
	}
	for _, k := range sortedKeys(m) {
		want := wantOf(k)
		got, ok := o.dumps[k]
		switch {
		case !ok:
			if o.exit == 0 {
				ps = append(ps, problem{"dump-missing", k, fmt.Sprintf("variable %s (configured %s) was never dumped", k, q(m[k]))})
			}
		case got != want:
			ps = append(ps, problem{"value-mismatch", k, fmt.Sprintf("variable %s configured as %s holds %s in the shell", k, q(m[k]), q(got))})
		}
		if o.envSeen {
			ev, ok := o.environ[k]
			switch {
			case !ok:
				ps = append(ps, problem{"not-exported", k, fmt.Sprintf("variable %s (configured %s) is missing from the environment of a child process", k, q(m[k]))})
			case ev != want:
				ps = append(ps, problem{"exported-mismatch", k, fmt.Sprintf("variable %s configured as %s reaches a child process as %s", k, q(m[k]), q(ev))})
			}
		}
	}
	if o.envSeen {
		for _, k := range sortedKeyset(o.environ) {
			if _, ok := m[k]; ok {
				continue
			}
			if base, ok := baseEnv[k]; ok {
				if o.environ[k] != base {
					ps = append(ps, problem{"foreign-variable-altered", k, fmt.Sprintf("%s was %s before the script and is %s after it", k, q(base), q(o.environ[k]))})
				}
				continue
			}
			if k == "PWD" || k == "OLDPWD" || k == "_" || k == "SHLVL" { // maintained by the shell itself
				continue
			}
			ps = append(ps, problem{"foreign-variable-created", k, fmt.Sprintf("unconfigured variable %s=%s appeared in the environment", k, q(o.environ[k]))})
		}
	} else if o.exit == 0 && o.done {
		ps = append(ps, problem{"environment-not-recorded", "", "the child process that records the environment did not run"})
	}
	return ps
}

func sortedKeyset(m map[string]string) []string { return sortedKeys(m) }

// execute builds the script for m and runs it. inc != "" means "could not decide".
func execute(variant string, m map[string]string, useSetAll bool) (script []byte, o *shellOut, inc string) {
	script, inc = makeScript(variant, m, useSetAll)
	if inc != "" || script == nil {
		return nil, nil, inc
	}
	o = feed(variant, script, m)
	return script, o, o.inc
}

// feed runs script + harness tail under /bin/sh.
func feed(variant string, script []byte, m map[string]string) *shellOut {
	names := sortedKeys(m)
	return runShell("/bin/sh", append(append([]byte{}, script...), tail(variant, names)...), names)
}

// makeScript builds the start-up script for m (nil, "" = All() lost variables).
func makeScript(variant string, m map[string]string, useSetAll bool) (script []byte, inc string) {
	e, err := newEnvs(m, useSetAll)
	if err != nil {
		for k := range m {
			if !isPlainName(k) {
				return nil, "harness bug: generated name " + q(k)
			}
		}
		return nil, "a name made of letters and underscores was rejected, no script to run: " + err.Error()
	}
	all := e.All()
	if len(all) != len(m) {
		return nil, ""
	}
	script, err = buildScript(variant, e)
	if err != nil {
		return nil, "script builder failed: " + err.Error()
	}
	return script, ""
}

// report turns problems into violations (capped) and, for the first one, looks for a
// one-variable witness.
func report(r *sup.CaseResult, variant string, m map[string]string, script []byte, o *shellOut, ps []problem, useSetAll bool, budget *int) {
	if len(ps) == 0 {
		return
	}
	r.AddObs("problems_"+variant, int64(len(ps)))
	for i, p := range ps {
		if *budget <= 0 {
			return
		}
		*budget--
		w := map[string]any{"variant": variant, "variables": len(m), "stderr": q(o.stderr), "exit": o.exit}
		detail := fmt.Sprintf("[%s sandbox] %s", variant, p.detail)
		if i == 0 {
			if k, v, single, ok := minimise(variant, m, p, useSetAll); ok {
				detail += fmt.Sprintf(" | one-variable witness: %s=%s: %s", k, q(v), single)
				w["witness_env"] = map[string]string{k: fmt.Sprintf("%q", v)}
			}
		}
		if len(m) <= 8 {
			em := map[string]string{}
			for k, v := range m {
				em[k] = fmt.Sprintf("%q", v)
			}
			w["env"] = em
		}
		sc := string(script)
		if len(sc) > 3000 {
			sc = sc[:3000] + "…"
		}
		w["script"] = sc
		r.Violate(p.class, detail, w)
	}
}

// minimise reruns single variables of m and returns the first that alone shows a problem.
func minimise(variant string, m map[string]string, p problem, useSetAll bool) (k, v, what string, ok bool) {
	if len(m) == 1 {
		return "", "", "", false
	}
	cand := sortedKeys(m)
	if p.name != "" {
		if _, in := m[p.name]; in {
			cand = append([]string{p.name}, cand...)
		}
	}
	runs := 0
	for _, k := range cand {
		if runs >= 60 {
			break
		}
		runs++
		one := map[string]string{k: m[k]}
		sc, o, inc := execute(variant, one, useSetAll)
		if inc != "" || o == nil {
			continue
		}
		if ps := judge(one, o, dashWant(one, sc)); len(ps) > 0 {
			return k, m[k], ps[0].class + ": " + ps[0].detail, true
		}
	}
	return "", "", "", false
}

// checkMap is the full oracle for one environment map. It returns the run for comparisons.
func checkMap(r *sup.CaseResult, variant string, m map[string]string, useSetAll bool, budget *int) (*shellOut, bool) {
	if why := calibrate(); why != "" {
		if r.Inconclusive == "" {
			r.Inconclusive = why
		}
		return nil, false
	}
	script, o, inc := execute(variant, m, useSetAll)
	if inc != "" {
		if r.Inconclusive == "" {
			r.Inconclusive = inc
		}
		return nil, false
	}
	if o == nil {
		r.Violate("configured-map-lost", fmt.Sprintf("[%s sandbox] All() does not return the %d variables that were set", variant, len(m)), nil)
		return nil, false
	}
	r.AddObs("shell_runs", 1)
	if calDefect && !calReported {
		calReported = true
		r.AddObs("children_whose_sh_selftest_showed_the_dash_heredoc_defect", 1)
	}
	r.AddObs("vars_checked_"+variant, int64(len(m)))
	r.AddObs("script_bytes", int64(len(script)))
	if o.envSeen {
		r.AddObs("child_environments_read", 1)
	}
	wantOf := dashWant(m, script)
	o.want = map[string]string{}
	for k := range m {
		o.want[k] = wantOf(k)
	}
	ps := judge(m, o, wantOf)
	report(r, variant, m, script, o, ps, useSetAll, budget)
	// values that hit the here-document defect of dash (see dash.go) were compared with the
	// predicted dash result
	if n := dashTriggers(m, script); n > 0 {
		r.AddObs("dash_heredoc_defect_values", int64(n))
	}
	return o, len(ps) == 0
}

// ---- exhaustive values -----------------------------------------------------------------------

func slotName(j int) string {
	return "x" + string(rune('a'+j/26%26)) + string(rune('a'+j%26)) + "_V"
}

func runExh(c *sup.Child, b sup.Batch) {
	variant := b.PS("variant", vContainer)
	L := b.P("len", 4)
	total := exhTotal(L)
	for ci := b.From; ci < b.To; ci++ {
		from, to := ci*perShell, (ci+1)*perShell
		if to > total {
			to = total
		}
		desc := map[string]any{"kind": "exh", "variant": variant, "len": L, "first": fmt.Sprintf("%q", strAt(valAlphabet, from)), "last": fmt.Sprintf("%q", strAt(valAlphabet, to-1)), "from": from, "to": to}
		c.Case(ci, desc, func(r *sup.CaseResult) {
			m := make(map[string]string, to-from)
			for i := from; i < to; i++ {
				m[slotName(i-from)] = strAt(valAlphabet, i)
			}
			budget := maxViol
			checkMap(r, variant, m, true, &budget)
			r.AddObs("exh_values_"+variant, int64(to-from))
			r.Key = fmt.Sprintf("exh|%s|%d|%d", variant, from, to)
			r.Nontrivial = true
			if ci == 1 {
				r.Sample = map[string]any{"kind": "exhaustive block", "variant": variant, "values": to - from, "first": desc["first"], "last": desc["last"]}
			}
		})
	}
}

// ---- random maps -----------------------------------------------------------------------------

var literalFrags = []string{
	"$", "`", "\"", "'", "\\", "\n", " ", "\t", "(", ")", "a", "E", "\r", ";", "&", "|", "<", ">", "#", "*", "?", "~",
	"{", "}", "[", "]", "!", "=", "%", "é", "\x80", "\xff", "\x81", "\x82", "\x84", "\x88", "\x01", "\x7f", "b", "0", "-", "_", "/", ".",
}

var hostileFrags = []string{
	"$(touch canary)", "`touch canary`", "$(touch canary_b)", "$(: > canary)", "`echo pwned > canary`",
	"$OTHER", "${OTHER}", "\"$OTHER\"", "${OTHER:-x}", "${#OTHER}", "${OTHER:=pwned}",
	"$VERIF_SECRET", "${VERIF_SECRET}", "$PATH", "$HOME", "$PWD", "$$", "$?", "$0", "$-", "$#", "$((1+1))", "$(echo pwned)", "`echo pwned`",
	"\\$", "\\`", "\\\\", "\\\n", "\\\"", "\\a", "$'", "$\"", "$(", "${", "$((", "`", "$)", "$(exit 3)", "`exit 3`",
	"\nEOF\n", "\nEOFABC\n", "EOF", "\nEOF", "EOF\n", "'EOF'", "\n'EOF'\n", "\nEOF \n", "\n EOF\n", "\n\tEOF\n", "\nEOFAAAAAAAAAA\n",
	"\n)\n", ")\n", "\n)", "\nOTHER=pwned\nexport OTHER\n", "\nOTHER=pwned\n", "\ntouch canary\n", "; touch canary;", "\nexport VERIF_NEW=1\n",
	"\nexit 0\n", "\nset +e\n", "\nPATH=/nonexistent\n", "\nVERIF_SECRET=changed\n", "\n\n", "\n\n\n", "\n\tindented", "\t", "<<EOF", "<<'EOF'\n",
	"\nE\xc3\xa9", "\nEO\xff\n", "\nEOF\x88x", "E\xc3\x89t\xc3\xa9\n", "\nEOFA\xe2\x82\xac",
	"$(cat)", "\nunset OTHER\n", "#comment", "\n# )", "$(echo $OTHER)", "`echo \\`touch canary\\``",
}

func genNames(rng *rand.Rand, n int) []string {
	const first = "abcdefghijklmnopqrstuvwxyzABCDEFGHIJKLMNOPQRSTUVWXYZ"
	const rest = first + "___"
	seen := map[string]bool{}
	var out []string
	for len(out) < n {
		l := 1 + rng.Intn(8)
		bs := make([]byte, l)
		lower := false
		for i := range bs {
			if i == 0 {
				bs[i] = first[rng.Intn(len(first))]
			} else {
				bs[i] = rest[rng.Intn(len(rest))]
			}
			if bs[i] >= 'a' && bs[i] <= 'z' {
				lower = true
			}
		}
		s := string(bs)
		if !lower { // all-capital names may be special to the shell (PATH, IFS, PS…)
			s += "v"
		}
		if seen[s] {
			continue
		}
		seen[s] = true
		out = append(out, s)
	}
	return out
}

func genValue(rng *rand.Rand, names []string, self int) string {
	other := func() string {
		if len(names) <= 1 {
			return "UNSET_v"
		}
		for {
			j := rng.Intn(len(names))
			if j != self {
				return names[j]
			}
		}
	}
	var sb strings.Builder
	switch rng.Intn(40) {
	case 0:
		return ""
	case 1: // longer than a pipe buffer: the shell writes the here-document from a forked process
		n := 4200 + rng.Intn(2000)
		for sb.Len() < n {
			sb.WriteString(literalFrags[rng.Intn(len(literalFrags))])
		}
		return sb.String()
	}
	limit := 200
	nfrag := 1 + rng.Intn(14)
	if rng.Intn(4) == 0 {
		nfrag = 1 + rng.Intn(3)
	}
	for i := 0; i < nfrag; i++ {
		var f string
		switch rng.Intn(5) {
		case 0, 1:
			f = hostileFrags[rng.Intn(len(hostileFrags))]
			f = strings.ReplaceAll(f, "OTHER", other())
		case 2:
			f = valAlphabet[rng.Intn(len(valAlphabet))]
		default:
			f = literalFrags[rng.Intn(len(literalFrags))]
		}
		if sb.Len()+len(f) > limit {
			break
		}
		sb.WriteString(f)
	}
	if rng.Intn(6) == 0 {
		sb.WriteString(strings.Repeat("\n", 1+rng.Intn(3)))
	}
	return sb.String()
}

func shellSignificant(s string) bool { return strings.ContainsAny(s, "$`\"'\\\n") }

func countCanary(m map[string]string) (n int64) {
	for _, v := range m {
		if strings.Contains(v, "canary") {
			n++
		}
	}
	return
}

func canonical(variant string, m map[string]string) string {
	var sb strings.Builder
	sb.WriteString(variant)
	for _, k := range sortedKeys(m) {
		sb.WriteString("\x00" + k + "\x00" + m[k])
	}
	return sb.String()
}

func quoteMap(m map[string]string) map[string]string {
	out := map[string]string{}
	for k, v := range m {
		out[k] = q(v)
	}
	return out
}

func runRand(c *sup.Child, b sup.Batch) {
	variant := b.PS("variant", vContainer)
	for idx := b.From; idx < b.To; idx++ {
		rng := c.Rand(idx)
		n := 1 + rng.Intn(40)
		if rng.Intn(3) == 0 {
			n = 1 + rng.Intn(4)
		}
		names := genNames(rng, n)
		m := map[string]string{}
		for i, k := range names {
			m[k] = genValue(rng, names, i)
		}
		useSetAll := rng.Intn(2) == 0
		ch := rng.Intn(n)
		newVal := genValue(rng, names, ch)
		if rng.Intn(2) == 0 && n > 1 {
			o := names[(ch+1+rng.Intn(n-1))%n]
			newVal = []string{
				"\n" + o + "=pwned\nexport " + o + "\n",
				"$(" + o + "=pwned; echo $" + o + ")",
				"${" + o + ":=pwned}", "`unset " + o + "`", "$" + o, "\nEOF\n" + o + "=pwned\n",
			}[rng.Intn(6)] + newVal
			if len(newVal) > 260 {
				newVal = newVal[:260]
			}
		}
		desc := map[string]any{"kind": "rand", "variant": variant, "env": quoteMap(m), "changed": names[ch], "changed_to": fmt.Sprintf("%q", newVal), "setall": useSetAll}
		c.Case(idx, desc, func(r *sup.CaseResult) {
			budget := maxViol
			o1, ok1 := checkMap(r, variant, m, useSetAll, &budget)
			r.AddObs("rand_maps_"+variant, 1)
			r.AddObs("values_with_canary_command", countCanary(m))
			// independence: change one variable, only its dump may differ
			m2 := map[string]string{}
			for k, v := range m {
				m2[k] = v
			}
			m2[names[ch]] = newVal
			o2, ok2 := checkMap(r, variant, m2, useSetAll, &budget)
			if o1 != nil && o2 != nil {
				r.AddObs("independence_pairs", 1)
				for _, k := range names {
					if k == names[ch] {
						continue
					}
					d1, s1 := o1.dumps[k]
					d2, s2 := o2.dumps[k]
					if o1.want[k] != o2.want[k] {
						continue // the shell's own here-document defect depends on the (random) delimiter
					}
					if (d1 != d2 || s1 != s2) && budget > 0 {
						budget--
						r.Violate("not-independent", fmt.Sprintf("[%s sandbox] changing %s from %s to %s changed %s from %s (dumped=%v) to %s (dumped=%v)", variant, names[ch], q(m[names[ch]]), q(newVal), k, q(d1), s1, q(d2), s2), map[string]any{"env": quoteMap(m)})
					}
				}
			}
			_ = ok1
			_ = ok2
			r.Key = canonical(variant, m)
			for _, v := range m {
				if shellSignificant(v) {
					r.Nontrivial = true
				}
			}
			if idx%400 == 0 && len(m) <= 6 {
				r.Sample = map[string]any{"kind": "random map", "variant": variant, "env": quoteMap(m), "changed": names[ch], "changed_to": q(newVal)}
			}
		})
	}
}

func main() {
	sup.Main(sup.Prop{
		ID:    "C18",
		Level: "exploration",
		Rule: "exh: every value of length ≤ L (4 quick / 5 thorough) over {$ ` \" ' \\ newline space ( ) a E}, 200 variables per /bin/sh run, for the container script (dcmd.InitSequence) and the SSH script (sshsb initSequence via the verif export); " +
			"rand: random maps of 1…40 variables with hostile values (command substitutions creating canary files, $OTHER references, EOF-like lines, assignments, trailing newlines, control and non-ASCII bytes, values above one pipe buffer), each run twice with one variable changed; " +
			"special: maps that configure PATH (every other case: a directory list without the standard utilities, empty, relative …), IFS, HOME, ENV, CDPATH, LANG … next to 1…5 ordinary variables – every variable must still arrive, whatever the order of assignment; " +
			"reuse: one Environments object through 2–3 generations (build a script, change one variable and add one with Set – now and then SetAll –, build the next script): every script sets what is configured when it is built; " +
			"two: the scripts of two environments are built one after the other and only then read and run, the first one first; " +
			"adapt: values that contain the here-document terminators observed in earlier scripts of the same process; a quarter of the maps put a line above 64 KiB in front of the terminator-like lines, another quarter spread those lines over two variables (one starts like the plain delimiter, another like the first prefixed candidates, each followed by a non-ASCII byte); names: the explicit list includes letters that fold onto ASCII under Unicode case folding (KELVIN SIGN, LONG S …); " +
			"names: every name of length ≤ N (3 quick / 4 thorough) over a 24-symbol alphabet plus random longer ones through Set and SetAll; " +
			"distinct = distinct (variant, map) / blocks, non-trivial = some value holds a shell-significant character",
		Assumptions: []string{
			"/bin/sh is dash; the verdict is for this shell",
			"dash 0.5.12 drops a byte ≥ 0x80 that follows a non-empty prefix of the here-document delimiter at the start of a line (its own parser defect, confirmed per child by a hand-written here-document); such values are compared with that predicted result, see dash.go",
			"NUL bytes are excluded from values (not representable in a shell variable)",
			"names of the exh/rand/adapt batches contain a lower-case letter; variables the shell itself interprets (PATH, IFS, HOME, ENV, CDPATH, LANG, …; names with digits such as PS1 are rejected by the library) are configured in the special batches, next to ordinary ones; variables the shell maintains by itself (PWD, OLDPWD, LINENO, OPTIND, PPID) are not configured",
			"the harness' own lines (dumping the variables, recording the child environment) use builtins and an absolute path, so that they keep working under any configured PATH",
			"the SSH key material written by the container script (SSHCert) is not an environment variable and is not checked",
			"a random here-document terminator cannot be guessed by a value; the adaptive batch only replays terminators seen in earlier scripts",
		},
		Plan: plan,
		Run: func(c *sup.Child, b sup.Batch) {
			switch {
			case strings.HasPrefix(b.Kind, "exh-"):
				runExh(c, b)
			case strings.HasPrefix(b.Kind, "rand-"):
				runRand(c, b)
			case strings.HasPrefix(b.Kind, "adapt-"):
				runAdapt(c, b)
			case strings.HasPrefix(b.Kind, "special-"):
				runSpecial(c, b)
			case strings.HasPrefix(b.Kind, "reuse-"):
				runReuse(c, b)
			case strings.HasPrefix(b.Kind, "two-"):
				runTwoScripts(c, b)
			case b.Kind == "names-exh":
				runNamesExh(c, b)
			case b.Kind == "names-rand":
				runNamesRand(c, b)
			case b.Kind == "names-list":
				runNamesList(c, b)
			}
		},
		Finish: func(t *sup.Totals) string {
			var missing []string
			for _, k := range []string{"shell_runs", "vars_checked_container", "vars_checked_ssh", "exh_values_container", "exh_values_ssh",
				"child_environments_read", "values_with_canary_command", "independence_pairs", "adapt_runs", "maps_that_configure_PATH", "scripts_built_after_a_later_Set_container", "scripts_built_after_a_later_Set_ssh", "pairs_of_scripts_built_before_either_was_read_container", "pairs_of_scripts_built_before_either_was_read_ssh", "maps_with_a_variable_the_shell_interprets_container", "maps_with_a_variable_the_shell_interprets_ssh", "names_checked", "nonidentifier_names_rejected", "plain_names_accepted"} {
				if t.Obs[k] == 0 {
					missing = append(missing, k)
				}
			}
			if len(missing) > 0 {
				return "monitors observed nothing for: " + strings.Join(missing, ", ")
			}
			return ""
		},
		Exhaustive: func(tier string) string {
			if tier == "thorough" {
				return "all values of length ≤ 5 over the 11-symbol shell alphabet for both sandbox kinds; all names of length ≤ 4 over the 24-symbol name alphabet"
			}
			return "all values of length ≤ 4 over the 11-symbol shell alphabet for both sandbox kinds; all names of length ≤ 3 over the 24-symbol name alphabet"
		},
	})
}
