package main

import (
	"fmt"
	"strings"
	"sync"
)

// Instrument model. /bin/sh of this image is dash 0.5.12, whose here-document reader has a
// defect of its own (parser.c, checkend: `len -= c < 0` treats every byte ≥ 0x80 like
// end-of-file): when a line of a here-document starts with k ≥ 1 bytes of the delimiter and
// the next byte is ≥ 0x80, that byte is dropped. `cat <<'EOFX'` + "Eé" yields "E\xa9"; other
// shells return the line unchanged. The script is correct shell; the shell misreads it.
//
// The model is calibrated, not assumed: every child first feeds /bin/sh a hand-written
// here-document (no goatcore code involved). If the shell returns it verbatim, no deviation
// is tolerated anywhere. If it returns exactly what dashMangle predicts, values that meet the
// trigger condition for the delimiter actually used by a script are compared with the
// predicted result; exit status, side effects and all other variables are judged as usual.
// Any other self-test result makes every case inconclusive.

var (
	calOnce     sync.Once
	calDefect   bool
	calWhy      string
	calReported bool
)

// strictDash switches the tolerance for the dash here-document defect off (see scriptTag).
const strictDash = true

const calTag = "EOFQ"
const calValue = "E\xc3\xa9\nEO\xffx\nEOFQ\xe2y\n\xc3\xa9E\nxE\xc3\xa9\nEa\xc3\xa9"

func calibrate() string {
	calOnce.Do(func() {
		script := "K=$(cat <<'" + calTag + "'\n" + calValue + "\n" + calTag + "\n)\nprintf '%s' \"$K\" > ../out/K\n: > ../done\n"
		o := runShell("/bin/sh", []byte(script), []string{"K"})
		switch {
		case o.inc != "":
			calWhy = "shell self-test: " + o.inc
		case o.exit != 0 || !o.done:
			calWhy = fmt.Sprintf("shell self-test ended with status %d: %s", o.exit, o.stderr)
		case o.dumps["K"] == calValue:
			calDefect = false
		case o.dumps["K"] == dashMangle(calValue, calTag):
			calDefect = true
		default:
			calWhy = fmt.Sprintf("shell self-test: /bin/sh reads a hand-written here-document %q as %q (neither verbatim nor the known dash defect)", calValue, o.dumps["K"])
		}
	})
	return calWhy
}

// dashMangle returns what dash 0.5.12 delivers for here-document body v with delimiter tag.
func dashMangle(v, tag string) string {
	if tag == "" {
		return v
	}
	lines := strings.Split(v, "\n")
	for i, l := range lines {
		k := 0
		for k < len(l) && k < len(tag) && l[k] == tag[k] {
			k++
		}
		if k >= 1 && k < len(l) && l[k] >= 0x80 {
			lines[i] = l[:k] + l[k+1:]
		}
	}
	return strings.Join(lines, "\n")
}

// scriptTag returns the delimiter of the script's own here-documents: the first one opened
// (values come later in the text and may contain look-alikes).
func scriptTag(script []byte) string {
	// Strict since the repository picks delimiters that no value line starts like
	// (varutil.HeredocTag): no deviation is tolerated any more, whatever the shell's
	// self-test showed. The calibration is kept as an observation only.
	if !calDefect || strictDash {
		return ""
	}
	if m := hereRe.FindSubmatch(script); m != nil {
		return string(m[1])
	}
	return ""
}

func dashWant(m map[string]string, script []byte) func(string) string {
	tag := scriptTag(script)
	return func(k string) string { return expectOf(dashMangle(m[k], tag)) }
}

func dashTriggers(m map[string]string, script []byte) (n int) {
	tag := scriptTag(script)
	for _, v := range m {
		if dashMangle(v, tag) != v {
			n++
		}
	}
	return
}
