package main

import (
	"fmt"

	"verif/internal/sup"

	"github.com/goatcms/goatcore/app/modules/commonm/commservices/envs"
)

// name alphabet: identifier characters plus the characters a shell would interpret
var nameAlphabet = []string{"a", "Z", "_", "0", "-", "=", " ", "$", "(", ")", ";", "\n", "é", "`", "\"", "'", "\\", "\t", ".", "/", "\x00", "*", "{", ":"}

func nameTotal(L int) int {
	t := 0
	for l := 0; l <= L; l++ {
		t += pow(len(nameAlphabet), l)
	}
	return t
}

// isIdentifier: a plain identifier, written from the property text (POSIX name).
func isIdentifier(s string) bool {
	if s == "" {
		return false
	}
	for i := 0; i < len(s); i++ {
		c := s[i]
		switch {
		case c >= 'a' && c <= 'z', c >= 'A' && c <= 'Z', c == '_':
		case c >= '0' && c <= '9':
			if i == 0 {
				return false
			}
		default:
			return false
		}
	}
	return true
}

type nameStats struct{ checked, rejected, plainAccepted, identRejected int64 }

// checkName drives one name through Set and SetAll.
func checkName(r *sup.CaseResult, name string, st *nameStats, budget *int) {
	const val = "v$(touch canary)"
	ident := isIdentifier(name)
	st.checked++
	viol := func(class, detail string) {
		r.AddObs("name_problems", 1)
		if *budget > 0 {
			*budget--
			r.Violate(class, detail, map[string]any{"name": fmt.Sprintf("%q", name)})
		}
	}
	// Set
	e := envs.NewEnvironments()
	err := e.Set(name, val)
	all := e.All()
	got, present := all[name]
	switch {
	case !ident && err == nil:
		viol("bad-name-accepted", fmt.Sprintf("Set(%q, …) accepted a name that is not a plain identifier", name))
	case err != nil && present:
		viol("rejected-name-stored", fmt.Sprintf("Set(%q, …) returned an error (%v) but All() contains the name", name, err))
	case err != nil && e.Get(name) != "":
		viol("rejected-name-stored", fmt.Sprintf("Set(%q, …) returned an error (%v) but Get returns %q", name, err, e.Get(name)))
	case err == nil && (!present || got != val || e.Get(name) != val):
		viol("accepted-name-lost", fmt.Sprintf("Set(%q, %q) succeeded but All()/Get hold %q (present=%v)/%q", name, val, got, present, e.Get(name)))
	}
	if err != nil && len(all) != 0 {
		viol("rejected-name-stored", fmt.Sprintf("Set(%q, …) returned an error but All() = %q", name, all))
	}
	// SetAll together with a good name
	e2 := envs.NewEnvironments()
	in := map[string]string{name: val}
	if name != "good_name" {
		in["good_name"] = "1"
	}
	err2 := e2.SetAll(in)
	all2 := e2.All()
	got2, present2 := all2[name]
	switch {
	case !ident && err2 == nil:
		viol("bad-name-accepted", fmt.Sprintf("SetAll accepted the name %q, which is not a plain identifier", name))
	case err2 != nil && present2:
		viol("rejected-name-stored", fmt.Sprintf("SetAll with the name %q returned an error (%v) but All() contains the name", name, err2))
	case err2 == nil && (!present2 || got2 != val):
		viol("accepted-name-lost", fmt.Sprintf("SetAll with %q succeeded but All() holds %q (present=%v)", name, got2, present2))
	}
	if (err == nil) != (err2 == nil) {
		viol("set-setall-disagree", fmt.Sprintf("Set(%q) error=%v but SetAll error=%v", name, err, err2))
	}
	switch {
	case !ident && err != nil && err2 != nil:
		st.rejected++
	case ident && err != nil:
		st.identRejected++ // stricter than "plain identifier" (digits, leading underscore): allowed
	}
	if isPlainName(name) && err == nil {
		st.plainAccepted++
	}
	if isPlainName(name) && err != nil {
		// documented shape refused: nothing the statement forbids, but then no map can be built
		r.AddObs("plain_names_rejected", 1)
	}
}

func (st *nameStats) flush(r *sup.CaseResult) {
	r.AddObs("names_checked", st.checked)
	r.AddObs("nonidentifier_names_rejected", st.rejected)
	r.AddObs("plain_names_accepted", st.plainAccepted)
	r.AddObs("identifiers_rejected_by_stricter_rule", st.identRejected)
}

func runNamesExh(c *sup.Child, b sup.Batch) {
	L := b.P("len", 3)
	blk := b.P("blk", 4000)
	total := nameTotal(L)
	for bi := b.From; bi < b.To; bi++ {
		from, to := bi*blk, (bi+1)*blk
		if to > total {
			to = total
		}
		c.Case(bi, map[string]any{"kind": "names-exh", "len": L, "from": from, "to": to, "first": fmt.Sprintf("%q", strAt(nameAlphabet, from)), "last": fmt.Sprintf("%q", strAt(nameAlphabet, to-1))}, func(r *sup.CaseResult) {
			st := &nameStats{}
			budget := maxViol
			for i := from; i < to; i++ {
				checkName(r, strAt(nameAlphabet, i), st, &budget)
			}
			st.flush(r)
			r.Key = fmt.Sprintf("names-exh|%d|%d|%d", L, from, to)
			r.Nontrivial = st.rejected > 0
			if bi == 0 {
				r.Sample = map[string]any{"kind": "name block", "names": to - from, "rejected_non_identifiers": st.rejected, "accepted_plain": st.plainAccepted}
			}
		})
	}
}

func runNamesRand(c *sup.Child, b sup.Batch) {
	blk := b.P("blk", 4000)
	n := b.P("n", 4000)
	const idch = "abcXYZ_019"
	for bi := b.From; bi < b.To; bi++ {
		from, to := bi*blk, (bi+1)*blk
		if to > n {
			to = n
		}
		c.Case(bi, map[string]any{"kind": "names-rand", "from": from, "to": to}, func(r *sup.CaseResult) {
			st := &nameStats{}
			budget := maxViol
			for i := from; i < to; i++ {
				rng := c.Rand(i)
				l := 4 + rng.Intn(28)
				bs := make([]byte, 0, l+2)
				for j := 0; j < l; j++ {
					bs = append(bs, idch[rng.Intn(len(idch))])
				}
				s := string(bs)
				// put 0…2 foreign symbols somewhere (0 → a long identifier-shaped name)
				for k := rng.Intn(3); k > 0; k-- {
					p := rng.Intn(len(s) + 1)
					var f string
					if rng.Intn(4) == 0 {
						f = string([]byte{byte(rng.Intn(256))})
					} else {
						f = nameAlphabet[4+rng.Intn(len(nameAlphabet)-4)]
					}
					s = s[:p] + f + s[p:]
				}
				checkName(r, s, st, &budget)
			}
			st.flush(r)
			r.Key = fmt.Sprintf("names-rand|%d|%d", from, to)
			r.Nontrivial = st.rejected > 0
		})
	}
}

// the explicit list of DESIGN.md plus shapes a regular expression typically gets wrong
var nameList = []string{
	"", "1", "1a", "0_", "-", "a-b", "-a", "a-", "A-B", "a=", "=", "a=b", "=a", " ", "a b", " a", "a ", "\ta", "a\t",
	"$(x)", "$x", "a$", "a;b", ";", "a;", "é", "aé", "éa", "\xff", "a\xff", "a\n", "\na", "a\nb", "a\n\n", "\n", "a\r", "a\r\n",
	"a.b", "a/b", "a`b`", "`a`", "a\"", "'a'", "a\\", "a\x00", "\x00a", "a*", "a{b}", "a:b", "a,b", "a+b", "a@b", "a#", "a%b", "a&b", "a|b", "a<b", "a>b", "a(b)", "a[0]", "a~", "a!", "a?",
	"A\nB=1", "a\n$(touch canary)", "a=$(touch canary)", "x;touch canary", "PATH=/x", "a b=c", "ａ", "a b", "a​b",
	// letters that fold onto ASCII letters under Unicode case folding (KELVIN SIGN, LONG S, dotless / dotted i)
	"\u212a", "MY_\u212aEY", "\u212aEY", "PA\u017f\u017fWORD", "\u017f", "a\u017f", "\u0131d", "\u0130D", "\u00b5", "\u00c5",
}

func runNamesList(c *sup.Child, b sup.Batch) {
	c.Case(0, map[string]any{"kind": "names-list", "names": len(nameList)}, func(r *sup.CaseResult) {
		st := &nameStats{}
		budget := 12
		for _, n := range nameList {
			checkName(r, n, st, &budget)
		}
		// names of the documented shape must be usable, otherwise nothing else can be observed
		for _, n := range []string{"a", "A", "ab", "SOME_KEY", "a_", "a__b", "aB_c", "good_name"} {
			checkName(r, n, st, &budget)
		}
		st.flush(r)
		r.Key = "names-list"
		r.Nontrivial = true
		r.Sample = map[string]any{"kind": "name list", "names": len(nameList), "rejected": st.rejected}
	})
}
