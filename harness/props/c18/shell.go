package main

import (
	"bytes"
	"context"
	"errors"
	"os"
	"os/exec"
	"path/filepath"
	"sort"
	"strings"
	"time"
)

// baseEnv is the scrubbed environment of every shell run. VERIF_SECRET is a sentinel that no
// configured value may read or change.
var baseEnv = map[string]string{
	"PATH":         "/usr/bin:/bin",
	"HOME":         "/nonexistent-c18-home",
	"VERIF_SECRET": "leak-7c1f",
}

// shellWatchdog is a generous watchdog (a run takes milliseconds); expiry is inconclusive.
const shellWatchdog = 180 * time.Second

type shellOut struct {
	exit    int
	stderr  string
	dumps   map[string]string
	environ map[string]string
	envSeen bool
	done    bool
	stray   []string
	inc     string
	want    map[string]string // expectation used by the oracle (filled by checkMap)
}

// runShell feeds stdin to /bin/sh in <scratch>/w (empty) and collects ../out/*, ../env, ../done.
func runShell(shell string, stdin []byte, names []string) *shellOut {
	o := &shellOut{dumps: map[string]string{}, environ: map[string]string{}}
	dir, err := os.MkdirTemp("", "c18-")
	if err != nil {
		o.inc = "scratch directory: " + err.Error()
		return o
	}
	defer os.RemoveAll(dir)
	work := filepath.Join(dir, "w")
	out := filepath.Join(dir, "out")
	if err := os.Mkdir(work, 0755); err != nil {
		o.inc = "scratch directory: " + err.Error()
		return o
	}
	if err := os.Mkdir(out, 0755); err != nil {
		o.inc = "scratch directory: " + err.Error()
		return o
	}
	ctx, cancel := context.WithTimeout(context.Background(), shellWatchdog)
	defer cancel()
	cmd := exec.CommandContext(ctx, shell)
	cmd.Dir = work
	keys := make([]string, 0, len(baseEnv))
	for k := range baseEnv {
		keys = append(keys, k)
	}
	sort.Strings(keys)
	cmd.Env = []string{}
	for _, k := range keys {
		cmd.Env = append(cmd.Env, k+"="+baseEnv[k])
	}
	cmd.Stdin = bytes.NewReader(stdin)
	var so, se bytes.Buffer
	cmd.Stdout = &so
	cmd.Stderr = &se
	cmd.WaitDelay = 5 * time.Second
	err = cmd.Run()
	if ctx.Err() != nil {
		o.inc = "shell watchdog expired"
		return o
	}
	if err != nil {
		var ee *exec.ExitError
		if errors.As(err, &ee) {
			o.exit = ee.ExitCode()
			if o.exit < 0 {
				o.exit = 128 // killed by a signal
			}
		} else {
			o.inc = "could not run " + shell + ": " + err.Error()
			return o
		}
	}
	o.stderr = se.String()
	if len(o.stderr) > 600 {
		o.stderr = o.stderr[:600]
	}
	// anything in the working directory is a side effect of the script
	if ents, err := os.ReadDir(work); err == nil {
		for _, e := range ents {
			o.stray = append(o.stray, e.Name())
		}
	}
	want := map[string]bool{}
	for _, n := range names {
		want[n] = true
	}
	if ents, err := os.ReadDir(out); err == nil {
		for _, e := range ents {
			if !want[e.Name()] {
				o.stray = append(o.stray, "../out/"+e.Name())
				continue
			}
			bs, err := os.ReadFile(filepath.Join(out, e.Name()))
			if err == nil {
				o.dumps[e.Name()] = string(bs)
			}
		}
	}
	if ents, err := os.ReadDir(dir); err == nil {
		for _, e := range ents {
			switch e.Name() {
			case "w", "out", "env", "done":
			default:
				o.stray = append(o.stray, "../"+e.Name())
			}
		}
	}
	if _, err := os.Stat(filepath.Join(dir, "done")); err == nil {
		o.done = true
	}
	if bs, err := os.ReadFile(filepath.Join(dir, "env")); err == nil {
		o.envSeen = true
		for _, kv := range strings.Split(string(bs), "\x00") {
			if kv == "" {
				continue
			}
			if i := strings.IndexByte(kv, '='); i >= 0 {
				o.environ[kv[:i]] = kv[i+1:]
			}
		}
	}
	return o
}
