package main

// special: environment maps that configure variables the shell itself interprets (PATH, IFS,
// HOME, ENV, CDPATH …; the library accepts letters and underscores only, so no PS1) next to ordinary ones. The start-up script must not depend on them: every
// configured variable – the special one and all the others, whatever the order the script
// assigns them in – ends up with exactly its configured value, and the script runs to its end.

import (
	"fmt"
	"math/rand"
	"os/exec"

	"verif/internal/sup"
)

var shellNames = []string{"PATH", "IFS", "HOME", "ENV", "CDPATH", "LANG", "LC_ALL", "TERM", "SHELL", "USER", "MAIL", "TMPDIR"}

// catPath is what the harness' own lines use instead of a PATH lookup (a configured PATH is the
// user's business; the harness must keep working under it).
var catPath = func() string {
	for _, p := range []string{"/bin/cat", "/usr/bin/cat"} {
		if _, err := exec.LookPath(p); err == nil {
			return p
		}
	}
	return "cat"
}()

func specialValue(rng *rand.Rand, name string) string {
	switch name {
	case "PATH":
		return []string{"/nonexistent/bin", "/opt/tool/bin:/srv/app/bin", "", "bin", ".:/nowhere", "/usr/bin:/bin", "/opt/$(touch canary)/bin", "/usr/local/bin"}[rng.Intn(8)]
	case "IFS":
		return []string{"x", ",", ":", "=", " \t", "a", "/", "<"}[rng.Intn(8)]
	default:
		return []string{"/nonexistent", "", "C", "xterm", "$HOME", "`id`", "a b", "/tmp/../x", "en_US.UTF-8"}[rng.Intn(9)]
	}
}

func runSpecial(c *sup.Child, b sup.Batch) {
	variant := b.PS("variant", vContainer)
	for idx := b.From; idx < b.To; idx++ {
		rng := c.Rand(idx)
		m := map[string]string{}
		first := shellNames[rng.Intn(len(shellNames))]
		if idx%2 == 0 {
			first = "PATH" // the one every other line of the script depends on
		}
		m[first] = specialValue(rng, first)
		if rng.Intn(3) == 0 {
			k := shellNames[rng.Intn(len(shellNames))]
			if _, dup := m[k]; !dup {
				m[k] = specialValue(rng, k)
			}
		}
		names := genNames(rng, 1+rng.Intn(5))
		for i, k := range names {
			m[k] = genValue(rng, names, i)
		}
		useSetAll := rng.Intn(2) == 0
		desc := map[string]any{"kind": "special", "variant": variant, "env": quoteMap(m), "setall": useSetAll}
		c.Case(idx, desc, func(r *sup.CaseResult) {
			budget := maxViol
			checkMap(r, variant, m, useSetAll, &budget)
			r.AddObs("maps_with_a_variable_the_shell_interprets_"+variant, 1)
			if _, ok := m["PATH"]; ok {
				r.AddObs("maps_that_configure_PATH", 1)
			}
			r.Key = canonical("special|"+variant, m)
			r.Nontrivial = true
			if idx%50 == 0 {
				r.Sample = map[string]any{"kind": "map with shell-interpreted names", "variant": variant, "env": quoteMap(m)}
			}
		})
	}
}

var _ = fmt.Sprintf
