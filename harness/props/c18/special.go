package main

// special: environment maps that configure variables the shell itself interprets (PATH, IFS,
// HOME, ENV, CDPATH …; the library accepts letters and underscores only, so no PS1) next to ordinary ones. The start-up script must not depend on them: every
// configured variable – the special one and all the others, whatever the order the script
// assigns them in – ends up with exactly its configured value, and the script runs to its end.

import (
	"fmt"
	"io"
	"math/rand"
	"os/exec"

	"verif/internal/sup"

	"github.com/goatcms/goatcore/app/modules/commonm/commservices"
	"github.com/goatcms/goatcore/app/modules/commonm/commservices/envs"
)

var shellNames = []string{"PATH", "IFS", "HOME", "ENV", "CDPATH", "LANG", "LC_ALL", "TERM", "SHELL", "USER", "MAIL", "TMPDIR"}

// catPath is what the harness' own lines use instead of a PATH lookup (a configured PATH is the
// user's business; the harness must keep working under it).
var catPath = func() string {
	for _, p := range []string{"/bin/cat", "/usr/bin/cat"} {
		if _, err := exec.LookPath(p); err == nil {
			return p
		}
	}
	return "cat"
}()

func specialValue(rng *rand.Rand, name string) string {
	switch name {
	case "PATH":
		return []string{"/nonexistent/bin", "/opt/tool/bin:/srv/app/bin", "", "bin", ".:/nowhere", "/usr/bin:/bin", "/opt/$(touch canary)/bin", "/usr/local/bin"}[rng.Intn(8)]
	case "IFS":
		return []string{"x", ",", ":", "=", " \t", "a", "/", "<"}[rng.Intn(8)]
	default:
		return []string{"/nonexistent", "", "C", "xterm", "$HOME", "`id`", "a b", "/tmp/../x", "en_US.UTF-8"}[rng.Intn(9)]
	}
}

func runSpecial(c *sup.Child, b sup.Batch) {
	variant := b.PS("variant", vContainer)
	for idx := b.From; idx < b.To; idx++ {
		rng := c.Rand(idx)
		m := map[string]string{}
		first := shellNames[rng.Intn(len(shellNames))]
		if idx%2 == 0 {
			first = "PATH" // the one every other line of the script depends on
		}
		m[first] = specialValue(rng, first)
		if rng.Intn(3) == 0 {
			k := shellNames[rng.Intn(len(shellNames))]
			if _, dup := m[k]; !dup {
				m[k] = specialValue(rng, k)
			}
		}
		names := genNames(rng, 1+rng.Intn(5))
		for i, k := range names {
			m[k] = genValue(rng, names, i)
		}
		useSetAll := rng.Intn(2) == 0
		desc := map[string]any{"kind": "special", "variant": variant, "env": quoteMap(m), "setall": useSetAll}
		c.Case(idx, desc, func(r *sup.CaseResult) {
			budget := maxViol
			checkMap(r, variant, m, useSetAll, &budget)
			r.AddObs("maps_with_a_variable_the_shell_interprets_"+variant, 1)
			if _, ok := m["PATH"]; ok {
				r.AddObs("maps_that_configure_PATH", 1)
			}
			r.Key = canonical("special|"+variant, m)
			r.Nontrivial = true
			if idx%50 == 0 {
				r.Sample = map[string]any{"kind": "map with shell-interpreted names", "variant": variant, "env": quoteMap(m)}
			}
		})
	}
}

var _ = fmt.Sprintf

// reuse: one Environments object lives through several generations of the start-up script, as
// the one of a long-running application does: configure, build a script, change and add variables
// with Set (or replace everything with SetAll), build the next script. Every script must set
// exactly what is configured at the time it is built.
func runReuse(c *sup.Child, b sup.Batch) {
	variant := b.PS("variant", vContainer)
	for idx := b.From; idx < b.To; idx++ {
		rng := c.Rand(idx)
		names := genNames(rng, 2+rng.Intn(6))
		m := map[string]string{}
		for i, k := range names {
			m[k] = genValue(rng, names, i)
		}
		useSetAll := rng.Intn(2) == 0
		gens := 2 + rng.Intn(2)
		desc := map[string]any{"kind": "reuse", "variant": variant, "env": quoteMap(m), "setall_first": useSetAll, "generations": gens}
		c.Case(idx, desc, func(r *sup.CaseResult) {
			if why := calibrate(); why != "" {
				r.Inconclusive = why
				return
			}
			var e commservices.Environments
			var err error
			if useSetAll {
				// the caller keeps using the map it passed to SetAll: it changes a value, adds a name
				// that is not a plain identifier and a harmless one – the configuration must not follow
				e = envs.NewEnvironments()
				mine := map[string]string{}
				for k, v := range m {
					mine[k] = v
				}
				err = e.SetAll(mine)
				if err == nil {
					for k := range mine {
						mine[k] = "changed by the caller after SetAll"
						break
					}
					mine["X=1;touch canary;Y"] = "never configured"
					mine["late_name"] = "never configured"
					r.AddObs("maps_changed_by_the_caller_after_SetAll", 1)
				}
			} else {
				e, err = newEnvs(m, false)
			}
			if err != nil {
				r.Inconclusive = "a name made of letters and underscores was rejected: " + err.Error()
				return
			}
			cur := map[string]string{}
			for k, v := range m {
				cur[k] = v
			}
			budget := maxViol
			for g := 0; g < gens; g++ {
				if g > 0 {
					// change one variable and add one through Set; now and then SetAll of a second map
					k := names[rng.Intn(len(names))]
					v := genValue(rng, names, 0)
					nk := fmt.Sprintf("added_%c%c", 'a'+rune(g), 'a'+rune(rng.Intn(26)))
					nv := genValue(rng, names, 0)
					if rng.Intn(4) == 0 {
						if err := e.SetAll(map[string]string{k: v, nk: nv}); err != nil {
							r.Inconclusive = "SetAll refused plain names: " + err.Error()
							return
						}
					} else {
						if err := e.Set(k, v); err != nil {
							r.Inconclusive = "Set refused a plain name: " + err.Error()
							return
						}
						if err := e.Set(nk, nv); err != nil {
							r.Inconclusive = "Set refused a plain name: " + err.Error()
							return
						}
					}
					cur[k], cur[nk] = v, nv
				}
				all := e.All()
				if len(all) != len(cur) {
					r.Violate("configured-map-lost", fmt.Sprintf("[%s sandbox] generation %d: All() returns %d variables, %d are configured", variant, g, len(all), len(cur)), nil)
					return
				}
				for k, v := range cur {
					if got, ok := all[k]; !ok || got != v {
						r.Violate("configured-map-lost", fmt.Sprintf("[%s sandbox] generation %d: All()[%s] = %s (present=%v), configured is %s", variant, g, k, q(got), ok, q(v)), nil)
						return
					}
				}
				script, err := buildScript(variant, e)
				if err != nil {
					r.Inconclusive = "script builder failed: " + err.Error()
					return
				}
				o := feed(variant, script, cur)
				if o.inc != "" {
					r.Inconclusive = o.inc
					return
				}
				r.AddObs("shell_runs", 1)
				wantOf := dashWant(cur, script)
				ps := judge(cur, o, wantOf)
				for i := range ps {
					ps[i].detail = fmt.Sprintf("generation %d of one Environments object: %s", g, ps[i].detail)
				}
				snapshot := map[string]string{}
				for k, v := range cur {
					snapshot[k] = v
				}
				report(r, variant, snapshot, script, o, ps, false, &budget)
				if g > 0 {
					r.AddObs("scripts_built_after_a_later_Set_"+variant, 1)
				}
				if len(ps) > 0 {
					return
				}
			}
			r.Key = canonical("reuse|"+variant, cur)
			r.Nontrivial = true
		})
	}
}

// twoScripts: the start-up scripts of two environments are built one after the other and only
// then read and run, first the one that was built first (two sandboxes of one pipeline started
// close together): each script sets what its own environment configures.
func runTwoScripts(c *sup.Child, b sup.Batch) {
	variant := b.PS("variant", vContainer)
	for idx := b.From; idx < b.To; idx++ {
		rng := c.Rand(idx)
		mk := func() map[string]string {
			names := genNames(rng, 1+rng.Intn(5))
			m := map[string]string{}
			for i, k := range names {
				m[k] = genValue(rng, names, i)
			}
			return m
		}
		m1, m2 := mk(), mk()
		desc := map[string]any{"kind": "two-scripts", "variant": variant, "env1": quoteMap(m1), "env2": quoteMap(m2)}
		c.Case(idx, desc, func(r *sup.CaseResult) {
			if why := calibrate(); why != "" {
				r.Inconclusive = why
				return
			}
			e1, err1 := newEnvs(m1, false)
			e2, err2 := newEnvs(m2, true)
			if err1 != nil || err2 != nil {
				r.Inconclusive = "plain names were rejected"
				return
			}
			rd1, err := scriptReader(variant, e1)
			if err != nil {
				r.Inconclusive = "script builder failed: " + err.Error()
				return
			}
			rd2, err := scriptReader(variant, e2)
			if err != nil {
				r.Inconclusive = "script builder failed: " + err.Error()
				return
			}
			s1, errA := io.ReadAll(rd1)
			s2, errB := io.ReadAll(rd2)
			if errA != nil || errB != nil {
				r.Inconclusive = "reading the scripts failed"
				return
			}
			budget := maxViol
			for i, sm := range []struct {
				script []byte
				m      map[string]string
			}{{s1, m1}, {s2, m2}} {
				o := feed(variant, sm.script, sm.m)
				if o.inc != "" {
					r.Inconclusive = o.inc
					return
				}
				r.AddObs("shell_runs", 1)
				ps := judge(sm.m, o, dashWant(sm.m, sm.script))
				for k := range ps {
					ps[k].detail = fmt.Sprintf("script %d of two that were built before either was read: %s", i+1, ps[k].detail)
				}
				report(r, variant, sm.m, sm.script, o, ps, false, &budget)
			}
			r.AddObs("pairs_of_scripts_built_before_either_was_read_"+variant, 1)
			r.Key = canonical("two|"+variant, m1)
			r.Nontrivial = true
		})
	}
}
