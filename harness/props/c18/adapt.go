package main

import (
	"fmt"
	"regexp"
	"sort"
	"strings"

	"verif/internal/sup"
)

// here-document openers in a generated script: <<TAG, <<'TAG', <<"TAG", <<-TAG
var hereRe = regexp.MustCompile(`<<-?[ \t]*['"]?([A-Za-z_][A-Za-z0-9_]*)['"]?`)

func tagsOf(script []byte) []string {
	seen := map[string]bool{}
	var out []string
	for _, m := range hereRe.FindAllSubmatch(script, -1) {
		t := string(m[1])
		if !seen[t] {
			seen[t] = true
			out = append(out, t)
		}
	}
	return out
}

// runAdapt: hostile values built from the here-document terminators the same process used in
// earlier scripts (a terminator that is fixed, or predictable from what was seen, lets a value
// end its own here-document and run the following lines as commands).
func runAdapt(c *sup.Child, b sup.Batch) {
	variant := b.PS("variant", vContainer)
	for idx := b.From; idx < b.To; idx++ {
		rng := c.Rand(idx)
		n := 1 + rng.Intn(4)
		names := genNames(rng, n)
		probe := map[string]string{}
		for i, k := range names {
			probe[k] = genValue(rng, names, i)
		}
		rounds := 1 + rng.Intn(3)
		shape := rng.Intn(7)
		target := rng.Intn(n)
		useSetAll := rng.Intn(2) == 0
		exhaust := rng.Intn(3) == 0
		desc := map[string]any{"kind": "adapt", "every_first_letter": exhaust, "variant": variant, "probe_env": quoteMap(probe), "rounds": rounds, "shape": shape, "target": names[target]}
		c.Case(idx, desc, func(r *sup.CaseResult) {
			var seen []string
			for k := 0; k < rounds; k++ {
				e, err := newEnvs(probe, true)
				if err != nil {
					r.Inconclusive = "a name made of letters and underscores was rejected: " + err.Error()
					return
				}
				sc, err := buildScript(variant, e)
				if err != nil {
					r.Inconclusive = "script builder failed: " + err.Error()
					return
				}
				seen = append(seen, tagsOf(sc)...)
			}
			r.AddObs("adapt_terminators_observed", int64(len(seen)))
			distinct := map[string]bool{}
			for _, t := range seen {
				distinct[t] = true
			}
			r.AddObs("adapt_terminators_distinct_in_case", int64(len(distinct)))
			cands := append(append([]string{}, seen...), "EOF", "EOFABC")
			for _, t := range seen {
				// a delimiter may carry a prefix chosen for the values at hand: its stem is a candidate too
				if i := strings.Index(t, "EOF"); i > 0 {
					cands = append(cands, t[i:])
				}
			}
			if exhaust {
				// … and every one-letter prefix of every stem seen so far
				stems := map[string]bool{}
				for _, t := range cands {
					if i := strings.Index(t, "EOF"); i >= 0 {
						stems[t[i:]] = true
					}
				}
				for st := range stems {
					for _, ch := range "abcdefghijklmnopqrstuvwxyzABCDEFGHIJKLMNOPQRSTUVWXYZ" {
						cands = append(cands, string(ch)+st)
					}
				}
				sort.Strings(cands)
			}
			m := map[string]string{}
			for k, v := range probe {
				m[k] = v
			}
			var sb strings.Builder
			if exhaust {
				// one line for every letter: a delimiter chosen by "a first letter no value line starts
				// with" has no letter left and must still not be guessable from earlier scripts
				for _, ch := range "abcdefghijklmnopqrstuvwxyzABCDEFGHIJKLMNOPQRSTUVWXYZ" {
					sb.WriteString(string(ch) + "x\n")
				}
				r.AddObs("adapt_values_using_every_first_letter", 1)
			}
			for _, t := range cands {
				switch shape {
				case 0:
					sb.WriteString("a\n" + t + "\nb\n")
				case 1:
					sb.WriteString("a\n" + t + "\n)\ntouch canary\n: $(cat <<'" + t + "'\nrest\n")
				case 2:
					sb.WriteString(t + "\n")
				case 3:
					sb.WriteString("\n" + t)
				case 4:
					sb.WriteString("a\n" + t + "\ntouch canary\n")
				case 5:
					sb.WriteString("a\n" + t + "\n)\n" + names[(target+1)%n] + "=pwned\nexport VERIF_NEW=1\n: $(cat <<" + t + "\n")
				default:
					sb.WriteString("x" + t + "\n" + t + "x\n " + t + "\n" + t + " \n" + t + "\n")
				}
			}
			m[names[target]] = sb.String()
			if idx%4 == 1 && n >= 2 {
				// two values share the work: one has a line that starts like the plain delimiter and goes
				// on with a non-ASCII byte (the plain delimiter is out), ANOTHER variable has such lines
				// for the first letters a prefixed delimiter would try first – the delimiter has to suit
				// every value of the script, not only the one that ruled the plain one out
				m[names[target]] = "E\xc3\xa9 one\nEO\xffx\nEOF\x88"
				var ob strings.Builder
				for _, ch := range "ABCabcZz" {
					if ch == 'A' || rng.Intn(2) == 0 {
						ob.WriteString(string(ch) + []string{"\xc3\xa9 two", "\xff", "\x80x", "EOF\xe2\x82\xac"}[rng.Intn(4)] + "\n")
					}
				}
				m[names[(target+1)%n]] = ob.String() + "end"
				r.AddObs("adapt_maps_with_prefix_lines_spread_over_two_values", 1)
			}
			if idx%4 == 3 {
				// a very long line (minified JSON, a base64 blob: longer than any line buffer) comes
				// first; the lines that look like the delimiter follow it
				m[names[target]] = strings.Repeat("Qx9+/", (65536+rng.Intn(40000))/5+1) + "\nE\xc3\xa9 one\nEO\xffx\nEOF\x88\n" + m[names[target]]
				r.AddObs("adapt_values_with_a_line_longer_than_64_KiB_before_the_terminator_like_lines", 1)
			}
			budget := maxViol
			checkMap(r, variant, m, useSetAll, &budget)
			r.AddObs("adapt_runs", 1)
			r.Key = canonical(fmt.Sprintf("adapt|%s|%d|%d|%s", variant, shape, rounds, names[target]), probe)
			r.Nontrivial = len(seen) > 0
			if idx == 0 {
				r.Sample = map[string]any{"kind": "adaptive terminator attack", "variant": variant, "observed_terminators": seen, "value": q(m[names[target]])}
			}
		})
	}
}
