// C04 – streams and cross-filespace copies are byte-exact and replace old content.
package main

import (
	"bytes"
	"fmt"
	"io"
	"math/rand"
	"os"
	"sort"
	"strings"

	"verif/internal/mfs"
	"verif/internal/sup"

	"github.com/goatcms/goatcore/filesystem"
	"github.com/goatcms/goatcore/filesystem/filespace/diskfs"
	"github.com/goatcms/goatcore/filesystem/filespace/encryptfs"
	"github.com/goatcms/goatcore/filesystem/filespace/encryptfs/cipherfs/extcfs"
	"github.com/goatcms/goatcore/filesystem/filespace/memfs"
	"github.com/goatcms/goatcore/filesystem/fscache"
	"github.com/goatcms/goatcore/filesystem/fshelper"
)

var backends = []string{"mem", "disk", "enc-mem", "enc-disk", "cache-mem", "mem-child", "disk-child", "enc-mem-child", "enc-disk-child", "cache-mem-child"}

type backend struct {
	kind  string
	fs    filesystem.Filespace
	cache *fscache.Cache
	raw   filesystem.Filespace // what is under an encrypting / caching layer
}

// newBackend builds a backend; inner (optional) decorates the lowest layer (fault injection below encryption / cache).
func newBackend(kind, tmp string, under func(filesystem.Filespace) filesystem.Filespace) (*backend, error) {
	b := &backend{kind: kind}
	child := strings.HasSuffix(kind, "-child")
	base := strings.TrimSuffix(kind, "-child")
	var low filesystem.Filespace
	var err error
	if strings.HasSuffix(base, "disk") {
		dir, e := os.MkdirTemp(tmp, "be-")
		if e != nil {
			return nil, e
		}
		low, err = diskfs.NewFilespace(dir)
	} else {
		low, err = memfs.NewFilespace()
	}
	if err != nil {
		return nil, err
	}
	if under != nil {
		low = under(low)
	}
	b.raw = low
	switch {
	case strings.HasPrefix(base, "enc-"):
		b.fs, err = encryptfs.NewEncryptFS(low, encryptfs.Settings{Secret: []byte("k"), Salt: []byte("s"), Cipher: extcfs.NewDefaultCipher()})
	case strings.HasPrefix(base, "cache-"):
		b.cache, err = fscache.NewMemCache(low)
		b.fs = b.cache
	default:
		b.fs = low
	}
	if err != nil {
		return nil, err
	}
	if child {
		if err = b.fs.MkdirAll("sub/view", 0777); err != nil {
			return nil, err
		}
		if b.fs, err = b.fs.Filespace("sub/view"); err != nil {
			return nil, err
		}
	}
	return b, nil
}

func randData(rng *rand.Rand, n int) []byte {
	b := make([]byte, n)
	rng.Read(b)
	return b
}

func chunkings(rng *rand.Rand, data []byte) [][]byte {
	var out [][]byte
	rest := data
	for len(rest) > 0 {
		var n int
		switch rng.Intn(4) {
		case 0:
			n = 0
		case 1:
			n = 1
		default:
			n = 1 + rng.Intn(len(rest))
		}
		out = append(out, rest[:n])
		rest = rest[n:]
	}
	if rng.Intn(3) == 0 {
		out = append(out, nil)
	}
	return out
}

// ---- A. stream monitor ----------------------------------------------------------------------------

func runStream(c *sup.Child, b sup.Batch) {
	for idx := b.From; idx < b.To; idx++ {
		rng := c.Rand(idx)
		kind := backends[idx%len(backends)]
		pre := []string{"absent", "shorter", "equal", "longer", "empty"}[(idx/len(backends))%5]
		n := []int{0, 1, 17, 300, 5000, 70000}[rng.Intn(6)]
		if n > 1 {
			n = n/2 + rng.Intn(n)
		}
		data := randData(rng, n)
		var old []byte
		switch pre {
		case "shorter":
			old = randData(rng, n/2)
		case "equal":
			old = randData(rng, n)
		case "longer":
			old = randData(rng, n+1+rng.Intn(200))
		case "empty":
			old = []byte{}
		}
		path := []string{"f", "d/f", "d/e/f"}[rng.Intn(3)]
		desc := map[string]any{"kind": "stream", "backend": kind, "pre": pre, "len": n, "path": path}
		c.Case(idx, desc, func(r *sup.CaseResult) {
			tmp, _ := os.MkdirTemp("", "c04-")
			defer os.RemoveAll(tmp)
			be, err := newBackend(kind, tmp, nil)
			if err != nil {
				r.Inconclusive = "backend: " + err.Error()
				return
			}
			fs := be.fs
			wit := desc
			if i := strings.LastIndex(path, "/"); i >= 0 {
				fs.MkdirAll(path[:i], 0777)
			}
			if old != nil {
				preVia := rng.Intn(2)
				if be.cache != nil && preVia == 1 && !strings.HasSuffix(kind, "-child") {
					// pre-existing content lives in the remote only
					if i := strings.LastIndex(path, "/"); i >= 0 {
						be.raw.MkdirAll(path[:i], 0777)
					}
					err = be.raw.WriteFile(path, old, 0644)
				} else {
					err = fs.WriteFile(path, append([]byte{}, old...), 0644)
				}
				if err != nil {
					r.Inconclusive = "pre-existing content: " + err.Error()
					return
				}
			}
			w, err := fs.Writer(path)
			if err != nil || w == nil {
				r.Violate("writer-open", fmt.Sprintf("[%s] Writer(%q) with %s pre-existing file failed: %v", kind, path, pre, err), wit)
				return
			}
			chunks := chunkings(rng, data)
			mixed := rng.Intn(3) == 0 // chunks reach the writer through Write, io.Copy and io.WriteString in turn
			for ci, ch := range chunks {
				buf := append([]byte{}, ch...)
				var k int
				var err error
				switch {
				case mixed && (ci+len(ch))%3 == 1:
					var k64 int64
					k64, err = io.Copy(w, struct{ io.Reader }{bytes.NewReader(buf)}) // a writer with ReadFrom is fed through it
					k = int(k64)
					r.AddObs("chunks_written_through_io_copy", 1)
				case mixed && (ci+len(ch))%3 == 2:
					k, err = io.WriteString(w, string(buf))
					r.AddObs("chunks_written_through_write_string", 1)
				default:
					k, err = w.Write(buf)
				}
				for i := range buf {
					buf[i] ^= 0xFF // the caller may reuse its buffer
				}
				if err != nil || k != len(ch) {
					r.Violate("writer-write", fmt.Sprintf("[%s] Write of %d bytes returned (%d, %v)", kind, len(ch), k, err), wit)
					w.Close()
					return
				}
			}
			if err := w.Close(); err != nil {
				r.Violate("writer-close", fmt.Sprintf("[%s] Close: %v", kind, err), wit)
				return
			}
			got, err := fs.ReadFile(path)
			if err != nil || !bytes.Equal(got, data) {
				r.Violate("stream-content", fmt.Sprintf("[%s] after Writer(%q) over a %s file (%d bytes) and %d chunks: ReadFile gives %d bytes (err %v), written %d bytes; first difference at %d", kind, path, pre, len(old), len(chunks), len(got), err, len(data), firstDiff(got, data)), wit)
			}
			for _, bsz := range []int{1, 2, 7, 4096, len(data) + 1} {
				if len(data) > 10000 && bsz < 7 {
					continue
				}
				rd, err := fs.Reader(path)
				if err != nil || rd == nil {
					r.Violate("reader-open", fmt.Sprintf("[%s] Reader(%q): %v", kind, path, err), wit)
					break
				}
				gotS, anom := mfs.ReadAllVia(rd, bsz, len(data)+8)
				cerr := rd.Close()
				if anom != "" || cerr != nil || !bytes.Equal(gotS, data) {
					r.Violate("reader-content", fmt.Sprintf("[%s] Reader(%q) with a %d-byte buffer: %d bytes (want %d), anomaly %q, close error %v, first difference at %d", kind, path, bsz, len(gotS), len(data), anom, cerr, firstDiff(gotS, data)), wit)
				}
				r.AddObs("reader_passes", 1)
			}
			if be.cache != nil {
				if err := be.cache.Commit(); err == nil && !strings.HasSuffix(kind, "-child") {
					if raw, err := be.raw.ReadFile(path); err != nil || !bytes.Equal(raw, data) {
						r.Violate("stream-content-after-commit", fmt.Sprintf("[%s] remote holds %d bytes (err %v) after Commit, written %d", kind, len(raw), err, len(data)), wit)
					}
				}
			}
			r.AddObs("stream_cases", 1)
			r.AddObs("stream_"+kind, 1)
			r.AddObs("pre_"+pre, 1)
			r.Key = fmt.Sprintf("stream|%s|%s|%d|%d|%s", kind, pre, len(data), len(chunks), path)
			r.Nontrivial = true
			if idx%250 == 0 {
				r.Sample = map[string]any{"kind": "stream", "backend": kind, "pre": pre, "bytes": len(data), "chunks": len(chunks)}
			}
		})
	}
}

func firstDiff(a, b []byte) int {
	n := len(a)
	if len(b) < n {
		n = len(b)
	}
	for i := 0; i < n; i++ {
		if a[i] != b[i] {
			return i
		}
	}
	if len(a) != len(b) {
		return n
	}
	return -1
}

// ---- B/C. copy monitor with fault enumeration -------------------------------------------------------

type srcTree struct {
	files map[string][]byte
	dirs  []string
}

func genSrcTree(rng *rand.Rand, maxFiles int, wide bool) *srcTree {
	t := &srcTree{files: map[string][]byte{}}
	var rec func(prefix string, depth int)
	rec = func(prefix string, depth int) {
		nf := rng.Intn(4)
		for i := 0; i < nf && len(t.files) < maxFiles; i++ {
			n := []int{0, 1, 30, 700, 40000}[rng.Intn(5)]
			t.files[prefix+fmt.Sprintf("f%d", i)] = randData(rng, n)
		}
		if depth >= 4 {
			return
		}
		nd := rng.Intn(4)
		for i := 0; i < nd && len(t.files) < maxFiles; i++ {
			d := prefix + fmt.Sprintf("d%d", i)
			t.dirs = append(t.dirs, d)
			rec(d+"/", depth+1)
		}
	}
	rec("", 0)
	// names that begin with dots are ordinary names (".env", "..data" as Kubernetes volumes have
	// it, an empty ".cache"), at the top of the tree and below it, with and without a dot-less twin
	if rng.Intn(3) == 0 {
		t.files[".env"] = randData(rng, 30)
		t.files["..data/current"] = randData(rng, 30)
		t.dirs = append(t.dirs, "..data", ".cache")
		if rng.Intn(2) == 0 {
			t.files["env"] = randData(rng, 31)
			t.dirs = append(t.dirs, "cache")
		}
		if len(t.dirs) > 3 {
			t.files[t.dirs[0]+"/.hidden"] = randData(rng, 1)
		}
	}
	if wide {
		t.dirs = append(t.dirs, "wide")
		for i := 0; i < 1500; i++ {
			t.files[fmt.Sprintf("wide/w%04d", i)] = []byte{byte(i), byte(i >> 8)}
		}
	}
	if len(t.files) == 0 {
		t.files["solo"] = randData(rng, 10)
	}
	return t
}

func (t *srcTree) populate(fs filesystem.Filespace, prefix string) error {
	for _, d := range t.dirs {
		if err := fs.MkdirAll(prefix+d, 0777); err != nil {
			return err
		}
	}
	names := make([]string, 0, len(t.files))
	for f := range t.files {
		names = append(names, f)
	}
	sort.Strings(names)
	for _, f := range names {
		if i := strings.LastIndex(prefix+f, "/"); i >= 0 {
			if err := fs.MkdirAll((prefix + f)[:i], 0777); err != nil {
				return err
			}
		}
		if err := fs.WriteFile(prefix+f, append([]byte{}, t.files[f]...), 0644); err != nil {
			return err
		}
	}
	return nil
}

// preseed puts stale files (longer, of the same length, shorter) at half of the same paths in the destination.
func (t *srcTree) preseed(rng *rand.Rand, fs filesystem.Filespace, prefix string) {
	for f, d := range t.files {
		var stale []byte
		switch hashStr(f) % 6 {
		case 0: // longer: the source's bytes plus a tail
			stale = append(append([]byte{}, d...), []byte("-STALE-TAIL-FROM-OLDER-LONGER-FILE")...)
		case 1: // the same length, other bytes (written after the source, so not older than it)
			if len(d) == 0 {
				continue
			}
			stale = make([]byte, len(d))
			for i := range d {
				stale[i] = d[i] ^ 0x5A
			}
		case 2: // shorter: a proper prefix of other bytes
			if len(d) < 2 {
				continue
			}
			stale = make([]byte, len(d)/2)
			for i := range stale {
				stale[i] = d[i] ^ 0x33
			}
		default:
			continue
		}
		if i := strings.LastIndex(prefix+f, "/"); i >= 0 {
			fs.MkdirAll((prefix + f)[:i], 0777)
		}
		fs.WriteFile(prefix+f, stale, 0644)
	}
}

func hashStr(s string) uint32 {
	var h uint32 = 2166136261
	for i := 0; i < len(s); i++ {
		h = (h ^ uint32(s[i])) * 16777619
	}
	return h
}

// complete reports what is missing/different at the destination ("" = complete copy).
func (t *srcTree) complete(fs filesystem.Filespace, prefix string) string {
	names := make([]string, 0, len(t.files))
	for f := range t.files {
		names = append(names, f)
	}
	sort.Strings(names)
	for _, f := range names {
		got, err := fs.ReadFile(prefix + f)
		if err != nil {
			return fmt.Sprintf("file %q missing (%v)", prefix+f, err)
		}
		if !bytes.Equal(got, t.files[f]) {
			return fmt.Sprintf("file %q differs: %d bytes at the destination, %d at the source, first difference at %d", prefix+f, len(got), len(t.files[f]), firstDiff(got, t.files[f]))
		}
	}
	for _, d := range t.dirs {
		if !fs.IsDir(prefix + d) {
			return fmt.Sprintf("directory %q missing", prefix+d)
		}
	}
	return ""
}

type copyCase struct {
	Helper   string `json:"helper"` // "Copy" | "Copier-dir" | "Copier-file" | "StreamCopy"
	Src      string `json:"src"`
	Dst      string `json:"dst"`
	Side     string `json:"fault_side"`  // "" | "src" | "dst"
	Layer    string `json:"fault_layer"` // "outer" | "under"
	Short    bool   `json:"short_write"`
	Buffered bool   `json:"flush_on_close"` // the decorated side's writers hand their data over only in Close
	Wide     bool   `json:"wide"`
	// Blocker: the destination holds a regular FILE where the source has an EMPTY directory
	// ("hollow/inner" or "hollow" itself): the copy cannot be completed, so an error is the
	// expected outcome; nil is only acceptable with a directory there
	Blocker string `json:"blocker,omitempty"`
}

// doCopy runs the helper once with the given fault position; returns helper error, completeness, fired point, number of points.
func doCopy(rng *rand.Rand, cc copyCase, t *srcTree, failAt int64, tmp string) (herr error, incomplete string, fired string, points int64, setupErr error) {
	faults := &mfs.Faults{Short: cc.Short, Buffered: cc.Buffered}
	deco := func(name string) func(filesystem.Filespace) filesystem.Filespace {
		return func(in filesystem.Filespace) filesystem.Filespace { return mfs.NewFaultFS(in, faults, name) }
	}
	var srcUnder, dstUnder func(filesystem.Filespace) filesystem.Filespace
	if cc.Side == "src" && cc.Layer == "under" {
		srcUnder = deco("src")
	}
	if cc.Side == "dst" && cc.Layer == "under" {
		dstUnder = deco("dst")
	}
	// set up with faults disarmed
	sb, err := newBackend(cc.Src, tmp, srcUnder)
	if err != nil {
		return nil, "", "", 0, err
	}
	db, err := newBackend(cc.Dst, tmp, dstUnder)
	if err != nil {
		return nil, "", "", 0, err
	}
	srcPrefix, dstPrefix := "", ""
	if cc.Helper == "Copier-dir" {
		srcPrefix, dstPrefix = "from/here/", "to/there/"
	}
	if cc.Blocker != "" {
		have := false
		for _, d := range t.dirs {
			have = have || d == "hollow/inner"
		}
		if !have {
			t.dirs = append(t.dirs, "hollow", "hollow/inner")
		}
	}
	if err := t.populate(sb.fs, srcPrefix); err != nil {
		return nil, "", "", 0, fmt.Errorf("populate: %v", err)
	}
	t.preseed(rng, db.fs, dstPrefix)
	if cc.Blocker != "" {
		if i := strings.LastIndex(dstPrefix+cc.Blocker, "/"); i >= 0 {
			db.fs.MkdirAll((dstPrefix + cc.Blocker)[:i], 0777)
		}
		if err := db.fs.WriteFile(dstPrefix+cc.Blocker, []byte("a file where the source has a directory"), 0644); err != nil {
			return nil, "", "", 0, fmt.Errorf("blocker: %v", err)
		}
	}
	sfs, dfs := sb.fs, db.fs
	if cc.Side == "src" && cc.Layer == "outer" {
		sfs = mfs.NewFaultFS(sfs, faults, "src")
	}
	if cc.Side == "dst" && cc.Layer == "outer" {
		dfs = mfs.NewFaultFS(dfs, faults, "dst")
	}
	// arm
	base := faults.Count()
	if failAt > 0 {
		faults.Arm(base + failAt)
	}
	one := ""
	switch cc.Helper {
	case "Copy":
		herr = fshelper.Copy(sfs, dfs, nil)
	case "Copier-dir":
		herr = fshelper.Copier{SrcFS: sfs, SrcPath: "from/here", DestFS: dfs, DestPath: "to/there"}.Do()
	case "Copier-file", "StreamCopy":
		names := make([]string, 0, len(t.files))
		for f := range t.files {
			names = append(names, f)
		}
		sort.Strings(names)
		one = names[len(names)/2]
		if i := strings.LastIndex(one, "/"); i >= 0 {
			db.fs.MkdirAll(one[:i], 0777)
		}
		if cc.Helper == "StreamCopy" {
			herr = fshelper.StreamCopy(sfs, dfs, one)
		} else {
			herr = fshelper.Copier{SrcFS: sfs, SrcPath: one, DestFS: dfs, DestPath: one}.Do()
		}
	}
	points = faults.Count() - base
	fired = faults.FiredPoint()
	faults.Arm(0)
	if one != "" {
		got, err := db.fs.ReadFile(one)
		if err != nil {
			incomplete = fmt.Sprintf("file %q missing (%v)", one, err)
		} else if !bytes.Equal(got, t.files[one]) {
			incomplete = fmt.Sprintf("file %q differs: %d bytes at the destination, %d at the source", one, len(got), len(t.files[one]))
		}
	} else {
		incomplete = t.complete(db.fs, dstPrefix)
	}
	return
}

func runCopy(c *sup.Child, b sup.Batch) {
	enumerate := b.P("faults", 0) == 1
	for idx := b.From; idx < b.To; idx++ {
		rng := c.Rand(idx)
		cc := copyCase{Helper: []string{"Copy", "Copier-dir", "Copy", "Copier-file", "StreamCopy", "Copy"}[idx%6],
			Src: backends[rng.Intn(len(backends))], Dst: backends[rng.Intn(len(backends))]}
		maxFiles := 60
		if enumerate {
			maxFiles = 12
			cc.Side = []string{"src", "dst"}[idx%2]
			cc.Layer = []string{"outer", "under"}[(idx/2)%2]
			cc.Short = cc.Side == "dst" && idx%7 == 3
			cc.Buffered = cc.Side == "dst" && idx%3 == 1 && !cc.Short
			if cc.Layer == "under" {
				// faults below a layer only make sense where there is a layer
				k := cc.Src
				if cc.Side == "dst" {
					k = cc.Dst
				}
				if !strings.Contains(k, "enc") && !strings.Contains(k, "cache") {
					cc.Layer = "outer"
				}
			}
		} else if idx%40 == 7 {
			cc.Wide = true
			cc.Helper = "Copy"
		} else if idx%5 == 2 && (cc.Helper == "Copy" || cc.Helper == "Copier-dir") {
			cc.Blocker = []string{"hollow/inner", "hollow"}[(idx/5)%2]
		}
		treeSeed := rng.Int63()
		c.Case(idx, map[string]any{"copy": cc, "tree_seed": treeSeed}, func(r *sup.CaseResult) {
			tmp, _ := os.MkdirTemp("", "c04-")
			defer os.RemoveAll(tmp)
			t := genSrcTree(rand.New(rand.NewSource(treeSeed)), maxFiles, cc.Wide)
			wit := map[string]any{"copy": cc, "files": len(t.files), "dirs": len(t.dirs)}
			herr, inc, _, points, serr := doCopy(rng, cc, t, 0, tmp)
			if serr != nil {
				r.Inconclusive = "set-up: " + serr.Error()
				return
			}
			if herr != nil && cc.Blocker != "" {
				r.AddObs("copies_refused_because_a_file_is_where_a_directory_belongs", 1)
				r.Key = fmt.Sprintf("%+v|%d|%d", cc, len(t.files), treeSeed)
				r.Nontrivial = true
				return
			}
			if herr != nil {
				r.Violate("copy-error-without-fault", fmt.Sprintf("%s %s→%s failed without an injected fault: %v", cc.Helper, cc.Src, cc.Dst, herr), wit)
				return
			}
			if inc != "" {
				r.Violate("copy-incomplete-without-error", fmt.Sprintf("%s %s→%s returned nil but the destination is not a complete copy: %s", cc.Helper, cc.Src, cc.Dst, inc), wit)
				return
			}
			r.AddObs("copies_checked", 1)
			r.AddObs("files_compared", int64(len(t.files)))
			r.AddObs("helper_"+cc.Helper, 1)
			r.AddObs("pair_"+strings.TrimSuffix(cc.Src, "-child")+">"+strings.TrimSuffix(cc.Dst, "-child"), 1)
			if enumerate {
				var fired, detected, harmless int64
				// positions may shift a little between runs (producer and consumer interleave): go a bit beyond
				for k := int64(1); k <= points+3; k++ {
					os.RemoveAll(tmp)
					os.MkdirAll(tmp, 0755)
					herr, inc, fp, _, serr := doCopy(rng, cc, t, k, tmp)
					if serr != nil {
						r.Inconclusive = "set-up: " + serr.Error()
						return
					}
					if fp != "" {
						fired++
					}
					if inc != "" && herr == nil {
						r.Violate("incomplete-copy-reported-as-success", fmt.Sprintf("%s %s→%s with fault %s (side %s, layer %s, short=%v): helper returned nil but %s", cc.Helper, cc.Src, cc.Dst, fp, cc.Side, cc.Layer, cc.Short, inc), wit)
						if len(r.Violations) > 4 {
							return
						}
					}
					if herr != nil {
						detected++
					} else if fp != "" {
						harmless++
					}
				}
				r.AddObs("faults_injected", fired)
				r.AddObs("faults_reported", detected)
				r.AddObs("faults_harmless_complete_copy", harmless)
				r.AddObs("fault_positions", points)
			}
			r.Key = fmt.Sprintf("%+v|%d|%d", cc, len(t.files), treeSeed)
			r.Nontrivial = true
			if idx%60 == 0 {
				r.Sample = map[string]any{"copy": cc, "files": len(t.files), "dirs": len(t.dirs), "fault_points": points}
			}
		})
	}
}

func plan(tier string, seed int64) []sup.Batch {
	nStream, nCopy, nFault := 1000, 480, 160
	if tier == "thorough" {
		nStream, nCopy, nFault = 20000, 8000, 3200
	}
	var bs []sup.Batch
	bs = append(bs, sup.Chunk("stream", "stream", nStream, (nStream+7)/8, 1, nil)...)
	bs = append(bs, sup.Chunk("copy", "copy", nCopy, (nCopy+15)/16, 2, nil)...)
	bs = append(bs, sup.Chunk("fault", "copy", nFault, (nFault+31)/32, 2, map[string]any{"faults": 1})...)
	return bs
}

func main() {
	sup.Main(sup.Prop{
		ID:    "C04",
		Level: "fault_enumeration",
		Race:  true,
		Rule: "stream: backend (mem, disk, enc-mem, enc-disk, cache-mem and a child view of each) × pre-existing file (absent, shorter, equal, longer, empty; for caches also remote-only) × random chunking incl. empty and 1-byte chunks → Writer/Write/Close, then ReadFile and Reader with buffers 1,2,7,4096,len+1 must give exactly the concatenation (io.Reader contract checked); " +
			"copy: StreamCopy / Copier.Do (file, directory) / fshelper.Copy over random ordered backend pairs, random trees (one in 40 with a 1500-entry directory), destination pre-seeded with longer / equal / shorter stale files and, in a fifth of the tree copies, with a regular file where the source has an empty directory (an error is expected there): nil error ⇒ destination complete; " +
			"fault: dry run counts the call points of the decorated side (open, every Read/Write, Close, MkdirAll, ReadDir; at the outer boundary or below the encryption/cache layer), then EVERY position is failed once (errors; short writes): destination incomplete ⇒ helper returned an error. distinct = distinct (configuration, tree)",
		Assumptions: []string{
			"one direction only, as stated: an error with a complete destination is accepted",
			"fault positions are indices into the sequence of calls of one run; producer and consumer of fshelper.Copy interleave, so an index may name different calls in different runs",
		},
		Plan: plan,
		Run: func(c *sup.Child, b sup.Batch) {
			if b.Kind == "stream" {
				runStream(c, b)
			} else {
				runCopy(c, b)
			}
		},
		Finish: func(t *sup.Totals) string {
			if t.Obs["stream_cases"] == 0 || t.Obs["copies_checked"] == 0 || t.Obs["faults_injected"] < 100 {
				return "a monitor observed nothing (streams, copies or injected faults)"
			}
			return ""
		},
		RaceAnchors: []string{"filesystem/fshelper/", "filesystem/fsloop/"},
		RaceDecides: false,
		Exhaustive: func(string) string {
			return "every single fault position of each fault-enumerated copy (dry-run count + 3)"
		},
	})
}
