package main

// relroot: a disk filespace created from a RELATIVE root path (as the application's own working
// directory filespace is) belongs to the directory that path named when the view was created.
// The process changing its working directory afterwards must not move the view – or the views
// obtained from it – to another directory: everything read comes from the directory the view
// was created for, nothing in the new working directory is read, listed, written or removed.

import (
	"bytes"
	"fmt"
	"os"
	"path/filepath"
	"strings"

	"verif/internal/mfs"
	"verif/internal/sup"

	"github.com/goatcms/goatcore/filesystem"
	"github.com/goatcms/goatcore/filesystem/filespace/diskfs"
)

func hostDump(root string) string {
	var lines []string
	filepath.Walk(root, func(p string, info os.FileInfo, err error) error {
		if err != nil || info.IsDir() {
			lines = append(lines, "D "+p)
			return nil
		}
		b, _ := os.ReadFile(p)
		lines = append(lines, fmt.Sprintf("F %s %q", p, b))
		return nil
	})
	return strings.Join(lines, "\n")
}

func runRelRoot(c *sup.Child, b sup.Batch) {
	roots := []string{"base", "./base", "./", ".", "base/jail", "./base/../base"}
	for idx := b.From; idx < b.To; idx++ {
		rel := roots[idx%len(roots)]
		viaChild := (idx/len(roots))%2 == 1
		c.Case(idx, map[string]any{"kind": "relroot", "root": rel, "child_view": viaChild}, func(r *sup.CaseResult) {
			tmp, err := os.MkdirTemp("", "c03r-")
			if err != nil {
				r.Inconclusive = err.Error()
				return
			}
			defer os.RemoveAll(tmp)
			home, other := filepath.Join(tmp, "home"), filepath.Join(tmp, "other")
			// both directories hold the same names; only the tokens differ
			for _, d := range []struct{ root, tok string }{{home, tokIn}, {other, tokOut}} {
				for _, p := range []string{"f", "jail/f", "base/f", "base/jail/f", "base/jail/jail/f", "base/base/f", "jail/jail/f"} {
					os.MkdirAll(filepath.Dir(filepath.Join(d.root, p)), 0755)
					os.WriteFile(filepath.Join(d.root, p), []byte(d.tok+"-"+p), 0644)
				}
			}
			cwd0, err := os.Getwd()
			if err != nil {
				r.Inconclusive = "getwd: " + err.Error()
				return
			}
			defer os.Chdir(cwd0)
			if err := os.Chdir(home); err != nil {
				r.Inconclusive = "chdir: " + err.Error()
				return
			}
			var J filesystem.Filespace
			J, err = diskfs.NewFilespace(rel)
			if err != nil {
				r.Inconclusive = fmt.Sprintf("NewFilespace(%q): %v", rel, err)
				return
			}
			if err := os.Chdir(other); err != nil {
				r.Inconclusive = "chdir: " + err.Error()
				return
			}
			if viaChild {
				if J, err = J.Filespace("jail"); err != nil {
					r.Inconclusive = "child view: " + err.Error()
					return
				}
			}
			other0 := hostDump(other)
			wit := map[string]any{"root": rel, "created_in": "home", "working_directory_now": "other", "child_view": viaChild}
			step := func(name string, fn func() []byte) {
				var data []byte
				func() {
					defer func() {
						if x := recover(); x != nil {
							r.Violate("panic", fmt.Sprintf("[relroot %q] %s panicked: %v", rel, name, x), wit)
						}
					}()
					data = fn()
				}()
				if bytes.Contains(data, []byte(tokOut)) {
					r.Violate("outside-data-read", fmt.Sprintf("[relroot] a disk view created for %q while the working directory was home/ delivered, after the process changed to other/, content of other/: %s gave %q", rel, name, data), wit)
				}
				if now := hostDump(other); now != other0 {
					r.Violate("outside-changed", fmt.Sprintf("[relroot] a disk view created for %q while the working directory was home/ changed, after the process changed to other/, the tree of other/: %s\n--- before\n%s\n--- after\n%s", rel, name, other0, now), wit)
					other0 = now
				}
				r.AddObs("relroot_steps", 1)
			}
			for _, p := range []string{"f", "jail/f"} {
				p := p
				step(fmt.Sprintf("ReadFile(%q)", p), func() []byte { d, _ := J.ReadFile(p); return d })
				step(fmt.Sprintf("Reader(%q)", p), func() []byte {
					rd, err := J.Reader(p)
					if err != nil || rd == nil {
						return nil
					}
					defer rd.Close()
					d, _ := mfs.ReadAllVia(rd, 64, 1<<16)
					return d
				})
			}
			step(`ReadDir(".")`, func() []byte { J.ReadDir("."); return nil })
			step(`WriteFile("new")`, func() []byte { J.WriteFile("new", []byte("written through the view"), 0644); return nil })
			step(`WriteFile("f")`, func() []byte { J.WriteFile("f", []byte("overwritten through the view"), 0644); return nil })
			step(`MkdirAll("nd/e")`, func() []byte { J.MkdirAll("nd/e", 0777); return nil })
			step(`Copy("jail","jcopy")`, func() []byte { J.Copy("jail", "jcopy"); return nil })
			step(`Remove("jail/f")`, func() []byte { J.Remove("jail/f"); return nil })
			step(`RemoveAll("jail")`, func() []byte { J.RemoveAll("jail"); return nil })
			r.AddObs("relroot_cases", 1)
			r.Key = fmt.Sprintf("relroot|%s|%v", rel, viaChild)
			r.Nontrivial = true
		})
	}
}
