package main

// symlink: a disk tree may hold relative symbolic links that resolve INSIDE the view (put there by
// whoever owns the directory, not through the Filespace interface). Copying their directory to
// another depth through the view must not turn them into a way out: whatever the copy holds,
// reading, writing and querying it stays inside the view.

import (
	"bytes"
	"fmt"
	"os"
	"path/filepath"

	"verif/internal/mfs"
	"verif/internal/sup"
)

func runSymlink(c *sup.Child, b sup.Batch) {
	kinds := []string{"disk-root", "disk-child", "disk-child3", "enc-disk-child"}
	for idx := b.From; idx < b.To; idx++ {
		kind := kinds[idx%len(kinds)]
		c.Case(idx, map[string]any{"kind": "symlink", "config": kind}, func(r *sup.CaseResult) {
			tmp, err := os.MkdirTemp("", "c03l-")
			if err != nil {
				r.Inconclusive = err.Error()
				return
			}
			defer os.RemoveAll(tmp)
			f, err := newFixture(kind, tmp)
			if err != nil {
				r.Inconclusive = "fixture " + kind + ": " + err.Error()
				return
			}
			jailAbs := filepath.Join(tmp, "base", filepath.FromSlash(f.jailPath))
			if err := os.MkdirAll(filepath.Join(jailAbs, "d1", "d2"), 0755); err != nil {
				r.Inconclusive = err.Error()
				return
			}
			// from d1/d2 the target is a name directly under the view's root (absent there: a dangling
			// link, harmless); from a directory one level below the root the same text names a file
			// OUTSIDE the root that exists ("secret" next to the jail / "hostsecret" above a disk root)
			target := "../../secret"
			if f.jailPath == "" {
				target = "../../hostsecret"
			}
			if err := os.Symlink(target, filepath.Join(jailAbs, "d1", "d2", "link")); err != nil {
				r.Inconclusive = "symlink: " + err.Error()
				return
			}
			os.WriteFile(filepath.Join(jailAbs, "d1", "d2", "plain"), []byte(tokIn+"-plain"), 0644)
			out0, _ := f.snapshots()
			wit := map[string]any{"config": kind, "link": "d1/d2/link -> " + target}
			step := func(name string, fn func() []byte) {
				var data []byte
				func() {
					defer func() {
						if x := recover(); x != nil {
							r.Violate("panic", fmt.Sprintf("[%s] %s panicked: %v", kind, name, x), wit)
						}
					}()
					data = fn()
				}()
				if bytes.Contains(data, []byte(tokOut)) {
					r.Violate("outside-data-read", fmt.Sprintf("[%s] %s delivered outside content %q (a relative link copied to another depth)", kind, name, data), wit)
				}
				if out1, _ := f.snapshots(); out1 != out0 {
					r.Violate("outside-changed", fmt.Sprintf("[%s] %s changed the tree outside the view's root:\n--- before\n%s\n--- after\n%s", kind, name, out0, out1), wit)
					out0 = out1
				}
				r.AddObs("symlink_steps", 1)
			}
			J := f.J
			step(`Copy("d1/d2","c")`, func() []byte { J.Copy("d1/d2", "c"); return nil })
			step(`CopyDirectory("d1/d2","e")`, func() []byte { J.CopyDirectory("d1/d2", "e"); return nil })
			for _, p := range []string{"c/link", "e/link"} {
				p := p
				step(fmt.Sprintf("ReadFile(%q)", p), func() []byte { d, _ := J.ReadFile(p); return d })
				step(fmt.Sprintf("Reader(%q)", p), func() []byte {
					rd, err := J.Reader(p)
					if err != nil || rd == nil {
						return nil
					}
					defer rd.Close()
					d, _ := mfs.ReadAllVia(rd, 64, 1<<16)
					return d
				})
				step(fmt.Sprintf("IsExist/IsFile/Lstat(%q)", p), func() []byte { J.IsExist(p); J.IsFile(p); J.Lstat(p); return nil })
				step(fmt.Sprintf("WriteFile(%q)", p), func() []byte { J.WriteFile(p, []byte("written through the view"), 0644); return nil })
				step(fmt.Sprintf("Writer(%q)", p), func() []byte {
					if w, err := J.Writer(p); err == nil && w != nil {
						w.Write([]byte("streamed through the view"))
						w.Close()
					}
					return nil
				})
				step(fmt.Sprintf("Remove(%q)", p), func() []byte { J.Remove(p); return nil })
			}
			r.AddObs("symlink_cases", 1)
			r.Key = "symlink|" + kind
			r.Nontrivial = true
		})
	}
}
