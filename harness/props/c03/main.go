// C03 – a filespace never reaches outside its root, whatever path it is given.
package main

import (
	"bytes"
	"crypto/sha256"
	"fmt"
	"os"
	"path"
	"path/filepath"
	"sort"
	"strings"

	"verif/internal/mfs"
	"verif/internal/sup"

	"github.com/goatcms/goatcore/filesystem"
	"github.com/goatcms/goatcore/filesystem/filespace/diskfs"
	"github.com/goatcms/goatcore/filesystem/filespace/encryptfs"
	"github.com/goatcms/goatcore/filesystem/filespace/encryptfs/cipherfs/extcfs"
	"github.com/goatcms/goatcore/filesystem/filespace/memfs"
	"github.com/goatcms/goatcore/filesystem/fscache"
	"github.com/goatcms/goatcore/filesystem/fshelper"
)

// ---- configurations -------------------------------------------------------------------------

var configs = []string{
	"mem-root", "mem-child", "mem-child3", "disk-root", "disk-child", "disk-child3",
	"enc-mem-child", "enc-disk-child", "ro-child", "ro-child3", "subfs", "subfs-child3",
	"cache-child", "cache-root-over-child", "cache-child3",
	"subfs-child4", "cache-child4",
}

// fixture: U (underlying root) holds
//
//	secret (file OUT-secret)  x/ (DIRECTORY, outside!)  x/leak (file)  sib/sfile  jail/…
//
// the jail view's root is U/<jailPath>; inside it:  x (FILE IN-x)  jail/ (dir)  jail/x (file)  d/ (dir)
type fixture struct {
	kind     string
	U        filesystem.Filespace // plain access to the underlying root (for snapshots / rebuild)
	W        filesystem.Filespace // how fixture files are written (encrypting configs write through the cipher)
	J        filesystem.Filespace // the view under test
	jailPath string               // jail root relative to U ("" = U itself is the jail)
	cache    *fscache.Cache
	tmp      string // disk configs: temp dir; host files live next to base
	hostRoot string // directory whose content outside the jail is hashed (disk)
	// views created AFTER the view under test, from each view on the way to it, for the outside
	// directory "x" next to it: siblings are separate views and stay alive during the test
	later []filesystem.Filespace
}

const (
	tokOut = "OUTSIDE-TOKEN-7f3a"
	tokIn  = "inside-token-51c2"
)

var outsideOnlyNames = map[string]bool{"secret": true, "sib": true, "sfile": true, "leak": true, "peer.txt": true, "hostsecret": true, "xsrc": true, "jxcopy": true, "keep": true}

func (f *fixture) writeAll() error {
	w := f.W
	jp := f.jailPath
	j := func(p string) string {
		if jp == "" {
			return p
		}
		return jp + "/" + p
	}
	if jp != "" {
		if err := w.WriteFile("secret", []byte(tokOut+"-secret"), 0644); err != nil {
			return err
		}
		if err := w.WriteFile("x/leak", []byte(tokOut+"-xleak"), 0644); err != nil {
			return err
		}
		if err := w.WriteFile("sib/sfile", []byte(tokOut+"-sib"), 0644); err != nil {
			return err
		}
		// siblings whose names merely begin like the jail's own name
		if err := w.WriteFile(jp+"s/keep", []byte(tokOut+"-plural"), 0644); err != nil {
			return err
		}
		if err := w.WriteFile(jp+".old/keep", []byte(tokOut+"-old"), 0644); err != nil {
			return err
		}
		// intermediate levels of a deep jail hold outside material too
		parts := strings.Split(jp, "/")
		for i := 1; i < len(parts); i++ {
			pre := strings.Join(parts[:i], "/")
			if err := w.WriteFile(pre+"/secret", []byte(tokOut+"-mid"), 0644); err != nil {
				return err
			}
			if err := w.WriteFile(pre+"/x/leak", []byte(tokOut+"-midx"), 0644); err != nil {
				return err
			}
		}
	}
	if jp != "" {
		// the jail's file "x" arrives by a copy from outside, and "jail/x" is copied out of the
		// jail afterwards (what a parent does with its child's directory): copies are deep, so a
		// later write through the view must not reach the other side of the border
		if err := w.WriteFile("sib/xsrc", []byte(tokIn+"-x"), 0644); err != nil {
			return err
		}
		if err := w.MkdirAll(jp, 0777); err != nil {
			return err
		}
		if err := w.CopyFile("sib/xsrc", j("x")); err != nil {
			return err
		}
	} else if err := w.WriteFile(j("x"), []byte(tokIn+"-x"), 0644); err != nil {
		return err
	}
	if err := w.WriteFile(j("jail/x"), []byte(tokIn+"-jx"), 0644); err != nil {
		return err
	}
	if jp != "" {
		if err := w.CopyFile(j("jail/x"), "sib/jxcopy"); err != nil {
			return err
		}
	}
	return w.MkdirAll(j("d"), 0777)
}

func newFixture(kind, tmp string) (*fixture, error) {
	f := &fixture{kind: kind, tmp: tmp}
	var err error
	isDisk := strings.Contains(kind, "disk")
	if isDisk {
		os.WriteFile(filepath.Join(tmp, "hostsecret"), []byte(tokOut+"-host"), 0644)
		os.MkdirAll(filepath.Join(tmp, "x"), 0755)
		os.WriteFile(filepath.Join(tmp, "x", "leak"), []byte(tokOut+"-hostx"), 0644)
		base := filepath.Join(tmp, "base")
		os.MkdirAll(base, 0755)
		f.hostRoot = tmp
		if f.U, err = diskfs.NewFilespace(base); err != nil {
			return nil, err
		}
	} else {
		if f.U, err = memfs.NewFilespace(); err != nil {
			return nil, err
		}
	}
	f.W = f.U
	deep := "jail/j2/j3"
	switch kind {
	case "mem-root", "disk-root":
		f.jailPath = ""
		if kind == "disk-root" {
			// the disk root IS base; outside = the host directory above it
		}
		f.J = f.U
	case "mem-child", "disk-child":
		f.jailPath = "jail"
	case "mem-child3", "disk-child3":
		f.jailPath = deep
	case "enc-mem-child", "enc-disk-child":
		f.jailPath = "jail"
		enc, e := encryptfs.NewEncryptFS(f.U, encryptfs.Settings{Secret: []byte("s3cret"), Salt: []byte("salt"), Cipher: extcfs.NewDefaultCipher()})
		if e != nil {
			return nil, e
		}
		f.W = enc
	case "ro-child", "subfs", "cache-child":
		f.jailPath = "jail"
	case "ro-child3", "subfs-child3", "cache-child3":
		f.jailPath = deep
	case "cache-root-over-child":
		f.jailPath = "jail"
	case "subfs-child4", "cache-child4":
		f.jailPath = deep + "/j4"
	}
	if err = f.writeAll(); err != nil {
		return nil, fmt.Errorf("fixture: %v", err)
	}
	var onTheWay []filesystem.Filespace
	nest := func(start filesystem.Filespace, p string) (filesystem.Filespace, error) {
		cur := start
		for _, seg := range strings.Split(p, "/") {
			onTheWay = append(onTheWay, cur)
			if cur, err = cur.Filespace(seg); err != nil {
				return nil, err
			}
		}
		return cur, nil
	}
	switch kind {
	case "mem-child", "disk-child", "mem-child3", "disk-child3":
		f.J, err = nest(f.U, f.jailPath)
	case "enc-mem-child", "enc-disk-child":
		f.J, err = nest(f.W, f.jailPath)
	case "ro-child", "ro-child3":
		f.J, err = nest(fshelper.NewReadonlyFS(f.U), f.jailPath)
	case "subfs":
		f.J = fshelper.NewSubFS(f.U, "jail")
	case "subfs-child3":
		f.J, err = nest(fshelper.NewSubFS(f.U, "jail"), "j2/j3")
	case "subfs-child4":
		f.J, err = nest(fshelper.NewSubFS(f.U, "jail/j2"), "j3/j4")
	case "cache-child4":
		if f.cache, err = fscache.NewMemCache(f.U); err == nil {
			f.J, err = nest(f.cache, f.jailPath)
		}
	case "cache-child", "cache-child3":
		if f.cache, err = fscache.NewMemCache(f.U); err == nil {
			f.J, err = nest(f.cache, f.jailPath)
		}
	case "cache-root-over-child":
		var remote filesystem.Filespace
		if remote, err = f.U.Filespace("jail"); err == nil {
			if f.cache, err = fscache.NewMemCache(remote); err == nil {
				f.J = f.cache
			}
		}
	}
	if err != nil {
		return nil, fmt.Errorf("view: %v", err)
	}
	for _, v := range onTheWay {
		if sib, e := v.Filespace("x"); e == nil && sib != nil {
			f.later = append(f.later, sib)
		}
	}
	return f, nil
}

// outside returns a canonical dump of everything outside the jail (through the underlying root
// and, for disk, the host directory above it); inside returns the dump of the jail.
func (f *fixture) snapshots() (outside, inside string) {
	tree, anom := mfs.ObserveLimit(f.U, 30, 100000)
	var in *mfs.Node
	if f.jailPath == "" {
		in = tree
		tree = &mfs.Node{Dir: true, Kids: map[string]*mfs.Node{}}
		anom = nil
	} else {
		parts := strings.Split(f.jailPath, "/")
		n := tree
		for i, s := range parts {
			if n == nil || !n.Dir {
				break
			}
			if i == len(parts)-1 {
				in = n.Kids[s]
				delete(n.Kids, s)
			} else {
				n = n.Kids[s]
			}
		}
	}
	outside += tree.Dump()
	for _, a := range anom {
		// anomalies inside the jail are not this property's business
		if f.jailPath == "" || !strings.Contains(a, "\""+f.jailPath) {
			outside += a + ";"
		}
	}
	if in != nil && in.Dir {
		inside = in.Dump()
	}
	if f.hostRoot != "" {
		var lines []string
		skip := filepath.Join(f.hostRoot, "base")
		filepath.Walk(f.hostRoot, func(p string, info os.FileInfo, err error) error {
			if err != nil {
				lines = append(lines, "ERR "+p)
				return nil
			}
			if p == skip {
				return filepath.SkipDir
			}
			if info.IsDir() {
				lines = append(lines, "D "+p)
				return nil
			}
			b, _ := os.ReadFile(p)
			lines = append(lines, fmt.Sprintf("F %s %x", p, sha256.Sum256(b)))
			return nil
		})
		sort.Strings(lines)
		outside += "\nHOST\n" + strings.Join(lines, "\n")
	}
	return
}

// parentOutside: for views of a cache, what the PARENT (the cache itself) shows outside the jail –
// pending operations of the child must not change it either ("" for other configurations).
func (f *fixture) parentOutside() string {
	if f.cache == nil || f.jailPath == "" || !strings.HasPrefix(f.kind, "cache-child") {
		return ""
	}
	tree, _ := mfs.ObserveLimit(f.cache, 30, 100000)
	parts := strings.Split(f.jailPath, "/")
	n := tree
	for i, s := range parts {
		if n == nil || !n.Dir {
			break
		}
		if i == len(parts)-1 {
			delete(n.Kids, s)
		} else {
			n = n.Kids[s]
		}
	}
	return tree.Dump()
}

// ---- hostile paths ----------------------------------------------------------------------------

var segAlphabet = []string{"x", "jail", ".", "..", ""}

func pathCount(maxSeg int) int {
	t, p := 0, 1
	for k := 1; k <= maxSeg; k++ {
		p *= len(segAlphabet)
		t += p
	}
	return 2 * t
}

func decodePath(idx, maxSeg int) string {
	lead := idx%2 == 1
	idx /= 2
	p := 1
	for k := 1; k <= maxSeg; k++ {
		p *= len(segAlphabet)
		if idx < p {
			segs := make([]string, k)
			for i := k - 1; i >= 0; i-- {
				segs[i] = segAlphabet[idx%len(segAlphabet)]
				idx /= len(segAlphabet)
			}
			s := strings.Join(segs, "/")
			if lead {
				s = "/" + s
			}
			return s
		}
		idx -= p
	}
	return ""
}

// escapes: does p lexically leave the view root at some point?
func escapes(p string) bool {
	_, ok := mfs.Norm(p)
	return !ok
}

// clamp resolves p with '..' clamped at the root (one of the two accepted behaviours).
func clamp(p string) string {
	c := path.Clean("/" + p)
	return strings.TrimPrefix(c, "/")
}

type call struct {
	selfCopy bool
	name     string
	run      func(j filesystem.Filespace) (data []byte, names []string, positive bool, kindDir, kindFile bool, err error)
	args     string
}

func names(infos []os.FileInfo) []string {
	var out []string
	for _, fi := range infos {
		if fi != nil {
			out = append(out, fi.Name())
		}
	}
	return out
}

func buildCalls(p, p2 string) []call {
	mk := func(name, args string, fn func(j filesystem.Filespace) ([]byte, []string, bool, bool, bool, error)) call {
		return call{name: name, args: args, run: fn}
	}
	mkc := func(self bool, name, args string, fn func(j filesystem.Filespace) ([]byte, []string, bool, bool, bool, error)) call {
		return call{name: name, args: args, run: fn, selfCopy: self}
	}
	q := fmt.Sprintf("%q", p)
	cs := []call{
		mk("ReadFile", q, func(j filesystem.Filespace) ([]byte, []string, bool, bool, bool, error) {
			d, err := j.ReadFile(p)
			return d, nil, false, false, false, err
		}),
		mk("Reader", q, func(j filesystem.Filespace) ([]byte, []string, bool, bool, bool, error) {
			r, err := j.Reader(p)
			if err != nil || r == nil {
				return nil, nil, false, false, false, err
			}
			d, _ := mfs.ReadAllVia(r, 64, 1<<16)
			r.Close()
			return d, nil, false, false, false, nil
		}),
		mk("ReadDir", q, func(j filesystem.Filespace) ([]byte, []string, bool, bool, bool, error) {
			l, err := j.ReadDir(p)
			return nil, names(l), false, false, false, err
		}),
		mk("IsExist", q, func(j filesystem.Filespace) ([]byte, []string, bool, bool, bool, error) {
			return nil, nil, j.IsExist(p), false, false, nil
		}),
		mk("IsFile", q, func(j filesystem.Filespace) ([]byte, []string, bool, bool, bool, error) {
			b := j.IsFile(p)
			return nil, nil, b, false, b, nil
		}),
		mk("IsDir", q, func(j filesystem.Filespace) ([]byte, []string, bool, bool, bool, error) {
			b := j.IsDir(p)
			return nil, nil, b, b, false, nil
		}),
		mk("Lstat", q, func(j filesystem.Filespace) ([]byte, []string, bool, bool, bool, error) {
			fi, err := j.Lstat(p)
			if err != nil || fi == nil {
				return nil, nil, false, false, false, err
			}
			return nil, []string{fi.Name()}, true, fi.IsDir(), !fi.IsDir(), nil
		}),
		mk("WriteFile", q, func(j filesystem.Filespace) ([]byte, []string, bool, bool, bool, error) {
			return nil, nil, false, false, false, j.WriteFile(p, []byte("HOSTILE-WRITE"), 0644)
		}),
		mk("Writer", q, func(j filesystem.Filespace) ([]byte, []string, bool, bool, bool, error) {
			w, err := j.Writer(p)
			if err != nil || w == nil {
				return nil, nil, false, false, false, err
			}
			w.Write([]byte("HOSTILE-STREAM"))
			return nil, nil, false, false, false, w.Close()
		}),
		mk("MkdirAll", q, func(j filesystem.Filespace) ([]byte, []string, bool, bool, bool, error) {
			return nil, nil, false, false, false, j.MkdirAll(p, 0777)
		}),
		mk("Remove", q, func(j filesystem.Filespace) ([]byte, []string, bool, bool, bool, error) {
			return nil, nil, false, false, false, j.Remove(p)
		}),
		mk("RemoveAll", q, func(j filesystem.Filespace) ([]byte, []string, bool, bool, bool, error) {
			return nil, nil, false, false, false, j.RemoveAll(p)
		}),
		mk("Filespace+probe", q, func(j filesystem.Filespace) ([]byte, []string, bool, bool, bool, error) {
			c, err := j.Filespace(p)
			if err != nil || c == nil {
				return nil, nil, false, false, false, err
			}
			var data []byte
			var nm []string
			for _, f := range []string{"x", "secret", "leak", "sfile"} {
				if d, e := c.ReadFile(f); e == nil {
					data = append(data, d...)
				}
			}
			if l, e := c.ReadDir(""); e == nil {
				nm = names(l)
			}
			c.WriteFile("probe-file", []byte("HOSTILE-PROBE"), 0644)
			c.MkdirAll("probe-dir", 0777)
			c.Remove("secret")
			return data, nm, false, false, false, nil
		}),
	}
	type cp struct {
		name string
		fn   func(j filesystem.Filespace, a, b string) error
		ok   string // benign source
	}
	for _, c := range []cp{
		{"Copy", func(j filesystem.Filespace, a, b string) error { return j.Copy(a, b) }, "x"},
		{"CopyFile", func(j filesystem.Filespace, a, b string) error { return j.CopyFile(a, b) }, "x"},
		{"CopyDirectory", func(j filesystem.Filespace, a, b string) error { return j.CopyDirectory(a, b) }, "jail"},
	} {
		c := c
		for _, v := range [][2]string{{p, "copied"}, {c.ok, p}, {p, p2}} {
			v := v
			self := clamp(v[0]) == clamp(v[1])
			cs = append(cs, mkc(self, c.name, fmt.Sprintf("%q,%q", v[0], v[1]), func(j filesystem.Filespace) ([]byte, []string, bool, bool, bool, error) {
				err := c.fn(j, v[0], v[1])
				var data []byte
				if v[1] == "copied" && err == nil {
					// what did the copy bring in?
					if d, e := j.ReadFile("copied"); e == nil {
						data = d
					} else if d, e := j.ReadFile("copied/leak"); e == nil {
						data = d
					} else if d, e := j.ReadFile("copied/secret"); e == nil {
						data = d
					}
				}
				return data, nil, false, false, false, err
			}))
		}
	}
	return cs
}

// insideKind answers what the clamped path is inside a pristine jail.
func insideKind(in *mfs.Node, p string) (exists, dir bool) {
	segs, _ := mfs.Norm(clamp(p))
	n := in
	for _, s := range segs {
		if n == nil || !n.Dir {
			return false, false
		}
		n = n.Kids[s]
	}
	if n == nil {
		return false, false
	}
	return true, n.Dir
}

func pristineInside() *mfs.Node {
	m := mfs.NewModel()
	m.Step(mfs.Op{Kind: mfs.OpWriteFile, P1: "x", Data: []byte(tokIn + "-x")}, mfs.Res{})
	m.Step(mfs.Op{Kind: mfs.OpWriteFile, P1: "jail/x", Data: []byte(tokIn + "-jx")}, mfs.Res{})
	m.Step(mfs.Op{Kind: mfs.OpMkdirAll, P1: "d"}, mfs.Res{})
	return m.Root
}

func runPaths(c *sup.Child, b sup.Batch) {
	kind := b.PS("config", "mem-child")
	maxSeg := b.P("maxseg", 4)
	random := b.P("random", 0) == 1
	pristine := pristineInside()
	const blk = 50
	for from := b.From; from < b.To; from += blk {
		to := from + blk
		if to > b.To {
			to = b.To
		}
		c.Case(from, map[string]any{"config": kind, "from": from, "to": to, "maxseg": maxSeg, "random": random}, func(r *sup.CaseResult) {
			tmp, err := os.MkdirTemp("", "c03-")
			if err != nil {
				r.Inconclusive = err.Error()
				return
			}
			defer os.RemoveAll(tmp)
			var f *fixture
			var out0, in0, pout0 string
			rebuild := func() bool {
				os.RemoveAll(tmp)
				os.MkdirAll(tmp, 0755)
				if f, err = newFixture(kind, tmp); err != nil {
					r.Inconclusive = "fixture " + kind + ": " + err.Error()
					return false
				}
				out0, in0 = f.snapshots()
				pout0 = f.parentOutside()
				return true
			}
			if !rebuild() {
				return
			}
			var calls, escaping, rejected, resolvedInside int64
			for idx := from; idx < to; idx++ {
				var p, p2 string
				if random {
					rng := c.Rand(idx)
					n := 6 + rng.Intn(7)
					segs := make([]string, n)
					for i := range segs {
						switch rng.Intn(6) {
						case 0:
							segs[i] = "longer-name-" + fmt.Sprint(rng.Intn(3))
						default:
							segs[i] = segAlphabet[rng.Intn(len(segAlphabet))]
						}
					}
					p = strings.Join(segs, "/")
					if rng.Intn(2) == 0 {
						p = "/" + p
					}
					if idx%5 == 0 {
						// a backslash is an ordinary character of a name: these are single names (or
						// names below x), whatever a layer underneath makes of the backslash
						bs := []string{"..\\secret", "..\\x\\leak", "..\\..\\secret", "x\\..\\..\\secret", "..\\", "x/..\\..\\secret", "..\\sib\\sfile", "..\\..\\..\\hostsecret"}
						p = bs[rng.Intn(len(bs))]
					}
					p2 = "../" + p
				} else {
					p = decodePath(idx, maxSeg)
					p2 = decodePath((idx*7+3)%pathCount(maxSeg), maxSeg)
				}
				esc := escapes(p)
				for _, cl := range buildCalls(p, p2) {
					if cl.selfCopy {
						continue
					}
					calls++
					if esc {
						escaping++
					}
					var data []byte
					var nm []string
					var positive, kd, kf bool
					var cerr error
					pan := func() (s string) {
						defer func() {
							if x := recover(); x != nil {
								s = fmt.Sprint(x)
							}
						}()
						data, nm, positive, kd, kf, cerr = cl.run(f.J)
						return ""
					}()
					wit := map[string]any{"config": kind, "call": cl.name + "(" + cl.args + ")"}
					if pan != "" {
						r.Violate("panic", fmt.Sprintf("[%s] %s(%s) panicked: %s", kind, cl.name, cl.args, pan), wit)
					}
					if pout0 != "" {
						if pout1 := f.parentOutside(); pout1 != pout0 {
							r.Violate("outside-changed", fmt.Sprintf("[%s] %s(%s) changed what the parent cache shows outside the view's root (before Commit):\n--- before\n%s\n--- after\n%s", kind, cl.name, cl.args, pout0, pout1), wit)
						}
						r.AddObs("parent_cache_outside_views_compared", 1)
					}
					if f.cache != nil {
						func() {
							defer func() { recover() }()
							f.cache.Commit()
						}()
					}
					out1, in1 := f.snapshots()
					if out1 != out0 {
						r.Violate("outside-changed", fmt.Sprintf("[%s] %s(%s) changed the tree outside the view's root:\n--- before\n%s\n--- after\n%s", kind, cl.name, cl.args, out0, out1), wit)
					}
					if bytes.Contains(data, []byte(tokOut)) {
						r.Violate("outside-data-read", fmt.Sprintf("[%s] %s(%s) delivered outside content %q", kind, cl.name, cl.args, data), wit)
					}
					for _, n := range nm {
						if outsideOnlyNames[n] {
							r.Violate("outside-name-listed", fmt.Sprintf("[%s] %s(%s) shows the outside-only name %q (got %v)", kind, cl.name, cl.args, n, nm), wit)
						}
					}
					if esc && cl.name != "Filespace+probe" && !strings.HasPrefix(cl.name, "Copy") {
						if cerr != nil || (!positive && data == nil && nm == nil && (cl.name == "IsExist" || cl.name == "IsFile" || cl.name == "IsDir")) {
							rejected++
						}
						if positive {
							ex, dir := insideKind(pristine, p)
							explained := ex && (!kd || dir) && (!kf || !dir)
							if in1 != in0 || !explained {
								// inside may have been modified by earlier calls of this path: judge only on a pristine jail
								if in1 == in0 {
									r.Violate("escaping-path-answered", fmt.Sprintf("[%s] %s(%s) answered positively for a path that leaves the root, and the clamped path %q does not explain it", kind, cl.name, cl.args, clamp(p)), wit)
								}
							} else {
								resolvedInside++
							}
						}
					}
					pureRead := map[string]bool{"ReadFile": true, "Reader": true, "ReadDir": true, "IsExist": true, "IsFile": true, "IsDir": true, "Lstat": true}[cl.name]
					if out1 != out0 || in1 != in0 || (f.cache != nil && !pureRead) {
						if !rebuild() {
							return
						}
					}
					if len(r.Violations) > 10 {
						return
					}
				}
			}
			r.AddObs("calls", calls)
			r.AddObs("calls_with_escaping_path", escaping)
			r.AddObs("escaping_rejected", rejected)
			r.AddObs("escaping_resolved_inside", resolvedInside)
			r.AddObs("config_"+kind, int64(to-from))
			r.Key = fmt.Sprintf("%s|%d|%d|%v", kind, from, maxSeg, random)
			r.Nontrivial = escaping > 0
			if from == 0 {
				r.Sample = map[string]any{"config": kind, "paths": []string{decodePath(from, maxSeg), decodePath(from+7, maxSeg), decodePath(to-1, maxSeg)}, "calls_per_path": len(buildCalls("a", "b"))}
			}
		})
	}
}

func plan(tier string, seed int64) []sup.Batch {
	maxSeg, nrand := 3, 100
	if tier == "thorough" {
		maxSeg, nrand = 5, 1500
	}
	var bs []sup.Batch
	n := pathCount(maxSeg)
	for _, k := range configs {
		per := (n + 3) / 4
		if strings.Contains(k, "disk") {
			per = (n + 7) / 8
		}
		for _, b := range sup.Chunk("exh-"+k, "paths", n, per, 1, map[string]any{"config": k, "maxseg": maxSeg}) {
			bs = append(bs, b)
		}
		bs = append(bs, sup.Chunk("rnd-"+k, "paths", nrand, nrand, 1, map[string]any{"config": k, "maxseg": maxSeg, "random": 1})...)
	}
	bs = append(bs, sup.Batch{Name: "symlink", Kind: "symlink", From: 0, To: 8, Procs: 1})
	bs = append(bs, sup.Batch{Name: "relroot", Kind: "relroot", From: 0, To: 12, Procs: 1})
	return bs
}

func main() {
	sup.Main(sup.Prop{
		ID:    "C03",
		Level: "exploration",
		Rule:  "for each of 17 view configurations (memory/disk root and child, depth-3 views, encrypted, read-only, sub-path, cache child/root/depth-3, sub-path and cache views of depth 4; after the view under test is built, sibling views for the outside directory next to it are created from every view on the way and kept alive) every path of ≤ N segments over {x, jail, ., .., \"\"} with and without leading '/' (N=3 quick, 5 thorough; random longer ones beyond) is given to all 16 operations (copy operations: hostile source, hostile destination, both); after every call the tree outside the view root (walked through the underlying root, host directory for disk, after Commit for caches) must be byte-identical, no outside token may be returned, no outside-only name listed, no positive answer for an escaping path unless the clamped path explains it, no panic; symlink: disk views whose tree holds a relative link that resolves inside the view – its directory is copied to another depth through the view and the copy is read, written, queried and removed: nothing outside is delivered or changed; relroot: disk views created from a relative root path, used (directly and through a child view) after the process changed its working directory to a directory with the same names: nothing of the new working directory is delivered or changed. distinct = (configuration, path block); non-trivial = block contains escaping paths",
		Assumptions: []string{
			"a path that would climb above the root may be rejected or resolved inside the root (clamped); both are accepted",
			"removing or replacing the view's own root directory through the view is not counted as reaching outside (the statement speaks of what is not under the root)",
		},
		Plan: plan,
		Run: func(c *sup.Child, b sup.Batch) {
			if b.Kind == "symlink" {
				runSymlink(c, b)
				return
			}
			if b.Kind == "relroot" {
				runRelRoot(c, b)
				return
			}
			runPaths(c, b)
		},
		Finish: func(t *sup.Totals) string {
			if t.Obs["calls_with_escaping_path"] < 1000 {
				return "too few escaping-path calls observed"
			}
			for _, k := range configs {
				if t.Obs["config_"+k] == 0 {
					return "configuration " + k + " was not exercised"
				}
			}
			return ""
		},
		Exhaustive: func(tier string) string {
			if tier == "thorough" {
				return "all 7810 paths of ≤5 segments over {x,jail,.,..,\"\"} (± leading '/') × all operations × 17 view configurations"
			}
			return "all 310 paths of ≤3 segments over {x,jail,.,..,\"\"} (± leading '/') × all operations × 17 view configurations"
		},
	})
}
