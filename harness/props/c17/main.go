// C17 – command-line splitting is total, byte-preserving and reversible for quoted input.
package main

import (
	"bytes"
	"fmt"
	"io"
	"math/rand"
	"strings"

	"verif/internal/sup"

	"github.com/goatcms/goatcore/app/scope/argscope"
	"github.com/goatcms/goatcore/app/scope/datascope"
	"github.com/goatcms/goatcore/varutil"
)

var alphabet = []byte{' ', '\t', '\n', '"', '\\', '=', '<', 'a', 0xC3}

// countingReader hands out one byte at a time and counts what was consumed.
type countingReader struct {
	data  []byte
	pos   int
	reads int
}

func (c *countingReader) Read(p []byte) (int, error) {
	c.reads++
	if len(p) == 0 {
		return 0, nil
	}
	if c.pos >= len(c.data) {
		return 0, io.EOF
	}
	p[0] = c.data[c.pos]
	c.pos++
	return 1, nil
}

func plan(tier string, seed int64) []sup.Batch {
	var bs []sup.Batch
	maxLen := 5
	nRound, nMap, nRand := 4000, 2000, 20000
	if tier == "thorough" {
		maxLen = 7
		nRound, nMap, nRand = 200000, 50000, 1000000
	}
	// exhaustive: split by first two symbols → 81 prefixes; group into batches
	total := 1
	for i := 0; i < maxLen; i++ {
		total *= len(alphabet)
	}
	nb := 16
	per := (total + nb - 1) / nb
	bs = append(bs, sup.Chunk("exh", "exh", total, per, 1, map[string]any{"len": maxLen})...)
	bs = append(bs, sup.Chunk("round", "round", nRound, (nRound+15)/16, 1, nil)...)
	bs = append(bs, sup.Chunk("map", "map", nMap, (nMap+7)/8, 1, nil)...)
	bs = append(bs, sup.Chunk("rand", "rand", nRand, (nRand+15)/16, 1, nil)...)
	return bs
}

// decode index → string over the alphabet; all lengths 0..maxLen are covered because the
// index space is over exactly maxLen symbols and every prefix is also checked (see below).
func decode(idx, n int) []byte {
	out := make([]byte, n)
	for i := n - 1; i >= 0; i-- {
		out[i] = alphabet[idx%len(alphabet)]
		idx /= len(alphabet)
	}
	return out
}

func isBlank(b byte) bool { return b == ' ' || b == '\t' }

// specSimple computes the expected result for strings without quote, backslash, '<'.
func specSimple(in []byte) (args []string, eof bool, consumed int) {
	nl := bytes.IndexByte(in, '\n')
	line := in
	if nl >= 0 {
		line = in[:nl]
		consumed = nl + 1
	} else {
		eof = true
		consumed = len(in)
	}
	cur := []byte{}
	has := false
	for _, b := range line {
		if isBlank(b) {
			if has {
				args = append(args, string(cur))
				cur = cur[:0]
				has = false
			}
			continue
		}
		cur = append(cur, b)
		has = true
	}
	if has {
		args = append(args, string(cur))
	}
	return
}

// specStop computes where reading must stop for strings without quote and '<' (backslashes
// allowed): an escape concerns only the byte that follows it immediately, so a newline ends the
// command unless it comes directly after an unescaped backslash.
func specStop(in []byte) (eof bool, consumed int) {
	esc := false
	for i, b := range in {
		switch {
		case b == '\n':
			if esc {
				esc = false
				continue
			}
			return false, i + 1
		case b == ' ' || b == '\t':
			esc = false
		case b == '\\' && !esc:
			esc = true
		default:
			esc = false
		}
	}
	return true, len(in)
}

// checkSplitAgrees: SplitArguments(string) must answer like ReadArguments on the same bytes.
func checkSplitAgrees(in []byte, args []string, eof bool, err error, r *sup.CaseResult) {
	defer func() {
		if p := recover(); p != nil {
			r.Violate("split-panic", fmt.Sprintf("SplitArguments(%q) panicked: %v", in, p), nil)
		}
	}()
	a2, e2, err2 := varutil.SplitArguments(string(in))
	if (err == nil) != (err2 == nil) || (err == nil && (!eqArgs(args, a2) || eof != e2)) {
		r.Violate("split-string-vs-reader", fmt.Sprintf("SplitArguments(%q) = (%q, eof=%v, err=%v) but ReadArguments on the same bytes = (%q, eof=%v, err=%v)", in, a2, e2, err2, args, eof, err), nil)
	}
}

func eqArgs(a, b []string) bool {
	if len(a) != len(b) {
		return false
	}
	for i := range a {
		if a[i] != b[i] {
			return false
		}
	}
	return true
}

// checkTotal runs ReadArguments on in with panic capture and the boundedness oracle.
func checkTotal(in []byte, r *sup.CaseResult) (args []string, eof bool, err error, consumed int, ok bool) {
	cr := &countingReader{data: in}
	defer func() {
		if p := recover(); p != nil {
			r.Violate("split-panic", fmt.Sprintf("ReadArguments(%q) panicked: %v", in, p), map[string]any{"input": fmt.Sprintf("%q", in)})
			ok = false
		}
	}()
	args, eof, err = varutil.ReadArguments(cr)
	if cr.reads > len(in)+2 {
		r.Violate("split-unbounded", fmt.Sprintf("ReadArguments(%q) issued %d reads for %d bytes", in, cr.reads, len(in)), nil)
	}
	if err != nil && args != nil {
		r.Violate("split-args-and-error", fmt.Sprintf("ReadArguments(%q) returned both args %q and error %v", in, args, err), nil)
	}
	return args, eof, err, cr.pos, true
}

func runExh(c *sup.Child, b sup.Batch) {
	n := b.P("len", 5)
	// one "case" per 6561-block to keep the log small; the input of the running string is
	// attributed through the panic capture (panics are recovered in-process for this worker).
	const blk = 2187
	for from := b.From; from < b.To; from += blk {
		to := from + blk
		if to > b.To {
			to = b.To
		}
		c.Case(from, map[string]any{"kind": "exh", "from": from, "to": to, "len": n}, func(r *sup.CaseResult) {
			var simple, total, errs, withArgs, stops int64
			seenPrefix := map[string]bool{}
			for idx := from; idx < to; idx++ {
				full := decode(idx, n)
				// every prefix too (so all lengths ≤ n are enumerated); dedupe inside block
				for l := n; l >= 0; l-- {
					in := full[:l]
					if l < n {
						if seenPrefix[string(in)] {
							break
						}
						seenPrefix[string(in)] = true
					}
					args, eof, err, consumed, ok := checkTotal(in, r)
					total++
					if !ok {
						continue
					}
					if err != nil {
						errs++
					}
					if len(args) > 0 {
						withArgs++
					}
					if !bytes.ContainsAny(in, "\"\\<") {
						simple++
						wa, we, wc := specSimple(in)
						if err != nil || !eqArgs(args, wa) || eof != we || consumed != wc {
							r.Violate("split-simple-mismatch", fmt.Sprintf("ReadArguments(%q) = (%q, eof=%v, err=%v, consumed=%d); expected (%q, eof=%v, consumed=%d)", in, args, eof, err, consumed, wa, we, wc), nil)
						}
					} else if !bytes.ContainsAny(in, "\"<") {
						stops++
						we, wc := specStop(in)
						if err != nil || eof != we || consumed != wc {
							r.Violate("split-stop-position", fmt.Sprintf("ReadArguments(%q) = (%q, eof=%v, err=%v) consumed %d bytes; a newline ends the command unless it directly follows an unescaped backslash: expected eof=%v, consumed=%d", in, args, eof, err, consumed, we, wc), nil)
						}
					}
					checkSplitAgrees(in, args, eof, err, r)
					if len(r.Violations) > 20 {
						return
					}
				}
			}
			r.AddObs("exh_stop_position_exact", stops)
			r.Evals = total
			r.AddObs("exh_strings", total)
			r.AddObs("exh_simple_exact", simple)
			r.AddObs("exh_error_results", errs)
			r.AddObs("exh_with_args", withArgs)
			r.Key = fmt.Sprintf("exh-%d-%d", from, n)
			r.Nontrivial = withArgs > 0
			if from == 0 {
				r.Sample = map[string]any{"kind": "exhaustive block", "first": fmt.Sprintf("%q", decode(from, n)), "last": fmt.Sprintf("%q", decode(to-1, n))}
			}
		})
	}
}

// ---- render / split round trip ------------------------------------------------------------

type rarg struct {
	name  string // "" = positional style
	value []byte
	style int // 0 bare, 1 quoted, 2 name="…", 3 heredoc
	dash  int
}

func randBytes(rng *rand.Rand, n int, pool string) []byte {
	out := make([]byte, n)
	for i := range out {
		if pool == "" {
			out[i] = byte(rng.Intn(256))
		} else {
			out[i] = pool[rng.Intn(len(pool))]
		}
	}
	return out
}

const bareSafe = "abcXYZ019_-./:=<>,;!$%&()[]{}'*+?@^`|~#"

func genValue(rng *rand.Rand, style int) []byte {
	n := rng.Intn(12)
	switch style {
	case 0: // bare: no blanks, newline, quote, backslash; may hold non-ASCII and '=' '<'
		if n == 0 {
			n = 1
		}
		out := make([]byte, n)
		for i := range out {
			if rng.Intn(4) == 0 {
				out[i] = byte(0x80 + rng.Intn(0x80))
			} else {
				out[i] = bareSafe[rng.Intn(len(bareSafe))]
			}
		}
		return out
	case 1, 2: // quoted: anything except backslash (escape semantics beyond \" are not in the statement)
		out := make([]byte, n)
		for i := range out {
			switch rng.Intn(8) {
			case 0:
				out[i] = ' '
			case 1:
				out[i] = '\t'
			case 2:
				out[i] = '"'
			case 3:
				out[i] = byte(0x80 + rng.Intn(0x80))
			default:
				out[i] = bareSafe[rng.Intn(len(bareSafe))]
			}
		}
		return out
	default: // heredoc text: lines of anything incl. quotes, backslashes, blanks
		lines := 1 + rng.Intn(4)
		var sb bytes.Buffer
		for l := 0; l < lines; l++ {
			if l > 0 {
				sb.WriteByte('\n')
			}
			m := rng.Intn(10)
			for i := 0; i < m; i++ {
				switch rng.Intn(8) {
				case 0:
					sb.WriteByte(' ')
				case 1:
					sb.WriteByte('\t')
				case 2:
					sb.WriteByte('"')
				case 3:
					sb.WriteByte('\\')
				case 4:
					sb.WriteByte(byte(0x80 + rng.Intn(0x80)))
				default:
					sb.WriteByte(bareSafe[rng.Intn(len(bareSafe))])
				}
			}
		}
		return sb.Bytes()
	}
}

func genName(rng *rand.Rand) string {
	const p = "abcdefgh_KLM0"
	n := 1 + rng.Intn(5)
	out := make([]byte, n)
	for i := range out {
		out[i] = p[rng.Intn(len(p))]
	}
	return string(out)
}

func pickTag(rng *rand.Rand, text []byte) string {
	const letters = "ABCDEFGHIJKLMNOPQRSTUVWXYZabcdefghijklmnopqrstuvwxyz_"
	for {
		n := 2 + rng.Intn(5)
		t := make([]byte, n)
		for i := range t {
			t[i] = letters[rng.Intn(len(letters))]
		}
		if !bytes.Contains(append([]byte("\n"), text...), append([]byte("\n"), t...)) {
			return string(t)
		}
	}
}

// render returns the text of one argument and the value the splitter must return for it.
var midWordContinuations int64

func render(rng *rand.Rand, a rarg) (text []byte, expect string) {
	switch a.style {
	case 0:
		// a bare word must not start a heredoc by accident: avoid "=<<"
		v := bytes.ReplaceAll(a.value, []byte("=<<"), []byte("=<_"))
		// first byte must not look like an opening quote (it cannot: no quotes in pool)
		if len(v) >= 2 && rng.Intn(5) == 0 {
			// a backslash-newline in the middle of a word continues the line – and the word
			at := 1 + rng.Intn(len(v)-1)
			t := append(append(append([]byte{}, v[:at]...), '\\', '\n'), v[at:]...)
			midWordContinuations++
			return t, string(v)
		}
		return v, string(v)
	case 1:
		q := bytes.ReplaceAll(a.value, []byte(`"`), []byte(`\"`))
		return append(append([]byte{'"'}, q...), '"'), string(a.value)
	case 2:
		q := bytes.ReplaceAll(a.value, []byte(`"`), []byte(`\"`))
		pre := strings.Repeat("-", a.dash) + a.name + "="
		return append(append([]byte(pre+`"`), q...), '"'), pre + string(a.value)
	default:
		tag := pickTag(rng, a.value)
		pre := strings.Repeat("-", a.dash) + a.name + "="
		sp := []string{"", " ", "\t", "  "}[rng.Intn(4)]
		t := []byte(pre + "<<" + sp + tag + sp + "\n")
		t = append(t, a.value...)
		t = append(t, []byte("\n"+tag)...)
		return t, pre + strings.Trim(string(a.value), " \t")
	}
}

func runRound(c *sup.Child, b sup.Batch) {
	for idx := b.From; idx < b.To; idx++ {
		rng := c.Rand(idx)
		ncmd := 1 + rng.Intn(4)
		var script bytes.Buffer
		var expects [][]string
		var ends []int
		styles := map[int]int{}
		for k := 0; k < ncmd; k++ {
			nargs := 1 + rng.Intn(5)
			var exp []string
			script.WriteString([]string{"", " ", "\t ", "   "}[rng.Intn(4)])
			for j := 0; j < nargs; j++ {
				a := rarg{style: rng.Intn(4), name: genName(rng), dash: rng.Intn(3)}
				a.value = genValue(rng, a.style)
				styles[a.style]++
				t, e := render(rng, a)
				script.Write(t)
				exp = append(exp, e)
				if j < nargs-1 {
					script.WriteString([]string{" ", "\t", "  ", " \\\n", " \\\n\t", "\t\\\n "}[rng.Intn(6)])
				}
			}
			script.WriteString([]string{"", " ", "\t"}[rng.Intn(3)])
			last := k == ncmd-1
			if !last || rng.Intn(2) == 0 {
				script.WriteByte('\n')
				ends = append(ends, script.Len())
			} else {
				ends = append(ends, script.Len())
			}
			expects = append(expects, exp)
		}
		in := append([]byte{}, script.Bytes()...)
		endsNL := len(in) > 0 && in[len(in)-1] == '\n'
		desc := map[string]any{"kind": "round", "script": fmt.Sprintf("%q", in)}
		c.Case(idx, desc, func(r *sup.CaseResult) {
			cr := &countingReader{data: in}
			for k := 0; k < ncmd; k++ {
				args, eof, err := varutil.ReadArguments(cr)
				if err != nil {
					r.Violate("round-error", fmt.Sprintf("command %d of script %q: error %v", k, in, err), nil)
					return
				}
				if !eqArgs(args, expects[k]) {
					r.Violate("round-mismatch", fmt.Sprintf("command %d of script %q: got %q want %q", k, in, args, expects[k]), nil)
					return
				}
				if cr.pos != ends[k] {
					r.Violate("round-stop-position", fmt.Sprintf("command %d of script %q: reader stopped at %d, command ends at %d", k, in, cr.pos, ends[k]), nil)
					return
				}
				wantEOF := k == ncmd-1 && !endsNL
				if eof != wantEOF {
					r.Violate("round-eof", fmt.Sprintf("command %d of script %q: eof=%v want %v", k, in, eof, wantEOF), nil)
					return
				}
			}
			if endsNL {
				args, eof, err := varutil.ReadArguments(cr)
				if err != nil || len(args) != 0 || !eof {
					r.Violate("round-trailing", fmt.Sprintf("script %q: read after last command gave (%q,%v,%v)", in, args, eof, err), nil)
				}
			}
			r.AddObs("round_commands", int64(ncmd))
			for s, n := range styles {
				r.AddObs([]string{"round_bare", "round_quoted", "round_named_quoted", "round_heredoc"}[s], int64(n))
			}
			r.Key = string(in)
			r.Nontrivial = true
			if idx%1000 == 0 {
				r.Sample = map[string]any{"kind": "round-trip script", "script": fmt.Sprintf("%q", in), "expect": fmt.Sprintf("%q", expects)}
			}
		})
	}
}

func runMap(c *sup.Child, b sup.Batch) {
	for idx := b.From; idx < b.To; idx++ {
		rng := c.Rand(idx)
		n := rng.Intn(8)
		var args []string
		want := map[string]string{}
		var wantSep []string
		pos := 0
		sepAt := -1
		if rng.Intn(3) == 0 {
			sepAt = rng.Intn(n + 1)
		}
		order := []string{}
		emptyPositional := false
		for i := 0; i < n || i == sepAt; i++ {
			if i == sepAt {
				args = append(args, "--")
				m := rng.Intn(4)
				for j := 0; j < m; j++ {
					v := string(genValue(rng, 0))
					if rng.Intn(4) == 0 {
						v = "--"
					}
					args = append(args, v)
					wantSep = append(wantSep, v)
				}
				break
			}
			if rng.Intn(2) == 0 {
				name := genName(rng)
				val := string(genValue(rng, 1))
				dash := strings.Repeat("-", rng.Intn(3))
				args = append(args, dash+name+"="+val)
				want[name] = val
				order = append(order, name)
			} else {
				v := string(bytes.ReplaceAll(genValue(rng, 0), []byte("="), []byte(":")))
				if v == "--" {
					v = "x"
				}
				if rng.Intn(8) == 0 {
					v = "" // an empty argument (\"\" on a line) is an argument: it has its own $n
					emptyPositional = true
				}
				args = append(args, v)
				want[fmt.Sprintf("$%d", pos)] = v
				pos++
			}
		}
		c.Case(idx, map[string]any{"kind": "map", "args": fmt.Sprintf("%q", args)}, func(r *sup.CaseResult) {
			ds := datascope.New(map[interface{}]interface{}{})
			if err := argscope.InjectArgs(ds, args...); err != nil {
				r.Violate("map-error", fmt.Sprintf("InjectArgs(%q): %v", args, err), nil)
				return
			}
			for k, v := range want {
				got := ds.Value(k)
				if gs, ok := got.(string); !ok || gs != v {
					r.Violate("map-mismatch", fmt.Sprintf("InjectArgs(%q): key %q = %#v want %q", args, k, got, v), nil)
				}
			}
			if got := ds.Value(fmt.Sprintf("$%d", pos)); got != nil {
				r.Violate("map-extra-positional", fmt.Sprintf("InjectArgs(%q): unexpected key $%d = %#v", args, pos, got), nil)
			}
			gotSep, _ := ds.Value("--").([]string)
			if !eqArgs(gotSep, wantSep) {
				r.Violate("map-separated", fmt.Sprintf("InjectArgs(%q): \"--\" = %q want %q", args, gotSep, wantSep), nil)
			}
			r.AddObs("map_lists", 1)
			if emptyPositional {
				r.AddObs("map_lists_with_an_empty_positional_argument", 1)
			}
			r.AddObs("map_keys_checked", int64(len(want)))
			r.Key = "map:" + strings.Join(args, "\x00")
			r.Nontrivial = len(want) > 0
			if idx%1000 == 0 {
				r.Sample = map[string]any{"kind": "mapping", "args": fmt.Sprintf("%q", args), "expect": want}
			}
		})
	}
}

// runRand: random longer byte strings (totality only, plus the simple sub-language exactly).
func runRand(c *sup.Child, b sup.Batch) {
	const blk = 5000
	for from := b.From; from < b.To; from += blk {
		to := from + blk
		if to > b.To {
			to = b.To
		}
		c.Case(from, map[string]any{"kind": "rand", "from": from, "to": to}, func(r *sup.CaseResult) {
			var simple int64
			for idx := from; idx < to; idx++ {
				rng := c.Rand(idx)
				n := rng.Intn(60)
				in := make([]byte, n)
				full := rng.Intn(3) == 0
				noSpecial := rng.Intn(3) == 0
				for i := range in {
					switch {
					case full:
						in[i] = byte(rng.Intn(256))
					case noSpecial:
						in[i] = []byte{' ', '\t', '\n', '=', 'a', 'b', 0xC3, 0xA9, 0xFF, 0x80, '-', '\r', 0, '\v', '\f', 0xC2, 0xA0, 0x85, 0xE3}[rng.Intn(19)]
					default:
						in[i] = alphabet[rng.Intn(len(alphabet))]
					}
				}
				args, eof, err, consumed, ok := checkTotal(in, r)
				if ok {
					checkSplitAgrees(in, args, eof, err, r)
				}
				if ok && bytes.ContainsAny(in, "\\") && !bytes.ContainsAny(in, "\"<") {
					we, wc := specStop(in)
					if err != nil || eof != we || consumed != wc {
						r.Violate("split-stop-position", fmt.Sprintf("ReadArguments(%q) consumed %d bytes (eof=%v, err=%v); expected eof=%v, consumed=%d", in, consumed, eof, err, we, wc), nil)
					}
				}
				if ok && !bytes.ContainsAny(in, "\"\\<") {
					simple++
					wa, we, wc := specSimple(in)
					if err != nil || !eqArgs(args, wa) || eof != we || consumed != wc {
						r.Violate("split-simple-mismatch", fmt.Sprintf("ReadArguments(%q) = (%q, eof=%v, err=%v, consumed=%d); expected (%q, eof=%v, consumed=%d)", in, args, eof, err, consumed, wa, we, wc), nil)
					}
				}
				if len(r.Violations) > 20 {
					return
				}
			}
			r.Evals = int64(to - from)
			r.AddObs("rand_strings", int64(to-from))
			r.AddObs("rand_simple_exact", simple)
			r.Key = fmt.Sprintf("rand-%d", from)
			r.Nontrivial = true
		})
	}
}

func main() {
	sup.Main(sup.Prop{
		ID:    "C17",
		Level: "exploration",
		Rule: "exh: every byte string of length ≤ L (5 quick / 7 thorough) over {space,tab,\\n,\",\\\\,=,<,a,0xC3} – totality, bounded reads, and exact result on the quote/backslash/'<'-free sub-language; " +
			"round: random argument lists rendered with a reference quoting function (bare, \"…\", name=\"…\", name=<<TAG heredoc; blanks/tabs/backslash-newline separators; several commands per script) and split again with repeated ReadArguments calls; " +
			"map: InjectArgs on generated lists; distinct = distinct scripts/lists/blocks, non-trivial = at least one argument expected",
		Assumptions: []string{
			"escape sequences other than \\\" inside quotes and backslash before a non-newline byte outside quotes are not specified by the statement; only totality is checked for them",
			"the reference renderer picks heredoc tags that do not occur at a line start of the text",
		},
		Plan: plan,
		Run: func(c *sup.Child, b sup.Batch) {
			switch b.Kind {
			case "exh":
				runExh(c, b)
			case "round":
				runRound(c, b)
			case "map":
				runMap(c, b)
			case "rand":
				runRand(c, b)
			}
		},
		Finish: func(t *sup.Totals) string {
			if t.Obs["exh_strings"] == 0 || t.Obs["round_commands"] == 0 || t.Obs["map_lists"] == 0 {
				return "a monitor observed nothing"
			}
			return ""
		},
		Exhaustive: func(tier string) string {
			if tier == "thorough" {
				return "all byte strings of length ≤ 7 over the 9-symbol alphabet"
			}
			return "all byte strings of length ≤ 5 over the 9-symbol alphabet"
		},
	})
}
