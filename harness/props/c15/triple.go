package main

import (
	"fmt"
	"math/rand"
	"strings"
	"time"

	"verif/internal/sup"

	"github.com/goatcms/goatcore/app/goatapp"
)

// awaitBodyOrParkN is awaitBodyOrPark for a situation in which other task goroutines are
// already parked: the task counts as parked only when at least n task goroutines are seen
// parked in the mutex package below runner.runGo in two consecutive snapshots.
func awaitBodyOrParkN(p *pipeRun, id, n int) (string, string) {
	consecutive := 0
	for i := 0; i < 40000; i++ {
		d := 20 * time.Microsecond << uint(min(i/40, 6))
		select {
		case <-p.begun[id]:
			return "entered", ""
		case <-time.After(d):
		}
		ids, raw := parkedBeforeBody()
		if len(ids) >= n {
			consecutive++
			if consecutive >= 2 {
				select {
				case <-p.begun[id]:
					return "entered", ""
				default:
				}
				return "parked", raw
			}
		} else {
			consecutive = 0
		}
	}
	return "unknown", ""
}

// parkedBeforeBody lists the task goroutines (runner.runGo) that are parked in a sync primitive
// anywhere on their way to the body – inside the SharedMutex or in whatever else the runner
// puts in front of it – and have not entered a probe.
func parkedBeforeBody() (ids []int64, raw string) {
	var sb strings.Builder
	for id, g := range dumpAll() {
		if leakedRunGo[id] || !syncWait[g.state] {
			continue
		}
		isTask, inBody := false, false
		for _, f := range g.frames {
			if strings.Contains(f, runGoFrag) {
				isTask = true
			}
			if strings.Contains(f, "selfsb.") || strings.Contains(f, "termexec.") {
				inBody = true
			}
		}
		if isTask && !inBody {
			ids = append(ids, id)
			sb.WriteString(g.raw + "\n\n")
		}
	}
	return ids, sb.String()
}

// pipeTriple: through the real runner – A is gated inside its body holding x for writing, B asks
// for x and has to wait, then C arrives whose map conflicts with neither (disjoint, read-only
// overlap, or empty). C must get its turn while A is inside and B is waiting: holders of
// disjoint or read-only-overlapping maps are not serialised against each other by the lock.
func pipeTriple(c *sup.Child, idx int, rng *rand.Rand, viol *int) {
	shared := []string{"a", "b", "res_1"}[rng.Intn(3)]
	other := []string{"c", "Res", "_x"}[rng.Intn(3)]
	ro := "@g"
	a := &pipeTask{ID: 0, WList: []string{shared}, RList: []string{ro}, Req: map[string]bool{shared: true, ro: false}, Gated: true}
	b := &pipeTask{ID: 1, WList: []string{shared}, Req: map[string]bool{shared: true}}
	var cc *pipeTask
	switch rng.Intn(3) {
	case 0:
		cc = &pipeTask{ID: 2, WList: []string{other}, Req: map[string]bool{other: true}}
	case 1:
		cc = &pipeTask{ID: 2, WList: []string{other}, RList: []string{ro}, Req: map[string]bool{other: true, ro: false}}
	default:
		cc = &pipeTask{ID: 2, Req: map[string]bool{}}
	}
	ts := []*pipeTask{a, b, cc}
	c.Case(idx, map[string]any{"kind": "pipe-triple", "lines": taskLines(ts)}, func(r *sup.CaseResult) {
		defer func() { *viol += len(r.Violations) }()
		p := newPipeRun(ts)
		mapp, _, term, err := newPipeApp(p, goatapp.Params{})
		if err != nil {
			r.Inconclusive = "application stack could not be built: " + err.Error()
			return
		}
		desc := fmt.Sprintf("pipe triple: %q gated inside, %q waiting for it, then %q", a.line(), b.line(), cc.line())
		r.Key = desc
		errs := []chan error{make(chan error, 1), make(chan error, 1), make(chan error, 1)}
		release := func() { close(p.gates[0]) }
		go func() { errs[0] <- submit(mapp, term, a.line()) }()
		if w, _ := awaitBodyOrPark(p, 0); w != "entered" {
			r.Inconclusive = desc + ": A's body never began"
			return
		}
		go func() { errs[1] <- submit(mapp, term, b.line()) }()
		if w, _ := awaitBodyOrPark(p, 1); w != "parked" {
			if w == "entered" {
				r.Violate("pipe-exclusion-scripted", desc+": B's body began while A holds the same resource for writing", nil)
			} else {
				r.Inconclusive = desc + ": B neither began nor was seen parked"
			}
			release()
			return
		}
		go func() { errs[2] <- submit(mapp, term, cc.line()) }()
		w, d := awaitBodyOrParkN(p, 2, 2)
		r.AddObs("pipe_triples_run", 1)
		switch w {
		case "entered":
			r.AddObs("pipe_triples_bystander_ran_while_a_conflicting_request_waited", 1)
			r.Nontrivial = true
		case "parked":
			r.Violate("pipe-serialised", fmt.Sprintf("%s: C's lock map %s conflicts with neither %s nor %s, yet its task is parked in lock acquisition below runner.runGo while A is inside and B waits", desc, cc.reqStr(), a.reqStr(), b.reqStr()), d)
			release()
			return
		default:
			r.Inconclusive = desc + ": C neither began nor was seen parked"
			release()
			return
		}
		release()
		for i, ch := range errs {
			select {
			case e := <-ch:
				if e != nil {
					r.Violate("pipe-task-error", fmt.Sprintf("%s: task %d returned an error: %v", desc, i, e), nil)
				}
			case <-time.After(watchdogS * time.Second):
				r.Inconclusive = fmt.Sprintf("%s: task %d did not finish", desc, i)
				return
			}
		}
		_, sections := checkPipeLog(p, r, "pipe-triple")
		r.AddObs("pipe_sections", sections)
		r.AddObs("pipe_probe_events", 2*sections)
		r.AddObs("histories_checked", 1)
		mapp.Scopes().App().Close()
	})
}
