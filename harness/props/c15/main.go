// C15 – named resource locks: writers exclude everyone, readers share, no deadlock.
//
// Runtime monitors (DESIGN.md "### C15"):
//
//	stress    random holders on mutex.NewSharedMutex(): online shadow table + offline interval oracle
//	order     adversarial maps for acquisition order, logical-deadlock diagnosis from goroutine snapshots
//	firstuse  every round on brand-new names (on-demand creation of the per-name mutex is raced)
//	pairs     all ordered pairs of lock maps over three names: scripted "A gated inside, B asks"
//	triples   A inside, B waiting, compatible bystander C must enter
//	pipe      the application stack: pip:run --rlock/--wlock with probe bodies, same interval oracle
//	          on the probe log
package main

import (
	"fmt"

	"verif/internal/sup"
)

var pairPools = [][]string{
	{"a", "b", "c"},
	{"Z", "a", "é"},
}

type sizes struct {
	stress, stressScale int
	order, orderScale   int
	first, firstScale   int
	triples             int
	pipe                int
	pipeScripts         int
}

func tierSizes(tier string) sizes {
	if tier == "thorough" {
		return sizes{stress: 5000, stressScale: 2, order: 5000, orderScale: 2, first: 2400, firstScale: 2, triples: 20000, pipe: 8000, pipeScripts: 800}
	}
	return sizes{stress: 800, stressScale: 1, order: 600, orderScale: 1, first: 300, firstScale: 1, triples: 1500, pipe: 420, pipeScripts: 60}
}

var procCycle = []int{4, 1, 2, 8, 2, 4, 2, 1}

func chunkVar(name, kind string, n, nb int, timeout int) []sup.Batch {
	var out []sup.Batch
	if n <= 0 {
		return nil
	}
	per := (n + nb - 1) / nb
	for i, from := 0, 0; from < n; i, from = i+1, from+per {
		to := from + per
		if to > n {
			to = n
		}
		out = append(out, sup.Batch{Name: fmt.Sprintf("%s-%d", name, i), Kind: kind, From: from, To: to,
			Procs: procCycle[i%len(procCycle)], TimeoutS: timeout, MemMB: 3072})
	}
	return out
}

func plan(tier string, seed int64) []sup.Batch {
	z := tierSizes(tier)
	nb := 8
	if tier == "thorough" {
		nb = 16
	}
	var bs []sup.Batch
	bs = append(bs, chunkVar("pipe", "pipe", z.pipe, nb, 1500)...)
	bs = append(bs, chunkVar("pipescript", "pipescript", z.pipeScripts, 2, 1500)...)
	bs = append(bs, chunkVar("stress", "stress", z.stress, nb, 1500)...)
	bs = append(bs, chunkVar("order", "order", z.order, nb, 1500)...)
	bs = append(bs, chunkVar("firstuse", "firstuse", z.first, nb/2, 1500)...)
	bs = append(bs, chunkVar("pairs", "pairs", 729*len(pairPools), 6, 1500)...)
	bs = append(bs, chunkVar("triples", "triples", z.triples, 4, 1500)...)
	for i := range bs {
		bs[i].Params = map[string]any{"stressScale": z.stressScale, "orderScale": z.orderScale, "firstScale": z.firstScale}
	}
	return bs
}

func run(c *sup.Child, b sup.Batch) {
	viol := 0
	stop := func(r *sup.CaseResult) bool { viol += len(r.Violations); return viol >= 6 }
	for idx := b.From; idx < b.To; idx++ {
		if viol >= 6 {
			return // enough witnesses from this batch; leaked (deadlocked) goroutines pile up otherwise
		}
		switch b.Kind {
		case "stress":
			w := genStress(c.Rand(idx), b.P("stressScale", 1))
			c.Case(idx, map[string]any{"kind": "stress", "pool": w.Pool, "holders": len(w.Plans), "rounds": len(w.Plans[0])}, func(r *sup.CaseResult) {
				runWorkload(r, w, idx%400 == 0)
				stop(r)
			})
		case "order":
			w := genOrder(c.Rand(idx), idx, b.P("orderScale", 1))
			c.Case(idx, map[string]any{"kind": w.Family, "pool": w.Pool, "holders": len(w.Plans), "rounds": len(w.Plans[0])}, func(r *sup.CaseResult) {
				runWorkload(r, w, idx%300 == 1)
				stop(r)
			})
		case "firstuse":
			w := genFirstUse(c.Rand(idx), b.P("firstScale", 1))
			c.Case(idx, map[string]any{"kind": "first-use", "pool": w.Pool, "holders": len(w.Plans), "rounds": len(w.Plans[0])}, func(r *sup.CaseResult) {
				runWorkload(r, w, idx%200 == 2)
				stop(r)
			})
		case "pairs":
			pool := pairPools[idx/729]
			ma, mb := decodeReq3((idx%729)/27), decodeReq3(idx%27)
			c.Case(idx, map[string]any{"kind": "pair", "pool": pool, "A": ma.str(pool), "B": mb.str(pool)}, func(r *sup.CaseResult) {
				runPair(r, pool, ma, mb, "pair")
				r.Key = fmt.Sprintf("pair|%q|%s|%s", pool, ma.str(pool), mb.str(pool))
				r.Nontrivial = len(ma.Idx) > 0 && len(mb.Idx) > 0
				if idx == 5*27+7 || idx == 729+26*27+13 {
					r.Sample = map[string]any{"kind": "scripted pair", "pool": pool, "A": ma.str(pool), "B": mb.str(pool), "conflicting": conflict(ma, mb), "obs": r.Obs}
				}
				stop(r)
			})
		case "triples":
			rng := c.Rand(idx)
			c.Case(idx, map[string]any{"kind": "triple"}, func(r *sup.CaseResult) {
				runTriple(r, rng)
				stop(r)
			})
		case "pipe":
			runPipeCase(c, idx, false, &viol)
		case "pipescript":
			runPipeCase(c, idx, true, &viol)
		}
	}
}

func main() {
	sup.Main(sup.Prop{
		ID:    "C15",
		Level: "exploration",
		Race:  true,
		Rule: "stress/order/firstuse: seeded workloads of 2…24 holders on one mutex.NewSharedMutex() (pool of 1…6 names from five name pools, any read/write mix, map size 0…pool, holds = none/yields/µs sleeps); every section is checked online against a shadow readers/writer table and offline by replaying the recorded [Lock returned, Unlock called] intervals per resource; completion or a logical-deadlock diagnosis from stop-the-world goroutine snapshots. " +
			"pairs: ALL ordered pairs of lock maps over three names (27×27, two name pools): A gated inside, B must enter iff the maps do not conflict (decided from B's scheduler state, not from time); triples: compatible bystander while a conflicting request is waiting. " +
			"pipe: goatapp mockup application + pipelinem; tasks submitted with pip:run --rlock/--wlock and probe bodies; the probe log is checked with the same interval oracle. " +
			"distinct = distinct workloads (pool + all holders' map sequences); killed holder: A gated inside its body in a context of its own that is then ended from outside – B with the same resource queues until the body is over and then gets its turn; nested pairs: two scopes with a lock namespace of their own (same or different), tasks submitted directly in the scope or from the body of a lock-free task, local and global resource names – a local name is the same resource exactly within one lock namespace, wherever in the scope the task was submitted from; non-trivial = at least two sections overlapped in time or one request waited for a conflicting holder",
		Assumptions: []string{
			"'never deadlocks' is restated as: every workload completes, or a stop-the-world goroutine snapshot shows every unfinished holder parked inside the mutex package while nobody is inside a section (violation); a watchdog expiry without that diagnosis is inconclusive",
			"'not serialised' is decided for scripted pairs/triples only (B must be observed inside its section while A is gated inside); for random workloads overlaps are counted as observations, their absence is not a violation",
			"a reader that queues behind a waiting writer (sync.RWMutex writer preference) is not counted as serialisation against the other readers",
			"every holder locks at most one map at a time and unlocks exactly once (the interface's stated usage)",
		},
		Plan:        plan,
		Run:         run,
		RaceAnchors: []string{"commonm/commservices/mutex/", "commservices/mutex.go", "pipservices/runner/runner.go", "pipcommands/pipc/helpers.go"},
		RaceDecides: true,
		Finish: func(t *sup.Totals) string {
			need := []string{
				"stress_sections", "stress_sections_overlapping_another", "stress_readers_sharing_a_name", "stress_requests_that_waited_for_a_conflicting_holder",
				"order_sections", "firstuse_sections",
				"pairs_compatible_entered_while_other_inside", "pairs_conflicting_parked_until_release", "pairs_turn_after_release",
				"triples_bystander_entered",
				"pipe_sections", "pipe_sections_overlapping_another", "pipe_tasks_that_waited_for_a_conflicting_task",
			}
			for _, k := range need {
				if t.Obs[k] == 0 {
					return "monitor observed nothing for " + k
				}
			}
			return ""
		},
		Exhaustive: func(tier string) string {
			return "all 729 ordered pairs of lock maps over three resource names (each name absent/read/write for either holder), for two name pools"
		},
	})
}
