package main

import (
	"fmt"
	"math/rand"
	"runtime"
	"sort"
	"strings"
	"sync"
	"sync/atomic"
	"time"

	"verif/internal/sup"

	"github.com/goatcms/goatcore/app/modules/commonm/commservices"
	"github.com/goatcms/goatcore/app/modules/commonm/commservices/mutex"
)

// ---- name pools ---------------------------------------------------------------------------

// Several pools; the later ones hold names whose byte order differs from a locale /
// case-insensitive / numeric order, equal-length names, prefixes of each other.
var namePools = [][]string{
	{"a", "b", "c", "d", "e", "f"},
	{"Z", "a", "B", "é", "z", "_x"},
	{"a10", "a9", "a1", "a", "aa", "a_"},
	{"res", "res2", "Res", "@res", "ns:res", "résumé"},
	{"b", "a", "ab", "ba", "", " "},
}

// lockReq is a lock map over pool indices.
type lockReq struct {
	Idx  []int  // pool indices, ascending
	Mode []bool // true = write
}

func (q lockReq) str(pool []string) string {
	var sb strings.Builder
	sb.WriteByte('{')
	for i, ix := range q.Idx {
		if i > 0 {
			sb.WriteByte(',')
		}
		m := "R"
		if q.Mode[i] {
			m = "W"
		}
		fmt.Fprintf(&sb, "%q:%s", pool[ix], m)
	}
	sb.WriteByte('}')
	return sb.String()
}

func (q lockReq) lockMap(pool []string, suffix string) commservices.LockMap {
	m := commservices.LockMap{}
	for i, ix := range q.Idx {
		if q.Mode[i] {
			m[pool[ix]+suffix] = commservices.LockRW
		} else {
			m[pool[ix]+suffix] = commservices.LockR
		}
	}
	return m
}

// conflict: a common name with at least one write request.
func conflict(a, b lockReq) bool {
	for i, x := range a.Idx {
		for j, y := range b.Idx {
			if x == y && (a.Mode[i] || b.Mode[j]) {
				return true
			}
		}
	}
	return false
}

// ---- the engine: H holders running scripted rounds on one SharedMutex -----------------------

type step struct {
	Req   lockReq
	Hold  int // 0 none, 1 Gosched×K, 2 Sleep K µs
	K     int
	Pause int // Gosched calls between rounds
}

type rec struct {
	H, R                  int
	Call, Start, End, Ret int64
}

const (
	stIdle int32 = iota
	stLocking
	stInside
	stUnlocking
	stDone
	stBarrier
)

type cell struct {
	readers atomic.Int32
	writer  atomic.Int64
}

type eng struct {
	sm     commservices.SharedMutex
	pool   []string
	plans  [][]step
	fresh  bool // every round index uses its own set of names (first-use races in get)
	rounds int

	seq      atomic.Int64
	progress atomic.Int64
	state    []atomic.Int32
	round    []atomic.Int32
	goids    []atomic.Int64
	recs     [][]rec
	shadow   [][]cell // [round or 0][pool index]
	start    chan struct{}
	barrier  []*roundBarrier
	done     chan struct{}

	omu    sync.Mutex
	online []string
}

// roundBarrier lines the holders of one round up (used by the first-use family so that all
// of them ask for a brand-new name at the same moment). It is harness code only.
type roundBarrier struct {
	n    int32
	cnt  atomic.Int32
	gate chan struct{}
}

func (b *roundBarrier) wait() {
	if b.cnt.Add(1) == b.n {
		close(b.gate)
	}
	<-b.gate
}

func newEng(pool []string, plans [][]step, fresh, barrier bool) *eng {
	e := &eng{sm: commservices.SharedMutex(mutex.NewSharedMutex()), pool: pool, plans: plans, fresh: fresh}
	h := len(plans)
	e.state = make([]atomic.Int32, h)
	e.round = make([]atomic.Int32, h)
	e.goids = make([]atomic.Int64, h)
	e.recs = make([][]rec, h)
	for i, p := range plans {
		e.recs[i] = make([]rec, len(p))
		if len(p) > e.rounds {
			e.rounds = len(p)
		}
	}
	nsh := 1
	if fresh {
		nsh = e.rounds
	}
	e.shadow = make([][]cell, nsh)
	for i := range e.shadow {
		e.shadow[i] = make([]cell, len(pool))
	}
	if barrier {
		for r := 0; r < e.rounds; r++ {
			n := 0
			for _, p := range plans {
				if len(p) > r {
					n++
				}
			}
			e.barrier = append(e.barrier, &roundBarrier{n: int32(n), gate: make(chan struct{})})
		}
	}
	e.start = make(chan struct{})
	e.done = make(chan struct{})
	return e
}

func (e *eng) complain(format string, a ...any) {
	e.omu.Lock()
	if len(e.online) < 8 {
		e.online = append(e.online, fmt.Sprintf(format, a...))
	}
	e.omu.Unlock()
}

func (e *eng) suffix(r int) string {
	if e.fresh {
		return fmt.Sprintf("#%d", r)
	}
	return ""
}

func (e *eng) cells(r int) []cell {
	if e.fresh {
		return e.shadow[r]
	}
	return e.shadow[0]
}

func (e *eng) holder(h int, wg *sync.WaitGroup) {
	defer wg.Done()
	e.goids[h].Store(goid())
	<-e.start
	me := int64(h + 1)
	for r, st := range e.plans[h] {
		lm := st.Req.lockMap(e.pool, e.suffix(r))
		cs := e.cells(r)
		rc := &e.recs[h][r]
		rc.H, rc.R = h, r
		e.round[h].Store(int32(r))
		if e.barrier != nil {
			e.state[h].Store(stBarrier)
			e.barrier[r].wait()
			e.state[h].Store(stIdle)
		}
		rc.Call = e.seq.Add(1)
		e.state[h].Store(stLocking)
		uh := e.sm.Lock(lm)
		e.state[h].Store(stInside)
		rc.Start = e.seq.Add(1)
		if (h+r)%3 == 0 {
			// the map is the caller's: it reuses it for its next request while it still holds the
			// locks (what is held was decided at Lock time)
			for k := range lm {
				delete(lm, k)
			}
			lm[e.pool[(h+r)%len(e.pool)]+e.suffix(r)] = true
			lm["never-locked-"+e.suffix(r)] = false
		}
		// online shadow table, entry
		for i, ix := range st.Req.Idx {
			c := &cs[ix]
			if st.Req.Mode[i] {
				if !c.writer.CompareAndSwap(0, me) {
					e.complain("holder %d round %d entered %s with write access to %q while holder %d is writing it", h, r, st.Req.str(e.pool), e.pool[ix], c.writer.Load()-1)
				}
				if n := c.readers.Load(); n != 0 {
					e.complain("holder %d round %d entered %s with write access to %q while %d reader(s) are inside", h, r, st.Req.str(e.pool), e.pool[ix], n)
				}
			} else {
				c.readers.Add(1)
				if w := c.writer.Load(); w != 0 {
					e.complain("holder %d round %d entered %s with read access to %q while holder %d is writing it", h, r, st.Req.str(e.pool), e.pool[ix], w-1)
				}
			}
		}
		switch st.Hold {
		case 1:
			for k := 0; k < st.K; k++ {
				runtime.Gosched()
			}
		case 2:
			time.Sleep(time.Duration(st.K) * time.Microsecond)
		}
		// online shadow table, exit
		for i, ix := range st.Req.Idx {
			c := &cs[ix]
			if st.Req.Mode[i] {
				if n := c.readers.Load(); n != 0 {
					e.complain("holder %d round %d leaves %s: %d reader(s) of %q came in during its write section", h, r, st.Req.str(e.pool), n, e.pool[ix])
				}
				if !c.writer.CompareAndSwap(me, 0) {
					e.complain("holder %d round %d leaves %s: writer mark of %q was taken over by holder %d", h, r, st.Req.str(e.pool), e.pool[ix], c.writer.Load()-1)
				}
			} else {
				if w := c.writer.Load(); w != 0 {
					e.complain("holder %d round %d leaves %s: holder %d started writing %q during its read section", h, r, st.Req.str(e.pool), w-1, e.pool[ix])
				}
				c.readers.Add(-1)
			}
		}
		rc.End = e.seq.Add(1)
		e.state[h].Store(stUnlocking)
		uh.Unlock()
		rc.Ret = e.seq.Add(1)
		e.state[h].Store(stIdle)
		e.progress.Add(1)
		for k := 0; k < st.Pause; k++ {
			runtime.Gosched()
		}
	}
	e.state[h].Store(stDone)
}

// diagnose returns a witness iff the snapshot proves a logical deadlock: every holder that
// has not finished is parked in a sync primitive inside the mutex package (in Lock or in
// Unlock), or waits at a harness round barrier that only those parked holders could open.
// Holders that are finished have returned from all their Unlock calls, so nobody is left to
// wake the others. The event counter must not move across the snapshot.
func (e *eng) diagnose() string {
	seq0 := e.seq.Load()
	gs := dumpAll()
	var sb strings.Builder
	n := 0
	for h := range e.plans {
		st := e.state[h].Load()
		if st == stDone {
			continue
		}
		r := int(e.round[h].Load())
		if st == stBarrier {
			if r < len(e.barrier) && e.barrier[r].cnt.Load() < e.barrier[r].n {
				continue // waits for holders that are examined below
			}
			return ""
		}
		g := gs[e.goids[h].Load()]
		if (st != stLocking && st != stUnlocking) || !parkedIn(g, mutexPkgFrag) {
			return ""
		}
		n++
		req := "?"
		if r < len(e.plans[h]) {
			req = e.plans[h][r].Req.str(e.pool)
		}
		what := "Lock"
		if st == stUnlocking {
			what = "Unlock of"
		}
		fmt.Fprintf(&sb, "holder %d round %d parked in %s(%s):\n%s\n\n", h, r, what, req, g.raw)
	}
	if n == 0 || e.seq.Load() != seq0 {
		return ""
	}
	return sb.String()
}

type engOut struct {
	deadlock string
	timeout  bool
}

// watchdogS is a generous bound (normal run time of a case: milliseconds).
const watchdogS = 120

func (e *eng) run() engOut {
	var wg sync.WaitGroup
	wg.Add(len(e.plans))
	for h := range e.plans {
		go e.holder(h, &wg)
	}
	go func() { wg.Wait(); close(e.done) }()
	close(e.start)
	tick := time.NewTicker(40 * time.Millisecond)
	defer tick.Stop()
	deadline := time.After(watchdogS * time.Second)
	last := int64(-1)
	for {
		select {
		case <-e.done:
			return engOut{}
		case <-deadline:
			if d := e.diagnose(); d != "" {
				return engOut{deadlock: d}
			}
			return engOut{timeout: true}
		case <-tick.C:
			p := e.progress.Load()
			if p == last {
				if d := e.diagnose(); d != "" {
					return engOut{deadlock: d}
				}
			}
			last = p
		}
	}
}

// ---- offline interval oracle -----------------------------------------------------------------

type ivEvent struct {
	seq   int64
	enter bool
	write bool
	rc    *rec
	call  bool // the moment Lock was called (not part of the interval; contention statistics)
}

type ivStats struct {
	intervals, perNameIntervals   int64
	sharedReaders                 int64 // a reader entered a name while another reader was inside
	overlapAny                    int64 // an interval started while another (any map) was open
	blockedBehind                 int64 // Lock was called while a conflicting holder was inside, returned after it left
	writeIntervals, readIntervals int64
	maxConcurrent                 int64
}

// checkIntervals decides exclusion from the recorded [Lock returned, Unlock called] intervals:
// per resource name the enter/exit events are replayed in sequence order through a
// readers/writer counter. The recorded interval lies inside the real holding interval, so an
// overlap of recorded intervals is an overlap of holders.
func checkIntervals(e *eng, r *sup.CaseResult, family string) ivStats {
	var s ivStats
	type key struct {
		round int
		ix    int
	}
	by := map[key][]ivEvent{}
	var all []ivEvent
	for h := range e.recs {
		for i := range e.recs[h] {
			rc := &e.recs[h][i]
			if rc.Start == 0 || rc.End == 0 {
				continue // never entered (deadlock / timeout case)
			}
			s.intervals++
			req := e.plans[h][i].Req
			all = append(all, ivEvent{rc.Start, true, false, rc, false}, ivEvent{rc.End, false, false, rc, false})
			for j, ix := range req.Idx {
				k := key{0, ix}
				if e.fresh {
					k.round = i
				}
				by[k] = append(by[k], ivEvent{rc.Call, false, req.Mode[j], rc, true}, ivEvent{rc.Start, true, req.Mode[j], rc, false}, ivEvent{rc.End, false, req.Mode[j], rc, false})
				s.perNameIntervals++
				if req.Mode[j] {
					s.writeIntervals++
				} else {
					s.readIntervals++
				}
			}
		}
	}
	sort.Slice(all, func(i, j int) bool { return all[i].seq < all[j].seq })
	var open int64
	for _, ev := range all {
		if ev.enter {
			if open > 0 {
				s.overlapAny++
			}
			open++
			if open > s.maxConcurrent {
				s.maxConcurrent = open
			}
		} else {
			open--
		}
	}
	nviol := 0
	for k, evs := range by {
		sort.Slice(evs, func(i, j int) bool { return evs[i].seq < evs[j].seq })
		var writers, readers []*rec
		for _, ev := range evs {
			if ev.call {
				// contention actually exercised: Lock called while a conflicting holder is inside
				if len(writers) > 0 || (ev.write && len(readers) > 0) {
					s.blockedBehind++
				}
				continue
			}
			if !ev.enter {
				if ev.write {
					writers = drop(writers, ev.rc)
				} else {
					readers = drop(readers, ev.rc)
				}
				continue
			}
			var other *rec
			switch {
			case len(writers) > 0:
				other = writers[0]
			case ev.write && len(readers) > 0:
				other = readers[0]
			}
			if other != nil && nviol < 4 {
				nviol++
				name := e.pool[k.ix] + e.suffix(k.round)
				r.Violate("exclusion-interval",
					fmt.Sprintf("%s: resource %q held by two holders at once with a write request involved: holder %d round %d %s inside [%d,%d] and holder %d round %d %s inside [%d,%d] (sequence numbers taken after Lock returned / before Unlock was called)",
						family, name,
						other.H, other.R, e.plans[other.H][other.R].Req.str(e.pool), other.Start, other.End,
						ev.rc.H, ev.rc.R, e.plans[ev.rc.H][ev.rc.R].Req.str(e.pool), ev.rc.Start, ev.rc.End),
					map[string]any{"pool": e.pool, "a": *other, "b": *ev.rc})
			}
			if !ev.write && len(readers) > 0 {
				s.sharedReaders++
			}
			if ev.write {
				writers = append(writers, ev.rc)
			} else {
				readers = append(readers, ev.rc)
			}
		}
	}
	return s
}

func drop(l []*rec, x *rec) []*rec {
	for i, y := range l {
		if y == x {
			return append(l[:i:i], l[i+1:]...)
		}
	}
	return l
}

// ---- workload generators --------------------------------------------------------------------------

func pickPool(rng *rand.Rand, n int) []string {
	src := namePools[rng.Intn(len(namePools))]
	p := append([]string{}, src...)
	rng.Shuffle(len(p), func(i, j int) { p[i], p[j] = p[j], p[i] })
	return p[:n]
}

func genReq(rng *rand.Rand, npool, size int, pw float64) lockReq {
	perm := rng.Perm(npool)[:size]
	sort.Ints(perm)
	q := lockReq{Idx: perm, Mode: make([]bool, size)}
	for i := range q.Mode {
		q.Mode[i] = rng.Float64() < pw
	}
	return q
}

func genHold(rng *rand.Rand, st *step, style int) {
	switch style {
	case 0: // none
	case 1:
		st.Hold, st.K = 1, 1+rng.Intn(4)
	case 2:
		st.Hold, st.K = 2, 1+rng.Intn(60)
	default:
		switch rng.Intn(4) {
		case 0:
		case 1, 2:
			st.Hold, st.K = 1, 1+rng.Intn(4)
		default:
			st.Hold, st.K = 2, 1+rng.Intn(40)
		}
	}
	if rng.Intn(3) == 0 {
		st.Pause = rng.Intn(3)
	}
}

type workload struct {
	Family  string
	Pool    []string
	Plans   [][]step
	Fresh   bool
	Barrier bool
}

// genStress: the random direct workload of the design (2…24 holders, pool of 4–6 names, any
// mix of read/write, size 1…pool, holds = yields/sleeps).
func genStress(rng *rand.Rand, scale int) workload {
	np := 4 + rng.Intn(3)
	w := workload{Family: "stress", Pool: pickPool(rng, np)}
	h := 2 + rng.Intn(23)
	rounds := (10 + rng.Intn(30)) * scale
	pw := []float64{0.1, 0.3, 0.5, 0.9, 1.0}[rng.Intn(5)]
	sizeBias := rng.Intn(3) // 0 small maps, 1 uniform, 2 big maps
	holdStyle := rng.Intn(4)
	for i := 0; i < h; i++ {
		plan := make([]step, rounds)
		for r := range plan {
			var size int
			switch sizeBias {
			case 0:
				size = 1 + rng.Intn(2)
			case 1:
				size = 1 + rng.Intn(np)
			default:
				size = np - rng.Intn(2)
			}
			if rng.Intn(40) == 0 {
				size = 0 // the empty map: must neither block nor hold anything
			}
			plan[r].Req = genReq(rng, np, size, pw)
			genHold(rng, &plan[r], holdStyle)
		}
		w.Plans = append(w.Plans, plan)
	}
	return w
}

// genOrder: adversarial maps for acquisition order. No holds, many holders, maps that share
// two or more names in every combination of modes, so that an acquisition order that differs
// between two holders closes a cycle quickly.
func genOrder(rng *rand.Rand, idx, scale int) workload {
	fam := idx % 5
	w := workload{}
	rounds := 60 * scale
	var h int
	switch fam {
	case 0: // everybody {x:W,y:W} on the same two names
		w.Family = "order/two-writers"
		w.Pool = pickPool(rng, 2)
		h = 2 + rng.Intn(7)
		for i := 0; i < h; i++ {
			plan := make([]step, rounds)
			for r := range plan {
				plan[r].Req = lockReq{Idx: []int{0, 1}, Mode: []bool{true, true}}
			}
			w.Plans = append(w.Plans, plan)
		}
	case 1: // {a:W,b:W} vs {b:R,a:W} vs {a:R,b:W} vs {a:R,b:R} plus a third name
		w.Family = "order/mixed-modes"
		w.Pool = pickPool(rng, 3)
		h = 3 + rng.Intn(10)
		for i := 0; i < h; i++ {
			plan := make([]step, rounds)
			for r := range plan {
				plan[r].Req = genReq(rng, 3, 2+rng.Intn(2), 0.6)
			}
			w.Plans = append(w.Plans, plan)
		}
	case 2: // whole-pool maps, every mode mix (names ordered differently by byte and by locale)
		w.Family = "order/whole-pool"
		np := 4 + rng.Intn(3)
		w.Pool = pickPool(rng, np)
		h = 4 + rng.Intn(12)
		for i := 0; i < h; i++ {
			plan := make([]step, rounds)
			for r := range plan {
				plan[r].Req = genReq(rng, np, np, 0.5)
			}
			w.Plans = append(w.Plans, plan)
		}
	case 3: // pending-writer-blocks-reader chains: multi-name readers + single-name writers
		w.Family = "order/pending-writer-chain"
		np := 3 + rng.Intn(3)
		w.Pool = pickPool(rng, np)
		h = 6 + rng.Intn(14)
		for i := 0; i < h; i++ {
			plan := make([]step, rounds)
			writer := i%3 == 0
			for r := range plan {
				if writer {
					plan[r].Req = genReq(rng, np, 1, 1.0)
				} else {
					plan[r].Req = genReq(rng, np, 2+rng.Intn(np-1), 0.0)
				}
				if rng.Intn(4) == 0 {
					plan[r].Hold, plan[r].K = 1, 1
				}
			}
			w.Plans = append(w.Plans, plan)
		}
	default: // random sizes ≥ 2, random modes, short yields inside
		w.Family = "order/random"
		np := 4 + rng.Intn(3)
		w.Pool = pickPool(rng, np)
		h = 2 + rng.Intn(23)
		for i := 0; i < h; i++ {
			plan := make([]step, rounds)
			for r := range plan {
				plan[r].Req = genReq(rng, np, 2+rng.Intn(np-1), 0.5)
				if rng.Intn(3) == 0 {
					plan[r].Hold, plan[r].K = 1, 1+rng.Intn(2)
				}
			}
			w.Plans = append(w.Plans, plan)
		}
	}
	return w
}

// genFirstUse: every round asks for names nobody has used before, all holders at the same
// moment (the on-demand creation of the per-name mutex is raced on purpose).
func genFirstUse(rng *rand.Rand, scale int) workload {
	np := 1 + rng.Intn(2)
	w := workload{Family: "firstuse", Pool: pickPool(rng, np), Fresh: true, Barrier: true}
	h := 2 + rng.Intn(15)
	rounds := 40 * scale
	pw := []float64{1.0, 1.0, 0.5}[rng.Intn(3)]
	for i := 0; i < h; i++ {
		plan := make([]step, rounds)
		for r := range plan {
			plan[r].Req = genReq(rng, np, 1+rng.Intn(np), pw)
			if rng.Intn(2) == 0 {
				plan[r].Hold, plan[r].K = 1, 1+rng.Intn(2)
			}
		}
		w.Plans = append(w.Plans, plan)
	}
	return w
}

func planString(w workload, maxRounds int) []string {
	var out []string
	for h, p := range w.Plans {
		var sb strings.Builder
		fmt.Fprintf(&sb, "holder %d:", h)
		for r, st := range p {
			if r >= maxRounds {
				sb.WriteString(" …")
				break
			}
			sb.WriteByte(' ')
			sb.WriteString(st.Req.str(w.Pool))
		}
		out = append(out, sb.String())
	}
	return out
}

// runWorkload executes one workload and applies all direct oracles.
func runWorkload(r *sup.CaseResult, w workload, sample bool) {
	e := newEng(w.Pool, w.Plans, w.Fresh, w.Barrier)
	out := e.run()
	pre := strings.SplitN(w.Family, "/", 2)[0]
	total := 0
	for _, p := range w.Plans {
		total += len(p)
	}
	if out.deadlock != "" {
		r.Violate("deadlock", fmt.Sprintf("%s: %d holders on pool %q: every unfinished holder is parked inside SharedMutex.Lock and nobody is inside a section (stop-the-world goroutine snapshot) after %d of %d rounds", w.Family, len(w.Plans), w.Pool, e.progress.Load(), total),
			map[string]any{"pool": w.Pool, "plans": planString(w, 6), "parked": out.deadlock})
		r.AddObs(pre+"_deadlock_diagnoses", 1)
	} else if out.timeout {
		r.Inconclusive = fmt.Sprintf("%s: workload did not finish within the %d s watchdog and no logical deadlock could be diagnosed (%d of %d rounds done)", w.Family, watchdogS, e.progress.Load(), total)
	}
	e.omu.Lock()
	for _, m := range e.online {
		r.Violate("exclusion-shadow", w.Family+": "+m, map[string]any{"pool": w.Pool})
	}
	e.omu.Unlock()
	s := checkIntervals(e, r, w.Family)
	if out.deadlock == "" && !out.timeout && s.intervals != int64(total) {
		r.Violate("lost-turn", fmt.Sprintf("%s: %d rounds planned, %d sections recorded although every holder returned", w.Family, total, s.intervals), nil)
	}
	r.AddObs(pre+"_workloads", 1)
	r.AddObs(pre+"_sections", s.intervals)
	r.AddObs(pre+"_lock_events", 4*s.intervals)
	r.AddObs(pre+"_name_intervals_checked", s.perNameIntervals)
	r.AddObs(pre+"_write_name_intervals", s.writeIntervals)
	r.AddObs(pre+"_read_name_intervals", s.readIntervals)
	r.AddObs(pre+"_sections_overlapping_another", s.overlapAny)
	r.AddObs(pre+"_readers_sharing_a_name", s.sharedReaders)
	r.AddObs(pre+"_requests_that_waited_for_a_conflicting_holder", s.blockedBehind)
	r.AddObs("histories_checked", 1)
	r.Key = w.Family + "|" + strings.Join(w.Pool, ",") + "|" + strings.Join(planString(w, 1<<30), ";")
	r.Nontrivial = s.overlapAny > 0 || s.blockedBehind > 0
	if sample {
		r.Sample = map[string]any{"kind": w.Family, "pool": w.Pool, "holders": len(w.Plans), "plans(first rounds)": planString(w, 4),
			"sections": s.intervals, "max_concurrent_sections": s.maxConcurrent, "waited_behind_conflict": s.blockedBehind}
	}
}
