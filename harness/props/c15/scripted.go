package main

import (
	"fmt"
	"math/rand"
	"runtime"
	"sync/atomic"
	"time"

	"verif/internal/sup"

	"github.com/goatcms/goatcore/app/modules/commonm/commservices"
	"github.com/goatcms/goatcore/app/modules/commonm/commservices/mutex"
)

// actor is one scripted holder: Lock(map) → entered → wait for the harness gate → Unlock.
type actor struct {
	name     string
	req      lockReq
	goid     atomic.Int64
	entered  chan struct{}
	gate     chan struct{}
	done     chan struct{}
	enterSeq int64
	exitSeq  int64
}

var scriptSeq atomic.Int64

func startActor(sm commservices.SharedMutex, name string, pool []string, req lockReq) *actor {
	a := &actor{name: name, req: req, entered: make(chan struct{}), gate: make(chan struct{}), done: make(chan struct{})}
	lm := req.lockMap(pool, "")
	go func() {
		a.goid.Store(goid())
		uh := sm.Lock(lm)
		a.enterSeq = scriptSeq.Add(1)
		close(a.entered)
		<-a.gate
		a.exitSeq = scriptSeq.Add(1)
		uh.Unlock()
		close(a.done)
	}()
	return a
}

// enterOrPark waits until the actor has entered its section or is observed (two consecutive
// stop-the-world snapshots) parked in a sync primitive inside the mutex package. The verdict
// is the observed scheduler state, never elapsed time; "unknown" (→ inconclusive) after a
// very large number of looks.
func enterOrPark(a *actor) (what string, dump string) {
	consecutive := 0
	for i := 0; i < 40000; i++ {
		select {
		case <-a.entered:
			return "entered", ""
		default:
		}
		if i < 30 {
			runtime.Gosched()
		} else {
			d := 20 * time.Microsecond << uint(min(i/40, 6))
			select {
			case <-a.entered:
				return "entered", ""
			case <-time.After(d):
			}
		}
		id := a.goid.Load()
		if id == 0 {
			continue
		}
		select {
		case <-a.entered:
			return "entered", ""
		default:
		}
		g := dumpAll()[id]
		if parkedIn(g, mutexPkgFrag) {
			consecutive++
			if consecutive >= 2 {
				select {
				case <-a.entered:
					return "entered", ""
				default:
				}
				return "parked", g.raw
			}
		} else {
			consecutive = 0
		}
	}
	return "unknown", ""
}

func waitDone(a *actor) bool {
	select {
	case <-a.done:
		return true
	case <-time.After(watchdogS * time.Second):
		return false
	}
}

// decodeReq3: index 0…26 → a lock request over three names (digit: 0 absent, 1 read, 2 write).
func decodeReq3(v int) lockReq {
	var q lockReq
	for i := 0; i < 3; i++ {
		d := v % 3
		v /= 3
		if d != 0 {
			q.Idx = append(q.Idx, i)
			q.Mode = append(q.Mode, d == 2)
		}
	}
	return q
}

// runPair: A enters with its map and is parked on a gate by the harness; B then asks for its map.
//   - no conflicting name  → B must enter while A is still inside (not serialised);
//   - a conflicting name   → B must not enter before A has left (exclusion), and must enter afterwards.
func runPair(r *sup.CaseResult, pool []string, ma, mb lockReq, tag string) {
	sm := commservices.SharedMutex(mutex.NewSharedMutex())
	desc := fmt.Sprintf("%s pool %q: A=%s gated inside, then B=%s", tag, pool, ma.str(pool), mb.str(pool))
	a := startActor(sm, "A", pool, ma)
	if w, d := enterOrPark(a); w != "entered" {
		if w == "parked" {
			r.Violate("uncontended-lock-blocks", desc+": A is parked inside Lock on a fresh SharedMutex", d)
		} else {
			r.Inconclusive = desc + ": A neither entered nor parked"
		}
		return
	}
	b := startActor(sm, "B", pool, mb)
	w, d := enterOrPark(b)
	confl := conflict(ma, mb)
	r.AddObs("pairs_run", 1)
	switch {
	case w == "unknown":
		r.Inconclusive = desc + ": B neither entered nor parked"
		close(a.gate)
		close(b.gate)
		return
	case !confl && w == "parked":
		r.Violate("serialised", desc+": the maps share no resource with a write request, yet B is parked inside SharedMutex.Lock while only A holds anything", d)
		close(a.gate)
		close(b.gate)
		return
	case !confl:
		r.AddObs("pairs_compatible_entered_while_other_inside", 1)
		close(b.gate)
		if !waitDone(b) {
			r.Inconclusive = desc + ": B did not return from Unlock"
			return
		}
		close(a.gate)
		if !waitDone(a) {
			r.Inconclusive = desc + ": A did not return from Unlock"
		}
	case confl && w == "entered":
		r.Violate("exclusion-scripted", fmt.Sprintf("%s: B entered (seq %d) while A (entered at seq %d) is still inside and has not called Unlock", desc, b.enterSeq, a.enterSeq), nil)
		close(a.gate)
		close(b.gate)
		return
	default: // conflicting and parked: release A, B must get its turn
		r.AddObs("pairs_conflicting_parked_until_release", 1)
		close(a.gate)
		if !waitDone(a) {
			r.Inconclusive = desc + ": A did not return from Unlock"
			return
		}
		w2, d2 := enterOrPark(b)
		switch w2 {
		case "entered":
			if b.enterSeq < a.exitSeq {
				r.Violate("exclusion-scripted", desc+": B entered before A called Unlock", nil)
			}
			r.AddObs("pairs_turn_after_release", 1)
		case "parked":
			r.Violate("deadlock", desc+": A has unlocked and returned, B is still parked inside SharedMutex.Lock and nobody else exists", d2)
			return
		default:
			r.Inconclusive = desc + ": after A left, B neither entered nor parked"
			return
		}
		close(b.gate)
		if !waitDone(b) {
			r.Inconclusive = desc + ": B did not return from Unlock"
		}
	}
	// the same SharedMutex must be fully free again: a whole-pool writer enters at once
	all := lockReq{}
	for i := range pool {
		all.Idx = append(all.Idx, i)
		all.Mode = append(all.Mode, true)
	}
	c := startActor(sm, "C", pool, all)
	if w, d := enterOrPark(c); w == "parked" {
		r.Violate("not-released", desc+": both holders unlocked and returned, yet a writer of the whole pool is parked inside Lock", d)
		return
	} else if w == "unknown" {
		r.Inconclusive = desc + ": final whole-pool writer neither entered nor parked"
		return
	}
	r.AddObs("pairs_released_completely", 1)
	close(c.gate)
	waitDone(c)
}

// runTriple: A gated inside; B conflicts with A and is observed parked; C is compatible with
// both A's and B's maps and must enter while A is inside and B is waiting (a waiting holder
// must not serialise bystanders).
func runTriple(r *sup.CaseResult, rng *rand.Rand) {
	np := 3 + rng.Intn(3)
	pool := pickPool(rng, np)
	var ma, mb, mc lockReq
	for tries := 0; ; tries++ {
		ma = genReq(rng, np, 1+rng.Intn(np-1), 0.6)
		mb = genReq(rng, np, 1+rng.Intn(np-1), 0.6)
		mc = genReq(rng, np, 1+rng.Intn(np-1), 0.4)
		if conflict(ma, mb) && !conflict(ma, mc) && !conflict(mb, mc) {
			break
		}
		if tries > 10000 {
			r.Inconclusive = "triple generator found no instance"
			return
		}
	}
	desc := fmt.Sprintf("triple pool %q: A=%s gated inside, B=%s waiting, then C=%s", pool, ma.str(pool), mb.str(pool), mc.str(pool))
	r.Key = desc
	sm := commservices.SharedMutex(mutex.NewSharedMutex())
	a := startActor(sm, "A", pool, ma)
	if w, _ := enterOrPark(a); w != "entered" {
		r.Inconclusive = desc + ": A did not enter"
		return
	}
	b := startActor(sm, "B", pool, mb)
	w, _ := enterOrPark(b)
	if w == "entered" {
		r.Violate("exclusion-scripted", desc+": B entered while A is inside", nil)
		close(a.gate)
		close(b.gate)
		return
	}
	if w != "parked" {
		r.Inconclusive = desc + ": B neither entered nor parked"
		close(a.gate)
		close(b.gate)
		return
	}
	c := startActor(sm, "C", pool, mc)
	w, d := enterOrPark(c)
	r.AddObs("triples_run", 1)
	switch w {
	case "entered":
		r.AddObs("triples_bystander_entered", 1)
		r.Nontrivial = true
	case "parked":
		// C is compatible with A and with B. Is it blocked only because B, while waiting, already
		// holds part of its map that C … no: C shares no conflicting name with B either.
		r.Violate("serialised", desc+": C conflicts with neither A nor B, yet it is parked inside SharedMutex.Lock", d)
	default:
		r.Inconclusive = desc + ": C neither entered nor parked"
	}
	close(a.gate)
	close(b.gate)
	close(c.gate)
	if w == "entered" {
		if !waitDone(a) || !waitDone(b) || !waitDone(c) {
			r.Inconclusive = desc + ": holders did not all finish after the gates were opened"
		}
	}
}
