package main

// pipeNested: tasks of scopes that have a lock namespace of their own, submitted directly in the
// scope or from the body of another (lock-free) task of that scope. A resource name without the
// global marker belongs to the scope's lock namespace wherever in the scope the task was
// submitted from: two tasks of one namespace that name it conflict, tasks of different
// namespaces do not; "@name" is the same resource everywhere.

import (
	"fmt"
	"math/rand"
	"time"

	"verif/internal/sup"

	"github.com/goatcms/goatcore/app"
	"github.com/goatcms/goatcore/app/gio"
	"github.com/goatcms/goatcore/app/goatapp"
	"github.com/goatcms/goatcore/app/modules/pipelinem/pipservices"
	"github.com/goatcms/goatcore/app/modules/pipelinem/pipservices/namespaces"
	"github.com/goatcms/goatcore/app/modules/terminalm/termservices"
	"github.com/goatcms/goatcore/app/scope"
	"github.com/goatcms/goatcore/varutil/goaterr"
)

func submitIn(ctx app.IOContext, term termservices.Terminal, line string) error {
	return term.RunString(ctx, line)
}

func pipeNested(c *sup.Child, idx int, rng *rand.Rand, viol *int) {
	nsA := []string{"ns", "team", "x:y"}[rng.Intn(3)]
	nsB := nsA
	if rng.Intn(3) == 0 {
		nsB = nsA + "2"
	}
	resA := []string{"db", "cache", "@g"}[rng.Intn(3)]
	resB := resA
	if rng.Intn(4) == 0 {
		resB = []string{"db", "cache", "@g"}[rng.Intn(3)]
	}
	write := [2]bool{true, true}
	if rng.Intn(5) == 0 {
		write = [2]bool{false, false}
	}
	mk := func(id int, res string, w bool, nest bool) *pipeTask {
		t := &pipeTask{ID: id, Req: map[string]bool{res: w}, Nest: nest}
		if w {
			t.WList = []string{res}
		} else {
			t.RList = []string{res}
		}
		return t
	}
	nest := [][2]bool{{true, false}, {false, true}, {true, true}, {false, false}}[rng.Intn(4)]
	a, b := mk(0, resA, write[0], nest[0]), mk(1, resB, write[1], nest[1])
	a.Gated = true
	same := func(ra, rb string) bool {
		if ra != rb {
			return false
		}
		return ra[0] == '@' || nsA == nsB
	}
	confl := same(resA, resB) && (write[0] || write[1])
	ts := []*pipeTask{a, b}
	desc := fmt.Sprintf("nested pair: scope with lock namespace %q runs %q (gated inside its body), scope with lock namespace %q then runs %q", nsA, a.line(), nsB, b.line())
	c.Case(idx, map[string]any{"kind": "pipe-nested", "lines": taskLines(ts), "lock_namespaces": []string{nsA, nsB}}, func(r *sup.CaseResult) {
		defer func() { *viol += len(r.Violations) }()
		p := newPipeRun(ts)
		mapp, _, term, err := newPipeApp(p, goatapp.Params{})
		if err != nil {
			r.Inconclusive = "application stack could not be built: " + err.Error()
			return
		}
		var deps struct {
			NamespacesUnit pipservices.NamespacesUnit `dependency:"PipNamespacesUnit"`
		}
		if err := mapp.DependencyProvider().InjectTo(&deps); err != nil {
			r.Inconclusive = "namespaces unit: " + err.Error()
			return
		}
		ctxOf := map[string]app.IOContext{}
		for _, ns := range []string{nsA, nsB} {
			if ctxOf[ns] != nil {
				continue
			}
			scp := scope.New(scope.Params{})
			if err := deps.NamespacesUnit.Define(scp, namespaces.NewNamespaces(pipservices.NamasepacesParams{Lock: ns})); err != nil {
				r.Inconclusive = "Define: " + err.Error()
				return
			}
			ctxOf[ns] = gio.NewIOContext(scp, mapp.IOContext().IO())
		}
		r.Key = desc
		errA, errB := make(chan error, 1), make(chan error, 1)
		go func() { errA <- submitIn(ctxOf[nsA], term, a.line()) }()
		if w, d := awaitBodyOrPark(p, 0); w != "entered" {
			if w == "parked" {
				r.Violate("pipe-uncontended-lock-blocks", desc+": the only task that asks for a lock is parked inside SharedMutex.Lock", d)
			} else {
				r.Inconclusive = desc + ": A's body never began"
			}
			return
		}
		go func() { errB <- submitIn(ctxOf[nsB], term, b.line()) }()
		w, d := awaitBodyOrPark(p, 1)
		r.AddObs("pipe_nested_pairs_run", 1)
		finish := func(ch chan error, who string) bool {
			select {
			case e := <-ch:
				if e != nil {
					r.Violate("pipe-task-error", fmt.Sprintf("%s: task %s returned an error: %v", desc, who, e), nil)
				}
				return true
			case <-time.After(watchdogS * time.Second):
				r.Inconclusive = desc + ": task " + who + " did not finish"
				return false
			}
		}
		switch {
		case w == "unknown":
			r.Inconclusive = desc + ": B's body did not begin and no task goroutine is parked in the mutex package"
			close(p.gates[0])
			return
		case !confl && w == "parked":
			r.Violate("pipe-serialised", fmt.Sprintf("%s: the two lock maps name different resources (or only read), yet B's task is parked inside SharedMutex.Lock while only A holds anything", desc), d)
			close(p.gates[0])
			return
		case !confl:
			r.AddObs("pipe_nested_pairs_compatible_body_began_while_other_inside", 1)
			r.Nontrivial = true
			if !finish(errB, "B") {
				return
			}
			close(p.gates[0])
			finish(errA, "A")
		case w == "entered":
			r.Violate("pipe-exclusion-scripted", fmt.Sprintf("%s: both name the same resource of the same lock namespace with a write request, yet B's body began while A's body is still running", desc), nil)
			close(p.gates[0])
			return
		default:
			r.AddObs("pipe_nested_tasks_that_waited_for_a_conflicting_task", 1)
			r.Nontrivial = true
			close(p.gates[0])
			if !finish(errA, "A") {
				return
			}
			w2, d2 := awaitBodyOrPark(p, 1)
			if w2 == "parked" {
				r.Violate("pipe-deadlock", desc+": A has finished, B's task is still parked inside SharedMutex.Lock", d2)
				return
			}
			if w2 != "entered" {
				r.Inconclusive = desc + ": after A finished B's body did not begin"
				return
			}
			finish(errB, "B")
		}
		for _, cx := range ctxOf {
			if err := goaterr.ToError(goaterr.AppendError(nil, cx.Scope().Wait(), cx.Scope().Close())); err != nil {
				r.Violate("pipe-task-error", fmt.Sprintf("%s: the scope ended with an error: %v", desc, err), nil)
			}
		}
		_, sections := checkPipeLogNS(p, r, "pipe-nested", confl)
		r.AddObs("pipe_sections", sections)
		r.AddObs("pipe_probe_events", 2*sections)
		r.AddObs("histories_checked", 1)
		mapp.Scopes().App().Close()
		if idx%120 == 3 {
			r.Sample = map[string]any{"kind": "pipeline nested pair with lock namespaces", "A": a.line(), "B": b.line(), "lock_namespaces": []string{nsA, nsB}, "conflicting": confl, "B observed": w}
		}
	})
}

// checkPipeLogNS: interval oracle for the two bodies of a nested pair (conflict decided by the
// caller, since it depends on the scopes' lock namespaces).
func checkPipeLogNS(p *pipeRun, r *sup.CaseResult, fam string, confl bool) (overlaps, sections int64) {
	p.mu.Lock()
	evs := append([]pipeEvent{}, p.events...)
	p.mu.Unlock()
	open := 0
	for _, ev := range evs {
		if !ev.Begin {
			open--
			continue
		}
		sections++
		if open > 0 {
			overlaps++
			if confl {
				r.Violate("pipe-exclusion-interval", fmt.Sprintf("%s: the two bodies overlapped although their lock maps conflict", fam), map[string]any{"events": evs})
			}
		}
		open++
	}
	return
}
