package main

import (
	"fmt"
	"github.com/goatcms/goatcore/app/modules/pipelinem/pipservices"
	"github.com/goatcms/goatcore/varutil"
	"math/rand"
	"runtime"
	"sort"
	"strconv"
	"strings"
	"sync"
	"sync/atomic"
	"time"

	"verif/internal/sup"

	"github.com/goatcms/goatcore/app"
	"github.com/goatcms/goatcore/app/bootstrap"
	"github.com/goatcms/goatcore/app/gio"
	"github.com/goatcms/goatcore/app/goatapp"
	"github.com/goatcms/goatcore/app/modules/commonm"
	"github.com/goatcms/goatcore/app/modules/ocm"
	"github.com/goatcms/goatcore/app/modules/pipelinem"
	"github.com/goatcms/goatcore/app/modules/terminalm"
	"github.com/goatcms/goatcore/app/modules/terminalm/termservices"
	"github.com/goatcms/goatcore/app/terminal"
	"github.com/goatcms/goatcore/varutil/goaterr"
)

// Through the pipeline: the application stack as the repository's story tests build it
// (goatapp.NewMockupApp + bootstrap with terminalm, commonm, ocm, pipelinem) and a probe
// command registered in the application's terminal. Tasks are submitted with
//
//	pip:run --name=tN --rlock=<list> --wlock=<list> --body="probe --id=N" --silent=true
//
// from one goroutine per task (a pip:run line blocks its caller until the task is done, so a
// single script cannot make tasks overlap). The expected lock map of a task is computed by the
// harness from the lists as the command's help text defines them (comma separated, blanks
// trimmed, '@' = global pool, a name in both lists = write).

var pipeNames = []string{"a", "b", "c", "res_1", "Res", "_x", "@a", "@g"}

type pipeTask struct {
	ID    int
	RList []string // tokens as written (before trimming)
	WList []string
	Req   map[string]bool // resource → write
	Quote bool
	Hold  int
	K     int
	Gated bool
	Nest  bool // the pip:run line is the body of an outer lock-free task
	BG    bool // the task runs in the background sandbox: Sandbox.Run returns at once, the body goes on as work registered in the task's scope
}

func (t *pipeTask) line() string {
	var sb strings.Builder
	fmt.Fprintf(&sb, "pip:run --name=t%d", t.ID)
	put := func(flag string, l []string) {
		if len(l) == 0 {
			return
		}
		v := strings.Join(l, ",")
		if t.Quote || strings.ContainsAny(v, " \t") {
			fmt.Fprintf(&sb, " --%s=\"%s\"", flag, v)
		} else {
			fmt.Fprintf(&sb, " --%s=%s", flag, v)
		}
	}
	put("rlock", t.RList)
	put("wlock", t.WList)
	if t.BG {
		sb.WriteString(" --sandbox=c15bg")
	}
	fmt.Fprintf(&sb, " --body=\"probe --id=%d\" --silent=true", t.ID)
	if t.Nest {
		// the task is submitted from the body of another task, which asks for no lock itself
		inner := strings.NewReplacer(`\`, `\\`, `"`, `\"`).Replace(sb.String())
		return fmt.Sprintf("pip:run --name=o%d --body=\"%s\" --silent=true", t.ID, inner)
	}
	return sb.String()
}

func (t *pipeTask) reqStr() string {
	ks := make([]string, 0, len(t.Req))
	for k := range t.Req {
		ks = append(ks, k)
	}
	sort.Strings(ks)
	var sb strings.Builder
	sb.WriteByte('{')
	for i, k := range ks {
		if i > 0 {
			sb.WriteByte(',')
		}
		m := "R"
		if t.Req[k] {
			m = "W"
		}
		sb.WriteString(k + ":" + m)
	}
	sb.WriteByte('}')
	return sb.String()
}

func pipeConflict(a, b *pipeTask) bool {
	for k, w := range a.Req {
		if w2, ok := b.Req[k]; ok && (w || w2) {
			return true
		}
	}
	return false
}

// pipePool picks the resource names of one program: a random subset, now and then forced to
// hold a name together with its global-pool twin ("a" and "@a" are different resources).
func pipePool(rng *rand.Rand, n int) []string {
	p := append([]string{}, pipeNames...)
	rng.Shuffle(len(p), func(i, j int) { p[i], p[j] = p[j], p[i] })
	p = p[:n]
	if rng.Intn(4) == 0 {
		p[0], p[1] = "a", "@a"
		for i := 2; i < len(p); i++ {
			if p[i] == "a" || p[i] == "@a" {
				p[i] = "c"
			}
		}
	}
	return p
}

func genPipeTask(rng *rand.Rand, id int, pool []string, pw float64, maxSize int) *pipeTask {
	t := &pipeTask{ID: id, Req: map[string]bool{}, Quote: rng.Intn(3) == 0}
	size := rng.Intn(maxSize + 1)
	npool := len(pool)
	for _, ix := range rng.Perm(npool)[:min(size, npool)] {
		name := pool[ix]
		tok := name
		if t.Quote && rng.Intn(3) == 0 {
			tok = []string{" ", "\t", ""}[rng.Intn(3)] + name + []string{" ", "", "  "}[rng.Intn(3)]
		}
		w := rng.Float64() < pw
		if w {
			t.WList = append(t.WList, tok)
			t.Req[name] = true
			if rng.Intn(6) == 0 { // also listed for reading: write wins
				t.RList = append(t.RList, name)
			}
		} else {
			t.RList = append(t.RList, tok)
			if _, ok := t.Req[name]; !ok {
				t.Req[name] = false
			}
			if rng.Intn(8) == 0 { // duplicate entry
				t.RList = append(t.RList, name)
			}
		}
	}
	switch rng.Intn(4) {
	case 0:
	case 1, 2:
		t.Hold, t.K = 1, 1+rng.Intn(6)
	default:
		t.Hold, t.K = 2, 1+rng.Intn(150)
	}
	return t
}

type pipeEvent struct {
	Seq   int64
	Begin bool
	ID    int
}

type pipeRun struct {
	tasks  map[int]*pipeTask
	seq    atomic.Int64
	mu     sync.Mutex
	events []pipeEvent
	shadow map[string]*cell
	online []string
	begun  map[int]chan struct{}
	gates  map[int]chan struct{}
	inside atomic.Int32
}

func newPipeRun(tasks []*pipeTask) *pipeRun {
	p := &pipeRun{tasks: map[int]*pipeTask{}, shadow: map[string]*cell{}, begun: map[int]chan struct{}{}, gates: map[int]chan struct{}{}}
	for _, t := range tasks {
		p.tasks[t.ID] = t
		p.begun[t.ID] = make(chan struct{})
		p.gates[t.ID] = make(chan struct{})
		for k := range t.Req {
			if p.shadow[k] == nil {
				p.shadow[k] = &cell{}
			}
		}
	}
	return p
}

func (p *pipeRun) complain(f string, a ...any) {
	p.mu.Lock()
	if len(p.online) < 8 {
		p.online = append(p.online, fmt.Sprintf(f, a...))
	}
	p.mu.Unlock()
}

// probe is the body command of every task.
func (p *pipeRun) probe(a app.App, ctx app.IOContext) (err error) {
	var deps struct {
		ID string `command:"?id"`
	}
	if err = ctx.Scope().InjectTo(&deps); err != nil {
		return err
	}
	id, err := strconv.Atoi(deps.ID)
	if err != nil {
		return err
	}
	if id < 0 {
		return nil // warm-up task
	}
	return p.section(id)
}

// section is the body of task id: it marks the shadow cells of its resources, waits, unmarks.
func (p *pipeRun) section(id int) (err error) {
	t := p.tasks[id]
	if t == nil {
		return fmt.Errorf("probe: unknown id %d", id)
	}
	me := int64(id + 1)
	p.inside.Add(1)
	s := p.seq.Add(1)
	p.mu.Lock()
	p.events = append(p.events, pipeEvent{s, true, id})
	p.mu.Unlock()
	for k, w := range t.Req {
		c := p.shadow[k]
		if w {
			if !c.writer.CompareAndSwap(0, me) {
				p.complain("task t%d %s runs its body with write access to %q while task t%d is writing it", id, t.reqStr(), k, c.writer.Load()-1)
			}
			if n := c.readers.Load(); n != 0 {
				p.complain("task t%d %s runs its body with write access to %q while %d reading task(s) are inside", id, t.reqStr(), k, n)
			}
		} else {
			c.readers.Add(1)
			if x := c.writer.Load(); x != 0 {
				p.complain("task t%d %s runs its body with read access to %q while task t%d is writing it", id, t.reqStr(), k, x-1)
			}
		}
	}
	close(p.begun[id])
	if t.Gated {
		<-p.gates[id]
	}
	switch t.Hold {
	case 1:
		for k := 0; k < t.K; k++ {
			runtime.Gosched()
		}
	case 2:
		time.Sleep(time.Duration(t.K) * time.Microsecond)
	}
	for k, w := range t.Req {
		c := p.shadow[k]
		if w {
			if n := c.readers.Load(); n != 0 {
				p.complain("task t%d %s ends its body: %d reader(s) of %q came in during its write section", id, t.reqStr(), n, k)
			}
			if !c.writer.CompareAndSwap(me, 0) {
				p.complain("task t%d %s ends its body: writer mark of %q was taken over by task t%d", id, t.reqStr(), k, c.writer.Load()-1)
			}
		} else {
			if x := c.writer.Load(); x != 0 {
				p.complain("task t%d %s ends its body: task t%d started writing %q during its read section", id, t.reqStr(), x-1, k)
			}
			c.readers.Add(-1)
		}
	}
	s = p.seq.Add(1)
	p.mu.Lock()
	p.events = append(p.events, pipeEvent{s, false, id})
	p.mu.Unlock()
	p.inside.Add(-1)
	return nil
}

func newPipeApp(p *pipeRun, params goatapp.Params) (mapp *goatapp.MockupApp, bs app.Bootstrap, term termservices.Terminal, err error) {
	if mapp, err = goatapp.NewMockupApp(params); err != nil {
		return
	}
	bs = bootstrap.NewBootstrap(mapp)
	if err = goaterr.ToError(goaterr.AppendError(nil,
		bs.Register(terminalm.NewModule()),
		bs.Register(commonm.NewModule()),
		bs.Register(ocm.NewModule()),
		bs.Register(pipelinem.NewModule()),
	)); err != nil {
		return
	}
	if err = bs.Init(); err != nil {
		return
	}
	mapp.Terminal().SetCommand(terminal.NewCommand(terminal.CommandParams{Name: "probe", Callback: p.probe}))
	var deps struct {
		Terminal termservices.Terminal `dependency:"TerminalService"`
	}
	if err = mapp.DependencyProvider().InjectTo(&deps); err != nil {
		return
	}
	// The dependency provider builds services lazily and is not meant to be asked for the first
	// time from several goroutines at once (that is C10's subject, not C15's): build everything
	// pip:run needs before the concurrent part starts, with one lock-free warm-up task.
	if len(params.Arguments) == 0 {
		if err = submit(mapp, deps.Terminal, "pip:run --name=warmup --body=\"probe --id=-1\" --silent=true"); err != nil {
			return
		}
	}
	return mapp, bs, deps.Terminal, nil
}

// leakedRunGo holds goroutines of earlier (violating) cases that stay parked for ever.
var leakedRunGo = map[int64]bool{}

const runGoFrag = "pipservices/runner.(*Runner).runGo"

// parkedTasks looks at every task goroutine (runner.runGo) of a stop-the-world snapshot:
// parked = those parked in a sync primitive inside the mutex package, live = all of them.
// Only task goroutines lock and unlock the application's SharedMutex, so parked == live > 0
// means that nobody is left who could ever release what the parked ones wait for.
func parkedTasks() (parked []int64, live int, raw string) {
	gs := dumpAll()
	var sb strings.Builder
	for id, g := range gs {
		if leakedRunGo[id] {
			continue
		}
		isTask := false
		for _, f := range g.frames {
			if strings.Contains(f, runGoFrag) {
				isTask = true
			}
		}
		if !isTask {
			continue
		}
		live++
		if parkedIn(g, mutexPkgFrag) {
			parked = append(parked, id)
			sb.WriteString(g.raw + "\n\n")
		}
	}
	return parked, live, sb.String()
}

// submit runs one pip:run line the way a terminal client does and waits for the task.
func submit(mapp *goatapp.MockupApp, term termservices.Terminal, line string) (err error) {
	ctx := gio.NewChildIOContext(mapp.IOContext(), gio.ChildIOContextParams{})
	err = term.RunString(ctx, line)
	err = goaterr.ToError(goaterr.AppendError(nil, err, ctx.Scope().Wait(), ctx.Close()))
	return err
}

// checkPipeLog is the interval oracle over the probe log.
func checkPipeLog(p *pipeRun, r *sup.CaseResult, fam string) (overlaps, sections int64) {
	p.mu.Lock()
	evs := append([]pipeEvent{}, p.events...)
	p.mu.Unlock()
	sort.Slice(evs, func(i, j int) bool { return evs[i].Seq < evs[j].Seq })
	open := map[int]int64{}
	for _, ev := range evs {
		if !ev.Begin {
			delete(open, ev.ID)
			continue
		}
		sections++
		t := p.tasks[ev.ID]
		if len(open) > 0 {
			overlaps++
		}
		for oid, oseq := range open {
			o := p.tasks[oid]
			if pipeConflict(t, o) {
				r.Violate("pipe-exclusion-interval", fmt.Sprintf("%s: body of task t%d %s began (seq %d) while the body of task t%d %s (began at seq %d) had not ended; the two lock lists name a common resource with a write request. Lines: %q / %q",
					fam, t.ID, t.reqStr(), ev.Seq, o.ID, o.reqStr(), oseq, t.line(), o.line()), map[string]any{"events": evs})
			}
		}
		open[ev.ID] = ev.Seq
	}
	p.mu.Lock()
	for _, m := range p.online {
		r.Violate("pipe-exclusion-shadow", fam+": "+m, nil)
	}
	p.mu.Unlock()
	return
}

func runPipeCase(c *sup.Child, idx int, script bool, viol *int) {
	rng := c.Rand(idx)
	switch {
	case script:
		pipeScript(c, idx, rng, viol)
	case idx%12 == 3:
		pipeNested(c, idx, rng, viol)
	case idx%12 == 9:
		pipeKilledHolder(c, idx, rng, viol)
	case idx%3 == 0:
		pipePair(c, idx, rng, viol)
	case idx%3 == 1 && idx%2 == 0:
		pipeTriple(c, idx, rng, viol)
	case idx%3 == 2 && idx%2 == 0:
		pipeKilledWaiter(c, idx, rng, viol)
	default:
		pipeRandom(c, idx, rng, viol)
	}
}

func taskLines(ts []*pipeTask) []string {
	var out []string
	for _, t := range ts {
		out = append(out, t.line())
	}
	return out
}

// pipeRandom: 2…8 tasks submitted at the same moment from their own goroutines.
func pipeRandom(c *sup.Child, idx int, rng *rand.Rand, viol *int) {
	n := 2 + rng.Intn(7)
	npool := pipePool(rng, 2+rng.Intn(len(pipeNames)-1))
	pw := []float64{0.2, 0.5, 0.8, 1.0}[rng.Intn(4)]
	maxSize := 1 + rng.Intn(4)
	var ts []*pipeTask
	bg := idx%4 == 3 // a quarter of the programs: some tasks run in a sandbox whose Run returns while the body goes on in the task's scope
	nbg := 0
	for i := 0; i < n; i++ {
		t := genPipeTask(rng, i, npool, pw, maxSize)
		if bg && rng.Intn(2) == 0 {
			t.BG = true
			nbg++
		}
		ts = append(ts, t)
	}
	c.Case(idx, map[string]any{"kind": "pipe-random", "lines": taskLines(ts)}, func(r *sup.CaseResult) {
		defer func() { *viol += len(r.Violations) }()
		p := newPipeRun(ts)
		mapp, _, term, err := newPipeApp(p, goatapp.Params{})
		if err != nil {
			r.Inconclusive = "application stack could not be built: " + err.Error()
			return
		}
		if nbg > 0 {
			var sdeps struct {
				Sandboxes pipservices.SandboxesManager `dependency:"PipSandboxesManager"`
			}
			if err := mapp.DependencyProvider().InjectTo(&sdeps); err != nil {
				r.Inconclusive = "sandboxes manager: " + err.Error()
				return
			}
			sdeps.Sandboxes.Add(bgBuilder{p})
			r.AddObs("pipe_tasks_in_the_background_sandbox", int64(nbg))
		}
		var wg sync.WaitGroup
		var unfinished atomic.Int32
		errs := make([]error, n)
		start := make(chan struct{})
		for i, t := range ts {
			wg.Add(1)
			unfinished.Add(1)
			go func(i int, line string) {
				defer wg.Done()
				<-start
				errs[i] = submit(mapp, term, line)
				unfinished.Add(-1)
			}(i, t.line())
		}
		done := make(chan struct{})
		go func() { wg.Wait(); close(done) }()
		close(start)
		tick := time.NewTicker(40 * time.Millisecond)
		defer tick.Stop()
		deadline := time.After(watchdogS * time.Second)
		last := int64(-1)
	wait:
		for {
			select {
			case <-done:
				break wait
			case <-deadline:
				r.Inconclusive = fmt.Sprintf("pipe: tasks did not finish within the %d s watchdog, no logical deadlock diagnosed", watchdogS)
				return
			case <-tick.C:
				s := p.seq.Load()
				if s == last {
					u := unfinished.Load()
					ids, live, raw := parkedTasks()
					if len(ids) > 0 && len(ids) == live && p.inside.Load() == 0 && p.seq.Load() == s {
						for _, id := range ids {
							leakedRunGo[id] = true
						}
						r.Violate("pipe-deadlock", fmt.Sprintf("pipe: %d submission(s) unfinished; every live task goroutine (%d) is parked in SharedMutex.Lock below runner.runGo, no body is running. Lines: %q", u, live, taskLines(ts)), raw)
						checkPipeLog(p, r, "pipe")
						return
					}
				}
				last = s
			}
		}
		for i, e := range errs {
			if e != nil {
				r.Violate("pipe-task-error", fmt.Sprintf("pipe: line %q returned an error: %v", ts[i].line(), e), nil)
			}
		}
		overlaps, sections := checkPipeLog(p, r, "pipe")
		if sections != int64(n) && len(r.Violations) == 0 {
			r.Violate("pipe-lost-turn", fmt.Sprintf("pipe: %d tasks submitted and finished, %d bodies ran. Lines: %q", n, sections, taskLines(ts)), nil)
		}
		if err := mapp.Scopes().App().Close(); err != nil {
			r.AddObs("pipe_app_close_errors", 1)
		}
		r.AddObs("pipe_programs", 1)
		r.AddObs("pipe_sections", sections)
		r.AddObs("pipe_probe_events", 2*sections)
		r.AddObs("pipe_sections_overlapping_another", overlaps)
		r.AddObs("histories_checked", 1)
		r.Key = "pipe|" + strings.Join(taskLines(ts), "|")
		r.Nontrivial = overlaps > 0
		if idx%100 == 1 {
			r.Sample = map[string]any{"kind": "pipeline program", "lines": taskLines(ts), "sections": sections, "overlapping": overlaps}
		}
	})
}

// awaitBodyOrPark: the task's body began, or a task goroutine is seen (twice) parked in the
// mutex package below runner.runGo.
func awaitBodyOrPark(p *pipeRun, id int) (string, string) {
	consecutive, anyWait := 0, 0
	for i := 0; i < 40000; i++ {
		d := 20 * time.Microsecond << uint(min(i/40, 6))
		select {
		case <-p.begun[id]:
			return "entered", ""
		case <-time.After(d):
		}
		ids, _, raw := parkedTasks()
		if len(ids) > 0 {
			consecutive++
			if consecutive >= 2 {
				select {
				case <-p.begun[id]:
					return "entered", ""
				default:
				}
				return "parked", raw
			}
		} else {
			consecutive = 0
		}
		// a task goroutine that sits in some other wait (a channel, a select) on its way to the
		// body in 1500 looks in a row is queued as well, wherever the runner makes it wait
		if w, rawW := waitingBeforeBody(); w > 0 {
			anyWait++
			if anyWait >= 1500 {
				select {
				case <-p.begun[id]:
					return "entered", ""
				default:
				}
				return "parked", rawW
			}
		} else {
			anyWait = 0
		}
	}
	return "unknown", ""
}

// waitingBeforeBody counts task goroutines (runner.runGo) outside any body that are in a wait
// state of any kind (sync primitive, channel operation, select).
func waitingBeforeBody() (n int, raw string) {
	var sb strings.Builder
	for id, g := range dumpAll() {
		if leakedRunGo[id] || !(syncWait[g.state] || parkedStates[g.state]) {
			continue
		}
		isTask, inBody := false, false
		for _, f := range g.frames {
			if strings.Contains(f, runGoFrag) {
				isTask = true
			}
			if strings.Contains(f, "selfsb.") || strings.Contains(f, "termexec.") {
				inBody = true
			}
		}
		if isTask && !inBody {
			n++
			sb.WriteString(g.raw + "\n\n")
		}
	}
	return n, sb.String()
}

// pipePair: task A's body is gated inside; task B is submitted afterwards.
func pipePair(c *sup.Child, idx int, rng *rand.Rand, viol *int) {
	npool := pipePool(rng, 2+rng.Intn(3))
	pw := []float64{0.3, 0.6, 1.0}[rng.Intn(3)]
	a := genPipeTask(rng, 0, npool, pw, 3)
	b := genPipeTask(rng, 1, npool, pw, 3)
	if idx%9 == 0 {
		// the same global resource, written once as the only item and once after a comma and a
		// blank (or a tab) in a longer list: both name "@g"
		g := []string{"@g", "@a"}[rng.Intn(2)]
		own := []string{"c", "Res", "_x"}[rng.Intn(3)]
		sep := []string{" ", "\t", "  "}[rng.Intn(3)]
		a = &pipeTask{ID: 0, WList: []string{g}, Req: map[string]bool{g: true}}
		b = &pipeTask{ID: 1, WList: []string{own, sep + g}, Req: map[string]bool{own: true, g: true}, Quote: true}
		if rng.Intn(2) == 0 {
			a, b = &pipeTask{ID: 0, WList: b.WList, Req: b.Req, Quote: true}, &pipeTask{ID: 1, WList: a.WList, Req: a.Req}
		}
	}
	a.Gated = true
	a.Hold, b.Hold = 0, 0
	ts := []*pipeTask{a, b}
	c.Case(idx, map[string]any{"kind": "pipe-pair", "lines": taskLines(ts)}, func(r *sup.CaseResult) {
		defer func() { *viol += len(r.Violations) }()
		p := newPipeRun(ts)
		mapp, _, term, err := newPipeApp(p, goatapp.Params{})
		if err != nil {
			r.Inconclusive = "application stack could not be built: " + err.Error()
			return
		}
		desc := fmt.Sprintf("pipe pair: %q gated inside its body, then %q", a.line(), b.line())
		r.Key = desc
		errA, errB := make(chan error, 1), make(chan error, 1)
		go func() { errA <- submit(mapp, term, a.line()) }()
		if w, d := awaitBodyOrPark(p, 0); w != "entered" {
			if w == "parked" {
				r.Violate("pipe-uncontended-lock-blocks", desc+": the only task is parked inside SharedMutex.Lock", d)
			} else {
				r.Inconclusive = desc + ": A's body never began"
			}
			return
		}
		go func() { errB <- submit(mapp, term, b.line()) }()
		w, d := awaitBodyOrPark(p, 1)
		confl := pipeConflict(a, b)
		r.AddObs("pipe_pairs_run", 1)
		finish := func(ch chan error, who string) bool {
			select {
			case e := <-ch:
				if e != nil {
					r.Violate("pipe-task-error", fmt.Sprintf("%s: task %s returned an error: %v", desc, who, e), nil)
				}
				return true
			case <-time.After(watchdogS * time.Second):
				r.Inconclusive = desc + ": task " + who + " did not finish"
				return false
			}
		}
		switch {
		case w == "unknown":
			r.Inconclusive = desc + ": B's body did not begin and no task goroutine is parked in the mutex package"
			close(p.gates[0])
			return
		case !confl && w == "parked":
			r.Violate("pipe-serialised", fmt.Sprintf("%s: the lock maps %s / %s share no resource with a write request, yet B's task is parked inside SharedMutex.Lock while only A holds anything", desc, a.reqStr(), b.reqStr()), d)
			close(p.gates[0])
			return
		case !confl:
			r.AddObs("pipe_pairs_compatible_body_began_while_other_inside", 1)
			r.Nontrivial = true
			if !finish(errB, "B") {
				return
			}
			close(p.gates[0])
			finish(errA, "A")
		case w == "entered":
			r.Violate("pipe-exclusion-scripted", fmt.Sprintf("%s: the lock maps %s / %s conflict, yet B's body began while A's body is still running", desc, a.reqStr(), b.reqStr()), nil)
			close(p.gates[0])
			return
		default:
			r.AddObs("pipe_tasks_that_waited_for_a_conflicting_task", 1)
			r.Nontrivial = true
			close(p.gates[0])
			if !finish(errA, "A") {
				return
			}
			w2, d2 := awaitBodyOrPark(p, 1)
			if w2 == "parked" {
				r.Violate("pipe-deadlock", desc+": A has finished, B's task is still parked inside SharedMutex.Lock", d2)
				return
			}
			if w2 != "entered" {
				r.Inconclusive = desc + ": after A finished B's body did not begin"
				return
			}
			r.AddObs("pipe_pairs_turn_after_release", 1)
			finish(errB, "B")
		}
		_, sections := checkPipeLog(p, r, "pipe-pair")
		r.AddObs("pipe_sections", sections)
		r.AddObs("pipe_probe_events", 2*sections)
		r.AddObs("histories_checked", 1)
		mapp.Scopes().App().Close()
		if idx%120 == 0 {
			r.Sample = map[string]any{"kind": "pipeline scripted pair", "A": a.line(), "B": b.line(), "conflicting": confl, "B observed": w}
		}
	})
}

// pipeScript: the tasks as lines of one terminal script read by the application itself
// (appname terminal), as in the repository's lock story test.
func pipeScript(c *sup.Child, idx int, rng *rand.Rand, viol *int) {
	n := 2 + rng.Intn(5)
	npool := pipePool(rng, 2+rng.Intn(4))
	var ts []*pipeTask
	for i := 0; i < n; i++ {
		t := genPipeTask(rng, i, npool, 0.5, 3)
		ts = append(ts, t)
	}
	script := "\n" + strings.Join(taskLines(ts), "\n") + "\n"
	c.Case(idx, map[string]any{"kind": "pipe-script", "script": script}, func(r *sup.CaseResult) {
		defer func() { *viol += len(r.Violations) }()
		p := newPipeRun(ts)
		mapp, bs, _, err := newPipeApp(p, goatapp.Params{
			IO:        goatapp.IO{In: gio.NewAppInput(strings.NewReader(script))},
			Arguments: []string{"appname", "terminal"},
		})
		if err != nil {
			r.Inconclusive = "application stack could not be built: " + err.Error()
			return
		}
		done := make(chan error, 1)
		go func() {
			e := bs.Run()
			done <- goaterr.ToError(goaterr.AppendError(nil, e, mapp.Scopes().App().Wait()))
		}()
		select {
		case e := <-done:
			if e != nil {
				r.Violate("pipe-task-error", fmt.Sprintf("pipe script %q: application run returned %v", script, e), nil)
			}
		case <-time.After(watchdogS * time.Second):
			if ids, live, raw := parkedTasks(); len(ids) > 0 && len(ids) == live && p.inside.Load() == 0 {
				for _, id := range ids {
					leakedRunGo[id] = true
				}
				r.Violate("pipe-deadlock", fmt.Sprintf("pipe script %q: task goroutine parked in SharedMutex.Lock, no body running", script), raw)
				return
			}
			r.Inconclusive = "pipe script did not finish within the watchdog"
			return
		}
		_, sections := checkPipeLog(p, r, "pipe-script")
		if sections != int64(n) && len(r.Violations) == 0 {
			r.Violate("pipe-lost-turn", fmt.Sprintf("pipe script %q: %d tasks, %d bodies ran", script, n, sections), nil)
		}
		r.AddObs("pipe_script_programs", 1)
		r.AddObs("pipe_script_sections", sections)
		r.AddObs("histories_checked", 1)
		r.Key = "script|" + script
		r.Nontrivial = sections > 1
	})
}

// bgSandbox: Run returns at once; the body goes on as work registered in the task's scope (the
// task, and with it its resources, is busy until that work has signed off).
type bgSandbox struct{ p *pipeRun }

func (b bgSandbox) Run(ctx app.IOContext) error {
	args, _, err := varutil.ReadArguments(ctx.IO().In())
	if err != nil {
		return err
	}
	id := -1
	for _, a := range args {
		if strings.HasPrefix(a, "--id=") {
			id, _ = strconv.Atoi(strings.TrimPrefix(a, "--id="))
		}
	}
	if id < 0 {
		return fmt.Errorf("background sandbox: no probe id in %q", args)
	}
	if err := ctx.Scope().AddTasks(1); err != nil {
		return err
	}
	go func() {
		defer ctx.Scope().DoneTask()
		if e := b.p.section(id); e != nil {
			ctx.Scope().AppendError(e)
		}
	}()
	return nil
}

type bgBuilder struct{ p *pipeRun }

func (b bgBuilder) Is(name string) bool { return name == "c15bg" }
func (b bgBuilder) Build(name string) (pipservices.Sandbox, error) {
	return bgSandbox{b.p}, nil
}
