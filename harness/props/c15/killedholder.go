package main

// pipeKilledHolder: A runs in a context of its own and is gated inside its body while it holds x
// for writing; A's scope is then ended from outside (Kill / AppendError). The body is still
// running – the gate is closed –, so x is still held: B, submitted from the application's own
// context with the same resource, must not begin before A's body is over. When the gate opens
// B gets its turn.

import (
	"fmt"
	"math/rand"
	"time"

	"verif/internal/sup"

	"github.com/goatcms/goatcore/app/gio"
	"github.com/goatcms/goatcore/app/goatapp"
	"github.com/goatcms/goatcore/app/scope"
	"github.com/goatcms/goatcore/app/scope/contextscope"
)

func pipeKilledHolder(c *sup.Child, idx int, rng *rand.Rand, viol *int) {
	x := []string{"a", "b", "res_1", "@g"}[rng.Intn(4)]
	a := &pipeTask{ID: 0, WList: []string{x}, Req: map[string]bool{x: true}, Gated: true}
	b := &pipeTask{ID: 1, Req: map[string]bool{x: rng.Intn(3) > 0}}
	if b.Req[x] {
		b.WList = []string{x}
	} else {
		b.RList = []string{x}
	}
	how := rng.Intn(2)
	ts := []*pipeTask{a, b}
	c.Case(idx, map[string]any{"kind": "pipe-killed-holder", "lines": taskLines(ts), "holder_ended_by": []string{"Kill", "AppendError"}[how]}, func(r *sup.CaseResult) {
		defer func() { *viol += len(r.Violations) }()
		p := newPipeRun(ts)
		mapp, _, term, err := newPipeApp(p, goatapp.Params{})
		if err != nil {
			r.Inconclusive = "application stack could not be built: " + err.Error()
			return
		}
		desc := fmt.Sprintf("pipe killed holder: %q gated inside its body in a context of its own, that context ended by %s, then %q", a.line(), []string{"Kill", "AppendError"}[how], b.line())
		r.Key = desc
		ctxA := gio.NewChildIOContext(mapp.IOContext(), gio.ChildIOContextParams{Scope: scope.ChildParams{
			ContextScope: contextscope.NewIsolated(mapp.Scopes().App().BaseContextScope())}})
		errA, errB := make(chan error, 1), make(chan error, 1)
		go func() {
			e := term.RunString(ctxA, a.line())
			ctxA.Scope().Wait()
			func() {
				defer func() { recover() }()
				ctxA.Close()
			}()
			errA <- e
		}()
		if w, _ := awaitBodyOrPark(p, 0); w != "entered" {
			r.Inconclusive = desc + ": A's body never began"
			return
		}
		if how == 0 {
			ctxA.Scope().Kill()
		} else {
			ctxA.Scope().AppendError(fmt.Errorf("the holder's scope fails"))
		}
		for k := 0; k < 50; k++ { // let whoever watches the scope react
			time.Sleep(100 * time.Microsecond)
		}
		go func() { errB <- submit(mapp, term, b.line()) }()
		w, _ := awaitBodyOrPark(p, 1)
		r.AddObs("pipe_holders_whose_scope_ended_inside_the_body", 1)
		if w == "entered" {
			r.Violate("pipe-exclusion-scripted", desc+": B's body began while A's body (holding the same resource for writing) was still running", nil)
			close(p.gates[0])
			return
		}
		close(p.gates[0])
		select {
		case <-errA: // A ended with the error of its own scope: expected
		case <-time.After(watchdogS * time.Second):
			r.Inconclusive = desc + ": A did not finish"
			return
		}
		if w != "parked" {
			r.AddObs("pipe_killed_holder_runs_without_a_queued_verdict", 1)
		}
		w2, d2 := awaitBodyOrPark(p, 1)
		if w2 == "parked" {
			if lost, _ := turnLost(); lost {
				r.Violate("pipe-deadlock", desc+": A is over, B is still parked inside SharedMutex.Lock and nobody is on the way to release anything", d2)
				return
			}
		}
		select {
		case e := <-errB:
			if e != nil {
				r.Violate("pipe-task-error", fmt.Sprintf("%s: B returned an error: %v", desc, e), nil)
			}
		case <-time.After(watchdogS * time.Second):
			r.Inconclusive = desc + ": B did not finish"
			return
		}
		r.AddObs("pipe_tasks_that_got_their_turn_after_a_killed_holder_left", 1)
		r.AddObs("histories_checked", 1)
		r.Nontrivial = true
		mapp.Scopes().App().Close()
	})
}
