package main

import (
	"fmt"
	"math/rand"
	"strings"
	"time"

	"verif/internal/sup"

	"github.com/goatcms/goatcore/app/gio"
	"github.com/goatcms/goatcore/app/goatapp"
	"github.com/goatcms/goatcore/app/scope"
	"github.com/goatcms/goatcore/app/scope/contextscope"
)

// parkedStates are wait reasons of a goroutine that runs again only when another goroutine acts.
var parkedStates = map[string]bool{"select": true, "chan receive": true, "chan send": true, "select (no cases)": true}

// turnLost takes one snapshot: true iff at least one goroutine is parked inside the runner or the
// shared mutex, and no goroutine with a frame of the runner, the mutex package or a sandbox is in
// any other state (nobody is on its way to release anything).
func turnLost() (bool, string) {
	var sb strings.Builder
	parked := 0
	for id, g := range dumpAll() {
		if leakedRunGo[id] {
			continue
		}
		rel := false
		for _, f := range g.frames {
			if strings.Contains(f, "pipservices/runner.") || strings.Contains(f, mutexPkgFrag) || strings.Contains(f, "selfsb.") || strings.Contains(f, "termexec.") {
				rel = true
			}
		}
		if !rel {
			continue
		}
		if !(syncWait[g.state] || parkedStates[g.state]) {
			return false, ""
		}
		parked++
		sb.WriteString(g.raw + "\n\n")
	}
	return parked > 0, sb.String()
}

// pipeKilledWaiter: through the real runner – A is gated inside its body holding x for writing,
// B asks for x and has to queue; B's scope is killed while it queues; A leaves. C, submitted
// afterwards with the same resource, must get its turn: "any set of holders … always all get
// their turn", whatever happened to a holder that never got in.
func pipeKilledWaiter(c *sup.Child, idx int, rng *rand.Rand, viol *int) {
	x := []string{"a", "b", "res_1"}[rng.Intn(3)]
	a := &pipeTask{ID: 0, WList: []string{x}, Req: map[string]bool{x: true}, Gated: true}
	b := &pipeTask{ID: 1, WList: []string{x}, Req: map[string]bool{x: true}}
	cc := &pipeTask{ID: 2, Req: map[string]bool{x: rng.Intn(2) == 0}}
	if cc.Req[x] {
		cc.WList = []string{x}
	} else {
		cc.RList = []string{x}
	}
	how := rng.Intn(3) // how B's scope ends while it queues
	ts := []*pipeTask{a, b, cc}
	c.Case(idx, map[string]any{"kind": "pipe-killed-waiter", "lines": taskLines(ts), "queued_task_ended_by": []string{"Kill", "Stop", "AppendError"}[how]}, func(r *sup.CaseResult) {
		defer func() { *viol += len(r.Violations) }()
		p := newPipeRun(ts)
		mapp, _, term, err := newPipeApp(p, goatapp.Params{})
		if err != nil {
			r.Inconclusive = "application stack could not be built: " + err.Error()
			return
		}
		desc := fmt.Sprintf("pipe killed waiter: %q gated inside, %q queued and its scope ended, then %q", a.line(), b.line(), cc.line())
		r.Key = desc
		errA, errB, errC := make(chan error, 1), make(chan error, 1), make(chan error, 1)
		go func() { errA <- submit(mapp, term, a.line()) }()
		if w, _ := awaitBodyOrPark(p, 0); w != "entered" {
			r.Inconclusive = desc + ": A's body never began"
			return
		}
		// B lives in a context of its own (an isolated child of the application's): ending it must
		// not end anybody else
		ctxB := gio.NewChildIOContext(mapp.IOContext(), gio.ChildIOContextParams{Scope: scope.ChildParams{
			ContextScope: contextscope.NewIsolated(mapp.Scopes().App().BaseContextScope())}})
		go func() {
			e := term.RunString(ctxB, b.line())
			ctxB.Scope().Wait()
			func() {
				defer func() { recover() }()
				ctxB.Close()
			}()
			errB <- e
		}()
		if w, _ := awaitBodyOrPark(p, 1); w != "parked" {
			if w == "entered" {
				r.Violate("pipe-exclusion-scripted", desc+": B's body began while A holds the same resource for writing", nil)
			} else {
				r.Inconclusive = desc + ": B neither began nor was seen queued"
			}
			close(p.gates[0])
			return
		}
		switch how {
		case 0:
			ctxB.Scope().Kill()
		case 1:
			ctxB.Scope().Stop()
		default:
			ctxB.Scope().AppendError(fmt.Errorf("the queued task's scope fails"))
		}
		for k := 0; k < 50; k++ { // let whoever watches the scope react before A leaves
			time.Sleep(100 * time.Microsecond)
		}
		close(p.gates[0])
		select {
		case e := <-errA:
			if e != nil {
				r.Violate("pipe-task-error", fmt.Sprintf("%s: A returned an error: %v", desc, e), nil)
			}
		case <-time.After(watchdogS * time.Second):
			r.Inconclusive = desc + ": A did not finish"
			return
		}
		go func() { errC <- submit(mapp, term, cc.line()) }()
		// C enters its body, or the snapshot condition "somebody is parked in the runner / the
		// mutex and nobody else is on the way" holds in two consecutive looks
		consecutive, raw := 0, ""
		entered := false
		for i := 0; i < 40000 && !entered; i++ {
			d := 20 * time.Microsecond << uint(min(i/40, 6))
			select {
			case <-p.begun[2]:
				entered = true
				continue
			case <-time.After(d):
			}
			if lost, dump := turnLost(); lost {
				consecutive++
				raw = dump
				if consecutive >= 3 {
					select {
					case <-p.begun[2]:
						entered = true
					default:
					}
					break
				}
			} else {
				consecutive = 0
			}
		}
		r.AddObs("pipe_killed_waiter_runs", 1)
		if !entered {
			if consecutive >= 3 {
				r.Violate("pipe-turn-lost", fmt.Sprintf("%s: A has left, B's scope was ended while it queued, and C never gets %q: every goroutine of the runner and the mutex is parked, nobody holds a section", desc, x), raw)
				for id, g := range dumpAll() {
					for _, f := range g.frames {
						if strings.Contains(f, runGoFrag) || strings.Contains(f, mutexPkgFrag) {
							leakedRunGo[id] = true
						}
					}
				}
			} else {
				r.Inconclusive = desc + ": C neither began nor was the runner seen at rest"
			}
			return
		}
		r.AddObs("pipe_later_holder_got_its_turn_after_a_queued_task_was_ended", 1)
		r.Nontrivial = true
		select {
		case e := <-errC:
			if e != nil {
				r.Violate("pipe-task-error", fmt.Sprintf("%s: C returned an error: %v", desc, e), nil)
			}
		case <-time.After(watchdogS * time.Second):
			r.Inconclusive = desc + ": C did not finish"
			return
		}
		select {
		case <-errB:
		case <-time.After(watchdogS * time.Second):
			r.Inconclusive = desc + ": the ended task B never returned"
			return
		}
		checkPipeLog(p, r, "pipe-killed-waiter")
		mapp.Scopes().App().Close()
	})
}
