package main

import (
	"bytes"
	"encoding/json"
	"fmt"
	"math/rand"
	"sort"
	"strings"
	"unicode/utf8"
)

// ---- reference functions (written from the property text, not from plainmap) ---------------

// refFlatten: nested map -> dotted keys. Only map[string]interface{} is a sub-map; every other
// value (including other map kinds) is a leaf.
func refFlatten(m map[string]interface{}) map[string]interface{} {
	out := map[string]interface{}{}
	var walk func(prefix string, n map[string]interface{})
	walk = func(prefix string, n map[string]interface{}) {
		for k, v := range n {
			key := k
			if prefix != "" {
				key = prefix + "." + k
			}
			if sub, ok := v.(map[string]interface{}); ok {
				walk(key, sub)
				continue
			}
			out[key] = v
		}
	}
	walk("", m)
	return out
}

// refNest: prefix-free dotted keys (non-empty segments) -> nested map.
func refNest(flat map[string]interface{}) map[string]interface{} {
	out := map[string]interface{}{}
	for k, v := range flat {
		segs := strings.Split(k, ".")
		n := out
		for _, s := range segs[:len(segs)-1] {
			sub, ok := n[s].(map[string]interface{})
			if !ok {
				sub = map[string]interface{}{}
				n[s] = sub
			}
			n = sub
		}
		n[segs[len(segs)-1]] = v
	}
	return out
}

func strFlatToAny(f map[string]string) map[string]interface{} {
	out := make(map[string]interface{}, len(f))
	for k, v := range f {
		out[k] = v
	}
	return out
}

// refJSONFlat: what the statement promises for a decoded JSON value: every string or number
// leaf reachable through objects only, keyed by the dotted path; other leaf kinds skipped.
func refJSONFlat(v interface{}) map[string]string {
	out := map[string]string{}
	var walk func(prefix string, n interface{})
	walk = func(prefix string, n interface{}) {
		obj, ok := n.(map[string]interface{})
		if !ok {
			return
		}
		for k, c := range obj {
			key := k
			if prefix != "" {
				key = prefix + "." + k
			}
			switch x := c.(type) {
			case map[string]interface{}:
				walk(key, x)
			case string:
				out[key] = x
			case json.Number:
				out[key] = string(x)
			}
		}
	}
	walk("", v)
	return out
}

func sortedKeys(m map[string]string) []string {
	ks := make([]string, 0, len(m))
	for k := range m {
		ks = append(ks, k)
	}
	sort.Strings(ks)
	return ks
}

// canonFlat is a canonical printable form of a flat string map.
func canonFlat(m map[string]string) string {
	var sb strings.Builder
	for _, k := range sortedKeys(m) {
		fmt.Fprintf(&sb, "%q=%q;", k, m[k])
	}
	return sb.String()
}

// diffFlat describes the first differences between two flat maps.
func diffFlat(got, want map[string]string) string {
	var parts []string
	for _, k := range sortedKeys(want) {
		g, ok := got[k]
		if !ok {
			parts = append(parts, fmt.Sprintf("key %q missing (want %q)", k, want[k]))
		} else if g != want[k] {
			parts = append(parts, fmt.Sprintf("key %q = %q, want %q", k, g, want[k]))
		}
		if len(parts) >= 4 {
			break
		}
	}
	for _, k := range sortedKeys(got) {
		if _, ok := want[k]; !ok {
			parts = append(parts, fmt.Sprintf("unexpected key %q = %q", k, got[k]))
			if len(parts) >= 6 {
				break
			}
		}
	}
	return strings.Join(parts, "; ")
}

// ---- string generators ------------------------------------------------------------------

var (
	plainRunes   = []rune("abcdefgXYZ0189_-")
	punctRunes   = []rune(" !#$&'()*+,-/:;<=>?@[]^`{|}~")
	escRunes     = []rune{'"', '\\', '/', '\n', '\t', '\r', '\b', '\f'}
	ctrlRunes    = []rune{0x00, 0x01, 0x02, 0x0b, 0x0e, 0x1b, 0x1f, 0x7f}
	latinRunes   = []rune("éüñßøÅ¿ \u0080ÿ")
	bmpRunes     = []rune{0x0142, 0x0416, 0x4e2d, 0x6587, 0x2028, 0x2029, 0x200b, 0xfeff, 0xfffd, 0xffff, 0xd7ff, 0xe000, 0x20ac}
	astralRunes  = []rune{0x1f600, 0x1f4a9, 0x10000, 0x10ffff, 0x1d11e, 0x2070e}
	nearDotRunes = []rune{'-', '/', '!', '0', ' ', ',', '+'}
)

type strOpts struct {
	maxLen    int
	noDot     bool
	noPercent bool
	nonEmpty  bool
}

// genStr draws a valid-UTF-8 string over all character classes.
func genStr(rng *rand.Rand, o strOpts) string {
	n := rng.Intn(o.maxLen + 1)
	if rng.Intn(25) == 0 {
		n = o.maxLen + rng.Intn(o.maxLen*8+1) // occasionally long (beyond small stack buffers)
	}
	if o.nonEmpty && n == 0 {
		n = 1
	}
	mode := rng.Intn(6) // 0: plain only, 1: escape-heavy, else mixed
	var sb strings.Builder
	for i := 0; i < n; i++ {
		var r rune
		cls := rng.Intn(12)
		switch {
		case mode == 0:
			cls = 0
		case mode == 1 && rng.Intn(2) == 0:
			cls = 2
		}
		switch cls {
		case 0, 1, 8:
			r = plainRunes[rng.Intn(len(plainRunes))]
		case 2, 9:
			r = escRunes[rng.Intn(len(escRunes))]
		case 3:
			r = ctrlRunes[rng.Intn(len(ctrlRunes))]
		case 4:
			r = latinRunes[rng.Intn(len(latinRunes))]
		case 5:
			r = bmpRunes[rng.Intn(len(bmpRunes))]
		case 6:
			r = astralRunes[rng.Intn(len(astralRunes))]
		case 7:
			r = punctRunes[rng.Intn(len(punctRunes))]
		case 10:
			r = '.'
		default:
			r = '%'
		}
		if o.noDot && r == '.' {
			r = nearDotRunes[rng.Intn(len(nearDotRunes))]
		}
		if o.noPercent && r == '%' {
			r = 'p'
		}
		sb.WriteRune(r)
	}
	s := sb.String()
	if !utf8.ValidString(s) {
		panic("generator produced invalid utf-8")
	}
	return s
}

var keyPool = []string{"a", "b", "c", "en", "pl", "form", "title", "a-b", "a/b", "a b", "a!", "a0", "A", "é"}

// genKey draws a dot-free, non-empty object key.
func genKey(rng *rand.Rand, weird bool) string {
	if !weird || rng.Intn(3) != 0 {
		return keyPool[rng.Intn(len(keyPool))]
	}
	return genStr(rng, strOpts{maxLen: 6, noDot: true, nonEmpty: true})
}

var numberForms = []string{"0", "-0", "1", "11", "-7", "0.5", "-0.25", "3.14159", "1e5", "1E5", "1e+5", "2E-3", "-1.5e10",
	"123456789012345678901234567890", "0.000", "1.0", "9007199254740993", "-9223372036854775808", "1e400", "4.9e-324"}

func genNumber(rng *rand.Rand) json.Number {
	if rng.Intn(2) == 0 {
		return json.Number(numberForms[rng.Intn(len(numberForms))])
	}
	var sb strings.Builder
	if rng.Intn(3) == 0 {
		sb.WriteByte('-')
	}
	if rng.Intn(5) == 0 {
		sb.WriteByte('0')
	} else {
		sb.WriteByte(byte('1' + rng.Intn(9)))
		for i := rng.Intn(8); i > 0; i-- {
			sb.WriteByte(byte('0' + rng.Intn(10)))
		}
	}
	if rng.Intn(3) == 0 {
		sb.WriteByte('.')
		for i := 1 + rng.Intn(5); i > 0; i-- {
			sb.WriteByte(byte('0' + rng.Intn(10)))
		}
	}
	if rng.Intn(4) == 0 {
		sb.WriteByte("eE"[rng.Intn(2)])
		sb.WriteString([]string{"", "+", "-"}[rng.Intn(3)])
		sb.WriteByte(byte('0' + rng.Intn(10)))
		if rng.Intn(2) == 0 {
			sb.WriteByte(byte('0' + rng.Intn(10)))
		}
	}
	return json.Number(sb.String())
}

type treeOpts struct {
	maxDepth    int
	maxWidth    int
	weirdKeys   bool
	onlyStrings bool // leaves are strings only
	noEmptyObj  bool
	val         strOpts
}

// genJSONTree draws a JSON object: nested objects, string/number leaves, and (unless
// onlyStrings) leaves of the kinds that must be skipped: bool, null, arrays.
func genJSONTree(rng *rand.Rand, o treeOpts, depth int) map[string]interface{} {
	n := rng.Intn(o.maxWidth + 1)
	if o.noEmptyObj && n == 0 {
		n = 1
	}
	out := map[string]interface{}{}
	for len(out) < n {
		k := genKey(rng, o.weirdKeys)
		if _, dup := out[k]; dup {
			k = k + fmt.Sprintf("%d", len(out))
			if _, dup2 := out[k]; dup2 {
				continue
			}
		}
		c := rng.Intn(10)
		switch {
		case c < 3 && depth < o.maxDepth:
			out[k] = genJSONTree(rng, o, depth+1)
		case o.onlyStrings || c < 7:
			out[k] = genStr(rng, o.val)
		case c == 7:
			out[k] = genNumber(rng)
		default:
			out[k] = genSkipped(rng, o, depth)
		}
	}
	return out
}

func genSkipped(rng *rand.Rand, o treeOpts, depth int) interface{} {
	switch rng.Intn(6) {
	case 0:
		return true
	case 1:
		return false
	case 2:
		return nil
	case 3:
		return []interface{}{}
	case 4:
		// array holding strings with structural characters and an object (all to be skipped)
		sub := o
		sub.maxDepth = depth // no deeper objects below the array's object
		return []interface{}{genStr(rng, o.val), "]}{[\",", genNumber(rng), genJSONTree(rng, sub, depth), []interface{}{"x", nil}}
	default:
		return []interface{}{genNumber(rng), true, nil}
	}
}

// ---- second JSON renderer: varies whitespace and escape spelling ------------------------------

type renderer struct {
	rng *rand.Rand
	ws  int // 0 none, 1 sparse, 2 heavy
	esc int // percentage of optional \uXXXX spellings
	buf bytes.Buffer
}

func (rd *renderer) space() {
	var n int
	switch rd.ws {
	case 0:
		return
	case 1:
		if rd.rng.Intn(3) != 0 {
			return
		}
		n = 1
	default:
		n = rd.rng.Intn(4)
	}
	for i := 0; i < n; i++ {
		rd.buf.WriteByte(" \t\n\r"[rd.rng.Intn(4)])
	}
}

func (rd *renderer) hex4(v rune) {
	digits := "0123456789abcdef"
	if rd.rng.Intn(2) == 0 {
		digits = "0123456789ABCDEF"
	}
	rd.buf.WriteString(`\u`)
	for sh := 12; sh >= 0; sh -= 4 {
		d := digits[(v>>uint(sh))&0xf]
		// mixed case inside one escape now and then
		if rd.rng.Intn(8) == 0 && d >= 'a' && d <= 'f' {
			d = d - 'a' + 'A'
		}
		rd.buf.WriteByte(d)
	}
}

var shortEsc = map[rune]byte{'"': '"', '\\': '\\', '/': '/', '\b': 'b', '\f': 'f', '\n': 'n', '\r': 'r', '\t': 't'}

func (rd *renderer) str(s string) {
	rd.buf.WriteByte('"')
	for _, r := range s {
		must := r < 0x20 || r == '"' || r == '\\'
		if se, ok := shortEsc[r]; ok && (must || rd.rng.Intn(100) < rd.esc) && rd.rng.Intn(4) != 0 {
			rd.buf.WriteByte('\\')
			rd.buf.WriteByte(se)
			continue
		}
		if must || rd.rng.Intn(100) < rd.esc {
			if r > 0xffff {
				v := r - 0x10000
				rd.hex4(0xd800 + (v >> 10))
				rd.hex4(0xdc00 + (v & 0x3ff))
			} else {
				rd.hex4(r)
			}
			continue
		}
		rd.buf.WriteRune(r)
	}
	rd.buf.WriteByte('"')
}

func (rd *renderer) value(v interface{}) {
	switch x := v.(type) {
	case map[string]interface{}:
		keys := make([]string, 0, len(x))
		for k := range x {
			keys = append(keys, k)
		}
		sort.Strings(keys)
		rd.rng.Shuffle(len(keys), func(i, j int) { keys[i], keys[j] = keys[j], keys[i] })
		rd.buf.WriteByte('{')
		rd.space()
		for i, k := range keys {
			if i > 0 {
				rd.buf.WriteByte(',')
				rd.space()
			}
			rd.str(k)
			rd.space()
			rd.buf.WriteByte(':')
			rd.space()
			rd.value(x[k])
			rd.space()
		}
		rd.buf.WriteByte('}')
	case []interface{}:
		rd.buf.WriteByte('[')
		rd.space()
		for i, e := range x {
			if i > 0 {
				rd.buf.WriteByte(',')
				rd.space()
			}
			rd.value(e)
			rd.space()
		}
		rd.buf.WriteByte(']')
	case string:
		rd.str(x)
	case json.Number:
		rd.buf.WriteString(string(x))
	case bool:
		if x {
			rd.buf.WriteString("true")
		} else {
			rd.buf.WriteString("false")
		}
	case nil:
		rd.buf.WriteString("null")
	default:
		panic(fmt.Sprintf("renderer: unsupported %T", v))
	}
}

// renderVaried renders a tree with the second renderer.
func renderVaried(rng *rand.Rand, tree map[string]interface{}) []byte {
	rd := &renderer{rng: rng, ws: rng.Intn(3), esc: []int{0, 10, 40, 100}[rng.Intn(4)]}
	rd.space()
	rd.value(tree)
	rd.space()
	return append([]byte{}, rd.buf.Bytes()...)
}

// renderStd renders a tree with encoding/json in one of its spellings.
func renderStd(rng *rand.Rand, tree map[string]interface{}) ([]byte, error) {
	var buf bytes.Buffer
	enc := json.NewEncoder(&buf)
	enc.SetEscapeHTML(rng.Intn(2) == 0)
	if rng.Intn(2) == 0 {
		enc.SetIndent([]string{"", "\t", " "}[rng.Intn(3)], []string{"  ", "\t", "    "}[rng.Intn(3)])
	}
	if err := enc.Encode(tree); err != nil {
		return nil, err
	}
	return buf.Bytes(), nil
}

// decodeStd is the standard decoder of the statement.
func decodeStd(doc []byte) (interface{}, error) {
	dec := json.NewDecoder(bytes.NewReader(doc))
	dec.UseNumber()
	var v interface{}
	if err := dec.Decode(&v); err != nil {
		return nil, err
	}
	return v, nil
}

func clip(s string, n int) string {
	if len(s) > n {
		return s[:n] + "…"
	}
	return s
}
