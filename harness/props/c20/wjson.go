package main

// wjson – the file side of the config path: filesystem/json.WriteJSON followed by ReadJSON.
// A flat string map (and a nested map of string leaves) written as JSON and read back is the
// same map, for all values: control characters, the characters the writer chooses to show
// unescaped (< > &), and values that merely look like escapes ("<" as six characters).

import (
	"fmt"
	"math/rand"
	"reflect"

	"verif/internal/sup"

	"github.com/goatcms/goatcore/filesystem/filespace/memfs"
	fsjson "github.com/goatcms/goatcore/filesystem/json"
	"github.com/goatcms/goatcore/varutil/plainmap"
)

var escapeLookalikes = []string{`<`, `>`, `&`, `\\u003c`, `\u003`, `<`, `<`, `>`, `&`, `\`, `\\`, `\u0000`, `\n`, `"`, `\"`, "\x1b", "\x07", "\x1f", " "}

func genTrickyStr(rng *rand.Rand, maxLen int) string {
	switch rng.Intn(4) {
	case 0:
		return genStr(rng, strOpts{maxLen: maxLen})
	case 1:
		s := ""
		for i, n := 0, 1+rng.Intn(4); i < n; i++ {
			s += escapeLookalikes[rng.Intn(len(escapeLookalikes))]
		}
		return s
	default:
		s := genStr(rng, strOpts{maxLen: maxLen / 2})
		s += escapeLookalikes[rng.Intn(len(escapeLookalikes))]
		return s + genStr(rng, strOpts{maxLen: maxLen / 2})
	}
}

func runWJSON(c *sup.Child, b sup.Batch) {
	for idx := b.From; idx < b.To; idx++ {
		rng := c.Rand(idx)
		flat := map[string]string{}
		for i, n := 0, 1+rng.Intn(6); i < n; i++ {
			k := genKey(rng, idx%2 == 1)
			if rng.Intn(4) == 0 {
				k = genTrickyStr(rng, 6)
			}
			flat[k] = genTrickyStr(rng, 12)
		}
		var genTree func(d int) map[string]interface{}
		genTree = func(d int) map[string]interface{} {
			out := map[string]interface{}{}
			for i, n := 0, 1+rng.Intn(4); i < n; i++ {
				k := genKey(rng, false) + fmt.Sprint(i)
				if d < 3 && rng.Intn(3) == 0 {
					out[k] = genTree(d + 1)
				} else {
					out[k] = genTrickyStr(rng, 10)
				}
			}
			return out
		}
		tree := genTree(0)
		c.Case(idx, map[string]any{"kind": "wjson", "flat": fmt.Sprintf("%q", flat), "tree": fmt.Sprintf("%q", tree)}, func(r *sup.CaseResult) {
			fs, err := memfs.NewFilespace()
			if err != nil {
				r.Inconclusive = "memfs: " + err.Error()
				return
			}
			wit := map[string]any{"flat": fmt.Sprintf("%q", flat)}
			if err := fsjson.WriteJSON(fs, "config/flat.json", flat); err != nil {
				r.Violate("config-write-error", fmt.Sprintf("WriteJSON(%q): %v", flat, err), wit)
				return
			}
			raw, _ := fs.ReadFile("config/flat.json")
			wit["written"] = fmt.Sprintf("%q", raw)
			back := map[string]string{}
			if err := fsjson.ReadJSON(fs, "config/flat.json", &back); err != nil {
				r.Violate("config-roundtrip-error", fmt.Sprintf("the flat map %q written by WriteJSON (%q) cannot be read back by ReadJSON: %v", flat, raw, err), wit)
			} else if !reflect.DeepEqual(back, flat) {
				r.Violate("config-roundtrip-mismatch", fmt.Sprintf("the flat map %q written by WriteJSON (%q) reads back as %q", flat, raw, back), wit)
			}
			r.AddObs("flat_maps_written_as_a_json_file_and_read_back", 1)
			r.AddObs("wjson_values", int64(len(flat)))
			// the nested config map: write, load, flatten
			want, err := plainmap.RecursiveMapToPlainMap(tree)
			if err != nil {
				r.Inconclusive = "flatten of the generated tree: " + err.Error()
				return
			}
			if err := fsjson.WriteJSON(fs, "config/config_dev.json", tree); err != nil {
				r.Violate("config-write-error", fmt.Sprintf("WriteJSON(%q): %v", tree, err), nil)
				return
			}
			raw2, _ := fs.ReadFile("config/config_dev.json")
			cfg := map[string]interface{}{}
			if err := fsjson.ReadJSON(fs, "config/config_dev.json", &cfg); err != nil {
				r.Violate("config-roundtrip-error", fmt.Sprintf("the config map %q written by WriteJSON (%q) cannot be loaded by ReadJSON: %v", tree, raw2, err), map[string]any{"tree": fmt.Sprintf("%q", tree)})
				return
			}
			got, err := plainmap.RecursiveMapToPlainMap(cfg)
			if err != nil || !reflect.DeepEqual(got, want) {
				r.Violate("config-roundtrip-mismatch", fmt.Sprintf("the config map %q written, loaded and flattened gives %q (err %v), want %q", tree, got, err, want), map[string]any{"tree": fmt.Sprintf("%q", tree), "written": fmt.Sprintf("%q", raw2)})
			}
			r.AddObs("config_maps_written_loaded_and_flattened", 1)
			r.Key = fmt.Sprintf("wjson|%q|%q", flat, tree)
			r.Nontrivial = true
			if idx%400 == 0 {
				r.Sample = map[string]any{"kind": "map written by WriteJSON and read back", "flat": fmt.Sprintf("%q", flat), "file": fmt.Sprintf("%q", raw)}
			}
		})
	}
}
