// C20 – config and translation maps survive flattening, JSON and loading unchanged.
//
// Monitors (DESIGN.md "### C20"):
//
//	flat  – flatten/rebuild are mutually inverse (random nested maps and prefix-free flat maps),
//	        each direction also compared with a reference written from the statement
//	jread – JSON object -> flat string map vs encoding/json (Decoder+UseNumber) on documents
//	        rendered by encoding/json and by a second renderer varying whitespace/escapes
//	cfg   – the config path: filesystem/json.ReadJSON + RecursiveMapToPlainMap vs encoding/json
//	jexh  – flat -> JSON -> flat, bounded-exhaustive over short values of a hostile alphabet
//	jrt   – flat -> JSON -> flat on random prefix-free maps over all character classes
//	load  – fsi18loader.Load on random directory layouts under schedule noise (see loader.go)
//	storm – the same tiny directory loaded 100 times with the smallest worker pools
package main

import (
	"encoding/json"
	"fmt"
	"math/rand"
	"reflect"
	"sort"
	"strings"

	"verif/internal/sup"

	"github.com/goatcms/goatcore/filesystem/filespace/memfs"
	fsjson "github.com/goatcms/goatcore/filesystem/json"
	"github.com/goatcms/goatcore/varutil/plainmap"
)

func plan(tier string, seed int64) []sup.Batch {
	nFlat, nRead, nCfg, nRT, exhLen, nLoad, nStorm := 6000, 8000, 800, 6000, 3, 160, 150
	if tier == "thorough" {
		nFlat, nRead, nCfg, nRT, exhLen, nLoad, nStorm = 60000, 120000, 6000, 80000, 5, 1500, 1500
	}
	var bs []sup.Batch
	// the loader batches first (they are the long ones); the 16-proc batch takes every slot
	for _, pc := range [][2]int{{16, 1}, {4, 2}, {2, 4}, {1, 4}} {
		p, parts := pc[0], pc[1]
		for _, b := range sup.Chunk(fmt.Sprintf("load-p%d", p), fmt.Sprintf("load%d", p), nLoad, (nLoad+parts-1)/parts, p, map[string]any{"procs": p}) {
			b.TimeoutS = 2400
			bs = append(bs, b)
		}
	}
	for _, p := range []int{2, 4} {
		bs = append(bs, sup.Chunk(fmt.Sprintf("storm-p%d", p), fmt.Sprintf("storm%d", p), nStorm, (nStorm+1)/2, p, map[string]any{"reps": 100})...)
	}
	bs = append(bs, sup.Chunk("flat", "flat", nFlat, (nFlat+3)/4, 1, nil)...)
	bs = append(bs, sup.Chunk("jread", "jread", nRead, (nRead+7)/8, 1, nil)...)
	bs = append(bs, sup.Chunk("cfg", "cfg", nCfg, nCfg, 1, nil)...)
	bs = append(bs, sup.Chunk("wjson", "wjson", nCfg*2, nCfg*2, 1, nil)...)
	nexh := exhValueCount(exhLen) + exhPairCount()
	bs = append(bs, sup.Chunk("jexh", "jexh", nexh, (nexh+3)/4, 1, map[string]any{"len": exhLen})...)
	bs = append(bs, sup.Chunk("jrt", "jrt", nRT, (nRT+7)/8, 1, nil)...)
	return bs
}

// ---- part 1: flatten / rebuild ---------------------------------------------------------------

type leafStruct struct {
	A int
	B string
}

func genLeaf(rng *rand.Rand) interface{} {
	switch rng.Intn(14) {
	case 0:
		return genStr(rng, strOpts{maxLen: 8})
	case 1:
		return rng.Intn(1000) - 500
	case 2:
		return int64(rng.Int63())
	case 3:
		return rng.Float64()
	case 4:
		return rng.Intn(2) == 0
	case 5:
		return nil
	case 6:
		return []interface{}{"x.y", rng.Intn(9), map[string]interface{}{"in.list": 1}}
	case 7:
		return []string{"a.b", genStr(rng, strOpts{maxLen: 4})}
	case 8:
		return map[string]string{"x.y": "z", "k": genStr(rng, strOpts{maxLen: 4})} // not a sub-map: a leaf
	case 9:
		return map[string]int{}
	case 10:
		return leafStruct{A: rng.Intn(9), B: "s"}
	case 11:
		return &leafStruct{A: rng.Intn(9)}
	case 12:
		return map[interface{}]interface{}{"k": 1}
	default:
		return ""
	}
}

func genNested(rng *rand.Rand, depth, maxDepth, maxWidth int, weird bool) map[string]interface{} {
	n := 1 + rng.Intn(maxWidth)
	out := map[string]interface{}{}
	for len(out) < n {
		k := genKey(rng, weird)
		if _, dup := out[k]; dup {
			k += fmt.Sprint(len(out))
			if _, dup2 := out[k]; dup2 {
				continue
			}
		}
		if depth < maxDepth && rng.Intn(3) == 0 {
			out[k] = genNested(rng, depth+1, maxDepth, maxWidth, weird)
		} else {
			out[k] = genLeaf(rng)
		}
	}
	return out
}

func countLeaves(m map[string]interface{}) (leaves, depth int) {
	for _, v := range m {
		if sub, ok := v.(map[string]interface{}); ok {
			l, d := countLeaves(sub)
			leaves += l
			if d+1 > depth {
				depth = d + 1
			}
		} else {
			leaves++
		}
	}
	return
}

func sortedAnyKeys(m map[string]interface{}) []string {
	ks := make([]string, 0, len(m))
	for k := range m {
		ks = append(ks, k)
	}
	sort.Strings(ks)
	return ks
}

func runFlat(c *sup.Child, b sup.Batch) {
	for idx := b.From; idx < b.To; idx++ {
		rng := c.Rand(idx)
		maxDepth := 1 + rng.Intn(4)
		nested := genNested(rng, 0, maxDepth, 1+rng.Intn(5), idx%2 == 0)
		sharedSub := false
		if idx%5 == 2 {
			// one sub-map value stored under two keys (several sections filled from one defaults
			// map): the value is acyclic, flattening gives one dotted key per leaf and path
			for _, k := range sortedAnyKeys(nested) {
				if sub, ok := nested[k].(map[string]interface{}); ok && len(sub) > 0 {
					nested["zz_same_map_again"] = sub
					if deeper, ok := sub[sortedAnyKeys(sub)[0]].(map[string]interface{}); ok && len(deeper) > 0 {
						nested["zz_deeper_again"] = deeper
					}
					sharedSub = true
					break
				}
			}
		}
		desc := map[string]any{"kind": "flat", "nested": clip(fmt.Sprintf("%#v", nested), 1500), "one_sub_map_under_two_keys": sharedSub}
		c.Case(idx, desc, func(r *sup.CaseResult) {
			wit := map[string]any{"nested": fmt.Sprintf("%#v", nested)}
			leaves, depth := countLeaves(nested)
			// direction 1: nested -> flat -> nested
			flat, err := plainmap.RecursiveMapToPlainMap(nested)
			if err != nil {
				r.Violate("flatten-error", fmt.Sprintf("RecursiveMapToPlainMap(%#v): %v", nested, err), wit)
				return
			}
			want := refFlatten(nested)
			if !reflect.DeepEqual(flat, want) {
				r.Violate("flatten-mismatch", fmt.Sprintf("RecursiveMapToPlainMap(%#v) = %#v, want %#v", nested, flat, want), wit)
				return
			}
			back, err := plainmap.ToRecursiveMap(flat)
			if err != nil {
				r.Violate("rebuild-error", fmt.Sprintf("ToRecursiveMap(%#v): %v", flat, err), wit)
				return
			}
			if !reflect.DeepEqual(back, nested) {
				r.Violate("rebuild-not-inverse", fmt.Sprintf("ToRecursiveMap(flatten(m)) = %#v, m = %#v", back, nested), wit)
				return
			}
			// direction 2: the flat map (prefix-free by construction) -> nested -> flat
			again, err := plainmap.RecursiveMapToPlainMap(back)
			if err != nil || !reflect.DeepEqual(again, flat) {
				r.Violate("flatten-not-inverse", fmt.Sprintf("flatten(rebuild(f)) = %#v (err %v), f = %#v", again, err, flat), wit)
				return
			}
			if ref := refNest(flat); !reflect.DeepEqual(back, ref) {
				r.Violate("rebuild-mismatch", fmt.Sprintf("ToRecursiveMap(%#v) = %#v, want %#v", flat, back, ref), wit)
				return
			}
			// string flavour of rebuild on a string-only flat map
			sflat := map[string]string{}
			for k := range flat {
				sflat[k] = genStr(rng, strOpts{maxLen: 5})
			}
			sback, err := plainmap.StringMapToRecursiveMap(sflat)
			if err != nil {
				r.Violate("rebuild-error", fmt.Sprintf("StringMapToRecursiveMap(%q): %v", sflat, err), wit)
				return
			}
			if ref := refNest(strFlatToAny(sflat)); !reflect.DeepEqual(sback, ref) {
				r.Violate("rebuild-mismatch", fmt.Sprintf("StringMapToRecursiveMap(%q) = %#v, want %#v", sflat, sback, ref), wit)
				return
			}
			sagain, err := plainmap.RecursiveMapToPlainMap(sback)
			if err != nil || !reflect.DeepEqual(sagain, strFlatToAny(sflat)) {
				r.Violate("flatten-not-inverse", fmt.Sprintf("flatten(StringMapToRecursiveMap(f)) = %#v (err %v), f = %q", sagain, err, sflat), wit)
				return
			}
			r.AddObs("flat_maps", 1)
			if sharedSub {
				r.AddObs("flat_maps_with_one_sub_map_under_two_keys", 1)
			}
			r.AddObs("flat_leaves", int64(leaves))
			r.AddObs("flat_roundtrips_checked", 3)
			if depth > 0 {
				r.AddObs("flat_maps_nested", 1)
			}
			r.Key = "flat:" + fmt.Sprintf("%#v", want)
			r.Nontrivial = depth > 0 && leaves > 1
			if idx%1500 == 0 {
				r.Sample = map[string]any{"kind": "flatten/rebuild", "nested": clip(fmt.Sprintf("%#v", nested), 600), "flat_keys": len(flat)}
			}
		})
	}
}

// ---- part 2: JSON -> flat vs encoding/json ------------------------------------------------------

func valOpts(rng *rand.Rand) strOpts { return strOpts{maxLen: 1 + rng.Intn(14)} }

func runRead(c *sup.Child, b sup.Batch) {
	for idx := b.From; idx < b.To; idx++ {
		rng := c.Rand(idx)
		tree := genJSONTree(rng, treeOpts{maxDepth: rng.Intn(5), maxWidth: 1 + rng.Intn(5), weirdKeys: idx%2 == 1, val: valOpts(rng)}, 0)
		var doc []byte
		how := "varied"
		if idx%3 == 0 {
			how = "encoding/json"
			d, err := renderStd(rng, tree)
			if err != nil {
				c.Case(idx, map[string]any{"kind": "jread"}, func(r *sup.CaseResult) { r.Inconclusive = "encoding/json could not render the tree: " + err.Error() })
				continue
			}
			doc = d
		} else {
			doc = renderVaried(rng, tree)
		}
		c.Case(idx, map[string]any{"kind": "jread", "renderer": how, "doc": fmt.Sprintf("%q", doc)}, func(r *sup.CaseResult) {
			checkRead(r, doc, tree, how, idx%2000 == 0)
		})
	}
}

// checkRead compares JSONToPlainStringMap(doc) with the standard decoder's view of doc.
func checkRead(r *sup.CaseResult, doc []byte, tree map[string]interface{}, how string, sample bool) {
	wit := map[string]any{"doc": fmt.Sprintf("%q", doc)}
	dec, err := decodeStd(doc)
	if err != nil {
		r.Inconclusive = fmt.Sprintf("harness: standard decoder rejects generated document %q: %v", doc, err)
		return
	}
	if tree != nil && !reflect.DeepEqual(dec, interface{}(tree)) {
		r.Inconclusive = fmt.Sprintf("harness: renderer %s does not round-trip through encoding/json: %q", how, doc)
		return
	}
	want := refJSONFlat(dec)
	got, err := plainmap.JSONToPlainStringMap(doc)
	if err != nil {
		r.Violate("json-read-error", fmt.Sprintf("JSONToPlainStringMap(%q): %v (valid for encoding/json)", doc, err), wit)
		return
	}
	if !reflect.DeepEqual(got, want) {
		r.Violate("json-read-mismatch", fmt.Sprintf("JSONToPlainStringMap(%q): %s", doc, diffFlat(got, want)), wit)
		return
	}
	var esc int64
	for _, v := range want {
		if strings.ContainsAny(v, "\"\\\n\t\r\b\f/") || !isPrintableASCII(v) {
			esc++
		}
	}
	r.AddObs("jread_docs", 1)
	r.AddObs("jread_docs_"+strings.ReplaceAll(how, "/", "_"), 1)
	r.AddObs("jread_leaves_compared", int64(len(want)))
	r.AddObs("jread_leaves_needing_decoding", esc)
	r.Key = "jread:" + string(doc)
	r.Nontrivial = len(want) > 0
	if sample {
		r.Sample = map[string]any{"kind": "json->flat", "renderer": how, "doc": clip(string(doc), 500), "leaves": len(want)}
	}
}

func isPrintableASCII(s string) bool {
	for i := 0; i < len(s); i++ {
		if s[i] < 0x20 || s[i] > 0x7e {
			return false
		}
	}
	return true
}

// ---- config path: ReadJSON + flatten ----------------------------------------------------------

func runCfg(c *sup.Child, b sup.Batch) {
	for idx := b.From; idx < b.To; idx++ {
		rng := c.Rand(idx)
		tree := genJSONTree(rng, treeOpts{maxDepth: rng.Intn(4), maxWidth: 1 + rng.Intn(4), weirdKeys: idx%2 == 1, noEmptyObj: true, val: valOpts(rng)}, 0)
		doc := renderVaried(rng, tree)
		c.Case(idx, map[string]any{"kind": "cfg", "doc": fmt.Sprintf("%q", doc)}, func(r *sup.CaseResult) {
			wit := map[string]any{"doc": fmt.Sprintf("%q", doc)}
			fs, err := memfs.NewFilespace()
			if err != nil {
				r.Inconclusive = "memfs: " + err.Error()
				return
			}
			path := "config/config_" + []string{"dev", "prod", "test"}[idx%3] + ".json"
			if err := fs.WriteFile(path, doc, 0644); err != nil {
				r.Inconclusive = "memfs write: " + err.Error()
				return
			}
			// the config path decodes numbers to float64; where the standard decoder itself
			// refuses the document (a number literal beyond float64) ReadJSON has to refuse too
			var std map[string]interface{}
			stdErr := json.Unmarshal(doc, &std)
			cfg := map[string]interface{}{}
			err = fsjson.ReadJSON(fs, path, &cfg)
			if stdErr != nil {
				if err == nil {
					r.Violate("config-read-mismatch", fmt.Sprintf("ReadJSON(%q) succeeded, encoding/json says %v", doc, stdErr), wit)
				}
				r.AddObs("cfg_docs_rejected_by_both", 1)
				return
			}
			if err != nil {
				r.Violate("config-read-error", fmt.Sprintf("ReadJSON(%q): %v", doc, err), wit)
				return
			}
			flat, err := plainmap.RecursiveMapToPlainMap(cfg)
			if err != nil {
				r.Violate("flatten-error", fmt.Sprintf("RecursiveMapToPlainMap(config %q): %v", doc, err), wit)
				return
			}
			if want := refFlatten(std); !reflect.DeepEqual(flat, want) {
				r.Violate("config-flatten-mismatch", fmt.Sprintf("config %q flattened to %#v, want %#v", doc, flat, want), wit)
				return
			}
			back, err := plainmap.ToRecursiveMap(flat)
			if err != nil || !reflect.DeepEqual(back, std) {
				r.Violate("rebuild-not-inverse", fmt.Sprintf("config %q: ToRecursiveMap(flatten(cfg)) = %#v (err %v), want %#v", doc, back, err, std), wit)
				return
			}
			r.AddObs("cfg_docs", 1)
			r.AddObs("cfg_leaves", int64(len(flat)))
			r.Key = "cfg:" + string(doc)
			r.Nontrivial = len(flat) > 0
		})
	}
}

// ---- part 3: flat -> JSON -> flat --------------------------------------------------------------

var exhAlphabet = []string{`"`, `\`, "\n", "\t", "a", "é", "\x01"}

func exhValueCount(maxLen int) int {
	t, p := 0, 1
	for l := 0; l <= maxLen; l++ {
		t += p
		p *= len(exhAlphabet)
	}
	return t
}

// exhValue decodes index -> value (all strings of length 0..maxLen over the alphabet, by length).
func exhValue(idx int) string {
	p := 1
	for l := 0; ; l++ {
		if idx < p {
			var sb strings.Builder
			syms := make([]int, l)
			for i := l - 1; i >= 0; i-- {
				syms[i] = idx % len(exhAlphabet)
				idx /= len(exhAlphabet)
			}
			for _, s := range syms {
				sb.WriteString(exhAlphabet[s])
			}
			return sb.String()
		}
		idx -= p
		p *= len(exhAlphabet)
	}
}

const exhPairLen = 2

func exhPairCount() int { n := exhValueCount(exhPairLen); return n * n }

// checkWrite runs both writers on flat and applies the three oracles of part 3.
func checkWrite(r *sup.CaseResult, flat map[string]string) bool {
	wit := map[string]any{"flat": canonFlat(flat)}
	wantNested := refNest(strFlatToAny(flat))
	for _, w := range []struct {
		name string
		fn   func(map[string]string) (string, error)
	}{{"PlainStringMapToJSON", plainmap.PlainStringMapToJSON}, {"PlainStringMapToFormattedJSON", plainmap.PlainStringMapToFormattedJSON}} {
		out, err := w.fn(flat)
		if err != nil {
			r.Violate("json-write-error", fmt.Sprintf("%s(%s): %v", w.name, canonFlat(flat), err), wit)
			return false
		}
		if !json.Valid([]byte(out)) {
			r.Violate("json-write-invalid", fmt.Sprintf("%s(%s) produced invalid JSON %q", w.name, canonFlat(flat), out), wit)
			return false
		}
		var dec map[string]interface{}
		if err := json.Unmarshal([]byte(out), &dec); err != nil {
			r.Violate("json-write-invalid", fmt.Sprintf("%s(%s) = %q: encoding/json: %v", w.name, canonFlat(flat), out, err), wit)
			return false
		}
		if !reflect.DeepEqual(dec, wantNested) {
			r.Violate("json-write-wrong-document", fmt.Sprintf("%s(%s) = %q decodes to %#v, want %#v", w.name, canonFlat(flat), out, dec, wantNested), wit)
			return false
		}
		back, err := plainmap.JSONToPlainStringMap([]byte(out))
		if err != nil {
			r.Violate("json-roundtrip-error", fmt.Sprintf("reading back %s(%s) = %q: %v", w.name, canonFlat(flat), out, err), wit)
			return false
		}
		if !reflect.DeepEqual(back, flat) {
			r.Violate("json-roundtrip-mismatch", fmt.Sprintf("%s(%s) = %q read back: %s", w.name, canonFlat(flat), out, diffFlat(back, flat)), wit)
			return false
		}
		r.AddObs("write_outputs_checked", 1)
	}
	return true
}

func exhTemplates(v string) []map[string]string {
	ts := []map[string]string{
		{"k": v},
		{"a.b": v, "a.c": "x", "d": v},
		{"a.b.c": v},
	}
	if v != "" {
		// the value as a key segment (the alphabet has no dot)
		ts = append(ts, map[string]string{v: "x", "n." + v: v, "n." + v + "2." + v: "y"})
	}
	return ts
}

func runExh(c *sup.Child, b sup.Batch) {
	maxLen := b.P("len", 3)
	nval := exhValueCount(maxLen)
	npv := exhValueCount(exhPairLen)
	const blk = 400
	for from := b.From; from < b.To; from += blk {
		to := from + blk
		if to > b.To {
			to = b.To
		}
		c.Case(from, map[string]any{"kind": "jexh", "from": from, "to": to, "len": maxLen}, func(r *sup.CaseResult) {
			var maps int64
			for idx := from; idx < to; idx++ {
				var flats []map[string]string
				if idx < nval {
					flats = exhTemplates(exhValue(idx))
				} else {
					p := idx - nval
					v1, v2 := exhValue(p/npv), exhValue(p%npv)
					flats = []map[string]string{{"a": v1, "b": v2}, {"o.x": v1, "o.y": v2, "z": v1 + v2}}
				}
				for _, f := range flats {
					maps++
					if !checkWrite(r, f) && len(r.Violations) > 12 {
						return
					}
				}
			}
			r.AddObs("jexh_maps", maps)
			r.Key = fmt.Sprintf("jexh-%d-%d", from, maxLen)
			r.Nontrivial = true
			if from == 0 {
				r.Sample = map[string]any{"kind": "exhaustive flat->json->flat block", "first_value": fmt.Sprintf("%q", exhValue(from)), "last_value": fmt.Sprintf("%q", exhValue(min(to, nval)-1))}
			}
		})
	}
}

func runRT(c *sup.Child, b sup.Batch) {
	for idx := b.From; idx < b.To; idx++ {
		rng := c.Rand(idx)
		tree := genJSONTree(rng, treeOpts{maxDepth: rng.Intn(5), maxWidth: 1 + rng.Intn(5), weirdKeys: idx%2 == 1, onlyStrings: true, noEmptyObj: true, val: valOpts(rng)}, 0)
		flat := refJSONFlat(tree)
		if idx%50 == 0 {
			flat = map[string]string{}
		}
		c.Case(idx, map[string]any{"kind": "jrt", "flat": clip(canonFlat(flat), 3000)}, func(r *sup.CaseResult) {
			if !checkWrite(r, flat) {
				return
			}
			var hostile int64
			for k, v := range flat {
				if strings.ContainsAny(k+v, "\"\\\n\t\r\b\f\x00\x01\x1f") {
					hostile++
				}
			}
			r.AddObs("jrt_maps", 1)
			r.AddObs("jrt_entries", int64(len(flat)))
			r.AddObs("jrt_entries_needing_escapes", hostile)
			r.Key = "jrt:" + canonFlat(flat)
			r.Nontrivial = len(flat) > 0
			if idx%1500 == 1 {
				r.Sample = map[string]any{"kind": "flat->json->flat", "flat": clip(canonFlat(flat), 400)}
			}
		})
	}
}

func main() {
	sup.Main(sup.Prop{
		ID:    "C20",
		Level: "exploration",
		Race:  true,
		Rule: "flat: random nested maps (dot-free non-empty keys, no empty sub-maps, 14 leaf kinds) flattened, rebuilt and flattened again, each step DeepEqual to a reference; " +
			"jread: random JSON objects (string leaves over quotes/backslashes/control/non-ASCII/U+2028/astral, number literals, skipped bool/null/array leaves) rendered by encoding/json and by a second renderer (whitespace, \\uXXXX, surrogate pairs, \\/) – JSONToPlainStringMap vs Decoder+UseNumber; " +
			"cfg: ReadJSON+flatten+rebuild vs encoding/json; jexh/jrt: both writers – json.Valid, decodes to the reference nested map, reads back to the same flat map; " +
			"load: fsi18loader.Load on random directory layouts (memfs/diskfs, 1…300 json files and, one layout in forty, more files than the file loop's channels hold (1001…1600), ignored files, nil/real scope, GOMAXPROCS 1/2/4/16, pool size 1…NumCPU, yields/sleeps inside ReadDir/ReadFile, concurrent Translate callers, single injected read failures) – Load()==nil implies every key translates to its value; " +
			"storm: 100 repeated loads of one 1…4-file layout with pool size 1 or 2 at GOMAXPROCS 2/4 (producer, consumer and completion signal meet within microseconds). " +
			"wjson: flat string maps and nested maps of string leaves (control characters, <, >, &, texts that look like escapes) through filesystem/json.WriteJSON and back through ReadJSON (+ flatten): the same map. " +
			"distinct = distinct documents/maps/layouts; non-trivial = at least one leaf / two files",
		Assumptions: []string{
			"object keys are dot-free and non-empty (a dotted or empty key has no unambiguous flat name)",
			"strings are valid UTF-8 and escapes well formed (lone surrogates are not characters); duplicate keys inside one object are not generated",
			"translation values are %-free because Translate formats its value; keys repeated in several files carry equal values",
			"a load during which a file or directory could not be read cannot honour the promise, so Load must not return nil then; at most one failure is injected per load",
			"schedule noise is harness-side only (Filespace decorator, GOMAXPROCS, workers.MaxJob pool size, repetition); the fsloop consumer window is not forced through hooks, it is hit statistically by the storm batches (about 1 in 3000 loads on the unrepaired consumer)",
		},
		Plan: plan,
		Run: func(c *sup.Child, b sup.Batch) {
			switch {
			case b.Kind == "flat":
				runFlat(c, b)
			case b.Kind == "jread":
				runRead(c, b)
			case b.Kind == "cfg":
				runCfg(c, b)
			case b.Kind == "wjson":
				runWJSON(c, b)
			case b.Kind == "jexh":
				runExh(c, b)
			case b.Kind == "jrt":
				runRT(c, b)
			case strings.HasPrefix(b.Kind, "storm"):
				runStorm(c, b)
			case strings.HasPrefix(b.Kind, "load"):
				runLoad(c, b)
			}
		},
		Finish: func(t *sup.Totals) string {
			for _, k := range []string{"flat_maps_nested", "flat_maps_with_one_sub_map_under_two_keys", "jread_leaves_needing_decoding", "cfg_docs", "jexh_maps", "jrt_entries_needing_escapes", "write_outputs_checked", "load_ok_loads", "loads_of_more_files_than_the_loop_channels_hold", "load_keys_checked", "load_failures_reported", "load_concurrent_translate_hits", "storm_loads", "noise_yields"} {
				if t.Obs[k] == 0 {
					return "monitor observed nothing for " + k
				}
			}
			return ""
		},
		RaceAnchors: []string{"i18n/i18mem/", "i18n/fsi18loader/", "varutil/plainmap/"},
		RaceDecides: true,
		Exhaustive: func(tier string) string {
			n := 3
			if tier == "thorough" {
				n = 5
			}
			return fmt.Sprintf("flat->JSON->flat for every value of length ≤ %d over {\", \\, newline, tab, a, é, 0x01} in 4 key templates, and every pair of values of length ≤ %d", n, exhPairLen)
		},
	})
}
