package main

import (
	"encoding/json"
	"errors"
	"fmt"
	"github.com/goatcms/goatcore/filesystem/fsloop"
	"hash/fnv"
	"math/rand"
	"os"
	"path/filepath"
	"runtime"
	"sort"
	"strings"
	"sync"
	"sync/atomic"
	"time"

	"verif/internal/sup"

	"github.com/goatcms/goatcore/app"
	"github.com/goatcms/goatcore/app/scope"
	"github.com/goatcms/goatcore/filesystem"
	"github.com/goatcms/goatcore/filesystem/filespace/diskfs"
	"github.com/goatcms/goatcore/filesystem/filespace/memfs"
	"github.com/goatcms/goatcore/i18n"
	"github.com/goatcms/goatcore/i18n/fsi18loader"
	"github.com/goatcms/goatcore/i18n/i18mem"
	"github.com/goatcms/goatcore/workers"
)

// ---- schedule-noise / fault decorator ---------------------------------------------------------

var errInjected = errors.New("verif: injected read failure")

type noiseStats struct {
	yields, sleeps, readDirs, readFiles, faults int64
}

// noiseFS perturbs the schedule inside ReadDir/ReadFile (the two calls the loader's producer
// and consumer goroutines make) and can fail one chosen call. Decisions are a pure function of
// (case seed, call site, path), so a case perturbs the same calls on every run.
type innerFS = filesystem.Filespace

type noiseFS struct {
	innerFS
	prefix   string
	seed     uint64
	level    int // 0 off, 1 yields, 2 yields+short sleeps, 3 heavy
	failOp   string
	failPath string
	st       *noiseStats
}

func (n *noiseFS) perturb(site, p string) {
	if n.level == 0 {
		return
	}
	h := fnv.New64a()
	fmt.Fprintf(h, "%d|%s|%s%s", n.seed, site, n.prefix, p)
	v := h.Sum64()
	sel := v % 16
	amt := (v >> 8) % 64
	switch {
	case sel < 5:
	case sel < 11:
		k := int(amt%6) + 1
		for i := 0; i < k; i++ {
			runtime.Gosched()
		}
		atomic.AddInt64(&n.st.yields, int64(k))
	case sel < 14:
		if n.level >= 2 {
			time.Sleep(time.Duration(amt*5+1) * time.Microsecond)
			atomic.AddInt64(&n.st.sleeps, 1)
		} else {
			runtime.Gosched()
			atomic.AddInt64(&n.st.yields, 1)
		}
	default:
		if n.level >= 3 {
			time.Sleep(time.Duration(amt*40+100) * time.Microsecond)
			atomic.AddInt64(&n.st.sleeps, 1)
		} else {
			runtime.Gosched()
			atomic.AddInt64(&n.st.yields, 1)
		}
	}
}

func cleanRel(p string) string {
	p = strings.TrimPrefix(p, "./")
	return strings.Trim(p, "/")
}

func (n *noiseFS) ReadDir(p string) ([]os.FileInfo, error) {
	atomic.AddInt64(&n.st.readDirs, 1)
	n.perturb("rd<", p)
	if n.failOp == "ReadDir" && cleanRel(n.prefix+p) == n.failPath {
		atomic.AddInt64(&n.st.faults, 1)
		return nil, errInjected
	}
	l, err := n.innerFS.ReadDir(p)
	n.perturb("rd>", p)
	return l, err
}

func (n *noiseFS) ReadFile(p string) ([]byte, error) {
	atomic.AddInt64(&n.st.readFiles, 1)
	n.perturb("rf<", p)
	if n.failOp == "ReadFile" && cleanRel(n.prefix+p) == n.failPath {
		atomic.AddInt64(&n.st.faults, 1)
		return nil, errInjected
	}
	d, err := n.innerFS.ReadFile(p)
	n.perturb("rf>", p)
	return d, err
}

// Filespace returns a decorated view so that nested views keep the noise.
func (n *noiseFS) Filespace(sub string) (filesystem.Filespace, error) {
	in, err := n.innerFS.Filespace(sub)
	if err != nil {
		return nil, err
	}
	c := *n
	c.innerFS = in
	c.prefix = n.prefix + strings.Trim(sub, "/") + "/"
	return &c, nil
}

// ---- layout generator ------------------------------------------------------------------------

type tfile struct {
	path string            // relative to the filespace root
	doc  []byte            // content
	keys map[string]string // flat translations (nil for ignored / broken files)
	json bool              // name ends with .json
}

type layout struct {
	base         string // basePath handed to Load ("" | "./" | "dir/")
	dirs         []string
	files        []tfile
	expect       map[string]string // every key of every loadable file under base
	decoy        map[string]string // keys of files the loader must not need (non-json, outside base)
	numberLeaves int
	failOp       string
	failPath     string
	broken       string // path of a file with unparseable content ("" = none)
}

var dirNames = []string{"forms", "en", "pl", "mail", "x", "deep", "v1.json", "a b", "ü", "tmpl"}
var langs = []string{"en", "pl", "de"}

func genLayout(rng *rand.Rand, idx int, tiny bool) *layout {
	l := &layout{expect: map[string]string{}, decoy: map[string]string{}}
	// number of json files: mostly small, sometimes hundreds
	var nfiles int
	switch c := rng.Intn(20); {
	case c < 2:
		nfiles = 1
	case c < 10:
		nfiles = 2 + rng.Intn(9)
	case c < 16:
		nfiles = 11 + rng.Intn(50)
	default:
		nfiles = 61 + rng.Intn(240)
	}
	if tiny {
		nfiles = 1 + rng.Intn(4)
	}
	if !tiny && idx%40 == 3 {
		// more translation files than the loop's channels hold ("whatever the number of files")
		nfiles = fsloop.ChanSize + 1 + rng.Intn(600)
	}
	root := ""
	switch rng.Intn(4) {
	case 0:
		l.base = ""
	case 1, 2:
		l.base = "./"
	default:
		root = "i18n/"
		l.base = root
		if rng.Intn(2) == 0 {
			l.base = "./" + root
		}
	}
	// directories under root
	ndirs := rng.Intn(2 + nfiles/3)
	if ndirs > 40 {
		ndirs = 40
	}
	dirs := []string{strings.TrimSuffix(root, "/")}
	for i := 0; i < ndirs; i++ {
		parent := dirs[rng.Intn(len(dirs))]
		if strings.Count(parent, "/") >= 5 {
			parent = dirs[0]
		}
		name := dirNames[rng.Intn(len(dirNames))]
		if rng.Intn(3) == 0 {
			name = fmt.Sprintf("%s%d", name, i)
		}
		d := name
		if parent != "" {
			d = parent + "/" + name
		}
		dup := false
		for _, e := range dirs {
			if e == d {
				dup = true
			}
		}
		if !dup {
			dirs = append(dirs, d)
		}
	}
	l.dirs = dirs
	used := map[string]bool{}
	for _, d := range dirs {
		used[d] = true
	}
	place := func(name string) string {
		for tries := 0; ; tries++ {
			d := dirs[rng.Intn(len(dirs))]
			n := name
			if tries > 0 {
				n = fmt.Sprintf("%d_%s", tries, name)
			}
			p := n
			if d != "" {
				p = d + "/" + n
			}
			if !used[p] {
				used[p] = true
				return p
			}
		}
	}
	shared := map[string]string{"common.ok": "OK", "common.cancel": "Anuluj", "en.app.name": "Goat \"CMS\"", "pl.app.name": "Koza\\CMS\n"}
	sharedKeys := []string{"common.ok", "common.cancel", "en.app.name", "pl.app.name"}
	for i := 0; i < nfiles; i++ {
		flat := map[string]string{}
		nk := 1 + rng.Intn(6)
		if rng.Intn(30) == 0 {
			nk = 40 + rng.Intn(100)
		}
		if rng.Intn(25) == 0 {
			nk = 0 // a json file with an empty object
		}
		lang := langs[rng.Intn(len(langs))]
		for j := 0; j < nk; j++ {
			var k string
			switch rng.Intn(3) {
			case 0:
				k = fmt.Sprintf("%s.f%d.k%d", lang, i, j)
			case 1:
				k = fmt.Sprintf("%s.form.f%d.%s%d", lang, i, keyPool[rng.Intn(7)], j)
			default:
				k = fmt.Sprintf("f%d_%d", i, j)
			}
			o := strOpts{maxLen: 12, noPercent: true}
			if rng.Intn(3) == 0 {
				o.maxLen = 40
			}
			flat[k] = genStr(rng, o)
		}
		if rng.Intn(4) == 0 {
			k := sharedKeys[rng.Intn(len(sharedKeys))]
			flat[k] = shared[k]
		}
		anyFlat := strFlatToAny(flat)
		if rng.Intn(4) == 0 {
			// number leaves: the loader yields the number as it is written in the file (what the
			// flat-map reader yields), also beyond 2^53 and in exponent / trailing-zero spellings
			for j := 0; j < 1+rng.Intn(3); j++ {
				k := fmt.Sprintf("%s.num%d.n%d", lang, i, j)
				num := genNumber(rng)
				if rng.Intn(3) == 0 {
					num = json.Number([]string{"9007199254740993", "1.50", "1e3", "123456789012345678901234567890", "-0.000"}[rng.Intn(5)])
				}
				anyFlat[k] = num
				flat[k] = string(num)
			}
			l.numberLeaves++
		}
		tree := refNest(anyFlat)
		// leaves the loader must skip
		if rng.Intn(5) == 0 {
			tree[fmt.Sprintf("meta%d", i)] = []interface{}{"x", true, nil}
			tree[fmt.Sprintf("flag%d", i)] = true
		}
		var doc []byte
		if rng.Intn(2) == 0 {
			doc = renderVaried(rng, tree)
		} else {
			doc, _ = renderStd(rng, tree)
		}
		name := fmt.Sprintf("%s%d.json", []string{"t", "form", "mail", lang}[rng.Intn(4)], i)
		if rng.Intn(12) == 0 {
			name = ".json" // a file whose whole name is the suffix
			if rng.Intn(2) == 0 {
				name = fmt.Sprintf("x%d.tar.json", i)
			}
		}
		f := tfile{path: place(name), doc: doc, keys: flat, json: true}
		l.files = append(l.files, f)
		for k, v := range flat {
			l.expect[k] = v
		}
	}
	// ignored files: other suffixes (content would parse, keys are decoys)
	nign := rng.Intn(2 + nfiles/4)
	for i := 0; i < nign; i++ {
		k := fmt.Sprintf("decoy.ign%d", i)
		doc := []byte(fmt.Sprintf(`{"decoy":{"ign%d":"must not be needed"}}`, i))
		name := []string{"readme%d.txt", "old%d.json.bak", "json%d", "n%d.jsonx", "%d.yaml"}[rng.Intn(5)]
		if rng.Intn(6) == 0 {
			doc = []byte("this is not json {")
		}
		l.files = append(l.files, tfile{path: place(fmt.Sprintf(name, i)), doc: doc})
		l.decoy[k] = "must not be needed"
	}
	// files outside the loaded base
	if root != "" {
		for i := 0; i < 1+rng.Intn(3); i++ {
			k := fmt.Sprintf("decoy.out%d", i)
			p := fmt.Sprintf("outside%d.json", i)
			if i == 1 {
				p = fmt.Sprintf("other/out%d.json", i)
			}
			l.files = append(l.files, tfile{path: p, doc: []byte(fmt.Sprintf(`{"decoy":{"out%d":"outside"}}`, i)), json: true})
			l.decoy[k] = "outside"
		}
	}
	// failure stratum: one unreadable file / directory, or one unparseable json file
	if idx%5 == 4 && !tiny {
		switch rng.Intn(4) {
		case 0, 1:
			l.failOp = "ReadFile"
			l.failPath = l.files[rng.Intn(nfiles)].path
		case 2:
			l.failOp = "ReadDir"
			l.failPath = dirs[rng.Intn(len(dirs))]
		default:
			i := rng.Intn(nfiles)
			d := l.files[i].doc
			cut := 1
			if len(d) > 2 {
				cut = 1 + rng.Intn(len(d)-2)
			}
			broken := append([]byte{}, d[:cut]...)
			if _, err := decodeStd(broken); err == nil || len(strings.TrimSpace(string(broken))) == 0 {
				broken = []byte(`{"a":`)
			}
			l.files[i].doc = broken
			l.files[i].keys = nil
			l.broken = l.files[i].path
		}
	}
	return l
}

func (l *layout) canon() string {
	var sb strings.Builder
	sb.WriteString(l.base + "|" + l.failOp + ":" + l.failPath + "|" + l.broken + "|")
	fs := append([]tfile{}, l.files...)
	sort.Slice(fs, func(i, j int) bool { return fs[i].path < fs[j].path })
	for _, f := range fs {
		fmt.Fprintf(&sb, "%s=%q;", f.path, f.doc)
	}
	return sb.String()
}

// checkKeys translates every expected key: unknown = Translate fails, wrong = another value.
func checkKeys(i18 i18n.I18N, keys []string, expect map[string]string) (unknown, wrong int, first string) {
	for _, k := range keys {
		v, err := i18.Translate(k)
		switch {
		case err != nil:
			if unknown == 0 {
				first = fmt.Sprintf("Translate(%q) fails (%v), want %q; ", k, err, expect[k]) + first
			}
			unknown++
		case v != expect[k]:
			if wrong == 0 {
				first += fmt.Sprintf("Translate(%q) = %q, want %q", k, v, expect[k])
			}
			wrong++
		}
	}
	return
}

// reportKeys turns the result of checkKeys into violations (one per kind of damage).
func reportKeys(r *sup.CaseResult, what string, nkeys, unknown, wrong int, first string, wit any) bool {
	if unknown > 0 {
		r.Violate("load-missing-key", fmt.Sprintf("%s returned nil but %d of %d keys are unknown to the store (%d more have a wrong value): %s", what, unknown, nkeys, wrong, first), wit)
	} else if wrong > 0 {
		r.Violate("load-wrong-value", fmt.Sprintf("%s returned nil but %d of %d keys translate to a different value: %s", what, wrong, nkeys, first), wit)
	}
	return unknown+wrong > 0
}

// nestFlat rebuilds the nested object of a flat dotted-key map (keys are prefix free).
func nestFlat(flat map[string]string) map[string]interface{} {
	root := map[string]interface{}{}
	for k, v := range flat {
		parts := strings.Split(k, ".")
		cur := root
		for i, p := range parts {
			if i == len(parts)-1 {
				cur[p] = v
				break
			}
			next, ok := cur[p].(map[string]interface{})
			if !ok {
				next = map[string]interface{}{}
				cur[p] = next
			}
			cur = next
		}
	}
	return root
}

// ---- the loader monitor ------------------------------------------------------------------------

func buildFS(l *layout, disk bool) (filesystem.Filespace, func(), error) {
	var fs filesystem.Filespace
	cleanup := func() {}
	var err error
	if disk {
		dir, e := os.MkdirTemp("", "c20-load-")
		if e != nil {
			return nil, cleanup, e
		}
		cleanup = func() { os.RemoveAll(dir) }
		fs, err = diskfs.NewFilespace(dir)
	} else {
		fs, err = memfs.NewFilespace()
	}
	if err != nil {
		return nil, cleanup, err
	}
	for _, d := range l.dirs {
		if d == "" {
			continue
		}
		if err := fs.MkdirAll(d, 0777); err != nil {
			return nil, cleanup, fmt.Errorf("MkdirAll(%q): %v", d, err)
		}
	}
	for _, f := range l.files {
		if dir := filepath.Dir(f.path); dir != "." {
			if err := fs.MkdirAll(dir, 0777); err != nil {
				return nil, cleanup, fmt.Errorf("MkdirAll(%q): %v", dir, err)
			}
		}
		if err := fs.WriteFile(f.path, f.doc, 0666); err != nil {
			return nil, cleanup, fmt.Errorf("WriteFile(%q): %v", f.path, err)
		}
	}
	return fs, cleanup, nil
}

// loadIsStuck looks at two goroutine dumps half a second apart: "" unless, in both, at least one
// goroutine is inside the library and every one of them is parked on a channel or a sync primitive.
func loadIsStuck() string {
	look := func() (int, bool) {
		buf := make([]byte, 16<<20)
		n, allParked := 0, true
		for _, blk := range strings.Split(string(buf[:runtime.Stack(buf, true)]), "\n\n") {
			if !strings.Contains(blk, "github.com/goatcms/goatcore/") {
				continue
			}
			n++
			head := blk
			if i := strings.IndexByte(blk, '\n'); i >= 0 {
				head = blk[:i]
			}
			if !(strings.Contains(head, "[chan send") || strings.Contains(head, "[chan receive") || strings.Contains(head, "[select") || strings.Contains(head, "[sync.") || strings.Contains(head, "[semacquire")) {
				allParked = false
			}
		}
		return n, allParked
	}
	n1, p1 := look()
	if n1 == 0 || !p1 {
		return ""
	}
	time.Sleep(500 * time.Millisecond)
	n2, p2 := look()
	if n2 == 0 || !p2 {
		return ""
	}
	return fmt.Sprintf("%d goroutines inside the library, all parked on channels or locks in two dumps half a second apart", n2)
}

func runLoad(c *sup.Child, b sup.Batch) {
	procs := b.P("procs", 1)
	defaultMaxJob := workers.MaxJob
	defer func() { workers.MaxJob = defaultMaxJob }()
	for idx := b.From; idx < b.To; idx++ {
		rng := c.Rand(idx)
		l := genLayout(rng, idx, false)
		// A load that fails returns while fsloop's producers may still be walking. Removing a
		// disk directory under them makes them fail a second time, after Load has returned,
		// which is outside what C20 states; the failure stratum therefore stays on memfs,
		// where nothing but the single injected failure can go wrong.
		disk := idx%9 == 8 && l.failOp == "" && l.broken == ""
		useScope := idx%2 == 1
		level := []int{0, 1, 2, 2, 3}[rng.Intn(5)]
		if len(l.files) > fsloop.ChanSize && level > 1 {
			level = 1 // thousands of files: yields only, no sleeps
		}
		maxJob := []int{1, 2, 3, defaultMaxJob, defaultMaxJob, 4}[rng.Intn(6)]
		pollers := []int{0, 0, 1, 2}[rng.Intn(4)]
		noiseSeed := rng.Uint64()
		desc := map[string]any{"kind": "load", "procs": procs, "base": l.base, "json_files": len(l.files), "dirs": len(l.dirs), "disk": disk,
			"scope": useScope, "noise": level, "maxjob": maxJob, "pollers": pollers, "fail": l.failOp + ":" + l.failPath, "broken": l.broken}
		c.Case(idx, desc, func(r *sup.CaseResult) {
			fs, cleanup, err := buildFS(l, disk)
			defer cleanup()
			if err != nil {
				r.Inconclusive = "harness: could not build the layout: " + err.Error()
				return
			}
			st := &noiseStats{}
			nfs := &noiseFS{innerFS: fs, seed: noiseSeed, level: level, failOp: l.failOp, failPath: l.failPath, st: st}
			var i18 i18n.I18N = i18mem.NewI18N()
			var scp app.Scope
			if useScope {
				scp = scope.New(scope.Params{})
			}
			workers.MaxJob = maxJob

			// concurrent Translate callers while the load runs: a key is either still unknown
			// or already has exactly its value.
			keys := sortedKeys(l.expect)
			var stop int32
			var wg sync.WaitGroup
			var polls, pollHits int64
			var pollBad atomic.Value
			for p := 0; p < pollers && len(keys) > 0; p++ {
				wg.Add(1)
				go func(p int) {
					defer wg.Done()
					i := p * 7
					for atomic.LoadInt32(&stop) == 0 {
						k := keys[i%len(keys)]
						i += 13
						v, err := i18.Translate(k)
						atomic.AddInt64(&polls, 1)
						if err == nil {
							atomic.AddInt64(&pollHits, 1)
							if v != l.expect[k] {
								pollBad.Store(fmt.Sprintf("during the load Translate(%q) = %q, want %q", k, v, l.expect[k]))
							}
						}
						runtime.Gosched()
					}
				}(p)
			}
			var lerr error
			loaded := make(chan struct{})
			go func() {
				defer close(loaded)
				lerr = fsi18loader.Load(nfs, l.base, i18, scp)
			}()
			// The timer only decides when to look: the verdict comes from two goroutine dumps – a
			// violation iff every goroutine inside the library is parked (channel / sync) in both,
			// i.e. nobody is left who could ever let Load return. A load that is merely slow is
			// inconclusive after the last look.
			returned := false
			for look := 0; look < 12 && !returned; look++ {
				select {
				case <-loaded:
					returned = true
				case <-time.After(20 * time.Second):
					atomic.StoreInt32(&stop, 1) // the Translate callers are inside the library too: they leave first
					wg.Wait()
					if why := loadIsStuck(); why != "" {
						r.Violate("load-never-returns", fmt.Sprintf("Load(%q) over %d json files does not return: %s", l.base, len(l.files), why),
							map[string]any{"json_files": len(l.files), "procs": procs, "maxjob": maxJob, "noise": level, "scope": useScope, "disk": disk})
						return
					}
				}
			}
			if !returned {
				atomic.StoreInt32(&stop, 1)
				wg.Wait()
				r.Inconclusive = fmt.Sprintf("Load over %d files did not return within the watchdog while goroutines inside the library were still running", len(l.files))
				return
			}
			atomic.StoreInt32(&stop, 1)
			wg.Wait()
			if len(l.files) > fsloop.ChanSize {
				r.AddObs("loads_of_more_files_than_the_loop_channels_hold", 1)
			}
			r.AddObs("load_files_with_number_leaves", int64(l.numberLeaves))

			wit := map[string]any{"layout": clip(l.canon(), 4000), "procs": procs, "maxjob": maxJob, "noise": level, "scope": useScope, "disk": disk}
			r.AddObs("load_calls", 1)
			r.AddObs(fmt.Sprintf("load_gomaxprocs_%d", runtime.GOMAXPROCS(0)), 1)
			r.AddObs(fmt.Sprintf("load_pool_%d", maxJob), 1)
			r.AddObs("noise_yields", atomic.LoadInt64(&st.yields))
			r.AddObs("noise_sleeps", atomic.LoadInt64(&st.sleeps))
			r.AddObs("load_readdir_calls", atomic.LoadInt64(&st.readDirs))
			r.AddObs("load_readfile_calls", atomic.LoadInt64(&st.readFiles))
			r.AddObs("load_concurrent_translate_calls", atomic.LoadInt64(&polls))
			r.AddObs("load_concurrent_translate_hits", atomic.LoadInt64(&pollHits))
			if disk {
				r.AddObs("load_on_diskfs", 1)
			}
			if useScope {
				r.AddObs("load_with_scope", 1)
			}
			if bad := pollBad.Load(); bad != nil {
				r.Violate("load-wrong-value", bad.(string), wit)
			}
			what := fmt.Sprintf("Load(%q) over %d files", l.base, len(l.files))
			failing := l.failOp != "" || l.broken != ""
			if failing {
				injected := atomic.LoadInt64(&st.faults) > 0 || l.broken != ""
				switch {
				case !injected:
					// the chosen directory was outside the loaded base or never reached
					r.AddObs("load_fault_not_reached", 1)
					if lerr != nil {
						r.Violate("load-error", fmt.Sprintf("Load(%q) failed although nothing went wrong: %v", l.base, lerr), wit)
					} else {
						u, w, first := checkKeys(i18, keys, l.expect)
						reportKeys(r, what, len(keys), u, w, first, wit)
					}
				case lerr == nil:
					if u, w, first := checkKeys(i18, keys, l.expect); u+w > 0 {
						r.Violate("load-nil-despite-failure", fmt.Sprintf("%s returned nil although %s %q%s could not be read/parsed; %d of %d keys are not translatable (%s)",
							what, l.failOp, l.failPath, l.broken, u+w, len(keys), first), wit)
					} else {
						r.AddObs("load_nil_after_harmless_failure", 1)
					}
				default:
					r.AddObs("load_failures_reported", 1)
				}
				r.Key = "load:" + l.canon()
				r.Nontrivial = true
				return
			}
			if lerr != nil {
				r.Violate("load-error", fmt.Sprintf("Load(%q) over %d json files: %v", l.base, len(l.files), lerr), wit)
				return
			}
			if u, w, first := checkKeys(i18, keys, l.expect); reportKeys(r, what, len(keys), u, w, first, wit) {
				return
			}
			// reload: every file is rewritten with changed texts for the same keys and the directory
			// is loaded again into the SAME store (keys already present, sizes unchanged)
			if idx%2 == 0 && len(keys) > 0 {
				expect2 := map[string]string{}
				rewritten := 0
				for _, f := range l.files {
					if f.keys == nil {
						continue
					}
					flat := map[string]string{}
					for k, v := range f.keys {
						flat[k] = v + " (second edition)"
					}
					doc, err := json.Marshal(nestFlat(flat))
					if err != nil {
						continue
					}
					if err := fs.WriteFile(f.path, doc, 0666); err != nil {
						r.Inconclusive = "harness: rewrite failed: " + err.Error()
						return
					}
					rewritten++
				}
				for k, v := range l.expect {
					expect2[k] = v + " (second edition)"
				}
				workers.MaxJob = maxJob
				if lerr2 := fsi18loader.Load(nfs, l.base, i18, scp); lerr2 != nil {
					r.Violate("load-error", fmt.Sprintf("second Load(%q) after rewriting %d files: %v", l.base, rewritten, lerr2), wit)
					return
				}
				u, w, first := checkKeys(i18, keys, expect2)
				if reportKeys(r, fmt.Sprintf("reload of %q into the same store after rewriting %d files", l.base, rewritten), len(keys), u, w, first, wit) {
					return
				}
				r.AddObs("reloads_checked", 1)
				r.AddObs("reload_keys_checked", int64(len(keys)))
			}
			var absent int64
			for k := range l.decoy {
				if _, err := i18.Translate(k); err != nil {
					absent++
				}
			}
			njson := 0
			for _, f := range l.files {
				if f.keys != nil {
					njson++
				}
			}
			r.AddObs("load_ok_loads", 1)
			r.AddObs("load_json_files", int64(njson))
			r.AddObs("load_ignored_files", int64(len(l.files)-njson))
			r.AddObs("load_keys_checked", int64(len(keys)))
			r.AddObs("load_decoy_keys_absent", absent)
			r.AddObs("load_decoy_keys_present", int64(len(l.decoy))-absent)
			r.Key = "load:" + l.canon()
			r.Nontrivial = njson >= 2 && len(keys) > 0
			if idx%40 == 0 {
				var paths []string
				for i, f := range l.files {
					if i < 8 {
						paths = append(paths, f.path)
					}
				}
				r.Sample = map[string]any{"kind": "translation directory", "base": l.base, "json_files": njson, "dirs": len(l.dirs), "keys": len(keys), "first_paths": paths,
					"gomaxprocs": runtime.GOMAXPROCS(0), "pool": maxJob, "noise_level": level}
			}
		})
	}
}

// runStorm repeats the load of one tiny layout many times with the smallest worker pools: the
// loader's goroutines then start, meet and finish within microseconds, which is where a load
// depends most on how the scheduler interleaves producer, consumer and the completion signal.
func runStorm(c *sup.Child, b sup.Batch) {
	reps := b.P("reps", 100)
	defaultMaxJob := workers.MaxJob
	defer func() { workers.MaxJob = defaultMaxJob }()
	for idx := b.From; idx < b.To; idx++ {
		rng := c.Rand(idx)
		l := genLayout(rng, idx, true)
		maxJob := []int{1, 1, 2, 1}[rng.Intn(4)]
		useScope := idx%2 == 1
		level := []int{0, 0, 1}[rng.Intn(3)]
		noiseSeed := rng.Uint64()
		desc := map[string]any{"kind": "storm", "base": l.base, "files": len(l.files), "dirs": len(l.dirs), "maxjob": maxJob, "scope": useScope, "noise": level, "reps": reps}
		c.Case(idx, desc, func(r *sup.CaseResult) {
			fs, cleanup, err := buildFS(l, false)
			defer cleanup()
			if err != nil {
				r.Inconclusive = "harness: could not build the layout: " + err.Error()
				return
			}
			keys := sortedKeys(l.expect)
			st := &noiseStats{}
			wit := map[string]any{"layout": clip(l.canon(), 3000), "maxjob": maxJob, "scope": useScope, "gomaxprocs": runtime.GOMAXPROCS(0)}
			workers.MaxJob = maxJob
			var loads, checked int64
			wrongReported := false
			for rep := 0; rep < reps; rep++ {
				nfs := &noiseFS{innerFS: fs, seed: noiseSeed + uint64(rep), level: level, st: st}
				var i18 i18n.I18N = i18mem.NewI18N()
				var scp app.Scope
				if useScope {
					scp = scope.New(scope.Params{})
				}
				lerr := fsi18loader.Load(nfs, l.base, i18, scp)
				loads++
				if lerr != nil {
					r.Violate("load-error", fmt.Sprintf("repetition %d: Load(%q) over %d files: %v", rep, l.base, len(l.files), lerr), wit)
					break
				}
				checked += int64(len(keys))
				u, w, first := checkKeys(i18, keys, l.expect)
				if u == 0 && w > 0 && wrongReported {
					continue // the same wrong values as before; keep looking for lost files
				}
				if reportKeys(r, fmt.Sprintf("repetition %d of the same load (pool size %d, GOMAXPROCS %d): Load(%q) over %d files", rep, maxJob, runtime.GOMAXPROCS(0), l.base, len(l.files)), len(keys), u, w, first, wit) {
					if u > 0 {
						break
					}
					wrongReported = true
				}
			}
			r.AddObs("storm_loads", loads)
			r.AddObs("load_calls", loads)
			r.AddObs("storm_keys_checked", checked)
			r.AddObs(fmt.Sprintf("storm_pool_%d", maxJob), loads)
			r.AddObs(fmt.Sprintf("storm_gomaxprocs_%d", runtime.GOMAXPROCS(0)), loads)
			r.AddObs("noise_yields", atomic.LoadInt64(&st.yields))
			r.Key = "storm:" + l.canon()
			r.Nontrivial = len(keys) > 0
			if idx%100 == 0 {
				r.Sample = map[string]any{"kind": "repeated tiny load", "files": len(l.files), "keys": len(keys), "pool": maxJob, "reps": reps, "gomaxprocs": runtime.GOMAXPROCS(0)}
			}
		})
	}
}
