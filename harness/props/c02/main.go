// C02 – the disk filespace obeys the same contract as the in-memory one.
package main

import (
	"crypto/sha256"
	"fmt"
	"os"
	"path/filepath"
	"sort"
	"strings"

	"verif/internal/mfs"
	"verif/internal/sup"

	"github.com/goatcms/goatcore/filesystem"
	"github.com/goatcms/goatcore/filesystem/filespace/diskfs"
	"github.com/goatcms/goatcore/filesystem/filespace/memfs"
)

func plan(tier string, seed int64) []sup.Batch {
	n, ops := 480, 30
	if tier == "thorough" {
		n, ops = 8000, 80
	}
	return sup.Chunk("hist", "hist", n, (n+15)/16, 1, map[string]any{"ops": ops})
}

// hostSnapshot hashes everything in the temp directory except the filespace root itself.
func hostSnapshot(tmp, skip string) string {
	var lines []string
	filepath.Walk(tmp, func(p string, info os.FileInfo, err error) error {
		if err != nil {
			lines = append(lines, "ERR "+p)
			return nil
		}
		if p == skip {
			return filepath.SkipDir
		}
		if info.IsDir() {
			lines = append(lines, "D "+p)
			return nil
		}
		b, _ := os.ReadFile(p)
		lines = append(lines, fmt.Sprintf("F %s %x", p, sha256.Sum256(b)))
		return nil
	})
	sort.Strings(lines)
	return strings.Join(lines, "\n")
}

// changedPaths lists the canonical paths at which two trees differ.
func changedPaths(a, b *mfs.Node, path []string, out *[][]string) {
	if a == nil || b == nil || a.Dir != b.Dir {
		if a != b {
			*out = append(*out, append([]string{}, path...))
		}
		return
	}
	if !a.Dir {
		if string(a.Data) != string(b.Data) {
			*out = append(*out, append([]string{}, path...))
		}
		return
	}
	names := map[string]bool{}
	for k := range a.Kids {
		names[k] = true
	}
	for k := range b.Kids {
		names[k] = true
	}
	for k := range names {
		changedPaths(a.Kids[k], b.Kids[k], append(path, k), out)
	}
}

func related(p, q []string) bool { // one is a prefix of the other
	n := len(p)
	if len(q) < n {
		n = len(q)
	}
	for i := 0; i < n; i++ {
		if p[i] != q[i] {
			return false
		}
	}
	return true
}

type cfgT struct {
	memChild, diskChild bool
	// linkRoot: the disk filespace is created for a symbolic link that names its root directory
	// (a deployment directory such as "current -> releases/7")
	linkRoot bool
}

func runHistory(r *sup.CaseResult, gen *mfs.Gen, nops int, cfg cfgT, tmp string) (hist []mfs.Op) {
	// host fixture: sentinels next to and above the filespace root
	os.WriteFile(filepath.Join(tmp, "outside.txt"), []byte("OUTSIDE-SENTINEL"), 0644)
	os.MkdirAll(filepath.Join(tmp, "sib"), 0755)
	os.WriteFile(filepath.Join(tmp, "sib", "secret"), []byte("SIB-SENTINEL"), 0644)
	base := filepath.Join(tmp, "base")
	os.MkdirAll(filepath.Join(base, "jail"), 0755)
	os.WriteFile(filepath.Join(base, "peer.txt"), []byte("PEER-SENTINEL"), 0644)
	var dfs, mem filesystem.Filespace
	var err error
	jail := filepath.Join(base, "jail")
	if cfg.diskChild {
		var parent filesystem.Filespace
		if parent, err = diskfs.NewFilespace(base); err == nil {
			dfs, err = parent.Filespace("jail")
		}
	} else if cfg.linkRoot {
		link := filepath.Join(tmp, "current")
		if err = os.Symlink(jail, link); err == nil {
			dfs, err = diskfs.NewFilespace(link)
		}
	} else {
		dfs, err = diskfs.NewFilespace(jail)
	}
	if err != nil {
		r.Inconclusive = "disk fixture: " + err.Error()
		return
	}
	mroot, _ := memfs.NewFilespace()
	mroot.WriteFile("peer.txt", []byte("PEER-SENTINEL"), 0644)
	if cfg.memChild {
		mroot.MkdirAll("jail", 0777)
		mem, _ = mroot.Filespace("jail")
	} else {
		mem, _ = memfs.NewFilespace()
	}
	host0 := hostSnapshot(tmp, jail)
	ds, ms := mfs.NewSubject(dfs), mfs.NewSubject(mem)
	model := mfs.NewModel()
	model.SelfCopySnapshot = true // a directory copied to an absent path below itself meets the stated preconditions
	gen.M = model
	fail := func(class, detail string) {
		r.Violate(class, detail, map[string]any{"history": mfs.HistString(hist), "config": fmt.Sprintf("%+v", cfg), "model_tree": model.Root.Dump()})
	}
	var inPre, outPre, mutated int64
	grown := false
	for i := 0; i < nops; i++ {
		op := gen.Next()
		hist = append(hist, op)
		var dBefore, mBefore *mfs.Node
		pre := model.Clone()
		segs1, _ := pre.Resolve(op.View, op.P1)
		segs2, ok2 := pre.Resolve(op.View, op.P2)
		if pre.Root.Depth() > 40 {
			grown = true // self-copies nest the tree deeper and deeper: stop without verdict
			break
		}
		// the same guards before and after the step (a walk cut at another depth would look like a change)
		dBefore, _ = mfs.ObserveLimit(dfs, pre.Root.Depth()+8, 200000)
		mBefore, _ = mfs.ObserveLimit(mem, pre.Root.Depth()+8, 200000)
		dr := ds.Exec(i, op)
		mr := ms.Exec(i, op)
		v := model.Step(op, mr)
		if dr.Panic != "" {
			fail("disk-panic", fmt.Sprintf("step %d %s: disk backend panicked: %s", i, op, dr.Panic))
			break
		}
		if mr.Panic != "" {
			fail("mem-panic", fmt.Sprintf("step %d %s: memory backend panicked: %s", i, op, mr.Panic))
			break
		}
		if h := hostSnapshot(tmp, jail); h != host0 {
			fail("host-outside-changed", fmt.Sprintf("step %d %s: the host directory outside the filespace root changed", i, op))
			break
		}
		if model.Root.Count() > 3000 {
			// copies of a directory below itself double the tree: a history that has grown this far
			// stops without verdict (the walks below would run into their node budget)
			grown = true
			break
		}
		guard := pre.Root.Depth()
		if d := model.Root.Depth(); d > guard {
			guard = d // a copy below itself makes the tree deeper by the depth of its destination
		}
		dAfter, danom := mfs.ObserveLimit(dfs, guard+8, 200000)
		mAfter, manom := mfs.ObserveLimit(mem, guard+8, 200000)
		if budgetHit(danom) || budgetHit(manom) {
			grown = true // a truncated walk is no observation
			break
		}
		if op.Kind == mfs.OpFilespace {
			if dr.Err != mr.Err {
				// obtaining a view is not a compared operation; keep the view lists aligned
				break
			}
			continue
		}
		// a view whose root directory has meanwhile been removed or replaced by a file is no longer
		// a filespace rooted in a directory: what it answers is outside the stated preconditions
		viewOK := true
		if op.View < len(pre.Views) && op.View > 0 {
			if n := pre.Get(pre.Views[op.View]); n == nil || !n.Dir {
				viewOK = false
			}
		}
		if v.PrecondOK && viewOK && !v.Ambiguous && !v.Lenient {
			inPre++
			if v.Mismatch != "" {
				fail("mem-vs-model", fmt.Sprintf("step %d %s: memory backend departs from the tree model: %s", i, op, v.Mismatch))
				break
			}
			if d := cmpRes(op, mr, dr); d != "" {
				fail("result-differs", fmt.Sprintf("step %d %s (preconditions hold): %s", i, op, d))
				break
			}
			if len(danom) > 0 {
				fail("disk-tree-anomaly", fmt.Sprintf("after step %d %s: %s", i, op, strings.Join(danom, "; ")))
				break
			}
			if d := mfs.Diff(mAfter, dAfter, ""); d != "" {
				fail("tree-differs", fmt.Sprintf("after step %d %s (preconditions hold): memory vs disk: %s", i, op, d))
				break
			}
			if v.Mutated {
				mutated++
			}
			continue
		}
		// outside the stated preconditions: fail cleanly on both backends
		outPre++
		bad := ""
		for _, side := range []struct {
			name          string
			before, after *mfs.Node
		}{{"disk", dBefore, dAfter}, {"memory", mBefore, mAfter}} {
			var ch [][]string
			changedPaths(side.before, side.after, nil, &ch)
			for _, c := range ch {
				full := append(append([]string{}, model.Views[0]...), c...)
				if !(related(full, segs1) || (ok2 && op.Kind >= mfs.OpCopy && op.Kind <= mfs.OpCopyDir && related(full, segs2))) {
					bad = fmt.Sprintf("%s backend changed %q, which is not on an addressed path", side.name, strings.Join(c, "/"))
				}
			}
		}
		if bad != "" {
			fail("unclean-failure", fmt.Sprintf("step %d %s (outside the preconditions): %s", i, op, bad))
			break
		}
		if d := mfs.Diff(mAfter, dAfter, ""); d != "" {
			r.AddObs("diverged_outside_preconditions", 1)
			break // trees legitimately differ now; nothing further can be compared
		}
		if v.Ambiguous {
			break
		}
		// keep the model in step with what memfs did (lenient cases follow the implementation)
		if d := mfs.Diff(model.Root, mAfter, ""); d != "" {
			// the model took another lenient branch than memfs: resynchronise is not possible
			r.AddObs("model_resync_stop", 1)
			break
		}
	}
	if grown {
		r.AddObs("histories_stopped_because_the_tree_had_grown_past_3000_nodes", 1)
	}
	r.AddObs("steps_in_preconditions", inPre)
	r.AddObs("steps_outside_preconditions", outPre)
	r.AddObs("successful_mutations", mutated)
	r.Nontrivial = mutated > 0
	return hist
}

func cmpRes(op mfs.Op, m, d mfs.Res) string {
	if d.Anom != "" {
		return "disk stream contract: " + d.Anom
	}
	if m.Err != d.Err {
		return fmt.Sprintf("memory err=%v (%s), disk err=%v (%s)", m.Err, m.Text, d.Err, d.Text)
	}
	if m.Err {
		return ""
	}
	if m.B != d.B {
		return fmt.Sprintf("memory answered %v, disk %v", m.B, d.B)
	}
	if string(m.Data) != string(d.Data) {
		return fmt.Sprintf("memory returned %d bytes, disk %d bytes (or different content)", len(m.Data), len(d.Data))
	}
	if op.Kind == mfs.OpReadDir {
		a, b := append([]mfs.Ent{}, m.List...), append([]mfs.Ent{}, d.List...)
		sort.Slice(a, func(i, j int) bool { return a[i].Name < a[j].Name })
		sort.Slice(b, func(i, j int) bool { return b[i].Name < b[j].Name })
		if len(a) != len(b) {
			return fmt.Sprintf("memory lists %v, disk lists %v", a, b)
		}
		for i := range a {
			if a[i].Name != b[i].Name || a[i].Dir != b[i].Dir {
				return fmt.Sprintf("memory lists %v, disk lists %v", a, b)
			}
		}
	}
	if op.Kind == mfs.OpLstat && m.Stat != nil && d.Stat != nil {
		segs, _ := mfs.Norm(op.P1)
		if m.Stat.Dir != d.Stat.Dir || (len(segs) > 0 && m.Stat.Name != d.Stat.Name) || (!m.Stat.Dir && m.Stat.Size != d.Stat.Size) {
			return fmt.Sprintf("memory Lstat %+v, disk Lstat %+v", *m.Stat, *d.Stat)
		}
	}
	return ""
}

func main() {
	sup.Main(sup.Prop{
		ID:    "C02",
		Level: "exploration",
		Rule:  "one generated history is executed step by step on memfs, on diskfs (fresh temp dir; root, child view, or – in a third of the non-child runs – a root named by a symbolic link) and on the tree model (which decides whether the stated preconditions hold); inside the preconditions: disk result = memory result and disk tree = memory tree after every step; outside: no panic and no change off the addressed paths on both backends; host sentinels next to/above the root are hashed after every step. Configurations root/root, child/child, mixed. distinct = distinct operation sequences; non-trivial = ≥1 successful mutation inside the preconditions",
		Assumptions: []string{
			"preconditions as in the statement plus 'source has the kind the operation names'; removing the root, symlinks and permission bits are not generated; a directory copied to an absent path below itself (destination parent exists) meets the stated preconditions and is compared – the destination must receive a copy of the source as it was before the call; a directory copied onto itself is not generated",
			"child views are requested only on existing directories; obtaining a view is not a compared operation",
			"after an operation outside the preconditions on which the two backends legitimately differ the history stops",
		},
		Plan: plan,
		Run: func(c *sup.Child, b sup.Batch) {
			nops := b.P("ops", 30)
			for idx := b.From; idx < b.To; idx++ {
				rng := c.Rand(idx)
				w := mfs.DefaultWeights()
				cfg := mfs.GenCfg{Names: namePool(idx), MaxDepth: 3, Spell: true, Views: idx%2 == 0, ViewOnlyOnDirs: true,
					PrecondBias: 0.9, Weights: w, BigData: idx%9 == 0, NoDestInsideSrc: idx%4 != 2}
				gen := &mfs.Gen{Cfg: cfg, R: rng}
				conf := cfgT{memChild: idx%4 == 1 || idx%4 == 2, diskChild: idx%4 == 1 || idx%4 == 3}
				conf.linkRoot = !conf.diskChild && idx%3 == 1
				c.Case(idx, map[string]any{"hist": idx, "ops": nops, "cfg": fmt.Sprintf("%+v", conf)}, func(r *sup.CaseResult) {
					tmp, err := os.MkdirTemp("", "c02-")
					if err != nil {
						r.Inconclusive = err.Error()
						return
					}
					defer os.RemoveAll(tmp)
					h := runHistory(r, gen, nops, conf, tmp)
					r.Key = fmt.Sprintf("%+v|", conf) + strings.Join(mfs.HistString(h), ";")
					r.AddObs(fmt.Sprintf("config_memChild=%v_diskChild=%v", conf.memChild, conf.diskChild), 1)
					if conf.linkRoot {
						r.AddObs("histories_on_a_disk_root_named_by_a_symbolic_link", 1)
					}
					if idx%200 == 0 {
						hs := mfs.HistString(h)
						if len(hs) > 10 {
							hs = hs[:10]
						}
						r.Sample = map[string]any{"kind": "history (first 10 ops)", "config": fmt.Sprintf("%+v", conf), "ops": hs}
					}
				})
			}
		},
		Finish: func(t *sup.Totals) string {
			if t.Obs["steps_in_preconditions"] < 500 || t.Obs["successful_mutations"] < 100 {
				return "too few compared steps"
			}
			return ""
		},
	})
}

// namePool: every third history uses names one of which is a string prefix of another ("a" /
// "ab"): code that compares paths as strings instead of element by element confuses them.
func namePool(idx int) []string {
	switch idx % 6 {
	case 1:
		return []string{"a", "ab", "b"}
	case 3:
		return []string{"a", "..a", "..."} // begin with dots without being "." or ".."
	case 5:
		return []string{"a", "a.tmp", "b"} // a sibling that looks like a temporary name of another
	case 2:
		return []string{"a", "a\\b", "..\\a"} // a backslash is an ordinary character of a name
	}
	return []string{"a", "b", "c"}
}

func budgetHit(anoms []string) bool {
	for _, a := range anoms {
		if strings.Contains(a, "walk budget exhausted") {
			return true
		}
	}
	return false
}
