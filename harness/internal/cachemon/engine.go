// Package cachemon is the shared monitor engine of C06 (write-back: nothing before Commit,
// everything after) and C07 (read-your-writes) for fscache.Cache.
package cachemon

import (
	"fmt"
	"math/rand"
	"os"
	"strings"

	"verif/internal/mfs"
	"verif/internal/sup"

	"github.com/goatcms/goatcore/filesystem"
	"github.com/goatcms/goatcore/filesystem/filespace/diskfs"
	"github.com/goatcms/goatcore/filesystem/filespace/memfs"
	"github.com/goatcms/goatcore/filesystem/fscache"
)

// Step is one element of a cache history: a filespace operation or a Commit.
type Step struct {
	Commit bool
	Op     mfs.Op
}

func (s Step) String() string {
	if s.Commit {
		return "Commit()"
	}
	return s.Op.String()
}

// HistStrings renders a history.
func HistStrings(h []Step) []string {
	out := make([]string, len(h))
	for i, s := range h {
		out[i] = s.String()
	}
	return out
}

// Facts is the reference model's own bookkeeping about a history prefix, used by the
// finding predicates (never taken from the implementation).
type Facts struct {
	RemovedRemote [][]string // paths removed through the cache while they existed in the committed remote tree
	RemovedAny    [][]string // every path given to a successful Remove/RemoveAll
	RemoveMissing bool       // a Remove/RemoveAll of a path the model does not have was accepted
	DirCopies     [][]string // destinations of directory copies
	Overwrites    [][]string // destinations of copies onto an existing node
	TypeConflicts [][]string // paths of operations the model rejects but the cache accepted
	FailedCopies  [][]string // destinations of copies that failed (journal entry remains)
	Commits       int
}

// Divergence describes the first departure of the cache from the model.
type Divergence struct {
	Prop   string // "C06" | "C07"
	Class  string
	Detail string
	Step   int
	Path   []string // canonical path the divergence is about (nil if unknown)
}

// Options selects what is judged.
type Options struct {
	CheckReads  bool // C07 oracles
	CheckRemote bool // C06 oracles
	RemoteKind  string
}

// Run holds the subjects of one history.
type Run struct {
	Remote           filesystem.Filespace
	Cache            *fscache.Cache
	Subj             *mfs.Subject
	Model            *mfs.Model // expected cache view
	RM               *mfs.Node  // expected remote tree (as of the last successful Commit)
	Facts            Facts
	Hist             []Step
	Opt              Options
	tmp              string
	Faults           *mfs.Faults // non-nil: the remote is wrapped in a fault-injecting decorator
	SourceOpenFaults int         // file copies whose remote source refused to open (injected)
	FailedCommits    int64
	NoRemoves        bool // after a failed Commit the remote is partly updated: removes are no longer known to be clean
	Ambiguous        string
	Mutations        int64
	ReadsChecked     int64
	TreeChecks       int64
	IsolationChecks  int64
	CommitsChecked   int64
}

// InitTree describes the initial remote tree.
type InitTree struct {
	Files map[string]string
	Dirs  []string
}

// GenInit draws a small initial remote tree.
func GenInit(rng *rand.Rand) InitTree {
	t := InitTree{Files: map[string]string{}}
	names := []string{"a", "b", "c"}
	n := rng.Intn(7)
	for i := 0; i < n; i++ {
		d := 1 + rng.Intn(3)
		segs := make([]string, d)
		for j := range segs {
			segs[j] = names[rng.Intn(3)]
		}
		p := strings.Join(segs, "/")
		if rng.Intn(3) == 0 {
			t.Dirs = append(t.Dirs, p)
		} else {
			t.Files[p] = fmt.Sprintf("remote-%d-%s", i, p)
		}
	}
	return t
}

func applyInit(fs filesystem.Filespace, m *mfs.Model, t InitTree) {
	// the same calls are applied to the model so that conflicting draws resolve identically
	do := func(op mfs.Op) {
		res := mfs.Res{}
		var err error
		switch op.Kind {
		case mfs.OpMkdirAll:
			err = fs.MkdirAll(op.P1, 0777)
		case mfs.OpWriteFile:
			err = fs.WriteFile(op.P1, op.Data, 0644)
		}
		if err != nil {
			res = mfs.Res{Err: true, Text: err.Error()}
		}
		m.Step(op, res)
	}
	for _, d := range t.Dirs {
		do(mfs.Op{Kind: mfs.OpMkdirAll, P1: d})
	}
	keys := make([]string, 0, len(t.Files))
	for k := range t.Files {
		keys = append(keys, k)
	}
	sortStrings(keys)
	for _, k := range keys {
		do(mfs.Op{Kind: mfs.OpWriteFile, P1: k, Data: []byte(t.Files[k])})
	}
}

func sortStrings(s []string) {
	for i := 1; i < len(s); i++ {
		for j := i; j > 0 && s[j] < s[j-1]; j-- {
			s[j], s[j-1] = s[j-1], s[j]
		}
	}
}

// NewRun builds remote + cache + model. wrapRemote decorates the remote (fault injection).
func NewRun(opt Options, init InitTree, wrapRemote func(filesystem.Filespace) filesystem.Filespace) (*Run, error) {
	r := &Run{Opt: opt}
	var err error
	if opt.RemoteKind == "disk" {
		if r.tmp, err = os.MkdirTemp("", "cache-"); err != nil {
			return nil, err
		}
		r.Remote, err = diskfs.NewFilespace(r.tmp)
	} else {
		r.Remote, err = memfs.NewFilespace()
	}
	if err != nil {
		return nil, err
	}
	r.Model = mfs.NewModel()
	applyInit(r.Remote, r.Model, init)
	r.RM = r.Model.Root.Clone()
	under := r.Remote
	if wrapRemote != nil {
		under = wrapRemote(r.Remote)
	}
	if r.Cache, err = fscache.NewMemCache(under); err != nil {
		return nil, err
	}
	r.Subj = mfs.NewSubject(r.Cache)
	r.Subj.Scribble = true // the caller reuses the buffers it handed in, and overwrites what it got back, right after each call
	return r, nil
}

// Cleanup removes temp dirs.
func (r *Run) Cleanup() {
	if r.tmp != "" {
		os.RemoveAll(r.tmp)
	}
}

func cp(p []string) []string { return append([]string{}, p...) }

// ModelAccepts reports whether the model would accept op as successful right now.
func (r *Run) ModelAccepts(op mfs.Op) (accepts bool, ambiguous bool) {
	c := r.Model.Clone()
	v := c.Step(op, mfs.Res{})
	if v.Ambiguous {
		return false, true
	}
	return v.Mismatch == "", false
}

// Do executes one step and returns the first divergence (nil = none). stop is true when the
// history cannot be continued (divergence or ambiguity).
func (r *Run) Do(st Step) (div *Divergence, stop bool) {
	i := len(r.Hist)
	r.Hist = append(r.Hist, st)
	if st.Commit {
		return r.doCommit(i)
	}
	op := st.Op
	p1, _ := r.Model.Resolve(op.View, op.P1)
	p2, _ := r.Model.Resolve(op.View, op.P2)
	got := r.Subj.Exec(i, op)
	if got.Panic != "" {
		return &Divergence{Prop: "C07", Class: "panic", Detail: fmt.Sprintf("step %d %s panicked: %s", i, op, got.Panic), Step: i, Path: p1}, true
	}
	if op.Kind == mfs.OpFilespace {
		r.Model.Step(op, got)
		if got.Err {
			return nil, true
		}
		return nil, false
	}
	if op.Kind.Mutating() {
		accepts, amb := r.ModelAccepts(op)
		isCopy := op.Kind == mfs.OpCopy || op.Kind == mfs.OpCopyFile || op.Kind == mfs.OpCopyDir
		switch {
		case got.Err:
			// an unsuccessful operation is not applied (the statement speaks of successful ones);
			// the tree comparison below checks that it had no visible effect
			if isCopy {
				r.Facts.FailedCopies = append(r.Facts.FailedCopies, cp(p2))
				if src := r.Model.Get(p1); src != nil && src.Dir {
					// a directory copy that fails half-way (destination exists, type conflict below it)
					// is not atomic on any backend; neither statement says what must remain
					r.Ambiguous = fmt.Sprintf("step %d %s: failed directory copy, remaining state undefined", i, op)
					return nil, true
				}
			}
		case amb:
			r.Ambiguous = fmt.Sprintf("step %d %s: no defined expectation", i, op)
			return nil, true
		case !accepts:
			// accepted by the cache, rejected by the tree model
			if (op.Kind == mfs.OpRemove || op.Kind == mfs.OpRemoveAll) && r.Model.Get(p1) == nil {
				r.Facts.RemoveMissing = true
			} else {
				r.Facts.TypeConflicts = append(r.Facts.TypeConflicts, cp(p1))
				if isCopy {
					r.Facts.TypeConflicts = append(r.Facts.TypeConflicts, cp(p2))
				}
			}
			r.Ambiguous = fmt.Sprintf("step %d %s: the cache accepted an operation the tree model rejects", i, op)
			return nil, true
		default:
			// bookkeeping for the finding predicates, from the model's point of view
			switch op.Kind {
			case mfs.OpRemove, mfs.OpRemoveAll:
				r.Facts.RemovedAny = append(r.Facts.RemovedAny, cp(p1))
				if nodeAt(r.RM, p1) != nil {
					r.Facts.RemovedRemote = append(r.Facts.RemovedRemote, cp(p1))
				}
			case mfs.OpCopy, mfs.OpCopyDir, mfs.OpCopyFile:
				// a copy reads its source through the cache view: where that view is already wrong
				// because of a listed finding (a removed remote node that stays visible, a directory
				// copy that took one layer), the copy carries the wrong content to its destination –
				// the destination (and whatever is copied from there later) belongs to the same finding
				if anyRelated(r.Facts.RemovedAny, p1) {
					r.Facts.RemovedAny = append(r.Facts.RemovedAny, cp(p2))
				}
				if anyRelated(r.Facts.RemovedRemote, p1) {
					r.Facts.RemovedRemote = append(r.Facts.RemovedRemote, cp(p2))
				}
				if anyRelated(r.Facts.DirCopies, p1) {
					r.Facts.DirCopies = append(r.Facts.DirCopies, cp(p2))
				}
				if src := r.Model.Get(p1); src != nil && src.Dir {
					r.Facts.DirCopies = append(r.Facts.DirCopies, cp(p2))
				}
				if r.Model.Get(p2) != nil {
					r.Facts.Overwrites = append(r.Facts.Overwrites, cp(p2))
				}
			}
			v := r.Model.Step(op, got)
			if v.Ambiguous {
				r.Ambiguous = fmt.Sprintf("step %d %s: no defined expectation", i, op)
				return nil, true
			}
			if v.Mutated {
				r.Mutations++
			}
		}
	} else {
		v := r.Model.Step(op, got)
		r.ReadsChecked++
		if v.Mismatch != "" && r.Opt.CheckReads {
			return &Divergence{Prop: "C07", Class: "read-result", Detail: fmt.Sprintf("step %d %s through the cache: %s", i, op, v.Mismatch), Step: i, Path: p1}, true
		}
	}
	if r.Opt.CheckReads {
		obs, anom := mfs.ObserveLimit(r.Cache, r.Model.Root.Depth()+3, 100000)
		r.TreeChecks++
		if len(anom) > 0 {
			return &Divergence{Prop: "C07", Class: "view-anomaly", Detail: fmt.Sprintf("after step %d %s the cache view is inconsistent: %s", i, op, strings.Join(anom, "; ")), Step: i, Path: anomPath(anom[0])}, true
		}
		if d, at := diffAt(r.Model.Root, obs); d != "" {
			return &Divergence{Prop: "C07", Class: "view-mismatch", Detail: fmt.Sprintf("after step %d %s the cache view differs from 'pending operations applied on top of the remote': %s", i, op, d), Step: i, Path: at}, true
		}
	}
	if r.Opt.CheckRemote {
		obs, _ := mfs.ObserveLimit(r.Remote, r.RM.Depth()+3, 100000)
		r.IsolationChecks++
		if d, at := diffAt(r.RM, obs); d != "" {
			return &Divergence{Prop: "C06", Class: "remote-modified-before-commit", Detail: fmt.Sprintf("step %d %s changed the remote before Commit: %s", i, op, d), Step: i, Path: at}, true
		}
	}
	return nil, false
}

func (r *Run) doCommit(i int) (*Divergence, bool) {
	var err error
	pan := func() (s string) {
		defer func() {
			if x := recover(); x != nil {
				s = fmt.Sprint(x)
			}
		}()
		err = r.Cache.Commit()
		return ""
	}()
	if pan != "" {
		return &Divergence{Prop: "C06", Class: "panic", Detail: fmt.Sprintf("Commit (step %d) panicked: %s", i, pan), Step: i}, true
	}
	r.Facts.Commits++
	if !r.Opt.CheckRemote {
		if err == nil {
			r.RM = r.Model.Root.Clone()
			return nil, false
		}
		if r.Faults != nil && r.Faults.FiredPoint() != "" && r.Opt.CheckReads {
			// the remote failed during Commit: every pending operation must still be visible
			r.FailedCommits++
			r.NoRemoves = true
			obs, anom := mfs.ObserveLimit(r.Cache, r.Model.Root.Depth()+3, 100000)
			r.TreeChecks++
			if len(anom) > 0 {
				return &Divergence{Prop: "C07", Class: "view-anomaly", Detail: fmt.Sprintf("after the failed Commit at step %d (%s) the cache view is inconsistent: %s", i, r.Faults.FiredPoint(), strings.Join(anom, "; ")), Step: i, Path: anomPath(anom[0])}, true
			}
			if d, at := diffAt(r.Model.Root, obs); d != "" {
				return &Divergence{Prop: "C07", Class: "view-mismatch-after-failed-commit", Detail: fmt.Sprintf("after the Commit at step %d failed (%s) the cache view no longer shows the pending operations: %s", i, r.Faults.FiredPoint(), d), Step: i, Path: at}, true
			}
			return nil, false
		}
		return nil, true
	}
	if err != nil {
		// without injected faults a Commit error means the history holds something the remote refuses
		return &Divergence{Prop: "C06", Class: "commit-error", Detail: fmt.Sprintf("Commit (step %d) failed although every pending operation was accepted: %v", i, err), Step: i}, true
	}
	obs, anom := mfs.ObserveLimit(r.Remote, r.Model.Root.Depth()+3, 100000)
	r.CommitsChecked++
	if len(anom) > 0 {
		return &Divergence{Prop: "C06", Class: "remote-anomaly", Detail: fmt.Sprintf("after the successful Commit at step %d the remote tree is inconsistent: %s", i, strings.Join(anom, "; ")), Step: i, Path: anomPath(anom[0])}, true
	}
	if d, at := diffAt(r.Model.Root, obs); d != "" {
		return &Divergence{Prop: "C06", Class: "commit-mismatch", Detail: fmt.Sprintf("after the successful Commit at step %d the remote differs from the tree obtained by applying the successful operations directly: %s", i, d), Step: i, Path: at}, true
	}
	r.RM = r.Model.Root.Clone()
	return nil, false
}

func nodeAt(n *mfs.Node, segs []string) *mfs.Node {
	for _, s := range segs {
		if n == nil || !n.Dir {
			return nil
		}
		n = n.Kids[s]
	}
	return n
}

// diffAt returns the first difference and the canonical path it concerns.
func diffAt(want, got *mfs.Node) (string, []string) {
	d := mfs.Diff(want, got, "")
	if d == "" {
		return "", nil
	}
	return d, anomPath(d)
}

// anomPath extracts the first quoted path of a message.
func anomPath(msg string) []string {
	i := strings.Index(msg, "\"")
	if i < 0 {
		return nil
	}
	j := strings.Index(msg[i+1:], "\"")
	if j < 0 {
		return nil
	}
	p := msg[i+1 : i+1+j]
	segs, _ := mfs.Norm(p)
	return segs
}

// Related: one path is a prefix of the other.
func Related(a, b []string) bool {
	n := len(a)
	if len(b) < n {
		n = len(b)
	}
	for i := 0; i < n; i++ {
		if a[i] != b[i] {
			return false
		}
	}
	return true
}

func anyRelated(set [][]string, p []string) bool {
	for _, q := range set {
		if Related(q, p) {
			return true
		}
	}
	return false
}

// Explain maps a divergence to the id of a known finding whose class predicate holds ("" = none).
// The predicates use only the model's bookkeeping (Facts) and the divergence itself.
func (r *Run) Explain(d *Divergence) string {
	if d == nil {
		return ""
	}
	f := r.Facts
	switch d.Prop {
	case "C07":
		// C07-F1: a node that lives in the committed remote stays visible after Remove/RemoveAll through the cache
		if (d.Class == "view-mismatch" || d.Class == "read-result" || d.Class == "view-anomaly") && d.Path != nil && anyRelated(f.RemovedRemote, d.Path) {
			return "C07-F1"
		}
		// the same after a Commit: C06-F1 lets Commit re-create (or keep) removed nodes in the remote, where
		// the cache view then finds them again
		if f.Commits > 0 && d.Path != nil && anyRelated(f.RemovedAny, d.Path) {
			return "C07-F1"
		}
		// C07-F2: a directory copy made from a source that is partly buffered and partly remote misses the remote part / merges
		if d.Path != nil && anyRelated(f.DirCopies, d.Path) {
			return "C07-F2"
		}
		if d.Path != nil && anyRelated(f.Overwrites, d.Path) {
			return "C07-F3"
		}
	case "C06":
		if d.Class == "commit-mismatch" || d.Class == "commit-error" || d.Class == "remote-anomaly" {
			if d.Path != nil && anyRelated(f.RemovedAny, d.Path) {
				return "C06-F1"
			}
			if d.Class == "commit-error" && len(f.RemovedAny) > 0 {
				return "C06-F1"
			}
			if d.Path != nil && anyRelated(f.DirCopies, d.Path) {
				return "C06-F2"
			}
			if d.Class == "commit-error" && len(f.DirCopies) > 0 {
				return "C06-F2"
			}
		}
	}
	return ""
}

// Report turns a divergence into a violation on r.
func Report(res *sup.CaseResult, run *Run, d *Divergence, stratum string, allowFindings bool) {
	wit := map[string]any{"stratum": stratum, "history": HistStrings(run.Hist), "remote_kind": run.Opt.RemoteKind, "model_tree": run.Model.Root.Dump(), "committed_remote_tree": run.RM.Dump()}
	if allowFindings {
		if id := run.Explain(d); id != "" {
			res.ViolateF(id, d.Class, d.Detail, wit)
			return
		}
	}
	res.Violate(d.Class, "["+stratum+"] "+d.Detail, wit)
}
