package cachemon

import (
	"fmt"
	"math/rand"
	"strings"

	"verif/internal/mfs"
	"verif/internal/sup"

	"github.com/goatcms/goatcore/filesystem"
)

// cleanOK decides whether op may be issued in the clean stratum: by construction it avoids every
// operation whose precondition matches the trigger of a listed finding.
func (r *Run) cleanOK(op mfs.Op) bool {
	if !op.Kind.Mutating() {
		return true
	}
	acc, amb := r.ModelAccepts(op)
	if !acc || amb {
		return false
	}
	p1, ok1 := r.Model.Resolve(op.View, op.P1)
	if !ok1 {
		return false
	}
	switch op.Kind {
	case mfs.OpRemove, mfs.OpRemoveAll:
		n := r.Model.Get(p1)
		// only files that exist in the buffer alone (never committed, not in the remote)
		return !r.NoRemoves && n != nil && !n.Dir && nodeAt(r.RM, p1) == nil
	case mfs.OpCopy, mfs.OpCopyFile, mfs.OpCopyDir:
		p2, ok2 := r.Model.Resolve(op.View, op.P2)
		if !ok2 {
			return false
		}
		src := r.Model.Get(p1)
		return src != nil && !src.Dir && r.Model.Get(p2) == nil && !Related(p1, p2)
	}
	return true
}

// triggerOK excludes only what cannot be run at all (a copy whose source and destination are
// related hangs or recurses in the copy helper; it is outside both statements).
func (r *Run) triggerOK(op mfs.Op) bool {
	if op.Kind == mfs.OpCopy || op.Kind == mfs.OpCopyFile || op.Kind == mfs.OpCopyDir {
		p1, ok1 := r.Model.Resolve(op.View, op.P1)
		p2, ok2 := r.Model.Resolve(op.View, op.P2)
		if !ok1 || !ok2 || Related(p1, p2) {
			return false
		}
	}
	if op.Kind == mfs.OpRemove || op.Kind == mfs.OpRemoveAll {
		p1, ok := r.Model.Resolve(op.View, op.P1)
		if !ok || len(p1) == 0 {
			return false
		}
	}
	return true
}

// Drive runs one generated history; returns the first divergence.
func Drive(run *Run, rng *rand.Rand, nops int, clean bool, views bool) *Divergence {
	names := []string{"a", "b", "c"}
	if rng.Intn(3) == 0 {
		names = []string{"a", "ab", "b"} // one name is a string prefix of another
	}
	gen := &mfs.Gen{Cfg: mfs.GenCfg{Names: names, MaxDepth: 3, Spell: true, Views: views,
		PrecondBias: 0.85, Weights: mfs.DefaultWeights(), NoDestInsideSrc: true}, R: rng, M: run.Model}
	for i := 0; i < nops; i++ {
		var st Step
		if rng.Intn(12) == 0 {
			st = Step{Commit: true}
			if run.Faults != nil && rng.Intn(2) == 0 {
				run.Faults.Fired = ""
				run.Faults.Arm(run.Faults.Count() + 1 + int64(rng.Intn(8)))
			}
		} else {
			found := false
			for try := 0; try < 40 && !found; try++ {
				op := gen.Next()
				if (clean && run.cleanOK(op) && run.triggerOK(op)) || (!clean && run.triggerOK(op)) {
					st = Step{Op: op}
					found = true
				}
			}
			if !found {
				st = Step{Op: mfs.Op{Kind: mfs.OpIsExist, P1: "a"}}
			}
		}
		// faulty remote: now and then the remote refuses to open the source of a file copy. The
		// copy then fails before anything was transferred; like every unsuccessful operation it
		// must leave the view as it was (checked by Do's tree comparison)
		if run.Faults != nil && !st.Commit && rng.Intn(3) == 0 && (st.Op.Kind == mfs.OpCopy || st.Op.Kind == mfs.OpCopyFile) {
			if sp, ok := run.Model.Resolve(st.Op.View, st.Op.P1); ok {
				if n := run.Model.Get(sp); n != nil && !n.Dir {
					run.Faults.Fired = ""
					run.Faults.Match = "Reader-open"
					run.Faults.Arm(run.Faults.Count() + 1)
				}
			}
		}
		d, stop := run.Do(st)
		if run.Faults != nil {
			run.Faults.Arm(0)
			if run.Faults.Match != "" {
				run.Faults.Match = ""
				if run.Faults.FiredPoint() != "" {
					run.SourceOpenFaults++
				}
			}
		}
		if d != nil || stop {
			return d
		}
	}
	for k := 0; k < 1+rng.Intn(2); k++ {
		if d, stop := run.Do(Step{Commit: true}); d != nil || stop {
			return d
		}
	}
	return nil
}

// Witness is a fixed history that reproduces a listed finding.
type Witness struct {
	ID    string
	Prop  string
	Init  InitTree
	Steps []Step
}

func w(k mfs.OpKind, p1 string, rest ...string) Step {
	op := mfs.Op{Kind: k, P1: p1}
	if len(rest) > 0 {
		if k == mfs.OpWriteFile {
			op.Data = []byte(rest[0])
		} else {
			op.P2 = rest[0]
		}
	}
	return Step{Op: op}
}

// Witnesses lists the minimal histories of the open findings (see KNOWN_FINDINGS.txt).
func Witnesses() []Witness {
	commit := Step{Commit: true}
	return []Witness{
		{ID: "C07-F1", Prop: "C07", Init: InitTree{Files: map[string]string{"a": "remote-a"}},
			Steps: []Step{w(mfs.OpRemove, "a"), w(mfs.OpIsExist, "a")}},
		{ID: "C07-F1", Prop: "C07", Init: InitTree{Files: map[string]string{"d/x": "remote-x"}},
			Steps: []Step{w(mfs.OpRemoveAll, "d"), w(mfs.OpReadDir, "")}},
		{ID: "C07-F2", Prop: "C07", Init: InitTree{Files: map[string]string{"d/r": "remote-r"}},
			Steps: []Step{w(mfs.OpWriteFile, "d/b", "buffered"), w(mfs.OpCopy, "d", "e"), w(mfs.OpReadFile, "e/r")}},
		{ID: "C06-F1", Prop: "C06", Init: InitTree{Dirs: []string{"d"}},
			Steps: []Step{w(mfs.OpRemove, "d"), commit}},
		{ID: "C06-F1", Prop: "C06", Init: InitTree{},
			Steps: []Step{w(mfs.OpWriteFile, "d/n", "x"), w(mfs.OpRemoveAll, "d"), commit}},
		{ID: "C06-F1", Prop: "C06", Init: InitTree{},
			Steps: []Step{w(mfs.OpMkdirAll, "m/n"), w(mfs.OpRemove, "m/n"), commit}},
		{ID: "C06-F2", Prop: "C06", Init: InitTree{Files: map[string]string{"d/r": "remote-r"}},
			Steps: []Step{w(mfs.OpCopyDir, "d", "e"), commit}},
	}
}

// RunWitness replays a witness verbatim.
func RunWitness(res *sup.CaseResult, wt Witness, opt Options) {
	run, err := NewRun(opt, wt.Init, nil)
	if err != nil {
		res.Inconclusive = err.Error()
		return
	}
	defer run.Cleanup()
	for _, st := range wt.Steps {
		d, stop := run.Do(st)
		if d != nil {
			if d.Prop != wt.Prop {
				return
			}
			id := run.Explain(d)
			if id == wt.ID {
				res.ViolateF(id, d.Class, d.Detail, map[string]any{"witness_history": HistStrings(run.Hist)})
				res.AddObs("finding_witness_reproduced_"+id, 1)
			} else {
				res.Violate(d.Class, fmt.Sprintf("witness history of %s now diverges differently (explained as %q): %s", wt.ID, id, d.Detail), map[string]any{"witness_history": HistStrings(run.Hist)})
			}
			return
		}
		if stop {
			break
		}
	}
	res.AddObs("finding_witness_no_longer_diverges_"+wt.ID, 1)
}

// FaultCommit enumerates every fault position of the Commit that ends history h (clean stratum).
func FaultCommit(res *sup.CaseResult, opt Options, init InitTree, h []Step) {
	build := func(f *mfs.Faults) (*Run, bool) {
		run, err := NewRun(opt, init, func(in filesystem.Filespace) filesystem.Filespace { return mfs.NewFaultFS(in, f, "remote") })
		if err != nil {
			res.Inconclusive = err.Error()
			return nil, false
		}
		for _, st := range h {
			if d, stop := run.Do(st); d != nil || stop {
				run.Cleanup()
				return nil, false // the fault-free replay is judged elsewhere
			}
		}
		return run, true
	}
	// dry run: count the remote call points of the final Commit
	f0 := &mfs.Faults{}
	run, ok := build(f0)
	if !ok {
		return
	}
	before := f0.Count()
	d, _ := run.Do(Step{Commit: true})
	points := f0.Count() - before
	run.Cleanup()
	if d != nil {
		return
	}
	res.AddObs("fault_histories", 1)
	res.AddObs("fault_positions", points)
	for k := int64(1); k <= points; k++ {
		f := &mfs.Faults{}
		run, ok := build(f)
		if !ok {
			return
		}
		f.Arm(f.Count() + k)
		err := run.Cache.Commit()
		fired := f.FiredPoint()
		f.Arm(0)
		wit := map[string]any{"history": HistStrings(run.Hist), "fault": fired, "remote_kind": opt.RemoteKind}
		if fired != "" {
			res.AddObs("faults_injected", 1)
			if err == nil {
				res.Violate("commit-fault-not-reported", fmt.Sprintf("the remote failed during Commit (%s) but Commit returned nil", fired), wit)
			}
		}
		// every other position: the cache is used once more before the retry (a new top-level file;
		// the expected tree gets it too) – a failed Commit must leave the cache usable
		if k%2 == 0 {
			// (issued on the cache directly: the remote-untouched-before-Commit comparison of Run.Do
			// does not apply after a Commit that failed half way)
			op := mfs.Op{Kind: mfs.OpWriteFile, P1: "zzafter", Data: []byte(fmt.Sprintf("written after the failed commit %d", k))}
			werr := run.Cache.WriteFile(op.P1, append([]byte{}, op.Data...), 0644)
			if werr != nil {
				res.Violate("commit-after-fault-fails", fmt.Sprintf("after the injected fault %s the cache refuses a WriteFile of a new top-level file: %v", fired, werr), wit)
				run.Cleanup()
				return
			}
			run.Model.Step(op, mfs.Res{})
			res.AddObs("writes_between_a_failed_commit_and_the_retry", 1)
		}
		// a later Commit without faults must succeed and bring the remote to the expected tree
		if err2 := run.Cache.Commit(); err2 != nil {
			res.Violate("commit-after-fault-fails", fmt.Sprintf("after the injected fault %s a later Commit still fails: %v", fired, err2), wit)
		} else {
			obs, _ := mfs.ObserveLimit(run.Remote, run.Model.Root.Depth()+3, 100000)
			if dd := mfs.Diff(run.Model.Root, obs, ""); dd != "" {
				res.Violate("commit-after-fault-mismatch", fmt.Sprintf("after the injected fault %s and a later successful Commit the remote differs from the expected tree: %s", fired, dd), wit)
			} else {
				res.AddObs("recovered_commits_checked", 1)
			}
		}
		run.Cleanup()
		if len(res.Violations) > 3 {
			return
		}
	}
}

// Key renders a canonical key of a history.
func Key(h []Step) string { return strings.Join(HistStrings(h), ";") }
