// Package sup is the supervisor/worker runtime shared by every property worker.
//
// One binary per property. Started without --child it is the supervisor: it plans
// batches, runs each batch in a child process (the same binary with --child), watches
// wall clock and resident memory, collects the children's JSON event logs, race-detector
// logs and exit states, matches violations against /verif/KNOWN_FINDINGS.txt, writes
// /verif/evidence/<id>.json and replay files and sets the exit code:
//
//	0 held on everything explored   1 violation (VIOLATION line printed)   2 inconclusive
package sup

import (
	"bufio"
	"bytes"
	"crypto/sha256"
	"encoding/hex"
	"encoding/json"
	"flag"
	"fmt"
	"math/rand"
	"os"
	"os/exec"
	"path/filepath"
	"regexp"
	"runtime"
	"runtime/debug"
	"sort"
	"strconv"
	"strings"
	"sync"
	"syscall"
	"time"
)

// Violation is one refuting observation made by a monitor.
type Violation struct {
	Class   string `json:"class"`             // short machine key of the oracle that fired
	Finding string `json:"finding,omitempty"` // known-finding id whose class predicate holds ("" = none)
	Detail  string `json:"detail"`
	Witness any    `json:"witness,omitempty"`
}

// CaseResult is what a worker reports for one case.
type CaseResult struct {
	Key          string           `json:"key,omitempty"` // canonical form (hashed for distinctness)
	Nontrivial   bool             `json:"nt,omitempty"`
	Obs          map[string]int64 `json:"obs,omitempty"`
	Violations   []Violation      `json:"viol,omitempty"`
	Inconclusive string           `json:"inc,omitempty"`
	Sample       any              `json:"sample,omitempty"`
	// a case that bundles many executions reports how many (default 1) and, optionally, one
	// canonical key per non-trivial execution (hashed for the distinct count) instead of Key
	Evals int64    `json:"evals,omitempty"`
	Keys  []string `json:"keys,omitempty"`
}

// AddKey records the canonical form of one non-trivial execution of a bundled case.
func (r *CaseResult) AddKey(k string) {
	h := sha256.Sum256([]byte(k))
	r.Keys = append(r.Keys, hex.EncodeToString(h[:10]))
}

// AddObs adds n to counter k.
func (r *CaseResult) AddObs(k string, n int64) {
	if r.Obs == nil {
		r.Obs = map[string]int64{}
	}
	r.Obs[k] += n
}

// Violate appends a violation.
func (r *CaseResult) Violate(class, detail string, witness any) {
	r.Violations = append(r.Violations, Violation{Class: class, Detail: detail, Witness: witness})
}

// ViolateF appends a violation explained by a known-finding class predicate.
func (r *CaseResult) ViolateF(finding, class, detail string, witness any) {
	r.Violations = append(r.Violations, Violation{Class: class, Finding: finding, Detail: detail, Witness: witness})
}

// Batch is a unit of work executed in one child process.
type Batch struct {
	Name     string         `json:"name"`
	Kind     string         `json:"kind"`
	From     int            `json:"from"`
	To       int            `json:"to"` // exclusive
	Procs    int            `json:"procs"`
	Seed     int64          `json:"seed"`
	Tier     string         `json:"tier"`
	Params   map[string]any `json:"params,omitempty"`
	TimeoutS int            `json:"timeout_s"`
	MemMB    int            `json:"mem_mb"`
	Only     int            `json:"only"` // replay: run only this case index (-1 = all)
	Env      []string       `json:"env,omitempty"`
}

// P returns an integer parameter.
func (b Batch) P(name string, def int) int {
	if v, ok := b.Params[name]; ok {
		switch x := v.(type) {
		case float64:
			return int(x)
		case int:
			return x
		}
	}
	return def
}

// PS returns a string parameter.
func (b Batch) PS(name, def string) string {
	if v, ok := b.Params[name]; ok {
		if s, ok := v.(string); ok {
			return s
		}
	}
	return def
}

// Prop describes one property worker.
type Prop struct {
	ID          string
	Level       string // exploration | fault_enumeration
	Rule        string
	Assumptions []string
	Race        bool // binary is built with -race (informational)
	// Plan returns the batches of a tier.
	Plan func(tier string, seed int64) []Batch
	// Run executes a batch (child side).
	Run func(c *Child, b Batch)
	// Finish may declare the run inconclusive from the totals (minimum-observation rules).
	Finish func(t *Totals) string
	// RaceAnchors are path fragments; a race block with a frame in one of them is "in anchor".
	RaceAnchors []string
	RaceDecides bool
	// Exhaustive names the sub-spaces enumerated completely per tier ("" = none).
	Exhaustive func(tier string) string
}

// Totals aggregates what the children reported.
type Totals struct {
	Evaluations  int64
	Distinct     map[string]struct{}
	Obs          map[string]int64
	Samples      []any
	Violations   []foundViolation
	Inconclusive []string
	RaceBlocks   int
	RaceDedup    map[string]string
	RaceInAnchor map[string]string
	ChildExits   map[string]int
}

type foundViolation struct {
	Batch Batch     `json:"batch"`
	Case  int       `json:"case"`
	Desc  any       `json:"desc,omitempty"`
	V     Violation `json:"violation"`
}

// Child is the worker-side handle.
type Child struct {
	mu   sync.Mutex
	w    *bufio.Writer
	f    *os.File
	b    Batch
	step int64
}

type logLine struct {
	T    string      `json:"t"`
	Case int         `json:"case"`
	Desc any         `json:"desc,omitempty"`
	Res  *CaseResult `json:"res,omitempty"`
}

func (c *Child) emit(l logLine) {
	bs, err := json.Marshal(l)
	if err != nil {
		bs, _ = json.Marshal(logLine{T: l.T, Case: l.Case, Desc: fmt.Sprintf("unmarshalable: %v", err), Res: nil})
	}
	c.mu.Lock()
	c.w.Write(bs)
	c.w.WriteByte('\n')
	c.w.Flush()
	c.mu.Unlock()
}

// Want reports whether case idx has to be run (replay restricts to one case).
func (c *Child) Want(idx int) bool { return c.b.Only < 0 || c.b.Only == idx }

// Case runs fn as case idx. The description is written to disk before fn starts, so a
// process-fatal error is attributed to it. A panic in fn's goroutine is a violation.
func (c *Child) Case(idx int, desc any, fn func(r *CaseResult)) {
	if !c.Want(idx) {
		return
	}
	c.emit(logLine{T: "begin", Case: idx, Desc: desc})
	res := &CaseResult{}
	func() {
		defer func() {
			if p := recover(); p != nil {
				res.Violate("panic", fmt.Sprintf("panic: %v", p), string(debug.Stack()))
			}
		}()
		fn(res)
	}()
	c.emit(logLine{T: "end", Case: idx, Res: res})
}

// Rand returns the deterministic PRNG of case idx.
func (c *Child) Rand(idx int) *rand.Rand { return RandFor(c.b.Seed, c.b.Kind, idx) }

// RandFor derives a PRNG from (seed, kind, idx).
func RandFor(seed int64, kind string, idx int) *rand.Rand {
	h := sha256.Sum256([]byte(fmt.Sprintf("%d|%s|%d", seed, kind, idx)))
	var s int64
	for i := 0; i < 8; i++ {
		s = s<<8 | int64(h[i])
	}
	return rand.New(rand.NewSource(s))
}

func verifDir() string {
	if d := os.Getenv("VERIF_DIR"); d != "" {
		return d
	}
	return "/verif"
}

// Main is the entry point of every worker binary.
func Main(p Prop) {
	var (
		tier     = flag.String("tier", "quick", "quick|thorough")
		child    = flag.String("child", "", "batch json file (child mode)")
		logf     = flag.String("log", "", "event log (child mode)")
		replay   = flag.String("replay", "", "replay file")
		onlyB    = flag.String("only", "", "run only batches whose name has this prefix")
		par      = flag.Int("par", 0, "max total procs")
		noEvid   = flag.Bool("no-evidence", false, "do not write the evidence file")
		listOnly = flag.Bool("list", false, "list batches")
	)
	flag.Parse()
	if *child != "" {
		runChild(p, *child, *logf)
		return
	}
	seed := int64(1)
	if s := os.Getenv("VERIF_SEED"); s != "" {
		if v, err := strconv.ParseInt(s, 10, 64); err == nil {
			seed = v
		}
	}
	if t := os.Getenv("VERIF_TIER"); t != "" && !flagSet("tier") {
		*tier = t
	}
	if *tier != "quick" && *tier != "thorough" {
		fmt.Fprintln(os.Stderr, "bad tier")
		os.Exit(2)
	}
	start := time.Now()
	var batches []Batch
	isReplay := false
	if *replay != "" {
		isReplay = true
		bs, err := os.ReadFile(*replay)
		if err != nil {
			fmt.Fprintln(os.Stderr, "replay:", err)
			os.Exit(2)
		}
		var fv foundViolation
		if err := json.Unmarshal(bs, &fv); err != nil {
			fmt.Fprintln(os.Stderr, "replay:", err)
			os.Exit(2)
		}
		b := fv.Batch
		b.Only = fv.Case
		batches = []Batch{b}
		*tier = b.Tier
		seed = b.Seed
	} else {
		batches = p.Plan(*tier, seed)
		for i := range batches {
			batches[i].Seed = seed
			batches[i].Tier = *tier
			batches[i].Only = -1
			if batches[i].Procs <= 0 {
				batches[i].Procs = 1
			}
			// the batch watchdog only keeps a run from hanging for ever (its expiry is
			// "inconclusive", never a verdict): generous enough for a machine that runs many
			// checks at once
			if batches[i].TimeoutS <= 0 {
				batches[i].TimeoutS = 1800
			}
			if *tier == "thorough" && batches[i].TimeoutS < 7200 {
				batches[i].TimeoutS = 7200
			}
			if batches[i].MemMB <= 0 {
				batches[i].MemMB = 4096
			}
		}
		if *onlyB != "" {
			var kept []Batch
			for _, b := range batches {
				if strings.HasPrefix(b.Name, *onlyB) {
					kept = append(kept, b)
				}
			}
			batches = kept
		}
	}
	if *listOnly {
		for _, b := range batches {
			fmt.Printf("%s kind=%s [%d,%d) procs=%d\n", b.Name, b.Kind, b.From, b.To, b.Procs)
		}
		return
	}
	maxProcs := *par
	if maxProcs <= 0 {
		maxProcs = runtime.NumCPU()
	}
	if !isReplay && *onlyB == "" {
		// witnesses of earlier runs of this tier are stale
		if old, _ := filepath.Glob(filepath.Join(verifDir(), "replay", p.ID, *tier+"-*.json")); len(old) > 0 {
			for _, f := range old {
				os.Remove(f)
			}
		}
	}
	tot := supervise(p, batches, maxProcs)
	if p.Finish != nil && !isReplay && *onlyB == "" {
		if why := p.Finish(tot); why != "" {
			tot.Inconclusive = append(tot.Inconclusive, why)
		}
	}
	code := report(p, tot, *tier, seed, time.Since(start), !*noEvid && !isReplay && *onlyB == "")
	os.Exit(code)
}

func flagSet(name string) bool {
	set := false
	flag.Visit(func(f *flag.Flag) {
		if f.Name == name {
			set = true
		}
	})
	return set
}

func runChild(p Prop, batchFile, logFile string) {
	bs, err := os.ReadFile(batchFile)
	if err != nil {
		fmt.Fprintln(os.Stderr, err)
		os.Exit(3)
	}
	var b Batch
	if err := json.Unmarshal(bs, &b); err != nil {
		fmt.Fprintln(os.Stderr, err)
		os.Exit(3)
	}
	f, err := os.OpenFile(logFile, os.O_CREATE|os.O_WRONLY|os.O_TRUNC, 0644)
	if err != nil {
		fmt.Fprintln(os.Stderr, err)
		os.Exit(3)
	}
	c := &Child{w: bufio.NewWriter(f), f: f, b: b}
	runtime.GOMAXPROCS(b.Procs)
	p.Run(c, b)
	c.emit(logLine{T: "done", Case: -1})
	f.Close()
	os.Exit(0)
}

var weightMu sync.Mutex
var weightCond = sync.NewCond(&weightMu)
var weightUsed int

func acquire(n, max int) {
	if n > max {
		n = max
	}
	weightMu.Lock()
	for weightUsed+n > max {
		weightCond.Wait()
	}
	weightUsed += n
	weightMu.Unlock()
}
func release(n, max int) {
	if n > max {
		n = max
	}
	weightMu.Lock()
	weightUsed -= n
	weightMu.Unlock()
	weightCond.Broadcast()
}

func supervise(p Prop, batches []Batch, maxProcs int) *Totals {
	tot := &Totals{
		Distinct: map[string]struct{}{}, Obs: map[string]int64{},
		RaceDedup: map[string]string{}, RaceInAnchor: map[string]string{}, ChildExits: map[string]int{},
	}
	work, err := os.MkdirTemp("", "verif-"+p.ID+"-")
	if err != nil {
		tot.Inconclusive = append(tot.Inconclusive, "mktemp: "+err.Error())
		return tot
	}
	defer os.RemoveAll(work)
	self, _ := os.Executable()
	var wg sync.WaitGroup
	var mu sync.Mutex
	for i, b := range batches {
		wg.Add(1)
		acquire(b.Procs, maxProcs)
		go func(i int, b Batch) {
			defer wg.Done()
			defer release(b.Procs, maxProcs)
			dir := filepath.Join(work, fmt.Sprintf("b%04d", i))
			os.MkdirAll(dir, 0755)
			bt := runBatch(p, self, dir, b)
			mu.Lock()
			merge(tot, bt)
			mu.Unlock()
			os.RemoveAll(dir)
		}(i, b)
	}
	wg.Wait()
	return tot
}

type batchOutcome struct {
	b          Batch
	results    []logLine
	openCase   *logLine
	exit       string
	stderrTail string
	fatalLine  string
	raceBlocks []string
	done       bool
}

func runBatch(p Prop, self, dir string, b Batch) *batchOutcome {
	out := &batchOutcome{b: b}
	bs, _ := json.Marshal(b)
	bf := filepath.Join(dir, "batch.json")
	os.WriteFile(bf, bs, 0644)
	lf := filepath.Join(dir, "events.jsonl")
	ef := filepath.Join(dir, "stderr.txt")
	errFile, _ := os.Create(ef)
	cmd := exec.Command(self, "--child", bf, "--log", lf)
	cmd.Stdout = errFile
	cmd.Stderr = errFile
	cmd.Dir = dir
	cmd.Env = append(os.Environ(),
		"GORACE=halt_on_error=0 log_path="+filepath.Join(dir, "race")+" history_size=3",
		"GOMAXPROCS="+strconv.Itoa(b.Procs),
		"GOTRACEBACK=all",
		"TMPDIR="+dir,
	)
	cmd.Env = append(cmd.Env, b.Env...)
	cmd.SysProcAttr = &syscall.SysProcAttr{Setpgid: true}
	if err := cmd.Start(); err != nil {
		out.exit = "start-failed: " + err.Error()
		return out
	}
	doneCh := make(chan error, 1)
	go func() { doneCh <- cmd.Wait() }()
	deadline := time.After(time.Duration(b.TimeoutS) * time.Second)
	tick := time.NewTicker(250 * time.Millisecond)
	defer tick.Stop()
	var werr error
	killed := ""
loop:
	for {
		select {
		case werr = <-doneCh:
			break loop
		case <-deadline:
			if killed == "" {
				killed = "watchdog"
				syscall.Kill(cmd.Process.Pid, syscall.SIGQUIT)
				go func() {
					time.Sleep(5 * time.Second)
					syscall.Kill(-cmd.Process.Pid, syscall.SIGKILL)
				}()
			}
		case <-tick.C:
			if killed == "" && rssMB(cmd.Process.Pid) > b.MemMB {
				killed = "memory-limit"
				syscall.Kill(-cmd.Process.Pid, syscall.SIGKILL)
			}
		}
	}
	errFile.Close()
	switch {
	case killed != "":
		out.exit = killed
	case werr == nil:
		out.exit = "ok"
	default:
		out.exit = werr.Error()
	}
	// event log
	if f, err := os.Open(lf); err == nil {
		sc := bufio.NewScanner(f)
		sc.Buffer(make([]byte, 1<<20), 1<<28)
		var open *logLine
		for sc.Scan() {
			var l logLine
			if json.Unmarshal(sc.Bytes(), &l) != nil {
				continue
			}
			switch l.T {
			case "begin":
				ll := l
				open = &ll
			case "end":
				if open != nil && l.Desc == nil {
					l.Desc = open.Desc
				}
				out.results = append(out.results, l)
				open = nil
			case "done":
				out.done = true
			}
		}
		out.openCase = open
		f.Close()
	}
	if eb, err := os.ReadFile(ef); err == nil {
		out.fatalLine = firstFatal(eb)
		if len(eb) > 6000 {
			eb = append(eb[:3000:3000], append([]byte("\n...\n"), eb[len(eb)-3000:]...)...)
		}
		out.stderrTail = string(eb)
	}
	// race logs
	matches, _ := filepath.Glob(filepath.Join(dir, "race.*"))
	for _, m := range matches {
		if rb, err := os.ReadFile(m); err == nil {
			out.raceBlocks = append(out.raceBlocks, splitRace(string(rb))...)
		}
	}
	return out
}

func rssMB(pid int) int {
	bs, err := os.ReadFile(fmt.Sprintf("/proc/%d/status", pid))
	if err != nil {
		return 0
	}
	for _, ln := range strings.Split(string(bs), "\n") {
		if strings.HasPrefix(ln, "VmRSS:") {
			f := strings.Fields(ln)
			if len(f) >= 2 {
				kb, _ := strconv.Atoi(f[1])
				return kb / 1024
			}
		}
	}
	return 0
}

var fatalRe = regexp.MustCompile(`(?m)^(fatal error: .*|panic: .*|runtime: goroutine stack exceeds.*)$`)

func firstFatal(b []byte) string {
	m := fatalRe.Find(b)
	if m == nil {
		return ""
	}
	s := string(m)
	if len(s) > 300 {
		s = s[:300]
	}
	return s
}

func splitRace(s string) []string {
	var out []string
	parts := strings.Split(s, "==================")
	for _, p := range parts {
		if strings.Contains(p, "WARNING: DATA RACE") {
			out = append(out, p)
		}
	}
	return out
}

// raceSig reduces a race block to (signature, files): the top-most goatcore frame of each
// of the two accesses, line numbers stripped.
func raceSig(block string) (sig string, files []string, harnessOnly bool) {
	lines := strings.Split(block, "\n")
	var stacks [][]string // each: list of "func file"
	var cur []string
	inAccess := false
	flush := func() {
		if inAccess {
			stacks = append(stacks, cur)
		}
		cur = nil
	}
	for i := 0; i < len(lines); i++ {
		ln := lines[i]
		t := strings.TrimSpace(ln)
		if strings.HasPrefix(t, "Read at") || strings.HasPrefix(t, "Write at") || strings.HasPrefix(t, "Previous read at") || strings.HasPrefix(t, "Previous write at") || strings.HasPrefix(t, "Atomic") || strings.HasPrefix(t, "Previous atomic") {
			flush()
			inAccess = true
			continue
		}
		if strings.HasPrefix(t, "Goroutine ") {
			flush()
			inAccess = false
			continue
		}
		if inAccess && strings.HasPrefix(ln, "  ") && !strings.HasPrefix(ln, "   ") && t != "" && i+1 < len(lines) {
			fn := t
			if k := strings.LastIndex(fn, "("); k > 0 {
				fn = fn[:k]
			}
			file := strings.TrimSpace(lines[i+1])
			if k := strings.LastIndex(file, ":"); k > 0 {
				file = file[:k]
			}
			cur = append(cur, fn+" "+file)
			i++
		}
	}
	flush()
	harnessOnly = true
	var tops []string
	for _, st := range stacks {
		top := ""
		for _, fr := range st {
			if strings.Contains(fr, "goatcms/goatcore") || strings.Contains(fr, "/repo/") {
				if top == "" {
					top = strings.Fields(fr)[0]
				}
				harnessOnly = false
				files = append(files, strings.Fields(fr)[1])
			}
		}
		if top == "" && len(st) > 0 {
			top = strings.Fields(st[0])[0]
		}
		tops = append(tops, top)
	}
	sort.Strings(tops)
	return strings.Join(tops, " <-> "), files, harnessOnly
}

func merge(tot *Totals, o *batchOutcome) {
	tot.ChildExits[o.exit]++
	for _, l := range o.results {
		r := l.Res
		if r == nil {
			continue
		}
		if r.Evals > 0 {
			tot.Evaluations += r.Evals
		} else {
			tot.Evaluations++
		}
		if r.Nontrivial && r.Key != "" && len(r.Keys) == 0 {
			h := sha256.Sum256([]byte(r.Key))
			tot.Distinct[hex.EncodeToString(h[:12])] = struct{}{}
		}
		for _, k := range r.Keys {
			tot.Distinct[k] = struct{}{}
		}
		for k, v := range r.Obs {
			tot.Obs[k] += v
		}
		if r.Sample != nil && len(tot.Samples) < 6 {
			tot.Samples = append(tot.Samples, r.Sample)
		}
		for _, v := range r.Violations {
			tot.Violations = append(tot.Violations, foundViolation{Batch: o.b, Case: l.Case, Desc: l.Desc, V: v})
		}
		if r.Inconclusive != "" {
			tot.Inconclusive = append(tot.Inconclusive, fmt.Sprintf("%s case %d: %s", o.b.Name, l.Case, r.Inconclusive))
		}
	}
	tot.RaceBlocks += len(o.raceBlocks)
	for _, blk := range o.raceBlocks {
		sig, files, harnessOnly := raceSig(blk)
		if harnessOnly {
			sig = "harness-only: " + sig
		}
		if _, ok := tot.RaceDedup[sig]; !ok {
			tot.RaceDedup[sig] = blk
		}
		_ = files
	}
	abnormal := !(o.exit == "ok" || (o.exit == "exit status 66" && o.done))
	if abnormal {
		caseIdx := -1
		var desc any
		if o.openCase != nil {
			caseIdx = o.openCase.Case
			desc = o.openCase.Desc
		}
		switch {
		case o.exit == "watchdog":
			tot.Inconclusive = append(tot.Inconclusive, fmt.Sprintf("%s: watchdog fired in case %d", o.b.Name, caseIdx))
			tot.Violations = appendDeadlock(tot.Violations, o, caseIdx, desc)
		case o.exit == "memory-limit":
			tot.Inconclusive = append(tot.Inconclusive, fmt.Sprintf("%s: memory limit hit in case %d", o.b.Name, caseIdx))
		case o.fatalLine != "":
			tot.Violations = append(tot.Violations, foundViolation{Batch: o.b, Case: caseIdx, Desc: desc,
				V: Violation{Class: "process-fatal", Detail: o.fatalLine, Witness: o.stderrTail}})
		default:
			tot.Inconclusive = append(tot.Inconclusive, fmt.Sprintf("%s: child ended with %q (case %d): %s", o.b.Name, o.exit, caseIdx, tail(o.stderrTail, 400)))
		}
	}
}

// appendDeadlock: a watchdog expiry is a violation only if the worker itself diagnosed a
// logical deadlock (it then logs a result before the kill); nothing to add here.
func appendDeadlock(v []foundViolation, o *batchOutcome, caseIdx int, desc any) []foundViolation {
	return v
}

func tail(s string, n int) string {
	if len(s) > n {
		return s[len(s)-n:]
	}
	return s
}

// KnownFinding is one line of KNOWN_FINDINGS.txt.
type KnownFinding struct {
	Status, Property, ID, What string
}

// LoadFindings parses /verif/KNOWN_FINDINGS.txt.
// Line formats:  open: property=C07 id=C07-F1 <what fails>
//
//	fixed: property=C01 <commit> <what failed>
func LoadFindings() []KnownFinding {
	bs, err := os.ReadFile(filepath.Join(verifDir(), "KNOWN_FINDINGS.txt"))
	if err != nil {
		return nil
	}
	var out []KnownFinding
	for _, ln := range strings.Split(string(bs), "\n") {
		ln = strings.TrimSpace(ln)
		if ln == "" || strings.HasPrefix(ln, "#") {
			continue
		}
		var kf KnownFinding
		switch {
		case strings.HasPrefix(ln, "open:"):
			kf.Status = "open"
			ln = strings.TrimSpace(ln[5:])
		case strings.HasPrefix(ln, "fixed:"):
			kf.Status = "fixed"
			ln = strings.TrimSpace(ln[6:])
		default:
			continue
		}
		f := strings.Fields(ln)
		rest := []string{}
		for _, w := range f {
			switch {
			case strings.HasPrefix(w, "property=") && kf.Property == "":
				kf.Property = w[9:]
			case strings.HasPrefix(w, "id=") && kf.ID == "":
				kf.ID = w[3:]
			default:
				rest = append(rest, w)
			}
		}
		kf.What = strings.Join(rest, " ")
		out = append(out, kf)
	}
	return out
}

func report(p Prop, tot *Totals, tier string, seed int64, wall time.Duration, writeEvidence bool) int {
	open := map[string]KnownFinding{}
	for _, kf := range LoadFindings() {
		if kf.Status == "open" && kf.Property == p.ID && kf.ID != "" {
			open[kf.ID] = kf
		}
	}
	// race reports
	for sig, blk := range tot.RaceDedup {
		if strings.HasPrefix(sig, "harness-only: ") {
			tot.Inconclusive = append(tot.Inconclusive, "race report in harness code only: "+sig)
			continue
		}
		in := false
		for _, a := range p.RaceAnchors {
			if strings.Contains(blk, a) {
				in = true
			}
		}
		if in {
			tot.RaceInAnchor[sig] = blk
			if p.RaceDecides {
				tot.Violations = append(tot.Violations, foundViolation{Batch: Batch{Name: "race-detector", Tier: tier, Seed: seed, Only: -1}, Case: -1,
					V: Violation{Class: "data-race", Detail: sig, Witness: blk}})
			}
		}
	}
	reproduced := map[string]int{}
	var fresh []foundViolation
	for _, fv := range tot.Violations {
		if fv.V.Finding != "" {
			if _, ok := open[fv.V.Finding]; ok {
				reproduced[fv.V.Finding]++
				continue
			}
		}
		fresh = append(fresh, fv)
	}
	ids := make([]string, 0, len(reproduced))
	for id := range reproduced {
		ids = append(ids, id)
	}
	sort.Strings(ids)
	for _, id := range ids {
		fmt.Printf("KNOWN-FINDING: property=%s %s %s (reproduced %d times in this run)\n", p.ID, id, open[id].What, reproduced[id])
	}
	// replay files + VIOLATION lines (one per distinct class/detail head, capped)
	code := 0
	if len(fresh) > 0 {
		code = 1
		rdir := filepath.Join(verifDir(), "replay", p.ID)
		os.MkdirAll(rdir, 0755)
		seen := map[string]bool{}
		n := 0
		for _, fv := range fresh {
			k := fv.V.Class + "|" + fv.V.Finding
			if seen[k] && n >= 3 {
				continue
			}
			if n >= 12 {
				break
			}
			seen[k] = true
			n++
			fv.Batch.Only = fv.Case
			bs, _ := json.MarshalIndent(fv, "", " ")
			h := sha256.Sum256(bs)
			path := filepath.Join(rdir, fmt.Sprintf("%s-%s-%s.json", tier, sanitize(fv.V.Class), hex.EncodeToString(h[:4])))
			os.WriteFile(path, bs, 0644)
			fmt.Printf("VIOLATION property=%s replay=%s\n", p.ID, path)
			fmt.Printf("  class=%s batch=%s case=%d: %s\n", fv.V.Class, fv.Batch.Name, fv.Case, oneLine(fv.V.Detail, 600))
		}
		fmt.Printf("  (%d violating observations in total)\n", len(fresh))
	} else if len(tot.Inconclusive) > 0 {
		code = 2
		for i, s := range tot.Inconclusive {
			if i >= 10 {
				break
			}
			fmt.Printf("INCONCLUSIVE property=%s %s\n", p.ID, oneLine(s, 600))
		}
	}
	if writeEvidence {
		writeEvidenceFile(p, tot, tier, seed, wall, len(fresh), reproduced)
	}
	keys := make([]string, 0, len(tot.Obs))
	for k := range tot.Obs {
		keys = append(keys, k)
	}
	sort.Strings(keys)
	var sb strings.Builder
	for _, k := range keys {
		fmt.Fprintf(&sb, " %s=%d", k, tot.Obs[k])
	}
	verdict := map[int]string{0: "held on what was observed", 1: "VIOLATED", 2: "inconclusive"}[code]
	fmt.Printf("%s %s seed=%d: %s; evaluations=%d distinct_nontrivial=%d race_blocks=%d(dedup %d, in-anchor %d) wall=%.1fs\n  observed:%s\n",
		p.ID, tier, seed, verdict, tot.Evaluations, len(tot.Distinct), tot.RaceBlocks, len(tot.RaceDedup), len(tot.RaceInAnchor), wall.Seconds(), sb.String())
	return code
}

func sanitize(s string) string {
	var b bytes.Buffer
	for _, r := range s {
		if (r >= 'a' && r <= 'z') || (r >= 'A' && r <= 'Z') || (r >= '0' && r <= '9') || r == '-' {
			b.WriteRune(r)
		} else {
			b.WriteByte('_')
		}
	}
	if b.Len() > 40 {
		return b.String()[:40]
	}
	return b.String()
}

func oneLine(s string, n int) string {
	s = strings.ReplaceAll(s, "\n", " | ")
	if len(s) > n {
		s = s[:n] + "…"
	}
	return s
}

func writeEvidenceFile(p Prop, tot *Totals, tier string, seed int64, wall time.Duration, nviol int, reproduced map[string]int) {
	cov := map[string]any{
		"evaluations":         tot.Evaluations,
		"distinct_nontrivial": len(tot.Distinct),
		"rule":                p.Rule,
		"samples":             tot.Samples,
		"observed":            tot.Obs,
		"child_exits":         tot.ChildExits,
		"race_blocks": map[string]any{
			"total": tot.RaceBlocks, "dedup": len(tot.RaceDedup), "in_anchor": len(tot.RaceInAnchor),
			"decides": p.RaceDecides, "binary_built_with_race": p.Race,
		},
		"known_findings_reproduced": reproduced,
		"inconclusive":              tot.Inconclusive,
	}
	if len(tot.RaceDedup) > 0 {
		sigs := []string{}
		for s := range tot.RaceDedup {
			sigs = append(sigs, s)
		}
		sort.Strings(sigs)
		cov["race_signatures"] = sigs
		if len(sigs) > 0 {
			cov["race_first_block"] = tot.RaceDedup[sigs[0]]
		}
	}
	if tot.Samples == nil {
		cov["samples"] = []any{}
	}
	if p.Exhaustive != nil {
		if s := p.Exhaustive(tier); s != "" {
			cov["exhaustive"] = true
			cov["exhaustive_subspaces"] = s
		} else {
			cov["exhaustive"] = false
		}
	}
	ev := map[string]any{
		"property_id": p.ID,
		"tier":        tier,
		"seed":        seed,
		"level":       p.Level,
		"coverage":    cov,
		"assumptions": p.Assumptions,
		"wall_s":      wall.Seconds(),
		"violations":  nviol,
	}
	bs, _ := json.MarshalIndent(ev, "", " ")
	dir := filepath.Join(verifDir(), "evidence")
	os.MkdirAll(dir, 0755)
	os.WriteFile(filepath.Join(dir, p.ID+".json"), bs, 0644)
}

// Chunk splits [0,n) into batches of size sz.
func Chunk(name, kind string, n, sz, procs int, params map[string]any) []Batch {
	var out []Batch
	for from := 0; from < n; from += sz {
		to := from + sz
		if to > n {
			to = n
		}
		out = append(out, Batch{Name: fmt.Sprintf("%s-%d", name, from/sz), Kind: kind, From: from, To: to, Procs: procs, Params: params})
	}
	return out
}
