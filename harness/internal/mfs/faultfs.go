package mfs

import (
	"fmt"
	"os"
	"strings"
	"sync"
	"sync/atomic"

	"github.com/goatcms/goatcore/filesystem"
)

// Faults is the shared state of a FaultFS tree (the decorator and every child view / stream it hands out).
type Faults struct {
	n      int64 // fault points passed so far
	FailAt int64 // 1-based index of the point to fail (0 = never)
	Short  bool  // fail a Write after having written all but the last byte: (n-1, error)
	// Buffered models a stream that flushes on Close (page cache, network): writers collect their
	// data and hand it to the underlying stream only in Close; a failing Close then stores nothing.
	Buffered bool
	mu       sync.Mutex
	Fired    string // description of the point that failed
	Trace    []string
	Keep     bool // keep a trace of all points (dry run)
	// Match, when not empty, restricts the fault points to those whose name contains it (other
	// points are neither counted nor failed). Set it only while no call is in flight.
	Match string
}

// ErrInjected marks injected failures.
type ErrInjected struct{ Point string }

func (e ErrInjected) Error() string { return "injected fault at " + e.Point }

// Arm sets the 1-based index of the point to fail (0 disarms); safe while stragglers still pass points.
func (f *Faults) Arm(at int64) { atomic.StoreInt64(&f.FailAt, at) }

// Count returns the number of fault points passed.
func (f *Faults) Count() int64 { return atomic.LoadInt64(&f.n) }

func (f *Faults) hit(point string) error {
	if f.Match != "" && !strings.Contains(point, f.Match) {
		return nil
	}
	k := atomic.AddInt64(&f.n, 1)
	if f.Keep {
		f.mu.Lock()
		f.Trace = append(f.Trace, point)
		f.mu.Unlock()
	}
	if at := atomic.LoadInt64(&f.FailAt); at != 0 && k == at {
		f.mu.Lock()
		f.Fired = fmt.Sprintf("#%d %s", k, point)
		f.mu.Unlock()
		return ErrInjected{Point: f.Fired}
	}
	return nil
}

// FiredPoint returns the description of the failed point ("" if the fault did not fire).
func (f *Faults) FiredPoint() string {
	f.mu.Lock()
	defer f.mu.Unlock()
	return f.Fired
}

// FaultFS is a Filespace decorator with countable, failable call points.
type FaultFS struct {
	Wrap
	F    *Faults
	Name string
}

// NewFaultFS wraps inner.
func NewFaultFS(inner filesystem.Filespace, f *Faults, name string) *FaultFS {
	return &FaultFS{Wrap: Wrap{Inner: inner}, F: f, Name: name}
}

func (x *FaultFS) pt(op, p string) string { return x.Name + "." + op + "(" + p + ")" }

func (x *FaultFS) ReadDir(p string) ([]os.FileInfo, error) {
	if err := x.F.hit(x.pt("ReadDir", p)); err != nil {
		return nil, err
	}
	return x.Inner.ReadDir(p)
}

func (x *FaultFS) MkdirAll(p string, m os.FileMode) error {
	if err := x.F.hit(x.pt("MkdirAll", p)); err != nil {
		return err
	}
	return x.Inner.MkdirAll(p, m)
}

func (x *FaultFS) ReadFile(p string) ([]byte, error) {
	if err := x.F.hit(x.pt("ReadFile", p)); err != nil {
		return nil, err
	}
	return x.Inner.ReadFile(p)
}

func (x *FaultFS) WriteFile(p string, d []byte, m os.FileMode) error {
	if err := x.F.hit(x.pt("WriteFile", p)); err != nil {
		return err
	}
	return x.Inner.WriteFile(p, d, m)
}

func (x *FaultFS) Remove(p string) error {
	if err := x.F.hit(x.pt("Remove", p)); err != nil {
		return err
	}
	return x.Inner.Remove(p)
}

func (x *FaultFS) RemoveAll(p string) error {
	if err := x.F.hit(x.pt("RemoveAll", p)); err != nil {
		return err
	}
	return x.Inner.RemoveAll(p)
}

func (x *FaultFS) Filespace(p string) (filesystem.Filespace, error) {
	c, err := x.Inner.Filespace(p)
	if err != nil {
		return nil, err
	}
	return &FaultFS{Wrap: Wrap{Inner: c}, F: x.F, Name: x.Name + "/" + p}, nil
}

func (x *FaultFS) Reader(p string) (filesystem.Reader, error) {
	if err := x.F.hit(x.pt("Reader-open", p)); err != nil {
		return nil, err
	}
	r, err := x.Inner.Reader(p)
	if err != nil {
		return nil, err
	}
	return &faultReader{r: r, f: x.F, name: x.pt("Reader", p)}, nil
}

func (x *FaultFS) Writer(p string) (filesystem.Writer, error) {
	if err := x.F.hit(x.pt("Writer-open", p)); err != nil {
		return nil, err
	}
	w, err := x.Inner.Writer(p)
	if err != nil {
		return nil, err
	}
	return &faultWriter{w: w, f: x.F, name: x.pt("Writer", p)}, nil
}

type faultReader struct {
	r    filesystem.Reader
	f    *Faults
	name string
}

func (r *faultReader) Read(p []byte) (int, error) {
	if err := r.f.hit(r.name + ".Read"); err != nil {
		return 0, err
	}
	return r.r.Read(p)
}

func (r *faultReader) Close() error {
	err := r.f.hit(r.name + ".Close")
	cerr := r.r.Close() // always release the underlying handle
	if err != nil {
		return err
	}
	return cerr
}

type faultWriter struct {
	w    filesystem.Writer
	f    *Faults
	name string
	buf  []byte
}

func (w *faultWriter) Write(p []byte) (int, error) {
	if w.f.Buffered {
		if err := w.f.hit(w.name + ".Write"); err != nil {
			return 0, err
		}
		w.buf = append(w.buf, p...)
		return len(p), nil
	}
	if err := w.f.hit(w.name + ".Write"); err != nil {
		if w.f.Short && len(p) > 0 {
			n, _ := w.w.Write(p[:len(p)-1])
			return n, err
		}
		return 0, err
	}
	return w.w.Write(p)
}

func (w *faultWriter) Close() error {
	err := w.f.hit(w.name + ".Close")
	if w.f.Buffered && err == nil && len(w.buf) > 0 {
		if _, werr := w.w.Write(w.buf); werr != nil {
			w.w.Close()
			return werr
		}
	}
	cerr := w.w.Close()
	if err != nil {
		return err
	}
	return cerr
}
