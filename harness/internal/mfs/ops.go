package mfs

import (
	"bytes"
	"fmt"
	"io"
	"os"
	"strings"

	"github.com/goatcms/goatcore/filesystem"
)

// OpKind enumerates the 16 Filespace operations.
type OpKind int

const (
	OpWriteFile OpKind = iota
	OpWriter
	OpMkdirAll
	OpRemove
	OpRemoveAll
	OpCopy
	OpCopyFile
	OpCopyDir
	OpReadFile
	OpReader
	OpReadDir
	OpIsExist
	OpIsFile
	OpIsDir
	OpLstat
	OpFilespace
	NumOps
)

var opNames = [...]string{"WriteFile", "Writer", "MkdirAll", "Remove", "RemoveAll", "Copy", "CopyFile", "CopyDirectory",
	"ReadFile", "Reader", "ReadDir", "IsExist", "IsFile", "IsDir", "Lstat", "Filespace"}

func (k OpKind) String() string { return opNames[k] }

// Mutating reports whether the operation kind can change the tree.
func (k OpKind) Mutating() bool { return k <= OpCopyDir }

// Op is one operation of a history.
type Op struct {
	Kind   OpKind
	View   int    // index of the view the operation is issued through (0 = the root filespace)
	P1, P2 string // spelled paths
	Data   []byte // content for WriteFile / Writer
	Chunks []int  // Writer: chunk lengths (sum = len(Data)); may contain zeros
	Buf    int    // Reader: read-buffer size
}

func (o Op) String() string {
	switch o.Kind {
	case OpWriteFile:
		return fmt.Sprintf("v%d.WriteFile(%q,%q)", o.View, o.P1, clip(o.Data))
	case OpWriter:
		return fmt.Sprintf("v%d.Writer(%q)<-%q chunks%v", o.View, o.P1, clip(o.Data), o.Chunks)
	case OpCopy, OpCopyFile, OpCopyDir:
		return fmt.Sprintf("v%d.%s(%q,%q)", o.View, o.Kind, o.P1, o.P2)
	case OpReader:
		return fmt.Sprintf("v%d.Reader(%q) buf=%d", o.View, o.P1, o.Buf)
	default:
		return fmt.Sprintf("v%d.%s(%q)", o.View, o.Kind, o.P1)
	}
}

// HistString renders a history.
func HistString(ops []Op) []string {
	out := make([]string, len(ops))
	for i, o := range ops {
		out[i] = o.String()
	}
	return out
}

// Subject is a filespace under test together with the views obtained so far.
type Subject struct {
	Views []filesystem.Filespace
	// Scribble makes the executor overwrite every buffer it handed in right after the call and
	// every buffer it got back after having copied it (the snapshot oracle of C01).
	Scribble bool
	// Retained listings / byte slices for the end-of-history alias inspection.
	RetLists []RetList
}

// RetList is a listing kept by the harness together with what it said when it was returned.
type RetList struct {
	Step  int
	Infos []os.FileInfo
	Was   []Ent
}

// NewSubject wraps a root filespace.
func NewSubject(root filesystem.Filespace) *Subject {
	return &Subject{Views: []filesystem.Filespace{root}}
}

func infosToEnts(infos []os.FileInfo) []Ent {
	out := make([]Ent, 0, len(infos))
	for _, fi := range infos {
		if fi == nil {
			out = append(out, Ent{Name: "<nil FileInfo>"})
			continue
		}
		e := Ent{Name: fi.Name(), Dir: fi.IsDir()}
		if !e.Dir {
			e.Size = fi.Size()
		}
		out = append(out, e)
	}
	return out
}

func scribble(b []byte) {
	for i := range b {
		b[i] ^= 0x5A
		if b[i] == 0 {
			b[i] = '#'
		}
	}
}

// ReadAllVia reads a stream with a fixed buffer size and checks the io.Reader contract.
func ReadAllVia(r io.Reader, buf int, limit int) (data []byte, anomaly string) {
	if buf <= 0 {
		buf = 512
	}
	p := make([]byte, buf)
	zero := 0
	for calls := 0; ; calls++ {
		if calls > limit+16 {
			return data, fmt.Sprintf("reader did not reach EOF within %d calls", calls)
		}
		for i := range p {
			p[i] = 0xEE
		}
		n, err := r.Read(p)
		if n < 0 || n > len(p) {
			return data, fmt.Sprintf("Read returned n=%d for a %d-byte buffer", n, len(p))
		}
		data = append(data, p[:n]...)
		if err == io.EOF {
			return data, ""
		}
		if err != nil {
			return data, "Read error: " + err.Error()
		}
		if n == 0 {
			zero++
			if zero > 8 {
				return data, "Read keeps returning (0, nil)"
			}
		} else {
			zero = 0
			// buffer sizes 3, 7, 11 …: the consumer takes one piece with Read and streams the rest
			// with io.Copy (which goes through the reader's WriteTo when it has one) – the two
			// parts together must be the stored bytes
			if buf%4 == 3 && calls == 0 {
				var rest bytes.Buffer
				_, err := io.Copy(&rest, r)
				data = append(data, rest.Bytes()...)
				if err != nil {
					return data, "Read error: " + err.Error()
				}
				return data, ""
			}
		}
	}
}

// Exec issues op on the subject and captures the result; panics are captured, not propagated.
func (s *Subject) Exec(step int, op Op) (res Res) {
	defer func() {
		if p := recover(); p != nil {
			res = Res{Panic: fmt.Sprint(p)}
		}
	}()
	if op.View >= len(s.Views) {
		return Res{Err: true, Text: "no such view"}
	}
	fs := s.Views[op.View]
	fail := func(err error) Res { return Res{Err: true, Text: err.Error()} }
	switch op.Kind {
	case OpWriteFile:
		buf := append([]byte{}, op.Data...)
		err := fs.WriteFile(op.P1, buf, filesystem.DefaultUnixFileMode)
		if s.Scribble {
			scribble(buf)
		}
		if err != nil {
			return fail(err)
		}
	case OpWriter:
		w, err := fs.Writer(op.P1)
		if err != nil {
			return fail(err)
		}
		if w == nil {
			return Res{Anom: "Writer returned nil writer and nil error"}
		}
		off := 0
		chunks := op.Chunks
		if chunks == nil { // unspecified: one chunk; an empty non-nil list means "open and close without a Write"
			chunks = []int{len(op.Data)}
		}
		for i, c := range chunks {
			buf := append([]byte{}, op.Data[off:off+c]...)
			// how the chunk reaches the writer is a function of the operation (replayable): mostly
			// Write, now and then io.Copy from a plain reader (a writer that has ReadFrom is fed
			// through it) or io.WriteString – all three must append in call order
			var n int
			var err error
			switch (len(op.Data) + 7*i + len(op.P1)) % 6 {
			case 4:
				var n64 int64
				n64, err = io.Copy(w, struct{ io.Reader }{bytes.NewReader(buf)})
				n = int(n64)
			case 5:
				n, err = io.WriteString(w, string(buf))
			default:
				n, err = w.Write(buf)
			}
			if s.Scribble {
				scribble(buf)
			}
			if err != nil {
				w.Close()
				return fail(err)
			}
			if n != c {
				w.Close()
				return Res{Anom: fmt.Sprintf("Write returned n=%d for %d bytes without error", n, c)}
			}
			off += c
		}
		if err := w.Close(); err != nil {
			return fail(err)
		}
	case OpMkdirAll:
		if err := fs.MkdirAll(op.P1, filesystem.DefaultUnixDirMode); err != nil {
			return fail(err)
		}
	case OpRemove:
		if err := fs.Remove(op.P1); err != nil {
			return fail(err)
		}
	case OpRemoveAll:
		if err := fs.RemoveAll(op.P1); err != nil {
			return fail(err)
		}
	case OpCopy:
		if err := fs.Copy(op.P1, op.P2); err != nil {
			return fail(err)
		}
	case OpCopyFile:
		if err := fs.CopyFile(op.P1, op.P2); err != nil {
			return fail(err)
		}
	case OpCopyDir:
		if err := fs.CopyDirectory(op.P1, op.P2); err != nil {
			return fail(err)
		}
	case OpReadFile:
		data, err := fs.ReadFile(op.P1)
		if err != nil {
			return fail(err)
		}
		res.Data = append([]byte{}, data...)
		if s.Scribble {
			scribble(data)
		}
	case OpReader:
		r, err := fs.Reader(op.P1)
		if err != nil {
			return fail(err)
		}
		if r == nil {
			return Res{Anom: "Reader returned nil reader and nil error"}
		}
		data, anom := ReadAllVia(r, op.Buf, 1<<22)
		cerr := r.Close()
		if strings.HasPrefix(anom, "Read error: ") {
			// an error delivered by Read (instead of by the open call) is an error result
			return Res{Err: true, Text: anom}
		}
		if anom != "" {
			return Res{Anom: anom}
		}
		if cerr != nil {
			return fail(cerr)
		}
		res.Data = data
	case OpReadDir:
		infos, err := fs.ReadDir(op.P1)
		if err != nil {
			return fail(err)
		}
		res.List = infosToEnts(infos)
		if s.Scribble {
			s.RetLists = append(s.RetLists, RetList{Step: step, Infos: infos, Was: append([]Ent{}, res.List...)})
		}
	case OpIsExist:
		res.B = fs.IsExist(op.P1)
	case OpIsFile:
		res.B = fs.IsFile(op.P1)
	case OpIsDir:
		res.B = fs.IsDir(op.P1)
	case OpLstat:
		fi, err := fs.Lstat(op.P1)
		if err != nil {
			return fail(err)
		}
		if fi != nil {
			e := Ent{Name: fi.Name(), Dir: fi.IsDir()}
			if !e.Dir {
				e.Size = fi.Size()
			}
			res.Stat = &e
		}
	case OpFilespace:
		child, err := fs.Filespace(op.P1)
		if err != nil {
			return fail(err)
		}
		if child == nil {
			return Res{Anom: "Filespace returned nil view and nil error"}
		}
		s.Views = append(s.Views, child)
	}
	return res
}

// CheckRetained re-inspects the listings retained during the history: names and kinds of a
// listing are a snapshot, so they must still read as they did when returned.
func (s *Subject) CheckRetained() string {
	for _, rl := range s.RetLists {
		now := func() (e []Ent) {
			defer func() {
				if p := recover(); p != nil {
					e = []Ent{{Name: fmt.Sprintf("<panic %v>", p)}}
				}
			}()
			return infosToEnts(rl.Infos)
		}()
		if !entsEqual(now, rl.Was, false) {
			return fmt.Sprintf("listing returned at step %d read %v then and reads %v now", rl.Step, rl.Was, now)
		}
	}
	return ""
}

// MangleRetained lets the caller side scribble on the listings it got (entries are
// overwritten with nil); the filespace must not be affected. Call CheckRetained first:
// the mangled listings are dropped from the retained set.
func (s *Subject) MangleRetained() {
	for i := range s.RetLists {
		infos := s.RetLists[i].Infos
		for j := range infos {
			infos[j] = nil
		}
	}
	s.RetLists = nil
}

// CheckSizes makes Observe and the model compare file sizes reported by listings / Lstat with the
// content length. Wrappers that store transformed bytes (encryption) switch it off.
var CheckSizes = true

// Observe walks the whole observable tree of fs through its public interface.
// Anomalies (duplicate names, phantom entries, disagreement between the query families)
// are reported separately from the tree.
func Observe(fs filesystem.Filespace) (root *Node, anomalies []string) {
	return ObserveLimit(fs, 48, 200000)
}

// ObserveLimit is Observe with explicit guards: maxDepth should be the depth of the expected
// tree plus a margin, so that a walk that goes deeper is a genuine anomaly (a tree that
// contains itself), not an artefact of the guard.
func ObserveLimit(fs filesystem.Filespace, maxDepth, maxNodes int) (root *Node, anomalies []string) {
	root = newDir()
	defer func() {
		if p := recover(); p != nil {
			anomalies = append(anomalies, fmt.Sprintf("panic while walking the tree: %v", p))
		}
	}()
	budget := maxNodes
	observeDir(fs, "", root, 0, maxDepth, &budget, &anomalies)
	return root, anomalies
}

func observeDir(fs filesystem.Filespace, path string, into *Node, depth, maxDepth int, budget *int, anomalies *[]string) {
	add := func(f string, a ...any) {
		if len(*anomalies) < 20 {
			*anomalies = append(*anomalies, fmt.Sprintf(f, a...))
		}
	}
	if depth > maxDepth {
		add("%q: deeper than %d levels (expected tree is shallower), walk stopped", path, maxDepth)
		return
	}
	infos, err := fs.ReadDir(path)
	if err != nil {
		add("ReadDir(%q) failed on a listed directory: %v", path, err)
		return
	}
	for _, fi := range infos {
		*budget--
		if *budget < 0 {
			add("walk budget exhausted at %q", path)
			return
		}
		if fi == nil {
			add("ReadDir(%q) contains a nil entry", path)
			continue
		}
		name := fi.Name()
		if name == "" || name == "." || name == ".." || strings.Contains(name, "/") {
			add("ReadDir(%q) lists an entry named %q", path, name)
			continue // never descend into such entries
		}
		if _, dup := into.Kids[name]; dup {
			add("ReadDir(%q) lists %q twice", path, name)
			continue
		}
		sub := name
		if path != "" {
			sub = path + "/" + name
		}
		n := &Node{Dir: fi.IsDir()}
		into.Kids[name] = n
		if ex := fs.IsExist(sub); !ex {
			add("IsExist(%q)=false for a listed entry", sub)
		}
		if got := fs.IsDir(sub); got != n.Dir {
			add("IsDir(%q)=%v but the listing says dir=%v", sub, got, n.Dir)
		}
		if got := fs.IsFile(sub); got == n.Dir {
			add("IsFile(%q)=%v but the listing says dir=%v", sub, got, n.Dir)
		}
		if st, err := fs.Lstat(sub); err != nil || st == nil {
			add("Lstat(%q) failed for a listed entry: %v", sub, err)
		} else if st.IsDir() != n.Dir || st.Name() != name {
			add("Lstat(%q) = (%q, dir=%v) but the listing says (%q, dir=%v)", sub, st.Name(), st.IsDir(), name, n.Dir)
		}
		if n.Dir {
			n.Kids = map[string]*Node{}
			observeDir(fs, sub, n, depth+1, maxDepth, budget, anomalies)
		} else {
			data, err := fs.ReadFile(sub)
			if err != nil {
				add("ReadFile(%q) failed for a listed file: %v", sub, err)
			}
			n.Data = append([]byte{}, data...)
			if CheckSizes && fi.Size() != int64(len(data)) {
				add("%q: listed size %d, ReadFile returned %d bytes", sub, fi.Size(), len(data))
			}
		}
	}
}
