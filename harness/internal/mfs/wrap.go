package mfs

import (
	"os"

	"github.com/goatcms/goatcore/filesystem"
)

// Wrap delegates every Filespace method to Inner; decorators embed it and override methods.
// (filesystem.Filespace cannot be embedded directly: the interface has a method named Filespace.)
type Wrap struct {
	Inner filesystem.Filespace
}

func (w Wrap) Copy(src, dest string) error          { return w.Inner.Copy(src, dest) }
func (w Wrap) CopyDirectory(src, dest string) error { return w.Inner.CopyDirectory(src, dest) }
func (w Wrap) CopyFile(src, dest string) error      { return w.Inner.CopyFile(src, dest) }
func (w Wrap) ReadDir(p string) ([]os.FileInfo, error) {
	return w.Inner.ReadDir(p)
}
func (w Wrap) IsExist(p string) bool { return w.Inner.IsExist(p) }
func (w Wrap) IsFile(p string) bool  { return w.Inner.IsFile(p) }
func (w Wrap) IsDir(p string) bool   { return w.Inner.IsDir(p) }
func (w Wrap) MkdirAll(p string, m os.FileMode) error {
	return w.Inner.MkdirAll(p, m)
}
func (w Wrap) ReadFile(p string) ([]byte, error) { return w.Inner.ReadFile(p) }
func (w Wrap) WriteFile(p string, d []byte, m os.FileMode) error {
	return w.Inner.WriteFile(p, d, m)
}
func (w Wrap) Filespace(p string) (filesystem.Filespace, error) { return w.Inner.Filespace(p) }
func (w Wrap) Reader(p string) (filesystem.Reader, error)       { return w.Inner.Reader(p) }
func (w Wrap) Writer(p string) (filesystem.Writer, error)       { return w.Inner.Writer(p) }
func (w Wrap) Remove(p string) error                            { return w.Inner.Remove(p) }
func (w Wrap) RemoveAll(p string) error                         { return w.Inner.RemoveAll(p) }
func (w Wrap) Lstat(p string) (os.FileInfo, error)              { return w.Inner.Lstat(p) }
