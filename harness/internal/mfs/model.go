// Package mfs holds the reference model of a filespace ("a plain tree of named nodes"),
// the operation vocabulary, the executor that issues an operation on a real
// filesystem.Filespace and captures its result, and the observation function that walks the
// whole observable tree of a filespace. It is written from the property statements, not
// from the memfs sources.
package mfs

import (
	"fmt"
	"sort"
	"strings"
)

// Node is a node of the model tree.
type Node struct {
	Dir  bool
	Data []byte
	Kids map[string]*Node
}

func newDir() *Node { return &Node{Dir: true, Kids: map[string]*Node{}} }

// Clone deep-copies a node.
func (n *Node) Clone() *Node {
	if n == nil {
		return nil
	}
	c := &Node{Dir: n.Dir}
	if n.Dir {
		c.Kids = make(map[string]*Node, len(n.Kids))
		for k, v := range n.Kids {
			c.Kids[k] = v.Clone()
		}
	} else {
		c.Data = append([]byte{}, n.Data...)
	}
	return c
}

// Count returns the number of nodes below n (n excluded).
func (n *Node) Count() int {
	if n == nil || !n.Dir {
		return 0
	}
	c := 0
	for _, k := range n.Kids {
		c += 1 + k.Count()
	}
	return c
}

// Depth returns the height of the tree below n.
func (n *Node) Depth() int {
	if n == nil || !n.Dir {
		return 0
	}
	d := 0
	for _, k := range n.Kids {
		if x := 1 + k.Depth(); x > d {
			d = x
		}
	}
	return d
}

// Model is the reference filespace.
type Model struct {
	// SelfCopySnapshot: a directory copied to an absent path below itself (destination parent
	// exists) is a defined operation – the destination receives a deep copy of the source as it was
	// before the call (source exists, destination parent exists, destination absent: C02's
	// preconditions). Off: such a copy stops the history without verdict.
	SelfCopySnapshot bool
	Root             *Node
	Views            [][]string // canonical prefix of each view; Views[0] is the root
}

// NewModel returns an empty model.
func NewModel() *Model { return &Model{Root: newDir(), Views: [][]string{{}}} }

// Clone deep-copies the model.
func (m *Model) Clone() *Model {
	c := &Model{Root: m.Root.Clone(), SelfCopySnapshot: m.SelfCopySnapshot}
	for _, v := range m.Views {
		c.Views = append(c.Views, append([]string{}, v...))
	}
	return c
}

// Norm is the model's own path normaliser: split on '/', drop "" and ".", pop on "..",
// error above the root.
func Norm(p string) ([]string, bool) {
	var out []string
	for _, s := range strings.Split(p, "/") {
		switch s {
		case "", ".":
		case "..":
			if len(out) == 0 {
				return nil, false
			}
			out = out[:len(out)-1]
		default:
			out = append(out, s)
		}
	}
	return out, true
}

// Resolve gives the canonical segments of path p issued through view v.
func (m *Model) Resolve(v int, p string) ([]string, bool) {
	segs, ok := Norm(p)
	if !ok {
		return nil, false
	}
	return append(append([]string{}, m.Views[v]...), segs...), true
}

// Get looks a node up.
func (m *Model) Get(segs []string) *Node {
	n := m.Root
	for _, s := range segs {
		if n == nil || !n.Dir {
			return nil
		}
		n = n.Kids[s]
	}
	return n
}

// parentOK reports whether all proper ancestors of segs are directories or missing
// (i.e. creating segs with missing parents is possible) and returns the deepest existing one.
func (m *Model) fileInChain(segs []string) bool {
	n := m.Root
	for _, s := range segs {
		if !n.Dir {
			return true
		}
		k, ok := n.Kids[s]
		if !ok {
			return false
		}
		n = k
	}
	return !n.Dir
}

// mkdirs creates all directories of segs (caller checked fileInChain).
func (m *Model) mkdirs(segs []string) *Node {
	n := m.Root
	for _, s := range segs {
		k, ok := n.Kids[s]
		if !ok {
			k = newDir()
			n.Kids[s] = k
		}
		n = k
	}
	return n
}

// Ent is one listing entry.
type Ent struct {
	Name string `json:"n"`
	Dir  bool   `json:"d"`
	Size int64  `json:"s,omitempty"`
}

// Res is the captured result of one operation (implementation or model).
type Res struct {
	Err   bool   `json:"err,omitempty"`
	Text  string `json:"text,omitempty"`
	B     bool   `json:"b,omitempty"`
	Data  []byte `json:"data,omitempty"`
	List  []Ent  `json:"list,omitempty"`
	Stat  *Ent   `json:"stat,omitempty"`
	Panic string `json:"panic,omitempty"`
	Anom  string `json:"anom,omitempty"` // stream-contract anomaly observed by the executor
}

// Verdict of one model step.
type Verdict struct {
	Mismatch  string // non-empty: implementation result differs from the model's
	Lenient   bool   // the statement is silent here; the model followed the implementation
	Ambiguous bool   // no defined expectation: the history must stop without a verdict
	Mutated   bool   // the model tree changed
	PrecondOK bool   // the operation's stated preconditions held (C02)
}

func entsEqual(a, b []Ent, withSize bool) bool {
	if len(a) != len(b) {
		return false
	}
	for i := range a {
		if a[i].Name != b[i].Name || a[i].Dir != b[i].Dir {
			return false
		}
		if withSize && !a[i].Dir && a[i].Size != b[i].Size {
			return false
		}
	}
	return true
}

func sortEnts(e []Ent) []Ent {
	out := append([]Ent{}, e...)
	sort.Slice(out, func(i, j int) bool { return out[i].Name < out[j].Name })
	return out
}

func (n *Node) listing() []Ent {
	var out []Ent
	for name, k := range n.Kids {
		e := Ent{Name: name, Dir: k.Dir}
		if !k.Dir {
			e.Size = int64(len(k.Data))
		}
		out = append(out, e)
	}
	return sortEnts(out)
}

func isPrefix(a, b []string) bool { // a is a prefix of b (or equal)
	if len(a) > len(b) {
		return false
	}
	for i := range a {
		if a[i] != b[i] {
			return false
		}
	}
	return true
}

// Step applies op to the model given the implementation's result and judges that result.
func (m *Model) Step(op Op, got Res) Verdict {
	var v Verdict
	if got.Panic != "" {
		v.Mismatch = "panic: " + got.Panic
		return v
	}
	if got.Anom != "" {
		v.Mismatch = "stream contract: " + got.Anom
		return v
	}
	p1, ok1 := m.Resolve(op.View, op.P1)
	expectErr := func(why string) Verdict {
		if !got.Err {
			v.Mismatch = fmt.Sprintf("expected an error (%s), call succeeded", why)
		}
		return v
	}
	expectOK := func() bool {
		if got.Err {
			v.Mismatch = "expected success, got error: " + got.Text
			return false
		}
		return true
	}
	if !ok1 {
		// climbs above the view root: C03 decides what must happen; only "no effect" here.
		v.Lenient = true
		return v
	}
	switch op.Kind {
	case OpWriteFile, OpWriter:
		if len(p1) == 0 {
			return expectErr("path is the root directory")
		}
		if m.fileInChain(p1[:len(p1)-1]) {
			return expectErr("a file is in the parent chain")
		}
		if n := m.Get(p1); n != nil && n.Dir {
			return expectErr("target is a directory")
		}
		v.PrecondOK = m.Get(p1[:len(p1)-1]) != nil
		if !expectOK() {
			return v
		}
		dir := m.mkdirs(p1[:len(p1)-1])
		dir.Kids[p1[len(p1)-1]] = &Node{Data: append([]byte{}, op.Data...)}
		v.Mutated = true
	case OpMkdirAll:
		if m.fileInChain(p1) {
			return expectErr("a file is in the chain")
		}
		v.PrecondOK = true
		if !expectOK() {
			return v
		}
		before := m.Root.Count()
		m.mkdirs(p1)
		v.Mutated = m.Root.Count() != before
	case OpRemove:
		n := m.Get(p1)
		if len(p1) == 0 {
			v.Ambiguous = true
			return v
		}
		if n == nil {
			return expectErr("target does not exist")
		}
		if n.Dir && len(n.Kids) > 0 {
			return expectErr("directory is not empty")
		}
		v.PrecondOK = true
		if !expectOK() {
			return v
		}
		delete(m.Get(p1[:len(p1)-1]).Kids, p1[len(p1)-1])
		v.Mutated = true
	case OpRemoveAll:
		if len(p1) == 0 {
			v.Ambiguous = true
			return v
		}
		n := m.Get(p1)
		if n == nil {
			v.Lenient = true // error or success, tree unchanged either way
			return v
		}
		v.PrecondOK = true
		if !expectOK() {
			return v
		}
		delete(m.Get(p1[:len(p1)-1]).Kids, p1[len(p1)-1])
		v.Mutated = true
	case OpCopy, OpCopyFile, OpCopyDir:
		p2, ok2 := m.Resolve(op.View, op.P2)
		if !ok2 {
			v.Lenient = true
			return v
		}
		src := m.Get(p1)
		if src == nil {
			return expectErr("source does not exist")
		}
		if op.Kind == OpCopyFile && src.Dir {
			return expectErr("source is a directory")
		}
		if op.Kind == OpCopyDir && !src.Dir {
			return expectErr("source is a file")
		}
		if len(p2) == 0 {
			if got.Err {
				v.Lenient = true
				return v
			}
			v.Ambiguous = true
			return v
		}
		if m.fileInChain(p2[:len(p2)-1]) {
			return expectErr("a file is in the destination's parent chain")
		}
		selfSnapshot := m.SelfCopySnapshot && src.Dir && isPrefix(p1, p2) && len(p2) > len(p1) && m.Get(p2) == nil && m.Get(p2[:len(p2)-1]) != nil
		if src.Dir && isPrefix(p1, p2) && !selfSnapshot {
			// copying a directory into itself: the statement gives no reading
			if got.Err {
				v.Lenient = true
				return v
			}
			v.Ambiguous = true
			return v
		}
		if dst := m.Get(p2); dst != nil {
			// statement is silent about an existing destination
			if got.Err {
				v.Lenient = true
				return v
			}
			if !src.Dir && !dst.Dir {
				v.Lenient = true
				m.Get(p2[:len(p2)-1]).Kids[p2[len(p2)-1]] = src.Clone()
				v.Mutated = true
				return v
			}
			v.Ambiguous = true
			return v
		}
		v.PrecondOK = m.Get(p2[:len(p2)-1]) != nil && (selfSnapshot || !(src.Dir && isPrefix(p1, p2)))
		if !expectOK() {
			return v
		}
		cp := src.Clone() // snapshot before the parents are created
		dir := m.mkdirs(p2[:len(p2)-1])
		dir.Kids[p2[len(p2)-1]] = cp
		v.Mutated = true
	case OpReadFile, OpReader:
		n := m.Get(p1)
		if n == nil || n.Dir {
			return expectErr("not a file")
		}
		v.PrecondOK = true
		if !expectOK() {
			return v
		}
		if string(got.Data) != string(n.Data) {
			v.Mismatch = fmt.Sprintf("read %q, model holds %q", clip(got.Data), clip(n.Data))
		}
	case OpReadDir:
		n := m.Get(p1)
		if n == nil || !n.Dir {
			return expectErr("not a directory")
		}
		v.PrecondOK = true
		if !expectOK() {
			return v
		}
		if !entsEqual(sortEnts(got.List), n.listing(), false) {
			v.Mismatch = fmt.Sprintf("listing %v, model has %v", sortEnts(got.List), n.listing())
		}
		if d := dupName(got.List); d != "" {
			v.Mismatch = "listing contains " + d
		}
	case OpIsExist:
		v.PrecondOK = true
		if want := m.Get(p1) != nil; got.B != want {
			v.Mismatch = fmt.Sprintf("IsExist=%v, model says %v", got.B, want)
		}
	case OpIsFile:
		v.PrecondOK = true
		n := m.Get(p1)
		if want := n != nil && !n.Dir; got.B != want {
			v.Mismatch = fmt.Sprintf("IsFile=%v, model says %v", got.B, want)
		}
	case OpIsDir:
		v.PrecondOK = true
		n := m.Get(p1)
		if want := n != nil && n.Dir; got.B != want {
			v.Mismatch = fmt.Sprintf("IsDir=%v, model says %v", got.B, want)
		}
	case OpLstat:
		n := m.Get(p1)
		if n == nil {
			return expectErr("does not exist")
		}
		v.PrecondOK = true
		if !expectOK() {
			return v
		}
		if got.Stat == nil {
			v.Mismatch = "Lstat returned nil info and nil error"
			return v
		}
		if got.Stat.Dir != n.Dir {
			v.Mismatch = fmt.Sprintf("Lstat IsDir=%v, model says %v", got.Stat.Dir, n.Dir)
		}
		if len(p1) > 0 && got.Stat.Name != p1[len(p1)-1] {
			v.Mismatch = fmt.Sprintf("Lstat Name=%q, want %q", got.Stat.Name, p1[len(p1)-1])
		}
		if CheckSizes && !n.Dir && got.Stat.Size != int64(len(n.Data)) {
			v.Mismatch = fmt.Sprintf("Lstat Size=%d, want %d", got.Stat.Size, len(n.Data))
		}
	case OpFilespace:
		v.Lenient = true // obtaining a view is not a compared operation
		if !got.Err {
			m.Views = append(m.Views, p1)
		}
	}
	return v
}

func dupName(l []Ent) string {
	seen := map[string]bool{}
	for _, e := range l {
		if seen[e.Name] {
			return fmt.Sprintf("name %q twice", e.Name)
		}
		seen[e.Name] = true
		if e.Name == "" || e.Name == "." || e.Name == ".." || strings.Contains(e.Name, "/") {
			return fmt.Sprintf("an entry named %q", e.Name)
		}
	}
	return ""
}

func clip(b []byte) string {
	if len(b) > 48 {
		return string(b[:48]) + fmt.Sprintf("…(%d bytes)", len(b))
	}
	return string(b)
}

// Dump renders the model tree canonically (sorted), for keys and messages.
func (n *Node) Dump() string {
	var sb strings.Builder
	n.dump(&sb, "")
	return sb.String()
}

func (n *Node) dump(sb *strings.Builder, prefix string) {
	names := make([]string, 0, len(n.Kids))
	for k := range n.Kids {
		names = append(names, k)
	}
	sort.Strings(names)
	for _, name := range names {
		k := n.Kids[name]
		if k.Dir {
			fmt.Fprintf(sb, "%s%s/\n", prefix, name)
			k.dump(sb, prefix+name+"/")
		} else {
			fmt.Fprintf(sb, "%s%s=%q\n", prefix, name, clip(k.Data))
		}
	}
}

// Diff returns the first difference between two trees ("" = equal).
func Diff(want, got *Node, path string) string {
	if want.Dir != got.Dir {
		return fmt.Sprintf("%q: kind differs (model dir=%v, observed dir=%v)", path, want.Dir, got.Dir)
	}
	if !want.Dir {
		if string(want.Data) != string(got.Data) {
			return fmt.Sprintf("%q: content differs (model %q, observed %q)", path, clip(want.Data), clip(got.Data))
		}
		return ""
	}
	names := map[string]bool{}
	for k := range want.Kids {
		names[k] = true
	}
	for k := range got.Kids {
		names[k] = true
	}
	sorted := make([]string, 0, len(names))
	for k := range names {
		sorted = append(sorted, k)
	}
	sort.Strings(sorted)
	for _, k := range sorted {
		w, g := want.Kids[k], got.Kids[k]
		sub := path + "/" + k
		if path == "" {
			sub = k
		}
		if w == nil {
			return fmt.Sprintf("%q: observed but not in the model (never created / should be gone)", sub)
		}
		if g == nil {
			return fmt.Sprintf("%q: in the model but not observed", sub)
		}
		if d := Diff(w, g, sub); d != "" {
			return d
		}
	}
	return ""
}
