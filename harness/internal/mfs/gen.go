package mfs

import (
	"math/rand"
	"strings"
)

// GenCfg parametrises the history generator.
type GenCfg struct {
	Names           []string // name pool
	MaxDepth        int
	Ops             int
	Spell           bool // decorate paths with redundant '/', '.', inner '..', leading '/'
	Views           bool // obtain and use child views
	ViewOnlyOnDirs  bool // request views only on directories that exist in the model (disk backend)
	NoStreams       bool
	PrecondBias     float64 // probability that a mutating operation is drawn so that the stated preconditions hold
	Weights         [NumOps]int
	BigData         bool
	NoDestInsideSrc bool // never copy a directory into itself (disk recursion is outside the contract)
	NoRootTarget    bool
}

// DefaultWeights favours mutations slightly; queries are issued by the tree walk anyway.
func DefaultWeights() [NumOps]int {
	return [NumOps]int{
		OpWriteFile: 14, OpWriter: 8, OpMkdirAll: 9, OpRemove: 8, OpRemoveAll: 5,
		OpCopy: 6, OpCopyFile: 5, OpCopyDir: 5,
		OpReadFile: 5, OpReader: 4, OpReadDir: 6, OpIsExist: 3, OpIsFile: 3, OpIsDir: 3, OpLstat: 3, OpFilespace: 3,
	}
}

// Gen produces histories while tracking a model so that generated operations are mostly meaningful.
type Gen struct {
	Cfg GenCfg
	R   *rand.Rand
	M   *Model // generator-side model (kept in step by the caller through Step)
}

func (g *Gen) randSegs() []string {
	d := 1 + g.R.Intn(g.Cfg.MaxDepth)
	out := make([]string, d)
	for i := range out {
		out[i] = g.Cfg.Names[g.R.Intn(len(g.Cfg.Names))]
	}
	return out
}

// allPaths lists the canonical paths of existing nodes below prefix (relative to it).
func collect(n *Node, cur []string, files, dirs *[][]string) {
	for name, k := range n.Kids {
		p := append(append([]string{}, cur...), name)
		if k.Dir {
			*dirs = append(*dirs, p)
			collect(k, p, files, dirs)
		} else {
			*files = append(*files, p)
		}
	}
}

func (g *Gen) existing(view int) (files, dirs [][]string) {
	base := g.M.Get(g.M.Views[view])
	if base == nil || !base.Dir {
		return nil, nil
	}
	collect(base, nil, &files, &dirs)
	// deterministic order (map iteration is random): sort by joined string
	sortPaths(files)
	sortPaths(dirs)
	return
}

func sortPaths(ps [][]string) {
	for i := 1; i < len(ps); i++ {
		for j := i; j > 0 && strings.Join(ps[j], "/") < strings.Join(ps[j-1], "/"); j-- {
			ps[j], ps[j-1] = ps[j-1], ps[j]
		}
	}
}

func (g *Gen) pick(ps [][]string) []string {
	if len(ps) == 0 {
		return g.randSegs()
	}
	return ps[g.R.Intn(len(ps))]
}

// Spell renders canonical segments as a path string with optional decorations.
func (g *Gen) Spell(segs []string) string {
	if !g.Cfg.Spell || g.R.Intn(3) == 0 {
		return strings.Join(segs, "/")
	}
	var sb strings.Builder
	if g.R.Intn(4) == 0 {
		sb.WriteString("/")
	}
	if g.R.Intn(5) == 0 {
		sb.WriteString("./")
	}
	for i, s := range segs {
		if i > 0 {
			sb.WriteString("/")
			switch g.R.Intn(8) {
			case 0:
				sb.WriteString("/")
			case 1:
				sb.WriteString("./")
			case 2:
				sb.WriteString(g.Cfg.Names[g.R.Intn(len(g.Cfg.Names))] + "/../")
			}
		} else if g.R.Intn(8) == 0 {
			sb.WriteString(g.Cfg.Names[g.R.Intn(len(g.Cfg.Names))] + "/../")
		}
		sb.WriteString(s)
	}
	switch g.R.Intn(8) {
	case 0:
		sb.WriteString("/")
	case 1:
		sb.WriteString("/.")
	}
	if len(segs) == 0 {
		return []string{"", ".", "/", "./", "a/.."}[g.R.Intn(5)]
	}
	return sb.String()
}

func (g *Gen) data() []byte {
	n := g.R.Intn(65)
	switch g.R.Intn(10) {
	case 0:
		n = 0
	case 1:
		if g.Cfg.BigData {
			n = 4096 + g.R.Intn(100)
		}
	}
	out := make([]byte, n)
	for i := range out {
		out[i] = byte('A' + g.R.Intn(26))
		if g.R.Intn(16) == 0 {
			out[i] = byte(g.R.Intn(256))
		}
	}
	return out
}

func chunks(r *rand.Rand, n int) []int {
	out := []int{} // non-nil: for n == 0 this often means no Write call at all
	rest := n
	for rest > 0 {
		var c int
		switch r.Intn(4) {
		case 0:
			c = 0
		case 1:
			c = 1
		default:
			c = 1 + r.Intn(rest)
		}
		if c > rest {
			c = rest
		}
		out = append(out, c)
		rest -= c
	}
	if r.Intn(4) == 0 {
		out = append(out, 0)
	}
	return out
}

// Next draws the next operation.
func (g *Gen) Next() Op {
	w := g.Cfg.Weights
	total := 0
	for k := OpKind(0); k < NumOps; k++ {
		if (k == OpFilespace && !g.Cfg.Views) || (g.Cfg.NoStreams && (k == OpWriter || k == OpReader)) {
			w[k] = 0
		}
		total += w[k]
	}
	x := g.R.Intn(total)
	kind := OpKind(0)
	for k := OpKind(0); k < NumOps; k++ {
		if x < w[k] {
			kind = k
			break
		}
		x -= w[k]
	}
	view := 0
	if g.Cfg.Views && len(g.M.Views) > 1 && g.R.Intn(2) == 0 {
		view = g.R.Intn(len(g.M.Views))
	}
	files, dirs := g.existing(view)
	good := g.R.Float64() < g.Cfg.PrecondBias
	op := Op{Kind: kind, View: view}
	fresh := func() []string { // a path whose node does not exist but (if good) whose parent does
		for try := 0; try < 20; try++ {
			var p []string
			if good && g.R.Intn(3) > 0 {
				parent := []string{}
				if len(dirs) > 0 && g.R.Intn(4) > 0 {
					parent = g.pick(dirs)
				}
				p = append(append([]string{}, parent...), g.Cfg.Names[g.R.Intn(len(g.Cfg.Names))])
			} else {
				p = g.randSegs()
			}
			full := append(append([]string{}, g.M.Views[view]...), p...)
			if g.M.Get(full) == nil {
				if !good || !g.M.fileInChain(full[:len(full)-1]) {
					return p
				}
			}
		}
		return g.randSegs()
	}
	switch kind {
	case OpWriteFile, OpWriter:
		var p []string
		switch {
		case good && len(files) > 0 && g.R.Intn(2) == 0:
			p = g.pick(files)
		case good:
			p = fresh()
		default:
			p = g.randSegs()
		}
		op.P1 = g.Spell(p)
		op.Data = g.data()
		if kind == OpWriter {
			op.Chunks = chunks(g.R, len(op.Data))
		}
	case OpMkdirAll:
		if good {
			op.P1 = g.Spell(fresh())
		} else if g.R.Intn(6) == 0 {
			op.P1 = g.Spell(nil)
		} else {
			op.P1 = g.Spell(g.randSegs())
		}
	case OpRemove, OpRemoveAll:
		all := append(append([][]string{}, files...), dirs...)
		if good && len(all) > 0 {
			op.P1 = g.Spell(g.pick(all))
		} else {
			op.P1 = g.Spell(g.randSegs())
		}
	case OpCopy, OpCopyFile, OpCopyDir:
		var src []string
		switch {
		case kind == OpCopyFile && good:
			src = g.pick(files)
		case kind == OpCopyDir && good:
			src = g.pick(dirs)
		case good:
			src = g.pick(append(append([][]string{}, files...), dirs...))
		default:
			src = g.randSegs()
		}
		if kind != OpCopyFile && !g.Cfg.NoDestInsideSrc && g.R.Intn(8) == 0 {
			src = nil // the whole view, spelled "", ".", "/", "x/.." … (a snapshot of the view into a fresh sub-directory)
		}
		var dst []string
		for try := 0; try < 10; try++ {
			if good {
				dst = fresh()
			} else {
				dst = g.randSegs()
			}
			if !(g.Cfg.NoDestInsideSrc && isPrefix(src, dst)) {
				break
			}
			dst = nil
		}
		if dst == nil {
			dst = []string{"zz"}
		}
		op.P1, op.P2 = g.Spell(src), g.Spell(dst)
	case OpReadFile, OpReader:
		if len(files) > 0 && g.R.Intn(5) > 0 {
			op.P1 = g.Spell(g.pick(files))
		} else {
			op.P1 = g.Spell(g.randSegs())
		}
		op.Buf = []int{1, 2, 7, 64, 4096}[g.R.Intn(5)]
	case OpReadDir:
		switch {
		case g.R.Intn(4) == 0:
			op.P1 = g.Spell(nil)
		case len(dirs) > 0 && g.R.Intn(5) > 0:
			op.P1 = g.Spell(g.pick(dirs))
		default:
			op.P1 = g.Spell(g.randSegs())
		}
	case OpIsExist, OpIsFile, OpIsDir, OpLstat:
		all := append(append([][]string{}, files...), dirs...)
		switch {
		case g.R.Intn(8) == 0:
			op.P1 = g.Spell(nil)
		case len(all) > 0 && g.R.Intn(3) > 0:
			op.P1 = g.Spell(g.pick(all))
		default:
			op.P1 = g.Spell(g.randSegs())
		}
	case OpFilespace:
		if g.Cfg.ViewOnlyOnDirs || g.R.Intn(3) > 0 {
			if len(dirs) == 0 {
				// fall back to a harmless query
				op.Kind = OpIsDir
				op.P1 = g.Spell(g.randSegs())
				return op
			}
			op.P1 = g.Spell(g.pick(dirs))
		} else {
			op.P1 = g.Spell(g.randSegs())
		}
	}
	return op
}
