#!/usr/bin/env python3
"""Regenerates MANIFEST.json from the table below (keeps it schema-valid)."""
import json, os, subprocess
HERE = os.path.dirname(os.path.abspath(__file__))
BASE = json.load(open('/root/.vp/BASELINE.json'))

CHECKS = {
 # id: (category, technique, text, note, design_ref)
 "C01": ("exploration",
         "lock-step reference-model monitor (differential execution against an abstract tree, whole-tree observation after every step, alias/snapshot scribbling)",
         "Every generated history (all histories up to a length bound over a fixed operation alphabet, plus seeded random histories with path spellings and child views) is executed on a fresh memfs and on a tree model written from the statement; result classes and the complete observable tree are compared after every step, every buffer handed in or out is scribbled on and retained listings are re-inspected. Held on the histories executed.",
         "trusts the model in harness/internal/mfs (lexical normalisation, create-or-replace, empty-only remove, deep copy) and its lenient reading of cases the statement leaves open",
         "DESIGN.md §5 C01"),
 "C02": ("exploration",
         "three-way lock-step differential monitor (memfs vs diskfs on a real temp directory, tree model deciding the preconditions), host-directory sentinel hashing",
         "Generated histories (path spellings, child views, four root/child configurations) run step by step on the memory backend, on a disk filespace in a fresh temp directory and on the tree model; where the stated preconditions hold the disk result and whole disk tree must equal the memory backend's after every step; elsewhere both backends must not panic and must change nothing off the addressed paths; files next to and above the disk root are hashed after every step. Held on the histories executed.",
         "trusts the model's classification of preconditions; OS features (symlinks, permissions) and removing the root are not generated",
         "DESIGN.md §5 C02"),
 "C03": ("exploration",
         "runtime jail monitor: exhaustive hostile-path enumeration per view kind with before/after snapshots of everything outside the view root (underlying tree, host directory), canary tokens in returned data and listings",
         "For 15 view configurations (memory/disk root and child, depth-3 views, encrypted, read-only, sub-path, cache root/child/depth-3) every path up to a segment bound over {name, jail, ., .., empty} (with and without leading '/'), plus random longer ones, is given to all 16 operations and to both arguments of the copy operations; after each call the outside of the view (walked through the underlying filespace, hashed host directory for disk, after Commit for caches) must be unchanged, no outside token may come back, no outside-only name may be listed and an escaping path may only be answered as its clamped inside resolution. Held on the enumerated paths and configurations.",
         "accepts both 'rejected' and 'resolved inside the root'; removing the view's own root through the view is not counted as reaching outside",
         "DESIGN.md §5 C03"),
 "C04": ("fault_enumeration",
         "runtime byte-exactness oracle over backends/chunkings/pre-existing states, completeness oracle for the copy helpers, and enumeration of every single I/O fault position through a fault-injecting Filespace decorator",
         "Writers are driven with random chunkings over every backend (memory, disk, encrypted, cache, child views) and every pre-existing file state and read back through ReadFile and Reader with several buffer sizes (io.Reader contract checked). StreamCopy, Copier.Do and fshelper.Copy run over random ordered backend pairs and trees with a pre-seeded destination: a nil error must mean a complete byte-equal copy. For small trees a dry run counts the call points of the decorated source or destination (open, each Read/Write, Close, MkdirAll, ReadDir; at the outer boundary or below the encryption/cache layer) and every position is failed once (error or partial write): an incomplete destination must come with an error. Held on the explored cases.",
         "one direction only as stated (error with complete destination is accepted); the copy helper's two goroutines interleave, so a fault index can name different calls in different runs",
         "DESIGN.md §5 C04"),
 "C05": ("fault_enumeration",
         "runtime round-trip/secrecy/freshness oracles plus enumeration of every truncation length and single-byte corruption of the stored bytes; reference-model monitor for the name space",
         "Random plaintexts and settings (both ciphers, memory and disk base, empty and random secret/salt, host binding, WriteFile and chunked Writer) are written and read back by a second instance through ReadFile and Reader with several buffer sizes; stored bytes are searched for plaintext windows, nonces must be unique run-wide, another secret or salt must give an error and zero bytes. For stored files up to 256 bytes every truncation and every single-byte corruption (3 masks), sampled for larger files, is read through both paths: error, zero bytes delivered, no panic, filespace still usable afterwards (a leaked lock deadlocks the child). Name-space histories run against the tree model. Held on the explored cases.",
         "secrecy = absence of 16-byte plaintext windows (not a cryptographic claim); AES-GCM forgery probability ignored",
         "DESIGN.md §5 C05"),
 "C06": ("fault_enumeration",
         "lock-step reference-model monitor with remote-isolation fingerprinting after every operation, commit-equality oracle, enumeration of every remote fault position during Commit; two strata (clean / trigger) with known-finding class predicates and verbatim witness replay",
         "Generated cache histories over memory and disk remotes run against a tree model: the whole remote tree is compared with its last committed state after every cache operation, and after every successful Commit it must equal the model (successful operations applied directly); for clean-stratum histories a dry run counts the remote calls of the final Commit and every position is failed once: Commit must report it and a later Commit must succeed and converge. In the clean stratum (generator avoids the triggers of the listed findings by construction) any divergence is a violation; in the unrestricted trigger stratum a divergence must satisfy a listed finding's predicate; the findings' witness histories are replayed verbatim. Held on the histories executed, with the listed open findings.",
         "expected tree defined through operations the cache reported successful; ambiguous histories (cache accepts what the model rejects) excluded; remove-related and directory-copy divergences in the trigger stratum are attributed to the open findings by class predicate",
         "DESIGN.md §5 C06"),
 "C07": ("exploration",
         "lock-step reference-model monitor comparing every read-type result and the whole tree observable through the cache with the model after every operation; two strata with known-finding class predicates and verbatim witness replay",
         "The same generated histories (also through child views of the cache, over memory and disk remotes) are checked for read-your-writes: each read-type call's result and, after every operation, the complete tree observable through the cache (ReadDir, Lstat, IsExist/IsFile/IsDir, ReadFile on every node, with listing/stat consistency) must equal the model of 'pending operations applied on top of the remote'. Clean stratum: any divergence is a violation; trigger stratum: must satisfy a listed finding's predicate; witnesses replayed verbatim. Held on the histories executed, with the listed open findings.",
         "an operation the cache reports as failed must have no visible effect; remove-related and directory-copy divergences in the trigger stratum are attributed to the open findings by class predicate",
         "DESIGN.md §5 C07"),
 "C08": ("exploration",
         "event-log monitor (exactly-once / bounded in-flight / nothing after Wait) over stress runs with injected scheduling noise and faults, a scripted schedule through verif yield hooks for the consumer-exit window, Go race detector",
         "The real fsloop.Loop runs over generated trees (empty, deep, wider than the channel capacity, random), hash-keyed filters, producer/consumer limits 0..16 and GOMAXPROCS 1/2/4/16, with noise injected from the hook points and the source's ReadDir and one injected callback or listing fault in part of the runs; callbacks log enter/exit events and an offline checker decides exactly-once, no unexpected node, in-flight bound, nothing after Wait, error present iff injected. A controller parks every consumer at the hook between its two exit tests while a gated source lets the last directory be listed and the close be announced (also through fshelper.Copy). Race reports in fsloop/jobsync decide. Held on the schedules produced, counted by hook-order signature.",
         "interleavings are sampled, not enumerated; only the window for which hooks exist is forced deterministically",
         "DESIGN.md §5 C08"),
 "C09": ("exploration",
         "concurrent stress with online value oracles, porcupine linearizability checking of recorded per-file histories, quiescence checks, goroutine-dump deadlock diagnosis, schedule perturbation through verif yield hooks, Go race detector",
         "2..32 goroutines share one memfs under GOMAXPROCS 1/2/4/16 with yields and sleeps injected at three memfs hook points: writers to distinct files plus listers (unique names, no phantom entries, every successful write present at quiescence); writers, readers and removers on 1-3 shared files with unique checksummed values (every value read is complete and was written; each file's recorded history is checked by porcupine against a register-with-existence model); N concurrent creations of one new node yield one node; short mixed histories are checked against a whole-tree sequential model (observational) and against the spelled-out clauses. Panics, fatal runtime errors, a deadlock diagnosis from goroutine dumps and race reports in memfs decide. Held on the interleavings produced.",
         "mixed-history non-linearizability is an observation unless it breaks a clause the statement spells out; stream handles are always closed",
         "DESIGN.md §5 C09"),
 "C10": ("exploration",
         "lock-step reference-model monitor (operational DI model with invocation counters and instance identity) over bounded-exhaustive definition sequences and random programs",
         "Every program (all definition sequences up to a length bound over a call alphabet with failing/flaky/optional/cyclic factory shapes, plus seeded random programs on four construction paths incl. the goatapp mock application) is run against the real container and against a model written from the statement; the event traces (ok/error class, instance identity, per-factory invocation counts, acceptance of definitions) must match, and model-independent checks (identity never changes, no re-run after an instance, explicit beats default, late definitions refused, cycles end in an error) run on the container side. Held on the programs executed.",
         "single goroutine (the statement does not promise concurrent use); duplicate same-class definitions follow the implementation's accept/refuse answer",
         "DESIGN.md §5 C10"),
 "C11": ("exploration",
         "event-log monitor: a first-registered listener records every lifecycle event of a scope tree, every call is logged at call and return, an offline checker decides ordering / commit-xor-rollback / waits-for-children / error reporting; bounded-exhaustive trees plus seeded concurrent scripts; goroutine-dump diagnosis for waits",
         "Scope trees (shared and isolated children, gio IO contexts, depth and fan-out up to 3) are driven by scripts of AddTasks/DoneTask/AppendError/Kill/Stop/Close/Wait issued from separate goroutines; the first listener of the root for each of the eleven events records (sequence, event, closing scope). Offline, per closed scope: exactly before-close, one triple (rollback required if an error append had returned before the wait ended, commit if none was ever called, either if they overlapped), after-close, inside the one Close that returns; the triple comes after every DoneTask call and every child's after-close; Close returns an error iff the context holds one; a second Close panics and adds no event; shared child failures reach the parent, isolated ones do not, isolated children end when an ancestor's context ends. All trees of up to 3 scopes with one disturbance, one task, every close order and single/double Close are enumerated on a fixed schedule. Held on the trees, scripts and schedules produced.",
         "children are created before the script starts; signals racing with the very start of Close on the same scope are not generated; race reports are observations",
         "DESIGN.md §5 C11"),
 "C12": ("exploration",
         "stress workload with recover/exit supervision and conservation oracle (every appended unique error retained exactly once), bounded-progress check on parent Wait, Go race detector",
         "2..64 goroutines released together issue PRNG-chosen AppendError(unique)/Kill/Stop/IsDone/Err/Errors/Done on plain contexts, isolated contexts, scopes and shared/isolated child scopes under GOMAXPROCS 1/2/4/16; after the join every appended error must be retained exactly once (plus one context.Canceled per Kill), Err/Wait/Close must report an error iff something was appended, Done must be closed, a shared child must fail its parent and an isolated one must not. Children are created and closed while and after the parent ends (also through real terminal commands on a killed IO context): no panic, parent Wait returns. Race reports in contextscope and scope decide. Held on the schedules produced.",
         "'done fires exactly once' is observable only as absence of a double-close panic; WaitGroup misuse (Wait concurrent with first Add) not exercised",
         "DESIGN.md §5 C12"),
 "C13": ("exploration",
         "reference-model monitor for the overlay, conservation/permutation oracles and porcupine linearizability checking of recorded histories for locked sections, Go race detector",
         "Overlay: all histories up to a length bound and random histories on scope trees against a chain-of-maps model, whole visible state compared after every step. Atomicity: 2..32 goroutines run locked read-modify-write, transfer and audit sections against plain readers/writers/lockers under GOMAXPROCS 1..16; final counter = sections, values read form a permutation, one holder at a time, sums conserved, and recorded mixed histories are checked with porcupine per key (rmw spanning LockData..Commit as one operation). Get-or-create services called from many goroutines must return one instance. Race reports in datascope and the three services decide. Held on the histories and interleavings produced.",
         "exclusion is judged per scope (ancestors static in concurrent workloads); misuse (locker after Commit) not exercised; porcupine Unknown = inconclusive",
         "DESIGN.md §5 C13"),
 "C14": ("exploration",
         "event-log monitor over probe commands registered in the real application stack (ordering/never-run/outcome oracles checked offline), bounded-progress check with logical-deadlock diagnosis from goroutine snapshots",
         "Random task graphs (wait lists over earlier tasks, failing commands by return or by appended error at any position, nested submissions, invalid wait lists) are submitted through the real PipRunner from several goroutines and as terminal scripts (strict and non-strict); probe commands log begin/end events with one sequence counter and hold until their dependants were submitted. Offline oracles: a task's first begin follows the last end of every prerequisite, a task with a failed prerequisite never begins and ends failed, commands of one body do not overlap and nothing begins after a failing command, invalid wait lists are refused and leave nothing registered, TasksManager.Wait returns (or a deadlock is diagnosed) with an error iff a task failed. Held on the programs and schedules produced.",
         "'eventually finishes' restated as bounded progress + deadlock diagnosis; race reports are observations (the statement is about ordering and outcomes)",
         "DESIGN.md §5 C14"),
 "C15": ("exploration",
         "critical-section interval monitor (online shadow table + offline interval replay), scripted gated pairs/triples decided from goroutine scheduler states, logical-deadlock diagnosis from goroutine dumps, Go race detector",
         "2..24 holders with random and adversarial lock maps (names that sort differently by byte/case/locale, pending-writer chains, first-use races) hammer one SharedMutex; each section is checked online against a shadow readers/writer table and offline from recorded [Lock returned, Unlock called] intervals; all 729 ordered pairs of lock maps over three names are scripted with A gated inside: B must enter iff the maps do not conflict (decided from B's parked/running state, not from time); completion or a logical-deadlock diagnosis decides 'no deadlock'. The same interval oracle runs on probe logs of tasks submitted through the real pipeline (pip:run --rlock/--wlock). Held on the workloads and schedules produced.",
         "'never deadlocks' restated as bounded progress + deadlock diagnosis; non-serialisation decided only for scripted pairs/triples",
         "DESIGN.md §5 C15"),
 "C16": ("exploration",
         "event-log monitor over probe commands in the real application stack: handler-selection, ordering and containment oracles; scripted schedules through a verif yield hook; known-finding class predicates with verbatim witness replay",
         "All 8x4x4x4 combinations of body kind and success/fail/finally handler kind, plus random pip:try programs (nested tasks, nested tries, holds), run through the terminal service, the argument list and scripts, alone and several at once. The probe log decides: success handler began iff the body (incl. spawned tasks) succeeded, fail handler iff it failed, finally in both cases, every handler begin after every end of the body and its tasks, and the surrounding scope / application reports an error iff a handler failed. A verif hook between the handler submissions forces the schedule in which one handler fails before the next is submitted. A missing finally (or success/fail) handler is attributed to the open findings C16-F1/F2 only if another handler of the same try failed; otherwise it is a violation. Held on the programs and schedules produced, with the listed open findings.",
         "a handler cut short by a failing sibling is not judged; race reports are observations",
         "DESIGN.md §5 C16"),
 "C19": ("exploration",
         "differential runtime monitor against a reference renderer built directly on html/template / text/template plus an abstract layering model; concurrent first-use stress under the race detector with process supervision",
         "Generated template file sets (overlapping definitions across helpers/layouts/views, nested directories, ignored and unparsable files) and request sequences are served by cached and uncached providers of both packages; every answer's defined names and every name's rendering are compared with the reference renderer, with a library-independent layering model and between cached and uncached; all 1024 placements of two names over the layers and all request orders up to a bound are enumerated. Fresh cached providers are hit by 2..32 goroutines released together with noise at the filespace boundary; every caller's answer is checked and race reports in the provider files decide; a fatal 'concurrent map' abort is attributed to the running trial. Held on the programs and schedules produced.",
         "names are defined once per layer (walk order independent); base/layout inspected on clones",
         "DESIGN.md §5 C19"),
 "C20": ("exploration",
         "round-trip and differential runtime oracles against encoding/json (bounded-exhaustive + random), loader stress with schedule noise and injected read faults under the race detector",
         "Flatten/rebuild is checked as mutually inverse on random nested and flat maps; JSON reading is compared leaf by leaf with encoding/json on documents rendered by two renderers (escape spellings, surrogate pairs, whitespace); both writers must produce valid JSON that decodes to the reference map and reads back unchanged, exhaustively for all values up to length 3 over seven significant characters; fsi18loader.Load runs over random directory layouts (1..300 files, memory/disk, nil/real scope, GOMAXPROCS and pool sizes varied, yields and sleeps inside ReadDir/ReadFile, concurrent Translate callers, one injected read failure): nil result implies every key translates to its value. Race reports in i18mem/loader/plainmap decide. Held on the inputs and schedules produced.",
         "dot-free non-empty keys, valid UTF-8, %-free translation values as in the statement's quantifier",
         "DESIGN.md §5 C20"),
 "C17": ("exploration",
         "runtime oracle over bounded-exhaustive + random inputs (reference splitter / render-split round trip)",
         "ReadArguments is run on every byte string up to a length bound over the 9 significant bytes (no panic, bounded reads, exact expected result on the quote-free sub-language) and on scripts rendered from random argument lists by a reference quoting function; InjectArgs mapping compared with an independent expectation. Held on the enumerated/sampled inputs only.",
         "trusts the reference renderer/simple splitter in harness/props/c17; escape forms the statement does not define are checked for totality only",
         "DESIGN.md §5 C17"),
 "C18": ("exploration",
         "runtime oracle executing the generated start-up scripts with the real /bin/sh: variable dumps, child-process environment, canary side-effect files, independence pairs; bounded-exhaustive values and names",
         "The scripts of the container sandbox (dcmd.InitSequence) and of the SSH sandbox (private builder exported under the verif tag) are executed by /bin/sh in an empty scratch directory with a scrubbed environment; every variable is dumped and read from a child's /proc/self/environ and must equal the configured value (minus trailing newlines); no canary file may appear, no foreign variable may change, a map re-run with one variable changed may differ only there; values are enumerated exhaustively over 11 shell-significant characters up to length 4 (5 thorough) and drawn randomly with hostile fragments, including terminator guesses built from delimiters seen earlier; names are enumerated for rejection of non-identifiers. Held on the values executed, for dash.",
         "decided for the /bin/sh of this image (dash); NUL bytes and all-capital names special to the shell are not generated",
         "DESIGN.md §5 C18"),
}

NOT_APPLICABLE = {
}

def main():
    props = [json.loads(l)['id'] for l in open(os.path.join(HERE, 'properties.jsonl'))]
    checks = []
    for pid in props:
        if pid not in CHECKS:
            continue
        cat, tech, text, note, ref = CHECKS[pid]
        checks.append({
            "property_id": pid,
            "quick_cmd": f"./run {pid} quick",
            "thorough_cmd": f"./run {pid} thorough",
            "evidence_file": f"/verif/evidence/{pid}.json",
            "replay_cmd_template": f"./run {pid} --replay {{path}}",
            "engine": "harness",
            "level_claimed": {"category": cat, "text": text, "design_ref": ref},
            "level_note": note,
            "technique": tech,
        })
    na = []
    for pid in props:
        if pid not in CHECKS:
            na.append({"property_id": pid, "reason": NOT_APPLICABLE.get(pid, "monitor not built yet in this round (no check registered); see DESIGN.md §5 for the planned runtime monitor")})
    hooks_commits = []
    try:
        out = subprocess.check_output(['git', '-C', '/repo', 'log', '--format=%h %s'], text=True)
        for ln in out.splitlines():
            h, _, subj = ln.partition(' ')
            if subj.startswith('verif:'):
                hooks_commits.append(h)
    except Exception:
        pass
    man = {
        "version": 1,
        "setup_cmd": "./setup.sh",
        "hooks": {
            "guard": "verif",
            "enable": "go build -tags verif (done by ./run for every worker; hook call sites compile to nothing without the tag)",
            "baseline_off_cmd": "cd /repo && go test -json -vet=off -count=1 -timeout 25m ./...",
            "source_commits": hooks_commits,
            "add_only": True,
        },
        "engines": [{
            "name": "harness",
            "path": "/verif/harness",
            "serves_properties": [c["property_id"] for c in checks],
            "kind_free_text": "Go module: supervisor + one worker binary per property, each rebuilt from /repo (replace directive) with -tags verif and, for concurrent properties, -race; children log events, the supervisor decides from logs, race reports and exit states",
        }],
        "checks": checks,
        "not_applicable": na,
        "notes": "Technique family: runtime monitoring and sanitizers. Exit codes: 0 held on what was observed, 1 violation, 2 inconclusive (never folded into the others). KNOWN_FINDINGS.txt lists open findings and fixed defects.",
    }
    json.dump(man, open(os.path.join(HERE, 'MANIFEST.json'), 'w'), indent=1)
    print("checks:", len(checks), "not_applicable:", len(na))

main()
