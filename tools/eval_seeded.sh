#!/bin/bash
# tools/eval_seeded.sh <mutant-worktree> <PROP> <A|B> [<other PROP ids to run as well>...]
# Confirms an independently written breaking change (compiles, existing tests pass, demo fails with
# it and passes without) in a scratch worktree, runs the property's quick check against it and
# stores everything under /verif/seeded/<PROP>-<A|B>/.
set -u
MUT="$1"; PROP="$2"; VAR="$3"; shift 3
export GOFLAGS=-mod=mod GOPROXY=off GOSUMDB=off GOTOOLCHAIN=local
HERE=/verif
SRC="$MUT/seeded/$VAR"
OUT="$HERE/seeded/$PROP-$VAR${SUFFIX:-}"
WT=/tmp/ev-$PROP-$VAR-$$
mkdir -p "$OUT"
git -C /repo worktree add -q --detach "$WT" HEAD || exit 2
trap 'git -C /repo worktree remove --force "$WT" 2>/dev/null' EXIT
cp -r "$MUT/seeded" "$WT/seeded"
CMD=$(python3 - "$SRC/meta.json" "$MUT" "$WT" <<'PY'
import json,sys
d=json.load(open(sys.argv[1]))
c=d['demo_cmd']
for mark in ('   (or', '  (or', ' ; rm ', '; rm '):
    i=c.find(mark)
    if i>0: c=c[:i]
print(c.replace(sys.argv[2], sys.argv[3]))
PY
)
DEST=$(echo "$CMD" | sed -n 's/^cp [^ ]*seeded\/[AB]\/[^ ]* \([^ ]*\) .*/\1/p')
DEST=${DEST#$WT/}
echo "demo cmd: $CMD"; echo "demo dest: $DEST"
run_demo() { (cd "$WT" && timeout 600 bash -c "$CMD" > "$1" 2>&1); echo $?; }
R_CLEAN=$(run_demo "$OUT/demo_clean.log")
[ -n "$DEST" ] && rm -f "$WT/$DEST"
(cd "$WT" && git apply seeded/$VAR/patch.diff) || { echo "patch does not apply"; exit 2; }
(cd "$WT" && go build ./... && go build -tags verif ./...) > "$OUT/build.log" 2>&1; R_BUILD=$?
mv "$WT/seeded" "/tmp/ev-seeded-$PROP-$VAR-$$"
(cd "$WT" && go test -count=1 ./... 2>&1 | grep -v "no test files") > "$OUT/suite.log" 2>&1
mv "/tmp/ev-seeded-$PROP-$VAR-$$" "$WT/seeded"
R_SUITE=0; grep -qE "^(FAIL|---)|panic:" "$OUT/suite.log" && R_SUITE=1
R_MUT=$(run_demo "$OUT/demo_mutant.log")
[ -n "$DEST" ] && rm -f "$WT/$DEST"
rm -rf "$WT/seeded"
echo "clean demo exit=$R_CLEAN  build=$R_BUILD  suite=$R_SUITE  mutant demo exit=$R_MUT"
declare -A RES
for P in "$PROP" "$@"; do
  (cd "$HERE" && VERIF_REPO="$WT" timeout 3000 ./run "$P" quick --no-evidence > "$OUT/check_$P.log" 2>&1); RES[$P]=$?
  echo "check $P quick exit=${RES[$P]}: $(grep -m3 -E '^  class=' "$OUT/check_$P.log" | cut -c1-220 | tr '\n' ' ')"
done
cp "$SRC/patch.diff" "$OUT/patch.diff"
cp "$SRC"/demo* "$OUT/" 2>/dev/null
python3 - <<PY
import json
m=json.load(open('$SRC/meta.json'))
m['confirmed']={'clean_demo_exit':$R_CLEAN,'build_exit':$R_BUILD,'existing_suite_fail':$R_SUITE,'mutant_demo_exit':$R_MUT,
 'checks':{ $(for P in "${!RES[@]}"; do echo -n "'$P': ${RES[$P]},"; done) },
 'how':'scratch worktree of /repo HEAD ($(git -C /repo log --format=%h -1)); patch applied there; go build (with and without -tags verif); go test -count=1 ./...; demo per demo_cmd on clean and patched tree; VERIF_REPO=<worktree> ./run <prop> quick'}
json.dump(m,open('$OUT/meta.json','w'),indent=1)
PY
for P in "$PROP" "$@"; do head -c 3000 "$OUT/check_$P.log" > "$OUT/check_$P.head"; mv "$OUT/check_$P.head" "$OUT/check_$P.log"; done
