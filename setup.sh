#!/bin/sh
# Offline setup: warm the Go build cache for the harness (workers are rebuilt by ./run anyway,
# from /repo's current tree). A worker that does not build is reported by its own check.
HERE=$(cd "$(dirname "$0")" && pwd)
export GOFLAGS=-mod=mod GOPROXY=off GOSUMDB=off GOTOOLCHAIN=local
cd "$HERE/harness" || exit 1
mkdir -p "$HERE/bin" "$HERE/evidence"
go build -tags verif ./internal/... || exit 1
for d in props/*/; do
  RACE=""
  if [ -f "$d/RACE" ]; then RACE="-race"; fi
  go build $RACE -tags verif -o /dev/null "./$d" || echo "setup: $d does not build yet"
done
exit 0
