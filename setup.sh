#!/bin/sh
# Offline setup: warm the Go build cache for the harness (workers are rebuilt by ./run anyway).
HERE=$(cd "$(dirname "$0")" && pwd)
export GOFLAGS=-mod=mod GOPROXY=off GOSUMDB=off GOTOOLCHAIN=local
cd "$HERE/harness" || exit 1
mkdir -p "$HERE/bin" "$HERE/evidence"
go build -tags verif ./... || exit 1
for d in props/*/; do
  if [ -f "$d/RACE" ]; then go build -race -tags verif -o /dev/null "./$d" || exit 1; fi
done
exit 0
